/-
  tars2go front end (C16): lexer (`lexer/lexer.go`), recursive-descent parser and semantic
  analysis (`parse/parse.go`, `ast/ast.go`) and the generator's acceptance conditions
  (`gencode/gen_go.go`: `typeDef`, `genEnum`) as total Lean functions.
  Core Lean only (no Mathlib) so that the driver links.

  Shape of the model
  * `LexState`, `lLex` …: the lexer, function by function, over the input bytes.  Line numbers are
    not modelled (they only occur in diagnostic texts).
  * `lexAll`: the token sequence `NextToken` yields until the first `Eof` (or the first lexical
    error, represented by the pseudo token `Tok.bad`).  The Go parser pulls tokens on demand; since
    the lexer never looks at parser state, pulling on demand and reading from this list are the same
    thing, with the lexical error raised when the parser reaches it.
  * `PS` (current token + remaining tokens), `PS.next`, `expect…`, `parseType`, `parseEnum`, … :
    the parser, function by function.  Every loop and every recursive call is guarded by a progress
    check (`s'.size < s.size`: a token was consumed); the alternative is the explicit outcome
    `Res.hang`.  `Proofs/IdlTotal.lean` shows that no guard ever fails except the one of the as-found
    `parseEnum` loop at end of input (D5), where the Go loop indeed repeats the same iteration forever.
  * `Variant`: `asFound | repaired` on exactly the two definitions affected by D5 (`enumLoop`) and
    D6 (`typeDef`).
-/
import TarsModel.Model.Bytes

namespace Tars.Idl

/-! ## Tokens (`token/token.go`) -/

/-- the eight basic type keywords `TInt … TString` -/
inductive Prim
  | int | bool | short | byte | long | float | double | string
deriving DecidableEq, Repr, Inhabited

/-- `token.Type` together with `token.SemInfo`.  `eof` is what `NextToken` returns at end of
input, `bad` stands for the panic of `lexErr`. -/
inductive Tok
  | eof
  | braceL | braceR | semi | eq | shl | shr | comma | ptl | ptr | sqL | sqR
  | kinclude
  | kmodule | kenum | kstruct | kinterface | krequire | koptional | kconst | kunsigned
  | kvoid | kout | kkey | ktrue | kfalse
  | tprim (p : Prim) | tvector | tmap | tarray
  | name (s : Bytes)
  | str (s : Bytes)
  | int (text : Bytes) (v : Int)
  | float (text : Bytes)
  | bad
deriving DecidableEq, Repr, Inhabited

/-- spelling of a byte string given as ASCII text -/
def asc (s : String) : Bytes := s.toList.map (fun c => byte c.toNat)

/-- `tokenMap` restricted to `DummyKeywordBegin+1 … DummyKeywordEnd-1` (in this order) followed by
`DummyTypeBegin+1 … DummyTypeEnd-1`: the table `readIdent` searches. -/
def kwTable : List (Bytes × Tok) :=
  [ (asc "module", .kmodule), (asc "enum", .kenum), (asc "struct", .kstruct),
    (asc "interface", .kinterface), (asc "require", .krequire), (asc "optional", .koptional),
    (asc "const", .kconst), (asc "unsigned", .kunsigned), (asc "void", .kvoid), (asc "out", .kout),
    (asc "key", .kkey), (asc "true", .ktrue), (asc "false", .kfalse),
    (asc "int", .tprim .int), (asc "bool", .tprim .bool), (asc "short", .tprim .short),
    (asc "byte", .tprim .byte), (asc "long", .tprim .long), (asc "float", .tprim .float),
    (asc "double", .tprim .double), (asc "string", .tprim .string), (asc "vector", .tvector),
    (asc "map", .tmap), (asc "array", .tarray) ]

/-- the two `for` loops at the end of `readIdent` -/
def lookupKw (s : Bytes) : List (Bytes × Tok) → Tok
  | [] => .name s
  | (k, t) :: rest => if k = s then t else lookupKw s rest

/-- `token.IsType` -/
def Tok.isType : Tok → Bool
  | .tprim _ | .tvector | .tmap | .tarray => true
  | _ => false

/-- the test `token.IsType(t) || t == token.Name || t == token.Unsigned` used before `parseType` -/
def Tok.startsType : Tok → Bool
  | .tprim _ | .tvector | .tmap | .tarray | .name _ | .kunsigned => true
  | _ => false

/-- `token.IsNumberType` -/
def Prim.isNumber : Prim → Bool
  | .string => false
  | _ => true

/-! ## Lexer (`lexer/lexer.go`) -/

def isNewLine (b : Byte) : Bool := b = 13 || b = 10
/-- `isNumber`: digits and `-` -/
def isNumber (b : Byte) : Bool := (48 ≤ b.val && b.val ≤ 57) || b = 45
/-- `isHexNumber`: the letters `a-f`, `A-F` -/
def isHexNumber (b : Byte) : Bool := (97 ≤ b.val && b.val ≤ 102) || (65 ≤ b.val && b.val ≤ 70)
/-- `isLetter`: ASCII letters and `_` -/
def isLetter (b : Byte) : Bool := (97 ≤ b.val && b.val ≤ 122) || (65 ≤ b.val && b.val ≤ 90) || b = 95

/-- `LexState`: `current` and the unread part of `buff`.  `token.EOF = 0`. -/
structure LexState where
  cur : Byte
  rest : Bytes
deriving DecidableEq, Repr

/-- `NewLexState`: `current = ' '` -/
def LexState.init (input : Bytes) : LexState := ⟨32, input⟩

/-- `LexState.next`: `ReadByte`, `EOF` on error -/
def LexState.next (s : LexState) : LexState :=
  match s.rest with
  | [] => ⟨0, []⟩
  | b :: bs => ⟨b, bs⟩

/-- termination measure of the lexer: unread bytes, plus one while `current` is not `EOF` -/
def LexState.size (s : LexState) : Nat := s.rest.length + (if s.cur = 0 then 0 else 1)

/-- `incLine` (without the line counter) -/
def incLine (s : LexState) : LexState :=
  let s1 := s.next
  if isNewLine s1.cur && s1.cur != s.cur then s1.next else s1

/-- the loop of `readNumber`; result: the token text and the state after it.
(`isNumber 0`, … are false, so the Go loop stops when `next` hits end of input.) -/
def numberLoop (isHex : Bool) : Byte → Bytes → Bytes × LexState
  | c, rest =>
    if isNumber c || c = 46 || c = 120 || c = 88 || (isHex && isHexNumber c) then
      let isHex' := isHex || c = 120 || c = 88
      match rest with
      | [] => ([c], ⟨0, []⟩)
      | r :: rs => let (t, s) := numberLoop isHex' r rs; (c :: t, s)
    else ([], ⟨c, rest⟩)

/-- value of a digit in `strconv.ParseUint` (`'_'` excluded: it cannot occur in a number token) -/
def digitVal (b : Byte) : Option Nat :=
  if 48 ≤ b.val && b.val ≤ 57 then some (b.val - 48)
  else if 97 ≤ b.val && b.val ≤ 122 then some (b.val - 97 + 10)
  else if 65 ≤ b.val && b.val ≤ 90 then some (b.val - 65 + 10)
  else none

/-- digit loop of `strconv.ParseUint` without the overflow checks (range is checked by the caller
on the exact value, which gives the same verdict) -/
def parseDigits (base : Nat) : Bytes → Nat → Option Nat
  | [], acc => some acc
  | b :: bs, acc =>
    match digitVal b with
    | some d => if d < base then parseDigits base bs (acc * base + d) else none
    | none => none

def lower (b : Byte) : Byte := if 65 ≤ b.val && b.val ≤ 90 then byte (b.val + 32) else b

/-- `strconv.ParseUint(s, 0, 64)`: base prefix handling, exact value (unbounded) -/
def parseUint0 (s : Bytes) : Option Nat :=
  match s with
  | [] => none
  | c0 :: tl =>
    if c0 = 48 then
      match tl with
      | c1 :: c2 :: tl2 =>
        if lower c1 = 98 then parseDigits 2 (c2 :: tl2) 0
        else if lower c1 = 111 then parseDigits 8 (c2 :: tl2) 0
        else if lower c1 = 120 then parseDigits 16 (c2 :: tl2) 0
        else parseDigits 8 tl 0
      | _ => parseDigits 8 tl 0
    else parseDigits 10 s 0

/-- `strconv.ParseInt(s, 0, 64)`; `none` = any error (syntax or range) -/
def parseInt0 (s : Bytes) : Option Int :=
  match s with
  | [] => none
  | c0 :: tl =>
    if c0 = 43 then (parseUint0 tl).bind fun n => if n < 2 ^ 63 then some (n : Int) else none
    else if c0 = 45 then (parseUint0 tl).bind fun n => if n ≤ 2 ^ 63 then some (-(n : Int)) else none
    else (parseUint0 s).bind fun n => if n < 2 ^ 63 then some (n : Int) else none

def isDigit (b : Byte) : Bool := 48 ≤ b.val && b.val ≤ 57

/-- decimal digits up to the first non-digit: value, number of digits, remainder -/
def decSpan : Bytes → Nat → Nat → Nat × Nat × Bytes
  | [], acc, n => (acc, n, [])
  | b :: bs, acc, n => if isDigit b then decSpan bs (acc * 10 + (b.val - 48)) (n + 1) else (acc, n, b :: bs)

/-- smallest decimal value that `strconv.ParseFloat(·, 64)` rounds to +Inf (range error):
`2^1024 − 2^970` (half-way between the largest finite float64 and `2^1024`, ties to even go up) -/
def floatOverflow : Nat := 2 ^ 1024 - 2 ^ 970

/-- does `strconv.ParseFloat(s, 64)` succeed on a token text of `readNumber` that contains a `.`?
Such a text consists of digits, `-`, `.`, `x`, `X` and (after an `x`) hex letters.  Decimal
mantissa: optional sign, digits with exactly one `.`, at least one digit, nothing after it, and
no overflow.  A text with `x`/`X` is either a hex mantissa (needs a `p` exponent, which cannot
occur) or has trailing garbage: error. -/
def floatOk (s : Bytes) : Bool :=
  let s1 := match s with
    | c :: tl => if c = 45 || c = 43 then tl else s
    | [] => s
  let (ip, n1, r1) := decSpan s1 0 0
  match r1 with
  | c :: tl =>
    if c = 46 then
      let (_, n2, r2) := decSpan tl 0 0
      r2.isEmpty && (n1 + n2 > 0) && ip < floatOverflow
    else false
  | [] => false

/-- `readNumber` -/
def readNumber (s : LexState) : Option (Tok × LexState) :=
  let (text, s') := numberLoop false s.cur s.rest
  if text.contains 46 then
    if floatOk text then some (.float text, s') else none
  else
    match parseInt0 text with
    | some v => some (.int text v, s')
    | none => none

/-- the loop of `readIdent`; `none` = `lexErr("the identification is illegal.")` -/
def identLoop : Byte → Byte → Bytes → Option (Bytes × LexState)
  | last, c, rest =>
    if isLetter c || isNumber c || c = 58 then
      if isNumber c && last = 58 then none
      else
        match rest with
        | [] => some ([c], ⟨0, []⟩)
        | r :: rs => (identLoop c r rs).map fun (t, s) => (c :: t, s)
    else some ([], ⟨c, rest⟩)

/-- `strings.Count(s, ":")` -/
def countColon (s : Bytes) : Nat := s.count 58

/-- `strings.Count(s, "::")` (non-overlapping, left to right) -/
def countColon2 : Bytes → Nat
  | a :: b :: rest => if a = 58 && b = 58 then countColon2 rest + 1 else countColon2 (b :: rest)
  | _ => 0

/-- `s[strings.Index(s, "::")+2:]` -/
def afterColon2 : Bytes → Bytes
  | a :: b :: rest => if a = 58 && b = 58 then rest else afterColon2 (b :: rest)
  | _ => []

/-- namespace handling of `readIdent`; `none` = `lexErr("namespace qualifier::is illegal")` -/
def normIdent (s : Bytes) : Option Bytes :=
  if countColon s > 0 then
    let s1 := if countColon2 s = 2 && countColon s = 4 then afterColon2 s else s
    if countColon2 s1 != 1 || countColon s1 != 2 then none else some s1
  else some s

/-- `readIdent` -/
def readIdent (s : LexState) : Option (Tok × LexState) :=
  match identLoop 0 s.cur s.rest with
  | none => none
  | some (text, s') =>
    match normIdent text with
    | none => none
    | some t => some (lookupKw t kwTable, s')

/-- the loop `for isLetter(ls.current) {…}` of `readSharp` -/
def letterLoop : Byte → Bytes → Bytes × LexState
  | c, rest =>
    if isLetter c then
      match rest with
      | [] => ([c], ⟨0, []⟩)
      | r :: rs => let (t, s) := letterLoop r rs; (c :: t, s)
    else ([], ⟨c, rest⟩)

/-- `readSharp` -/
def readSharp (s : LexState) : Option (Tok × LexState) :=
  let s1 := s.next
  let (text, s') := letterLoop s1.cur s1.rest
  if text = asc "include" then some (.kinclude, s') else none

/-- the loop of `readString` (after the opening quote was skipped); `none` = `lexErr("no match")` -/
def stringLoop : Byte → Bytes → Option (Bytes × LexState)
  | c, rest =>
    if c = 0 then none
    else if c = 34 then some ([], LexState.next ⟨c, rest⟩)
    else
      match rest with
      | [] => none
      | r :: rs => (stringLoop r rs).map fun (t, s) => (c :: t, s)

/-- `readString` -/
def readString (s : LexState) : Option (Tok × LexState) :=
  let s1 := s.next
  (stringLoop s1.cur s1.rest).map fun (t, s') => (.str t, s')

/-- the `//` comment loop of `lLex`: `for !isNewLine(ls.current) && ls.current != EOF { next }` -/
def skipLine : Byte → Bytes → LexState
  | c, rest =>
    if isNewLine c || c = 0 then ⟨c, rest⟩
    else
      match rest with
      | [] => ⟨0, []⟩
      | r :: rs => skipLine r rs

theorem LexState.size_le (c : Byte) (r : Bytes) : (LexState.mk c r).size ≤ r.length + 1 := by
  simp only [LexState.size]; split <;> omega

theorem LexState.size_pos (c : Byte) (r : Bytes) (h : c ≠ 0) : (LexState.mk c r).size = r.length + 1 := by
  simp [LexState.size, h]

theorem LexState.next_size (s : LexState) (h : s.cur ≠ 0) : s.next.size < s.size := by
  cases s with
  | mk c r =>
    rw [LexState.size_pos c r h]
    cases r with
    | nil => simp [LexState.next, LexState.size]
    | cons b bs =>
      have := LexState.size_le b bs
      simp only [LexState.next, List.length_cons]; omega

theorem LexState.next_size_le (s : LexState) : s.next.size ≤ s.size := by
  cases s with
  | mk c r =>
    by_cases h : c = 0
    · cases r with
      | nil => simp [LexState.next, LexState.size]
      | cons b bs =>
        have := LexState.size_le b bs
        have h2 : (LexState.mk c (b :: bs)).size = bs.length + 1 := by simp [LexState.size, h]
        rw [h2]; simpa [LexState.next] using this
    · exact Nat.le_of_lt (LexState.next_size _ h)

theorem incLine_size (s : LexState) (h : s.cur ≠ 0) : (incLine s).size < s.size := by
  unfold incLine
  have h1 := s.next_size h
  have h2 := s.next.next_size_le
  simp only
  split <;> omega

/-- `readLongComment` (after `/*` was skipped); `none` = `lexErr("respect */")`.
Note the literal behaviour: a `*` as the very last byte ends the comment without error. -/
def longComment (s : LexState) : Option LexState :=
  if h0 : s.cur = 0 then none
  else if isNewLine s.cur then
    have := incLine_size s h0
    longComment (incLine s)
  else if s.cur = 42 then
    let s1 := s.next
    if s1.cur = 0 then some s1
    else if s1.cur = 47 then some s1.next
    else
      have := s.next_size h0
      longComment s1
  else
    have := s.next_size h0
    longComment s.next
termination_by s.size

theorem skipLine_size (c : Byte) (r : Bytes) : (skipLine c r).size ≤ (LexState.mk c r).size := by
  induction r generalizing c with
  | nil => unfold skipLine; split <;> simp [LexState.size]
  | cons b bs ih =>
    unfold skipLine
    split
    · exact Nat.le_refl _
    · have h := ih b
      have h2 := (LexState.mk c (b :: bs)).next_size_le
      simp only [LexState.next] at h2
      exact Nat.le_trans h h2

theorem longComment_size (s s' : LexState) (h : longComment s = some s') : s'.size < s.size := by
  induction s using longComment.induct with
  | case1 s h0 => rw [longComment, dif_pos h0] at h; cases h
  | case2 s h0 hn _ ih =>
    rw [longComment, dif_neg h0, if_pos hn] at h
    exact Nat.lt_trans (ih h) (incLine_size s h0)
  | case3 s h0 hn hs s1 h1 =>
    rw [longComment, dif_neg h0, if_neg hn, if_pos hs] at h
    simp only [s1] at h1
    simp only [h1, if_true] at h
    cases h; exact s.next_size h0
  | case4 s h0 hn hs s1 h1 h2 =>
    rw [longComment, dif_neg h0, if_neg hn, if_pos hs] at h
    simp only [s1] at h1 h2
    simp only [h2, if_true] at h
    split at h
    · cases h; exact s.next_size h0
    · cases h
      exact Nat.lt_of_le_of_lt s.next.next_size_le (s.next_size h0)
  | case5 s h0 hn hs s1 h1 h2 _ ih =>
    rw [longComment, dif_neg h0, if_neg hn, if_pos hs] at h
    simp only [s1] at h1 h2 ih
    simp only [h1, h2, if_false] at h
    exact Nat.lt_trans (ih h) (s.next_size h0)
  | case6 s h0 hn hs _ ih =>
    rw [longComment, dif_neg h0, if_neg hn, if_neg hs] at h
    exact Nat.lt_trans (ih h) (s.next_size h0)

/-- `llexDefault`; `none` = `lexErr` -/
def llexDefault (s : LexState) : Option (Tok × LexState) :=
  if isNumber s.cur then readNumber s
  else if isLetter s.cur then readIdent s
  else none

/-- the single-character tokens of `lLex` -/
def punct (c : Byte) : Option Tok :=
  if c = 123 then some .braceL
  else if c = 125 then some .braceR
  else if c = 59 then some .semi
  else if c = 61 then some .eq
  else if c = 60 then some .shl
  else if c = 62 then some .shr
  else if c = 44 then some .comma
  else if c = 40 then some .ptl
  else if c = 41 then some .ptr
  else if c = 91 then some .sqL
  else if c = 93 then some .sqR
  else none

/-- the token-producing cases of the `switch` in `lLex` (everything but end of input, blank
space and comments) -/
def lexToken (s : LexState) : Option (Tok × LexState) :=
  match punct s.cur with
  | some t => some (t, s.next)
  | none =>
    if s.cur = 34 then readString s
    else if s.cur = 35 then readSharp s
    else llexDefault s

/-- `lLex`; `none` = `lexErr` (a panic that `Gen` recovers and turns into exit status 1) -/
def lLex (s : LexState) : Option (Tok × LexState) :=
  if h0 : s.cur = 0 then some (.eof, s)
  else if s.cur = 32 || s.cur = 9 || s.cur = 12 || s.cur = 11 then
    have := s.next_size h0
    lLex s.next
  else if isNewLine s.cur then
    have := incLine_size s h0
    lLex (incLine s)
  else if s.cur = 47 then
    if s.next.cur = 47 then
      have : (skipLine s.next.cur s.next.rest).size < s.size :=
        Nat.lt_of_le_of_lt (skipLine_size _ _) (s.next_size h0)
      lLex (skipLine s.next.cur s.next.rest)
    else if s.next.cur = 42 then
      match h : longComment s.next.next with
      | none => none
      | some s3 =>
        have : s3.size < s.size :=
          Nat.lt_trans (longComment_size _ _ h)
            (Nat.lt_of_le_of_lt s.next.next_size_le (s.next_size h0))
        lLex s3
    else none
  else lexToken s
termination_by s.size

/-! ### every token but `Eof` consumes input (needed for the termination of `lexAll`) -/

theorem isNumber_ne0 {c : Byte} (h : isNumber c = true) : c ≠ 0 := by
  intro h0; subst h0; revert h; decide
theorem isLetter_ne0 {c : Byte} (h : isLetter c = true) : c ≠ 0 := by
  intro h0; subst h0; revert h; decide

theorem numberLoop_size (hx : Bool) (c : Byte) (r : Bytes) :
    (numberLoop hx c r).1.length + (numberLoop hx c r).2.size ≤ (LexState.mk c r).size := by
  induction r generalizing c hx with
  | nil =>
    unfold numberLoop
    split
    · rename_i h
      have hc : c ≠ 0 := by
        intro h0; subst h0; revert h; cases hx <;> decide
      simp [LexState.size, hc]
    · simp
  | cons b bs ih =>
    unfold numberLoop
    split
    · rename_i h
      have hc : c ≠ 0 := by
        intro h0; subst h0; revert h; cases hx <;> decide
      have := ih (hx || c = 120 || c = 88) b
      have h2 := LexState.size_le b bs
      simp only [List.length_cons, LexState.size_pos c (b :: bs) hc]
      omega
    · simp

theorem numberLoop_nonempty (c : Byte) (r : Bytes) (h : isNumber c = true) :
    0 < (numberLoop false c r).1.length := by
  unfold numberLoop
  simp only [h, Bool.true_or, if_true]
  cases r <;> simp

theorem identLoop_size (l c : Byte) (r : Bytes) (t : Bytes) (s' : LexState)
    (h : identLoop l c r = some (t, s')) : t.length + s'.size ≤ (LexState.mk c r).size := by
  induction r generalizing l c t s' with
  | nil =>
    unfold identLoop at h
    split at h
    · rename_i hc
      have hc0 : c ≠ 0 := by intro h0; subst h0; revert hc; decide
      split at h
      · cases h
      · cases h; simp [LexState.size, hc0]
    · cases h; simp
  | cons b bs ih =>
    unfold identLoop at h
    split at h
    · rename_i hc
      have hc0 : c ≠ 0 := by intro h0; subst h0; revert hc; decide
      split at h
      · cases h
      · cases hq : identLoop c b bs with
        | none => simp [hq] at h
        | some p =>
          obtain ⟨t1, s1⟩ := p
          simp [hq] at h
          obtain ⟨rfl, rfl⟩ := h
          have := ih c b t1 s1 hq
          have h2 := LexState.size_le b bs
          simp only [List.length_cons, LexState.size_pos c (b :: bs) hc0]
          omega
    · cases h; simp

theorem identLoop_nonempty (l c : Byte) (r : Bytes) (t : Bytes) (s' : LexState)
    (hc : isLetter c = true) (h : identLoop l c r = some (t, s')) : 0 < t.length := by
  unfold identLoop at h
  simp only [hc, Bool.true_or, if_true] at h
  split at h
  · cases h
  · cases r with
    | nil => cases h; simp
    | cons b bs =>
      cases hq : identLoop c b bs with
      | none => simp [hq] at h
      | some p => simp [hq] at h; obtain ⟨rfl, _⟩ := h; simp

theorem letterLoop_size (c : Byte) (r : Bytes) :
    (letterLoop c r).2.size ≤ (LexState.mk c r).size := by
  induction r generalizing c with
  | nil =>
    unfold letterLoop
    split <;> simp [LexState.size]
  | cons b bs ih =>
    unfold letterLoop
    split
    · have := ih b
      have h2 := (LexState.mk c (b :: bs)).next_size_le
      simp only [LexState.next] at h2
      exact Nat.le_trans this h2
    · simp

theorem stringLoop_size (c : Byte) (r : Bytes) (t : Bytes) (s' : LexState)
    (h : stringLoop c r = some (t, s')) : s'.size ≤ (LexState.mk c r).size := by
  induction r generalizing c t s' with
  | nil =>
    unfold stringLoop at h
    split at h
    · cases h
    · split at h
      · cases h; exact LexState.next_size_le _
      · cases h
  | cons b bs ih =>
    unfold stringLoop at h
    split at h
    · cases h
    · split at h
      · cases h; exact LexState.next_size_le _
      · cases hq : stringLoop b bs with
        | none => simp [hq] at h
        | some p =>
          obtain ⟨t1, s1⟩ := p
          simp [hq] at h
          obtain ⟨_, rfl⟩ := h
          have := ih b t1 s1 hq
          have h2 := (LexState.mk c (b :: bs)).next_size_le
          simp only [LexState.next] at h2
          exact Nat.le_trans this h2

theorem lexToken_size (s : LexState) (t : Tok) (s' : LexState) (h0 : s.cur ≠ 0)
    (h : lexToken s = some (t, s')) : s'.size < s.size := by
  unfold lexToken at h
  split at h
  · cases h; exact s.next_size h0
  · split at h
    · -- readString
      unfold readString at h
      cases hq : stringLoop s.next.cur s.next.rest with
      | none => simp [hq] at h
      | some p =>
        obtain ⟨t1, s1⟩ := p
        simp [hq] at h
        obtain ⟨_, rfl⟩ := h
        exact Nat.lt_of_le_of_lt (stringLoop_size _ _ _ _ hq) (s.next_size h0)
    · split at h
      · -- readSharp
        unfold readSharp at h
        simp only at h
        split at h
        · cases h
          exact Nat.lt_of_le_of_lt (letterLoop_size _ _) (s.next_size h0)
        · cases h
      · unfold llexDefault at h
        split at h
        · -- readNumber
          rename_i hn
          unfold readNumber at h
          have h1 := numberLoop_size false s.cur s.rest
          have h2 := numberLoop_nonempty s.cur s.rest hn
          have hs : (LexState.mk s.cur s.rest).size = s.size := rfl
          simp only at h
          split at h
          · split at h
            · cases h; omega
            · cases h
          · split at h
            · cases h; omega
            · cases h
        · split at h
          · -- readIdent
            rename_i hl
            unfold readIdent at h
            split at h
            · cases h
            · rename_i text s1 hq
              have h1 := identLoop_size _ _ _ _ _ hq
              have h2 := identLoop_nonempty _ _ _ _ _ hl hq
              have hs : (LexState.mk s.cur s.rest).size = s.size := rfl
              split at h
              · cases h
              · cases h; omega
          · cases h

/-- `lLex` never grows the state, and every token other than `Eof` consumes input -/
theorem lLex_size (s : LexState) (t : Tok) (s' : LexState) (h : lLex s = some (t, s')) :
    s'.size ≤ s.size ∧ (t ≠ .eof → s'.size < s.size) := by
  induction s using lLex.induct with
  | case1 s h0 =>
    rw [lLex, dif_pos h0] at h; cases h; simp
  | case2 s h0 hw _ ih =>
    rw [lLex, dif_neg h0, if_pos hw] at h
    have := ih h; have h2 := s.next_size h0
    exact ⟨by omega, fun ht => by have := this.2 ht; omega⟩
  | case3 s h0 hw hn _ ih =>
    rw [lLex, dif_neg h0, if_neg hw, if_pos hn] at h
    have := ih h; have h2 := incLine_size s h0
    exact ⟨by omega, fun ht => by have := this.2 ht; omega⟩
  | case4 s h0 hw hn hs hs2 hlt ih =>
    rw [lLex, dif_neg h0, if_neg hw, if_neg hn, if_pos hs, if_pos hs2] at h
    have := ih h
    exact ⟨by omega, fun ht => by have := this.2 ht; omega⟩
  | case5 s h0 hw hn hs hs2 hs3 hc =>
    rw [lLex, dif_neg h0, if_neg hw, if_neg hn, if_pos hs, if_neg hs2, if_pos hs3] at h
    split at h
    · cases h
    · rename_i s3 heq
      rw [hc] at heq; cases heq
  | case6 s h0 hw hn hs hs2 hs3 s3 hc hlt ih =>
    rw [lLex, dif_neg h0, if_neg hw, if_neg hn, if_pos hs, if_neg hs2, if_pos hs3] at h
    split at h
    · rename_i heq; rw [hc] at heq; cases heq
    · rename_i s4 heq
      rw [hc] at heq; cases heq
      have := ih h
      exact ⟨by omega, fun ht => by have := this.2 ht; omega⟩
  | case7 s h0 hw hn hs hs2 hs3 =>
    rw [lLex, dif_neg h0, if_neg hw, if_neg hn, if_pos hs, if_neg hs2, if_neg hs3] at h
    cases h
  | case8 s h0 hw hn hs =>
    rw [lLex, dif_neg h0, if_neg hw, if_neg hn, if_neg hs] at h
    have := lexToken_size s t s' h0 h
    exact ⟨Nat.le_of_lt this, fun _ => this⟩

/-- the tokens `NextToken` yields, up to (excluding) the first `Eof`; a lexical error ends the
list with `Tok.bad` -/
def lexAll (s : LexState) : List Tok :=
  match h : lLex s with
  | none => [.bad]
  | some (t, s') =>
    if ht : t = .eof then []
    else
      have : s'.size < s.size := (lLex_size s t s' h).2 ht
      t :: lexAll s'
termination_by s.size

/-- all tokens of an input file -/
def tokens (input : Bytes) : List Tok := lexAll (LexState.init input)

/-! ## Syntax tree (`ast/ast.go`) -/

/-- `VarType.CType`: zero value, `token.Struct`, `token.Enum` -/
inductive CType | unresolved | struct | enum
deriving DecidableEq, Repr, Inhabited

/-- `ast.VarType`.  `prim`: `Type ∈ {TInt … TString}` with the `Unsigned` flag; `named`:
`Type = token.Name` with `TypeSt`, `CType`; `vector`/`map`: `TypeK`, `TypeV`; `array`: `TypeK`,
`TypeL`. -/
inductive VarType
  | prim (p : Prim) (unsigned : Bool)
  | named (name : Bytes) (ctype : CType)
  | vector (k : VarType)
  | map (k v : VarType)
  | array (k : VarType) (len : Int)
deriving DecidableEq, Repr, Inhabited

/-- `StructMember.DefType` (a token type); `none` = zero value (no default) -/
inductive DefKind | none | int | float | str | true | false | name
deriving DecidableEq, Repr, Inhabited

structure EnumMember where
  key : Bytes
  /-- 0 = explicit value, 1 = reference to another member, 2 = automatic -/
  type : Nat
  value : Int
  name : Bytes
deriving DecidableEq, Repr, Inhabited

structure Enum where
  name : Bytes
  mb : List EnumMember
deriving DecidableEq, Repr, Inhabited

structure StructMember where
  tag : Int
  require : Bool
  type : VarType
  key : Bytes
  /-- `Default`: the Go expression text; empty = no default -/
  dflt : Bytes
  defType : DefKind
deriving DecidableEq, Repr, Inhabited

structure Struct where
  name : Bytes
  mb : List StructMember
deriving DecidableEq, Repr, Inhabited

structure Arg where
  name : Bytes
  isOut : Bool
  type : VarType
deriving DecidableEq, Repr, Inhabited

structure Func where
  name : Bytes
  hasRet : Bool
  retType : Option VarType
  args : List Arg
deriving DecidableEq, Repr, Inhabited

structure Interface where
  name : Bytes
  funcs : List Func
deriving DecidableEq, Repr, Inhabited

structure Const where
  type : VarType
  name : Bytes
  value : Bytes
deriving DecidableEq, Repr, Inhabited

structure HashKey where
  name : Bytes
  member : List Bytes
deriving DecidableEq, Repr, Inhabited

/-- `ast.Module` -/
structure Module where
  name : Bytes := []
  structs : List Struct := []
  hashKeys : List HashKey := []
  enums : List Enum := []
  consts : List Const := []
  interfaces : List Interface := []
deriving DecidableEq, Repr, Inhabited

/-- `ast.TarsFile` (single file: `IncTarsFile` is not modelled, see `Res.unsupported`) -/
structure TarsFile where
  module : Module := {}
  includes : List Bytes := []
deriving DecidableEq, Repr, Inhabited

/-! ## Parser (`parse/parse.go`) -/

/-- which tree is modelled: one switch per defect of the front end that has a proposed repair
(`true` = repaired).  Each switch affects exactly one definition. -/
structure Variant where
  /-- D5, `pending/C16-enum-eof.patch`: `parseEnum` reports end of input (as found: loops for ever) -/
  enumEof : Bool
  /-- D6, `pending/C16-typedef-byte.patch`: `typeDef` knows `byte` -/
  typeDefByte : Bool
  /-- `pending/C16-enum-ref.patch`: `genEnum` capitalises the referenced member name like the keys -/
  enumRefCase : Bool
  /-- `pending/C16-enum-default-case.patch`: `analyzeDefault` capitalises the enum name -/
  defaultEnumCase : Bool
  /-- `pending/C16-array-depend.patch`: `checkDepTName` descends into array element types -/
  arrayDepend : Bool
deriving DecidableEq, Repr

/-- the code as found -/
def Variant.asFound : Variant := ⟨false, false, false, false, false⟩
/-- all proposed repairs applied -/
def Variant.repaired : Variant := ⟨true, true, true, true, true⟩

/-- outcome of a parser function.  `diag`: `parseErr`/`lexErr`/`genErr` (a panic recovered in
`Gen`, message printed, exit status 1).  `hang`: the Go code repeats the same loop iteration
forever.  `unsupported`: the input reaches a part of tars2go this model does not cover. -/
inductive Res (α : Type)
  | ok (a : α)
  | diag (site : String)
  | hang
  | unsupported (what : String)
deriving Repr, DecidableEq

def Res.bind {α β : Type} (x : Res α) (f : α → Res β) : Res β :=
  match x with
  | .ok a => f a
  | .diag s => .diag s
  | .hang => .hang
  | .unsupported w => .unsupported w

instance : Monad Res where
  pure := Res.ok
  bind := Res.bind

@[simp] theorem Res.bind_ok {α β : Type} (a : α) (f : α → Res β) : (Res.ok a >>= f) = f a := rfl
@[simp] theorem Res.bind_diag {α β : Type} (d : String) (f : α → Res β) :
    ((Res.diag d : Res α) >>= f) = Res.diag d := rfl
@[simp] theorem Res.bind_hang {α β : Type} (f : α → Res β) : ((Res.hang : Res α) >>= f) = Res.hang := rfl
@[simp] theorem Res.bind_unsupported {α β : Type} (w : String) (f : α → Res β) :
    ((Res.unsupported w : Res α) >>= f) = Res.unsupported w := rfl
@[simp] theorem Res.pure_eq {α : Type} (a : α) : (pure a : Res α) = Res.ok a := rfl

/-- parser state: `p.tk` and what the lexer will still deliver -/
structure PS where
  tk : Tok
  ts : List Tok
deriving DecidableEq, Repr

/-- termination measure of the parser: twice the number of tokens not yet delivered, plus one while
the current token is not `Eof`.  `next` decreases it strictly, except in the state `⟨Eof, []⟩`, which
`next` reproduces. -/
def PS.size (s : PS) : Nat := 2 * s.ts.length + (if s.tk = .eof then 0 else 1)

/-- `Parse.next`.  At the end of the list the lexer returns `Eof` (again and again). -/
def PS.next (s : PS) : Res PS :=
  match s.ts with
  | [] => .ok ⟨.eof, []⟩
  | t :: ts => if t = .bad then .diag "lex" else .ok ⟨t, ts⟩

/-- `Parse.expect` for tokens without semantic value -/
def expect (t : Tok) (s : PS) : Res PS := do
  let s' ← s.next
  if s'.tk = t then pure s' else .diag "expect"

/-- `p.expect(token.Name)`; returns `p.tk.S.S` -/
def expectName (s : PS) : Res (Bytes × PS) := do
  let s' ← s.next
  match s'.tk with
  | .name n => pure (n, s')
  | _ => .diag "expect-name"

/-- `p.expect(token.Integer)`; returns `p.tk.S.I` -/
def expectInt (s : PS) : Res (Int × PS) := do
  let s' ← s.next
  match s'.tk with
  | .int _ v => pure (v, s')
  | _ => .diag "expect-integer"

/-- `p.expect(token.String)`; returns `p.tk.S.S` -/
def expectStr (s : PS) : Res (Bytes × PS) := do
  let s' ← s.next
  match s'.tk with
  | .str v => pure (v, s')
  | _ => .diag "expect-string"

/-- `makeUnsigned` -/
def makeUnsigned (t : VarType) : Res VarType :=
  match t with
  | .prim .int _ => .ok (.prim .int true)
  | .prim .short _ => .ok (.prim .short true)
  | .prim .byte _ => .ok (.prim .byte true)
  | _ => .diag "unsigned-not-supported"

/-- `parseType`: on entry `p.tk` is the first token of the type, on exit the last one -/
def parseType (s : PS) : Res (VarType × PS) :=
  match s.tk with
  | .name n => .ok (.named n .unresolved, s)
  | .tprim p => .ok (.prim p false, s)
  | .tvector => do
    let s1 ← expect .shl s
    let s2 ← s1.next
    if _h : s2.size < s.size then
      let (k, s3) ← parseType s2
      let s4 ← expect .shr s3
      pure (.vector k, s4)
    else .hang
  | .tmap => do
    let s1 ← expect .shl s
    let s2 ← s1.next
    if _h : s2.size < s.size then
      let (k, s3) ← parseType s2
      let s4 ← expect .comma s3
      let s5 ← s4.next
      if _h2 : s5.size < s.size then
        let (v, s6) ← parseType s5
        let s7 ← expect .shr s6
        pure (.map k v, s7)
      else .hang
    else .hang
  | .kunsigned => do
    let s1 ← s.next
    if _h : s1.size < s.size then
      let (u, s2) ← parseType s1
      let u' ← makeUnsigned u
      pure (u', s2)
    else .hang
  | _ => .diag "expert-type"
termination_by s.size

/-- Go `int32(x)` for an `int64` -/
def toInt32 (v : Int) : Int := wrapS 32 v

/-- the `LFOR` loop of `parseEnum`.  `continue`ing is guarded by the progress check.
D5: as found the outer `switch` has no case for `Eof` (nor a `default`), so at end of input the
loop calls `next` (which returns `Eof` and leaves the lexer where it is) for ever.  Repaired: `Eof`
is a parse error. -/
def enumLoop (v : Variant) (acc : List EnumMember) (s : PS) : Res (List EnumMember × PS) := do
  let s1 ← s.next
  match s1.tk with
  | .braceR => pure (acc, s1)
  | .name k => do
    let s2 ← s1.next
    match s2.tk with
    | .comma =>
      if _h : s2.size < s.size then enumLoop v (acc ++ [⟨k, 2, 0, []⟩]) s2 else .hang
    | .braceR => pure (acc ++ [⟨k, 2, 0, []⟩], s2)
    | .eq => do
      let s3 ← s2.next
      let m ← (match s3.tk with
        | .int _ i => Res.ok (⟨k, 0, toInt32 i, []⟩ : EnumMember)
        | .name n => Res.ok ⟨k, 1, 0, n⟩
        | _ => Res.diag "enum-value")
      let s4 ← s3.next
      match s4.tk with
      | .braceR => pure (acc ++ [m], s4)
      | .comma => if _h : s4.size < s.size then enumLoop v (acc ++ [m]) s4 else .hang
      | _ => .diag "enum-expect-comma-or-brace"
    | _ => if _h : s2.size < s.size then enumLoop v acc s2 else .hang
  | .eof =>
    if v.enumEof then .diag "enum-eof"
    else if _h : s1.size < s.size then enumLoop v acc s1 else .hang
  | _ => if _h : s1.size < s.size then enumLoop v acc s1 else .hang
termination_by s.size

/-- `parseEnum` -/
def parseEnum (v : Variant) (m : Module) (s : PS) : Res (Module × PS) := do
  let (name, s1) ← expectName s
  if m.enums.any (fun e => e.name = name) then .diag "enum-redefine"
  else do
    let s2 ← expect .braceL s1
    let (mb, s3) ← enumLoop v [] s2
    let s4 ← expect .semi s3
    pure ({ m with enums := m.enums ++ [⟨name, mb⟩] }, s4)

/-- `parseStructMemberDefault`; `ty` is `m.Type` -/
def parseDefault (ty : VarType) (tk : Tok) : Res (Bytes × DefKind) :=
  let isNum : Bool := match ty with | .prim p _ => p.isNumber | _ => false
  let isName : Bool := match ty with | .named _ _ => true | _ => false
  let isBool : Bool := match ty with | .prim .bool _ => true | _ => false
  match tk with
  | .int text _ => if !isNum && !isName then .diag "default-number" else .ok (text, .int)
  | .float text => if !isNum then .diag "default-number" else .ok (text, .float)
  | .str v => if isNum then .diag "default-string" else .ok ([34] ++ v ++ [34], .str)
  | .ktrue => if !isBool then .diag "default-format" else .ok (asc "true", .true)
  | .kfalse => if !isBool then .diag "default-format" else .ok (asc "false", .false)
  | .name n => .ok (n, .name)
  | _ => .diag "default-format"

/-- `parseStructMember`; `none` = the closing `}` was read -/
def parseStructMember (s : PS) : Res (Option StructMember × PS) := do
  let s1 ← s.next
  match s1.tk with
  | .braceR => pure (none, s1)
  | .int _ tagv => do
    let s2 ← s1.next
    let req ← (match s2.tk with
      | .krequire => Res.ok true
      | .koptional => Res.ok false
      | _ => Res.diag "expect-require-or-optional")
    let s3 ← s2.next
    if !s3.tk.startsType then
      .diag "expect-type"
    else do
      let (ty, s4) ← parseType s3
      let (key, s5) ← expectName s4
      let s6 ← s5.next
      match s6.tk with
      | .semi => pure (some ⟨toInt32 tagv, req, ty, key, [], .none⟩, s6)
      | .sqL => do
        let (len, s7) ← expectInt s6
        let s8 ← expect .sqR s7
        let s9 ← expect .semi s8
        pure (some ⟨toInt32 tagv, req, .array ty len, key, [], .none⟩, s9)
      | .eq => do
        let s7 ← s6.next
        let (d, dk) ← parseDefault ty s7.tk
        let s8 ← expect .semi s7
        pure (some ⟨toInt32 tagv, req, ty, key, d, dk⟩, s8)
      | _ => .diag "expect-semi-or-eq"
  | _ => .diag "expect-tags"

/-- the member loop of `parseStruct` -/
def structLoop (acc : List StructMember) (s : PS) : Res (List StructMember × PS) := do
  let (m, s1) ← parseStructMember s
  match m with
  | none => pure (acc, s1)
  | some mb => if _h : s1.size < s.size then structLoop (acc ++ [mb]) s1 else .hang
termination_by s.size

/-- `checkTag`: is some tag used twice? -/
def dupTag : List StructMember → Bool
  | [] => false
  | m :: ms => ms.any (fun x => x.tag = m.tag) || dupTag ms

/-- insertion into a list sorted by tag -/
def insertByTag (m : StructMember) : List StructMember → List StructMember
  | [] => [m]
  | x :: xs => if m.tag < x.tag then m :: x :: xs else x :: insertByTag m xs

/-- `sortTag`: `sort.Sort` by `Tag`.  `sort.Sort` is not stable, but `checkTag` has already rejected
equal tags, so the result is the unique ascending arrangement. -/
def sortTag : List StructMember → List StructMember
  | [] => []
  | m :: ms => insertByTag m (sortTag ms)

/-- `parseStruct` -/
def parseStruct (m : Module) (s : PS) : Res (Module × PS) := do
  let (name, s1) ← expectName s
  if m.structs.any (fun e => e.name = name) then .diag "struct-redefine"
  else do
    let s2 ← expect .braceL s1
    let (mb, s3) ← structLoop [] s2
    let s4 ← expect .semi s3
    if dupTag mb then .diag "tag-duplicate"
    else pure ({ m with structs := m.structs ++ [⟨name, sortTag mb⟩] }, s4)

/-- the argument loop of `parseInterfaceFun`; on entry `p.tk` is the first token of an argument -/
def argLoop (acc : List Arg) (s : PS) : Res (List Arg × PS) := do
  let (isOut, s1) ← (match s.tk with
    | .kout => do let s' ← s.next; pure (true, s')
    | _ => pure (false, s) : Res (Bool × PS))
  let (ty, s2) ← parseType s1
  let s3 ← s2.next
  let (nm, s4) ← (match s3.tk with
    | .name n => do let s' ← s3.next; pure (n, s')
    | _ => pure ([], s3) : Res (Bytes × PS))
  let arg : Arg := ⟨nm, isOut, ty⟩
  match s4.tk with
  | .comma => do
    let s5 ← s4.next
    if _h : s5.size < s.size then argLoop (acc ++ [arg]) s5 else .hang
  | .ptr => do
    let s5 ← expect .semi s4
    pure (acc ++ [arg], s5)
  | _ => .diag "expect-comma-or-paren"
termination_by s.size

/-- `parseInterfaceFun`; `none` = the closing `}` was read -/
def parseInterfaceFun (s : PS) : Res (Option Func × PS) := do
  let s1 ← s.next
  match s1.tk with
  | .braceR => pure (none, s1)
  | _ => do
    let (hasRet, ret, s2) ← (
      if s1.tk = .kvoid then pure (false, none, s1)
      else if !s1.tk.startsType then
        .diag "expect-type"
      else do
        let (ty, s') ← parseType s1
        pure (true, some ty, s') : Res (Bool × Option VarType × PS))
    let (name, s3) ← expectName s2
    let s4 ← expect .ptl s3
    let s5 ← s4.next
    match s5.tk with
    | .shr => pure (some ⟨name, hasRet, ret, []⟩, s5)
    | .ptr => do
      let s6 ← expect .semi s5
      pure (some ⟨name, hasRet, ret, []⟩, s6)
    | _ => do
      let (args, s6) ← argLoop [] s5
      pure (some ⟨name, hasRet, ret, args⟩, s6)

/-- the function loop of `parseInterface` -/
def funLoop (acc : List Func) (s : PS) : Res (List Func × PS) := do
  let (f, s1) ← parseInterfaceFun s
  match f with
  | none => pure (acc, s1)
  | some fn => if _h : s1.size < s.size then funLoop (acc ++ [fn]) s1 else .hang
termination_by s.size

/-- `parseInterface` -/
def parseInterface (m : Module) (s : PS) : Res (Module × PS) := do
  let (name, s1) ← expectName s
  if m.interfaces.any (fun e => e.name = name) then .diag "interface-redefine"
  else do
    let s2 ← expect .braceL s1
    let (fs, s3) ← funLoop [] s2
    let s4 ← expect .semi s3
    pure ({ m with interfaces := m.interfaces ++ [⟨name, fs⟩] }, s4)

/-- `parseConst` -/
def parseConst (m : Module) (s : PS) : Res (Module × PS) := do
  let s1 ← s.next
  let (ty, s2) ← (match s1.tk with
    | .tvector | .tmap => Res.diag "const-vector-or-map"
    | .tprim _ | .kunsigned => parseType s1
    | _ => Res.diag "const-expect-type")
  let (name, s3) ← expectName s2
  let s4 ← expect .eq s3
  let s5 ← s4.next
  let isNum : Bool := match ty with | .prim p _ => p.isNumber | _ => false
  let isBool : Bool := match ty with | .prim .bool _ => true | _ => false
  let value ← (match s5.tk with
    | .int text _ => if !isNum then Res.diag "const-number" else Res.ok text
    | .float text => if !isNum then Res.diag "const-number" else Res.ok text
    | .str v => if isNum then Res.diag "const-string" else Res.ok ([34] ++ v ++ [34])
    | .ktrue => if !isBool then Res.diag "const-format" else Res.ok (asc "true")
    | .kfalse => if !isBool then Res.diag "const-format" else Res.ok (asc "false")
    | _ => Res.diag "const-format")
  let s6 ← expect .semi s5
  pure ({ m with consts := m.consts ++ [⟨ty, name, value⟩] }, s6)

/-- the member loop of `parseHashKey` -/
def keyLoop (acc : List Bytes) (s : PS) : Res (List Bytes × PS) := do
  let (n, s1) ← expectName s
  let s2 ← s1.next
  match s2.tk with
  | .sqR => do
    let s3 ← expect .semi s2
    pure (acc ++ [n], s3)
  | .comma => if _h : s2.size < s.size then keyLoop (acc ++ [n]) s2 else .hang
  | _ => .diag "key-expect-bracket-or-comma"
termination_by s.size

/-- `parseHashKey` -/
def parseHashKey (m : Module) (s : PS) : Res (Module × PS) := do
  let s1 ← expect .sqL s
  let (name, s2) ← expectName s1
  let s3 ← expect .comma s2
  let (mem, s4) ← keyLoop [] s3
  pure ({ m with hashKeys := m.hashKeys ++ [⟨name, mem⟩] }, s4)

/-- the declaration cases of the `switch` in `parseModuleSegment` -/
def segmentItem (v : Variant) (m : Module) (s1 : PS) : Res (Module × PS) :=
  match s1.tk with
  | .kconst => parseConst m s1
  | .kenum => parseEnum v m s1
  | .kstruct => parseStruct m s1
  | .kinterface => parseInterface m s1
  | .kkey => parseHashKey m s1
  | _ => .diag "module-not-expect"

/-- the loop of `parseModuleSegment` (after the `{`) -/
def segmentLoop (v : Variant) (m : Module) (s : PS) : Res (Module × PS) := do
  let s1 ← s.next
  match s1.tk with
  | .braceR => do
    let s2 ← expect .semi s1
    pure (m, s2)
  | _ => do
    let (m', s2) ← segmentItem v m s1
    if _h : s2.size < s.size then segmentLoop v m' s2 else .hang
termination_by s.size

/-- `parseModuleSegment` -/
def parseModuleSegment (v : Variant) (m : Module) (s : PS) : Res (Module × PS) := do
  let s1 ← expect .braceL s
  segmentLoop v m s1

/-- `parseModule`.  A second `module` in the same file (handled in Go by a nested `Parse` sharing
the lexer) is outside this model. -/
def parseModule (v : Variant) (f : TarsFile) (s : PS) : Res (TarsFile × PS) := do
  let (name, s1) ← expectName s
  if f.module.name ≠ [] then .unsupported "second-module"
  else do
    let (m, s2) ← parseModuleSegment v { f.module with name := name } s1
    pure ({ f with module := m }, s2)

/-- `parseInclude` -/
def parseInclude (f : TarsFile) (s : PS) : Res (TarsFile × PS) := do
  let (path, s1) ← expectStr s
  pure ({ f with includes := f.includes ++ [path] }, s1)

/-- the loop of `parse` (syntax only; `analyzeDepend` is `analyze` below) -/
def fileLoop (v : Variant) (f : TarsFile) (s : PS) : Res TarsFile := do
  let s1 ← s.next
  match s1.tk with
  | .eof => pure f
  | .kinclude => do
    let (f', s2) ← parseInclude f s1
    if _h : s2.size < s.size then fileLoop v f' s2 else .hang
  | .kmodule => do
    let (f', s2) ← parseModule v f s1
    if _h : s2.size < s.size then fileLoop v f' s2 else .hang
  | _ => .diag "expect-include-or-module"
termination_by s.size

/-- syntax analysis of a token list -/
def parseTokens (v : Variant) (ts : List Tok) : Res TarsFile :=
  fileLoop v {} ⟨.eof, ts⟩

/-! ## Semantic analysis (`analyzeDepend`: `analyzeDefault`, `analyzeTName`) -/

/-- `utils.UpperFirstLetter` (names are ASCII) -/
def upperFirst : Bytes → Bytes
  | [] => []
  | c :: cs => (if 97 ≤ c.val && c.val ≤ 122 then byte (c.val - 32) else c) :: cs

/-- `strings.Contains(s, "::")` -/
def hasColon2 (s : Bytes) : Bool := countColon2 s > 0

/-- `strings.Split(s, "::")[1]` for a string that contains `::` -/
def splitSecond (s : Bytes) : Bytes :=
  let rec upTo : Bytes → Bytes
    | a :: b :: rest => if a = 58 && b = 58 then [] else a :: upTo (b :: rest)
    | l => l
  upTo (afterColon2 s)

/-- the member search of `FindEnumName` inside one module: all `(enum, member)` pairs whose key is
`ename`, in declaration order -/
def enumHits (ename : Bytes) (enums : List Enum) : List (Enum × EnumMember) :=
  enums.flatMap fun e => (e.mb.filter fun mb => mb.key = ename).map fun mb => (e, mb)

/-- `FindEnumName` (single file) followed by the construction of `defValue` in `analyzeDefault`:
`enum.Name + "_" + UpperFirstLetter(mb.Key)`; the enum's module is the current one, so no
package prefix is added. -/
def resolveEnumDefault (v : Variant) (m : Module) (d : Bytes) : Res Bytes :=
  let ename := if hasColon2 d then splitSecond d else d
  match enumHits ename m.enums with
  | [] => .diag "default-not-found"
  | [(e, mb)] => .ok ((if v.defaultEnumCase then upperFirst e.name else e.name) ++ [95] ++ upperFirst mb.key)
  | _ => .diag "default-name-conflict"

/-- `analyzeDefault` on one member -/
def analyzeDefaultMember (v : Variant) (m : Module) (mb : StructMember) : Res StructMember :=
  if mb.dflt ≠ [] && mb.defType = .name then do
    let d ← resolveEnumDefault v m mb.dflt
    pure { mb with dflt := d }
  else pure mb

def mapRes {α β : Type} (f : α → Res β) : List α → Res (List β)
  | [] => .ok []
  | a :: as => do
    let b ← f a
    let bs ← mapRes f as
    pure (b :: bs)

/-- `FindTNameType` (single file): structs first, then enums, compared as `Module::Name` -/
def findTName (m : Module) (full : Bytes) : CType :=
  if m.structs.any (fun st => m.name ++ [58, 58] ++ st.name = full) then .struct
  else if m.enums.any (fun e => m.name ++ [58, 58] ++ e.name = full) then .enum
  else .unresolved

/-- `strings.Replace(s, old, "", 1)` for `old = mod ++ "::"`: remove the first occurrence -/
def removeFirst (old : Bytes) : Bytes → Bytes
  | [] => []
  | c :: cs => if old.isPrefixOf (c :: cs) && old ≠ [] then (c :: cs).drop old.length else c :: removeFirst old cs

/-- `checkDepTName` (single file, `ModuleCycle = false`).  As found, arrays are not descended into. -/
def checkDepTName (v : Variant) (m : Module) : VarType → Res VarType
  | .named n _ =>
    let full := if countColon2 n = 0 then m.name ++ [58, 58] ++ n else n
    match findTName m full with
    | .unresolved => .diag "type-not-defined"
    | ct => .ok (.named (removeFirst (m.name ++ [58, 58]) n) ct)
  | .vector k => do
    let k' ← checkDepTName v m k
    pure (.vector k')
  | .map k x => do
    let k' ← checkDepTName v m k
    let x' ← checkDepTName v m x
    pure (.map k' x')
  | .array k l =>
    if v.arrayDepend then do
      let k' ← checkDepTName v m k
      pure (.array k' l)
    else .ok (.array k l)
  | t => .ok t

/-- `analyzeDefault` on one struct -/
def defaultsOf (v : Variant) (m : Module) (st : Struct) : Res Struct := do
  let mb ← mapRes (analyzeDefaultMember v m) st.mb
  pure ({ st with mb := mb } : Struct)

/-- `analyzeTName` on one struct -/
def typesOf (v : Variant) (m1 : Module) (st : Struct) : Res Struct := do
  let mb ← mapRes (fun (x : StructMember) => do
    let t ← checkDepTName v m1 x.type
    pure { x with type := t }) st.mb
  pure ({ st with mb := mb } : Struct)

/-- `analyzeTName` on one function: arguments, then the return type -/
def funcTypes (v : Variant) (m1 : Module) (fn : Func) : Res Func := do
  let args ← mapRes (fun (a : Arg) => do
    let t ← checkDepTName v m1 a.type
    pure { a with type := t }) fn.args
  let ret ← (match fn.retType with
    | none => Res.ok none
    | some t => (checkDepTName v m1 t).bind fun t' => Res.ok (some t'))
  pure ({ fn with args := args, retType := ret } : Func)

/-- `analyzeTName` on one interface -/
def ifaceTypes (v : Variant) (m1 : Module) (itf : Interface) : Res Interface := do
  let fs ← mapRes (funcTypes v m1) itf.funcs
  pure ({ itf with funcs := fs } : Interface)

/-- `analyzeDefault` then `analyzeTName` -/
def analyze (v : Variant) (f : TarsFile) : Res TarsFile :=
  if f.includes ≠ [] then .unsupported "include"
  else do
    let m := f.module
    let structs1 ← mapRes (defaultsOf v m) m.structs
    let m1 := { m with structs := structs1 }
    let structs2 ← mapRes (typesOf v m1) m1.structs
    let ifs ← mapRes (ifaceTypes v m1) m1.interfaces
    pure { f with module := { m1 with structs := structs2, interfaces := ifs } }

/-- `parse.NewParse` on the contents of one file: lexing, `parse`, `analyzeDepend` -/
def parseFile (v : Variant) (input : Bytes) : Res TarsFile := do
  let f ← parseTokens v (tokens input)
  analyze v f

/-! ## Acceptance conditions of the generator (`gencode/gen_go.go`) -/

/-- `typeDef` is reached from `genWriteVar` for optional members of basic type; D6: as found it has
no case for `byte` (repaired: `"0"`).  Result: does the generator stop with `genErr`? -/
def typeDefFails (v : Variant) (mb : StructMember) : Bool :=
  if mb.require || mb.dflt ≠ [] then false
  else match mb.type with
    | .prim .byte _ => !v.typeDefByte
    | _ => false

/-- the search loop of `genEnum` for a member `v` of type 1 (`= name`): the members are scanned
in order (their keys already capitalised by `Enum.Rename`); the scan succeeds at the first key equal
to `v.Name` (as found: *not* capitalised) and gives up at `v`'s own key. -/
def enumRefFind (kv name : Bytes) : List Bytes → Bool
  | [] => false
  | k :: ks => if k = name then true else if k = kv then false else enumRefFind kv name ks

/-- `genEnum`: no `genErr(… " not define before use.")` -/
def enumRefsOk (v : Variant) (mb : List EnumMember) : Bool :=
  let keys := mb.map fun m => upperFirst m.key
  mb.all fun m => m.type != 1 ||
    enumRefFind (upperFirst m.key) (if v.enumRefCase then upperFirst m.name else m.name) keys

/-- does `genAll` get through `genEnum`/`typeDef` without `genErr`? (`go fmt fail` — emitted text
that is not Go — is not modelled.) -/
def genCheck (v : Variant) (f : TarsFile) : Res Unit :=
  if f.module.enums.any (fun e => !enumRefsOk v e.mb) then .diag "enum-not-defined-before-use"
  else if f.module.structs.any (fun st => st.mb.any (typeDefFails v)) then .diag "typeDef-unknown-type"
  else .ok ()

/-- the whole tool on one file: `NewParse` + `genAll` (acceptance only) -/
def tool (v : Variant) (input : Bytes) : Res TarsFile := do
  let f ← parseFile v input
  genCheck v f
  pure f

/-! ## Schema extraction: what the generator's templates depend on -/

/-- one member as `genStructDefine`, `genWriteVar`, `genReadVar`, `genFunResetDefault` see it: tag,
`require`, type (with `unsigned`, arrays, resolved `CType`), IDL name, Go field name, default -/
structure FieldSchema where
  tag : Int
  require : Bool
  type : VarType
  key : Bytes
  goName : Bytes
  dflt : Bytes
deriving DecidableEq, Repr, Inhabited

structure StructSchema where
  name : Bytes
  fields : List FieldSchema
deriving DecidableEq, Repr, Inhabited

def StructMember.schema (m : StructMember) : FieldSchema :=
  ⟨m.tag, m.require, m.type, m.key, upperFirst m.key, m.dflt⟩

/-- the struct schemas of a file, members in the order the codecs are emitted (`Struct.Rename`
capitalises the names) -/
def schemaOf (f : TarsFile) : List StructSchema :=
  f.module.structs.map fun st => ⟨upperFirst st.name, st.mb.map StructMember.schema⟩

/-! ## The supported language as an inductive grammar (DESIGN.md Appendix C)

`Prog` is a file with one module; every declaration kind, every member kind.  `toks` is the token
sequence of a program, `render` its text (each token followed by a separator), `ast` the syntax tree
the program declares.  Token sequences are built in continuation style (`…K k` puts the tokens in
front of `k`) so that every parser state in the proofs is syntactically a `cons`. -/

/-- type expressions -/
inductive GTy
  | prim (p : Prim)
  | unsigned (p : Prim)
  | vector (t : GTy)
  | map (k v : GTy)
  | named (n : Bytes)
deriving DecidableEq, Repr, Inhabited

def GTy.hd : GTy → Tok
  | .prim p => .tprim p
  | .unsigned _ => .kunsigned
  | .vector _ => .tvector
  | .map _ _ => .tmap
  | .named n => .name n

def GTy.tlK : GTy → List Tok → List Tok
  | .prim _, k => k
  | .unsigned p, k => .tprim p :: k
  | .vector t, k => .shl :: t.hd :: t.tlK (.shr :: k)
  | .map a b, k => .shl :: a.hd :: a.tlK (.comma :: b.hd :: b.tlK (.shr :: k))
  | .named _, k => k

def GTy.toksK (t : GTy) (k : List Tok) : List Tok := t.hd :: t.tlK k

/-- the last token of a type expression -/
def GTy.last : GTy → Tok
  | .prim p => .tprim p
  | .unsigned p => .tprim p
  | .vector _ => .shr
  | .map _ _ => .shr
  | .named n => .name n

def GTy.ast : GTy → VarType
  | .prim p => .prim p false
  | .unsigned p => .prim p true
  | .vector t => .vector t.ast
  | .map a b => .map a.ast b.ast
  | .named n => .named n .unresolved

/-- side condition: `unsigned` only on `byte`, `short`, `int` -/
def GTy.WF : GTy → Bool
  | .prim _ => true
  | .unsigned p => p = .byte || p = .short || p = .int
  | .vector t => t.WF
  | .map a b => a.WF && b.WF
  | .named _ => true

/-- enumerator: automatic value, integer literal (text and value), or an earlier enumerator -/
inductive GEnumVal
  | auto
  | int (text : Bytes) (v : Int)
  | ref (n : Bytes)
deriving DecidableEq, Repr, Inhabited

structure GEnumMem where
  key : Bytes
  val : GEnumVal
deriving DecidableEq, Repr, Inhabited

def GEnumMem.ast (m : GEnumMem) : EnumMember :=
  match m.val with
  | .auto => ⟨m.key, 2, 0, []⟩
  | .int _ v => ⟨m.key, 0, toInt32 v, []⟩
  | .ref n => ⟨m.key, 1, 0, n⟩

def GEnumMem.toksK (m : GEnumMem) (k : List Tok) : List Tok :=
  match m.val with
  | .auto => .name m.key :: k
  | .int t v => .name m.key :: .eq :: .int t v :: k
  | .ref n => .name m.key :: .eq :: .name n :: k

/-- `emem (',' emem)* [','] '}'` (or just `}` for an empty list) -/
def enumMemsK : List GEnumMem → Bool → List Tok → List Tok
  | [], _, k => .braceR :: k
  | [m], trailing, k => m.toksK (if trailing then .comma :: .braceR :: k else .braceR :: k)
  | m :: m2 :: ms, trailing, k => m.toksK (.comma :: enumMemsK (m2 :: ms) trailing k)

structure GEnum where
  name : Bytes
  mems : List GEnumMem
  trailingComma : Bool
deriving DecidableEq, Repr, Inhabited

/-- default values -/
inductive GDefault
  | int (text : Bytes) (v : Int)
  | float (text : Bytes)
  | str (s : Bytes)
  | btrue
  | bfalse
  | name (n : Bytes)
deriving DecidableEq, Repr, Inhabited

def GDefault.tok : GDefault → Tok
  | .int t v => .int t v
  | .float t => .float t
  | .str s => .str s
  | .btrue => .ktrue
  | .bfalse => .kfalse
  | .name n => .name n

/-- the Go text and kind the parser stores for a default -/
def GDefault.ast : GDefault → Bytes × DefKind
  | .int t _ => (t, .int)
  | .float t => (t, .float)
  | .str s => ([34] ++ s ++ [34], .str)
  | .btrue => (asc "true", .true)
  | .bfalse => (asc "false", .false)
  | .name n => (n, .name)

/-- side condition: which default goes with which member type -/
def GDefault.okFor : GDefault → GTy → Bool
  | .int _ _, .prim p => p ≠ .string && p ≠ .bool
  | .int _ _, .unsigned p => p ≠ .string
  | .int _ _, .named _ => true
  | .float _, .prim p => p = .float || p = .double
  | .str _, .prim p => p = .string
  | .btrue, .prim p => p = .bool
  | .bfalse, .prim p => p = .bool
  | .name _, .named _ => true
  | _, _ => false

inductive GSuffix
  | plain
  | array (lenText : Bytes) (len : Int)
  | dflt (d : GDefault)
deriving DecidableEq, Repr, Inhabited

structure GField where
  tagText : Bytes
  tag : Int
  req : Bool
  ty : GTy
  name : Bytes
  suffix : GSuffix
deriving DecidableEq, Repr, Inhabited

def GField.ast (f : GField) : StructMember :=
  match f.suffix with
  | .plain => ⟨toInt32 f.tag, f.req, f.ty.ast, f.name, [], .none⟩
  | .array _ len => ⟨toInt32 f.tag, f.req, .array f.ty.ast len, f.name, [], .none⟩
  | .dflt d => ⟨toInt32 f.tag, f.req, f.ty.ast, f.name, d.ast.1, d.ast.2⟩

def GField.toksK (f : GField) (k : List Tok) : List Tok :=
  .int f.tagText f.tag :: (if f.req then Tok.krequire else Tok.koptional) ::
    f.ty.toksK (.name f.name ::
      (match f.suffix with
        | .plain => .semi :: k
        | .array t l => .sqL :: .int t l :: .sqR :: .semi :: k
        | .dflt d => .eq :: d.tok :: .semi :: k))

def GField.WF (f : GField) : Bool :=
  f.ty.WF && (match f.suffix with | .dflt d => d.okFor f.ty | _ => true)

def fieldsK : List GField → List Tok → List Tok
  | [], k => k
  | f :: fs, k => f.toksK (fieldsK fs k)

structure GStruct where
  name : Bytes
  fields : List GField
deriving DecidableEq, Repr, Inhabited

structure GParam where
  isOut : Bool
  ty : GTy
  name : Bytes
deriving DecidableEq, Repr, Inhabited

def GParam.hd (p : GParam) : Tok := if p.isOut then .kout else p.ty.hd

def GParam.tlK (p : GParam) (k : List Tok) : List Tok :=
  if p.isOut then p.ty.hd :: p.ty.tlK (.name p.name :: k) else p.ty.tlK (.name p.name :: k)

/-- `['out'] type Name` -/
def GParam.toksK (p : GParam) (k : List Tok) : List Tok := p.hd :: p.tlK k

def GParam.ast (p : GParam) : Arg := ⟨p.name, p.isOut, p.ty.ast⟩

/-- `param (',' param)* ')' ';'` -/
def paramsK : List GParam → List Tok → List Tok
  | [], k => .ptr :: .semi :: k
  | [p], k => p.toksK (.ptr :: .semi :: k)
  | p :: p2 :: ps, k => p.toksK (.comma :: paramsK (p2 :: ps) k)

structure GFunc where
  ret : Option GTy
  name : Bytes
  params : List GParam
deriving DecidableEq, Repr, Inhabited

def GFunc.toksK (f : GFunc) (k : List Tok) : List Tok :=
  let rest := .name f.name :: .ptl :: paramsK f.params k
  match f.ret with
  | none => .kvoid :: rest
  | some t => t.toksK rest

def GFunc.ast (f : GFunc) : Func :=
  ⟨f.name, f.ret.isSome, f.ret.map GTy.ast, f.params.map GParam.ast⟩

def GFunc.WF (f : GFunc) : Bool :=
  (match f.ret with | none => true | some t => t.WF) && f.params.all (fun p => p.ty.WF)

def funcsK : List GFunc → List Tok → List Tok
  | [], k => k
  | f :: fs, k => f.toksK (funcsK fs k)

structure GInterface where
  name : Bytes
  funcs : List GFunc
deriving DecidableEq, Repr, Inhabited

/-- constant literals -/
inductive GLit
  | int (text : Bytes) (v : Int)
  | float (text : Bytes)
  | str (s : Bytes)
  | btrue
  | bfalse
deriving DecidableEq, Repr, Inhabited

def GLit.tok : GLit → Tok
  | .int t v => .int t v
  | .float t => .float t
  | .str s => .str s
  | .btrue => .ktrue
  | .bfalse => .kfalse

def GLit.ast : GLit → Bytes
  | .int t _ => t
  | .float t => t
  | .str s => [34] ++ s ++ [34]
  | .btrue => asc "true"
  | .bfalse => asc "false"

structure GConst where
  ty : GTy
  name : Bytes
  lit : GLit
deriving DecidableEq, Repr, Inhabited

/-- side condition: scalar type (possibly `unsigned`), literal of the matching kind -/
def GConst.WF (c : GConst) : Bool :=
  match c.ty, c.lit with
  | .prim p, .int _ _ => p ≠ .string
  | .prim p, .float _ => p ≠ .string
  | .prim p, .str _ => p = .string
  | .prim p, .btrue => p = .bool
  | .prim p, .bfalse => p = .bool
  | .unsigned p, .int _ _ => p = .byte || p = .short || p = .int
  | .unsigned p, .float _ => p = .byte || p = .short || p = .int
  | _, _ => false

structure GKey where
  name : Bytes
  first : Bytes
  more : List Bytes
deriving DecidableEq, Repr, Inhabited

def keyMoreK : List Bytes → List Tok → List Tok
  | [], k => .sqR :: .semi :: k
  | m :: ms, k => .comma :: .name m :: keyMoreK ms k

inductive GDecl
  | enum (e : GEnum)
  | const (c : GConst)
  | struct (s : GStruct)
  | key (k : GKey)
  | interface (i : GInterface)
deriving DecidableEq, Repr, Inhabited

def GDecl.toksK (d : GDecl) (k : List Tok) : List Tok :=
  match d with
  | .enum e => .kenum :: .name e.name :: .braceL :: enumMemsK e.mems e.trailingComma (.semi :: k)
  | .const c => .kconst :: c.ty.toksK (.name c.name :: .eq :: c.lit.tok :: .semi :: k)
  | .struct s => .kstruct :: .name s.name :: .braceL :: fieldsK s.fields (.braceR :: .semi :: k)
  | .key x => .kkey :: .sqL :: .name x.name :: .comma :: .name x.first :: keyMoreK x.more k
  | .interface i => .kinterface :: .name i.name :: .braceL :: funcsK i.funcs (.braceR :: .semi :: k)

def declsK : List GDecl → List Tok → List Tok
  | [], k => k
  | d :: ds, k => d.toksK (declsK ds k)

/-- a file with one module -/
structure Prog where
  modName : Bytes
  decls : List GDecl
deriving DecidableEq, Repr, Inhabited

/-- the token sequence of a program -/
def Prog.toks (p : Prog) : List Tok :=
  .kmodule :: .name p.modName :: .braceL :: declsK p.decls [.braceR, .semi]

/-- what one declaration adds to the module (`parseEnum`, `parseConst`, …) -/
def GDecl.addTo (m : Module) : GDecl → Module
  | .enum e => { m with enums := m.enums ++ [⟨e.name, e.mems.map GEnumMem.ast⟩] }
  | .const c => { m with consts := m.consts ++ [⟨c.ty.ast, c.name, c.lit.ast⟩] }
  | .struct s => { m with structs := m.structs ++ [⟨s.name, sortTag (s.fields.map GField.ast)⟩] }
  | .key x => { m with hashKeys := m.hashKeys ++ [⟨x.name, x.first :: x.more⟩] }
  | .interface i => { m with interfaces := m.interfaces ++ [⟨i.name, i.funcs.map GFunc.ast⟩] }

/-- the syntax tree a program declares -/
def Prog.ast (p : Prog) : TarsFile :=
  { module := p.decls.foldl GDecl.addTo { name := p.modName }, includes := [] }

/-- side conditions of one declaration relative to the module built so far: well-formed types and
defaults, no duplicate tags, no second definition of the same name -/
def GDecl.WF (m : Module) : GDecl → Bool
  | .enum e => !m.enums.any (fun x => x.name = e.name) && (e.mems.isEmpty → !e.trailingComma)
  | .const c => c.WF
  | .struct s => !m.structs.any (fun x => x.name = s.name) && s.fields.all GField.WF &&
      !dupTag (s.fields.map GField.ast)
  | .key _ => true
  | .interface i => !m.interfaces.any (fun x => x.name = i.name) && i.funcs.all GFunc.WF

def declsWF : Module → List GDecl → Bool
  | _, [] => true
  | m, d :: ds => d.WF m && declsWF (d.addTo m) ds

def Prog.WF (p : Prog) : Bool := p.modName ≠ [] && declsWF { name := p.modName } p.decls

/-! ### Rendering: token texts and separators -/

def Prim.text : Prim → Bytes
  | .int => asc "int" | .bool => asc "bool" | .short => asc "short" | .byte => asc "byte"
  | .long => asc "long" | .float => asc "float" | .double => asc "double" | .string => asc "string"

/-- the text of a token in an IDL file -/
def Tok.text : Tok → Bytes
  | .eof => [] | .bad => []
  | .braceL => [123] | .braceR => [125] | .semi => [59] | .eq => [61] | .shl => [60] | .shr => [62]
  | .comma => [44] | .ptl => [40] | .ptr => [41] | .sqL => [91] | .sqR => [93]
  | .kinclude => asc "#include"
  | .kmodule => asc "module" | .kenum => asc "enum" | .kstruct => asc "struct"
  | .kinterface => asc "interface" | .krequire => asc "require" | .koptional => asc "optional"
  | .kconst => asc "const" | .kunsigned => asc "unsigned" | .kvoid => asc "void" | .kout => asc "out"
  | .kkey => asc "key" | .ktrue => asc "true" | .kfalse => asc "false"
  | .tprim p => p.text | .tvector => asc "vector" | .tmap => asc "map" | .tarray => asc "array"
  | .name s => s
  | .str s => [34] ++ s ++ [34]
  | .int t _ => t
  | .float t => t

/-- blank space and comments between tokens -/
inductive Trivia
  | blank (b : Byte)
  | line (body : Bytes) (nl : Byte)
  | block (body : Bytes)
deriving DecidableEq, Repr, Inhabited

def Trivia.bytes : Trivia → Bytes
  | .blank b => [b]
  | .line body nl => [47, 47] ++ body ++ [nl]
  | .block body => [47, 42] ++ body ++ [42, 47]

def isBlank (b : Byte) : Bool := b = 32 || b = 9 || b = 12 || b = 11 || b = 10 || b = 13

/-- side conditions: blanks are space, tab, FF, VT, LF, CR; a `//` comment runs to a line end and
contains neither a line end nor NUL; a `/* */` comment contains neither `*` nor NUL -/
def Trivia.WF : Trivia → Bool
  | .blank b => isBlank b
  | .line body nl => isNewLine nl && body.all (fun b => !isNewLine b && b ≠ 0)
  | .block body => body.all (fun b => b ≠ 42 && b ≠ 0)

abbrev Sep := List Trivia

def Sep.bytes (s : Sep) : Bytes := s.flatMap Trivia.bytes

/-- tokens whose text is a word (identifier-like or a number): they must be followed by a
non-empty separator -/
def Tok.wordLike : Tok → Bool
  | .braceL | .braceR | .semi | .eq | .shl | .shr | .comma | .ptl | .ptr | .sqL | .sqR | .str _ => false
  | _ => true

/-- text of a token sequence, each token followed by its separator -/
def renderToks : List (Tok × Sep) → Bytes
  | [] => []
  | (t, s) :: l => t.text ++ (s.bytes ++ renderToks l)

def isDigit' (b : Byte) : Bool := 48 ≤ b.val && b.val ≤ 57

/-- an unqualified identifier: letter or `_`, then letters, digits, `_` -/
def identOK (n : Bytes) : Bool :=
  match n with
  | [] => false
  | c :: cs => isLetter c && cs.all (fun b => isLetter b || isDigit' b)

/-- a number text made of digits, `-` and `.` (decimal integers and decimal fractions) -/
def numCharsOK (t : Bytes) : Bool :=
  match t with
  | [] => false
  | c :: cs => isNumber c && cs.all (fun b => isNumber b || b = 46)

/-- side condition on a token: lexing its text gives the token back -/
def Tok.lexOK : Tok → Bool
  | .eof | .bad => false
  | .name n => identOK n && lookupKw n kwTable = .name n
  | .str s => s.all (fun b => b ≠ 34 && b ≠ 0)
  | .int t v => numCharsOK t && !t.contains 46 && parseInt0 t = some v
  | .float t => numCharsOK t && t.contains 46 && floatOk t
  | _ => true

/-- side conditions of a rendering: lexable tokens, well-formed separators, a non-empty separator
after every word-like token -/
def renderOK (l : List (Tok × Sep)) : Bool :=
  l.all fun (t, s) => t.lexOK && s.all Trivia.WF && (!t.wordLike || !s.isEmpty)

/-- the text of a program: a leading separator, then every token followed by its separator -/
def Prog.render (p : Prog) (lead : Sep) (seps : List Sep) : Bytes :=
  lead.bytes ++ renderToks (p.toks.zip seps)

/-- the struct declarations of a program, in order -/
def GDecl.struct? : GDecl → Option GStruct
  | .struct s => some s
  | _ => none

def Prog.structDecls (p : Prog) : List GStruct := p.decls.filterMap GDecl.struct?

/-- the members a struct declaration declares (declaration order) -/
def GStruct.declared (s : GStruct) : List FieldSchema := s.fields.map fun f => f.ast.schema

/-! ### Semantic side conditions of the supported language -/

/-- the type names used in a type expression -/
def GTy.names : GTy → List Bytes
  | .named n => [n]
  | .vector t => t.names
  | .map a b => a.names ++ b.names
  | _ => []

/-- the type names used in a syntax-tree type -/
def VarType.names : VarType → List Bytes
  | .named n _ => [n]
  | .vector t => t.names
  | .map a b => a.names ++ b.names
  | .array t _ => t.names
  | .prim _ _ => []

/-- "every named type is defined in the same file": unqualified and the name of a struct or enum of
the module -/
def nameDeclared (m : Module) (n : Bytes) : Bool :=
  countColon2 n = 0 && (m.structs.any (fun st => st.name = n) || m.enums.any (fun e => e.name = n))

/-- "a default by name is an enumerator of exactly one enum of the module" -/
def defaultResolvable (m : Module) (d : Bytes) : Bool :=
  (enumHits (if hasColon2 d then splitSecond d else d) m.enums).length = 1

/-- semantic side conditions of a syntax tree (single file): named types declared, name defaults
resolvable, `= earlierName` enumerators found by `genEnum`'s scan -/
def semOK (v : Variant) (f : TarsFile) : Bool :=
  let m := f.module
  f.includes.isEmpty &&
  m.structs.all (fun st => st.mb.all fun x =>
    x.type.names.all (nameDeclared m) && (!(x.dflt ≠ [] && x.defType = .name) || defaultResolvable m x.dflt)) &&
  m.interfaces.all (fun i => i.funcs.all fun fn =>
    fn.args.all (fun a => a.type.names.all (nameDeclared m)) &&
    (match fn.retType with | none => true | some t => t.names.all (nameDeclared m))) &&
  m.enums.all (fun e => enumRefsOk v e.mb)

end Tars.Idl
