/-
  Independent strict reference decoder for the Tars wire format (the oracle named by C03).
  Lean counterpart of the Go oracle `/verif/harness/codecrun/ref.go` (`RefDecoder{Strict: true}`):
  first a schema-free TLV parse into a tree, strict about lengths and the end of input, then a
  schema-directed interpretation: every member under its declared tag and an admissible wire type,
  at most once, strictly ascending tags, required members present, integers in their narrowest
  width, no unknown member, nothing after the last field.

  Written from the format description; it uses the schema *types* of `Model/Schema.lean`
  (`Ty`, `Val`, `Field`, `Env`) but none of the reader/codec code (`Reader`, `readHead`,
  `skipToNoCheck`, `decVar`, …, nor `beVal`/`toS`).  Core Lean only.

  Differences from the Go text: the Go oracle bounds recursion by a nesting depth of 200 and
  renders values as canonical text; here recursion is bounded by fuel (one unit per call, never
  exhausted on an encoding: theorem `C03_ref`) and values are `Val`s.  Map keys are compared with
  Go `==` on scalars (the Go oracle compares canonical texts).
-/
import TarsModel.Model.Schema

namespace Tars.Ref

/-- big-endian value of a byte string (left fold) -/
def beNat (bs : Bytes) : Nat := bs.foldl (fun acc b => acc * 256 + b.val) 0

/-- sign extension of a `bits`-bit unsigned value (`int8(b)`, `int16(…)`, …) -/
def sext (bits : Nat) (u : Nat) : Int :=
  if u < 2 ^ (bits - 1) then (u : Int) else (u : Int) - (2 ^ bits : Nat)

/-- one node of the schema-free parse tree (`type tlv struct` in ref.go) -/
inductive Tlv where
  | mk (tag ty : Nat) (ival : Int) (width : Nat) (bits : Nat) (str : Bytes) (kids : List Tlv)
deriving Repr, Inhabited

namespace Tlv
def tag : Tlv → Nat | mk t _ _ _ _ _ _ => t
def ty : Tlv → Nat | mk _ t _ _ _ _ _ => t
def ival : Tlv → Int | mk _ _ i _ _ _ _ => i
def width : Tlv → Nat | mk _ _ _ w _ _ _ => w
def bits : Tlv → Nat | mk _ _ _ _ b _ _ => b
def str : Tlv → Bytes | mk _ _ _ _ _ s _ => s
def kids : Tlv → List Tlv | mk _ _ _ _ _ _ k => k
end Tlv

/-- `parseHead`: type, tag, rest; an extended tag below 15 is non-canonical -/
def parseHead : Bytes → Option (Nat × Nat × Bytes)
  | [] => none
  | b :: rest =>
    let ty := b.val % 16
    let tag := b.val / 16
    if tag = 15 then
      match rest with
      | [] => none
      | b2 :: rest2 => if b2.val < 15 then none else some (ty, b2.val, rest2)
    else some (ty, tag, rest)

/-- `need` + slicing: exactly `n` bytes or failure -/
def takeN (n : Nat) (bs : Bytes) : Option (Bytes × Bytes) :=
  if n ≤ bs.length then some (bs.take n, bs.drop n) else none

/-- an integer leaf -/
def intLeaf (tag ty : Nat) (w : Nat) (p : Bytes) : Option (Tlv × Bytes) :=
  match takeN w p with
  | none => none
  | some (d, q) => some (Tlv.mk tag ty (sext (8 * w) (beNat d)) w 0 [] [], q)

/-- a float leaf -/
def fltLeaf (tag ty : Nat) (w : Nat) (p : Bytes) : Option (Tlv × Bytes) :=
  match takeN w p with
  | none => none
  | some (d, q) => some (Tlv.mk tag ty 0 0 (beNat d) [] [], q)

/-- `parseLen` applied to the result of parsing the length field: tag 0, an integer type up to
    INT, non-negative -/
def lenOf : Option (Tlv × Bytes) → Option (Nat × Bytes)
  | none => none
  | some (f, q) =>
    if f.tag ≠ 0 ∨ ¬ (f.ty = 12 ∨ f.ty ≤ 2) then none
    else if f.ival < 0 then none
    else some (f.ival.toNat, q)

mutual
/-- `parseField`; `total` is the length of the whole input (counts exceeding it are rejected
    before any allocation) -/
def parseField (total : Nat) : Nat → Bytes → Option (Tlv × Bytes)
  | 0, _ => none
  | fuel+1, bs =>
    match parseHead bs with
    | none => none
    | some (ty, tag, p) =>
      if ty = 0 then intLeaf tag ty 1 p
      else if ty = 1 then intLeaf tag ty 2 p
      else if ty = 2 then intLeaf tag ty 4 p
      else if ty = 3 then intLeaf tag ty 8 p
      else if ty = 4 then fltLeaf tag ty 4 p
      else if ty = 5 then fltLeaf tag ty 8 p
      else if ty = 6 then
        match p with
        | [] => none
        | l :: p1 =>
          match takeN l.val p1 with
          | none => none
          | some (s, q) => some (Tlv.mk tag ty 0 0 0 s [], q)
      else if ty = 7 then
        match takeN 4 p with
        | none => none
        | some (d, p1) =>
          if beNat d > total then none
          else
            match takeN (beNat d) p1 with
            | none => none
            | some (s, q) => some (Tlv.mk tag ty 0 0 0 s [], q)
      else if ty = 8 then
        match lenOf (parseField total fuel p) with
        | none => none
        | some (n, q) =>
          if n > total then none
          else
            match parsePairs total fuel n q with
            | none => none
            | some (kids, q2) => some (Tlv.mk tag ty 0 0 0 [] kids, q2)
      else if ty = 9 then
        match lenOf (parseField total fuel p) with
        | none => none
        | some (n, q) =>
          if n > total then none
          else
            match parseElems total fuel n q with
            | none => none
            | some (kids, q2) => some (Tlv.mk tag ty 0 0 0 [] kids, q2)
      else if ty = 10 then
        match parseMembers total fuel p with
        | none => none
        | some (kids, q) => some (Tlv.mk tag ty 0 0 0 [] kids, q)
      else if ty = 12 then some (Tlv.mk tag ty 0 0 0 [] [], p)
      else if ty = 13 then
        match parseHead p with
        | none => none
        | some (ty2, tag2, q) =>
          if ty2 ≠ 0 ∨ tag2 ≠ 0 then none
          else
            match lenOf (parseField total fuel q) with
            | none => none
            | some (n, q2) =>
              match takeN n q2 with
              | none => none
              | some (s, q3) => some (Tlv.mk tag ty 0 0 0 s [], q3)
      else none    -- 11: stray struct end; 14, 15: unknown wire type

/-- the element loop of a LIST: `n` fields, each with tag 0 -/
def parseElems (total : Nat) : Nat → Nat → Bytes → Option (List Tlv × Bytes)
  | 0, _, _ => none
  | fuel+1, n, p =>
    match n with
    | 0 => some ([], p)
    | n'+1 =>
      match parseField total fuel p with
      | none => none
      | some (e, q) =>
        if e.tag ≠ 0 then none
        else
          match parseElems total fuel n' q with
          | none => none
          | some (es, q2) => some (e :: es, q2)

/-- the entry loop of a MAP: `n` times a key with tag 0 and a value with tag 1; kids alternate -/
def parsePairs (total : Nat) : Nat → Nat → Bytes → Option (List Tlv × Bytes)
  | 0, _, _ => none
  | fuel+1, n, p =>
    match n with
    | 0 => some ([], p)
    | n'+1 =>
      match parseField total fuel p with
      | none => none
      | some (k, q) =>
        match parseField total fuel q with
        | none => none
        | some (v, q2) =>
          if k.tag ≠ 0 ∨ v.tag ≠ 1 then none
          else
            match parsePairs total fuel n' q2 with
            | none => none
            | some (es, q3) => some (k :: v :: es, q3)

/-- the member loop of a STRUCT: fields up to a StructEnd head, whose tag must be 0 -/
def parseMembers (total : Nat) : Nat → Bytes → Option (List Tlv × Bytes)
  | 0, _ => none
  | fuel+1, p =>
    match p with
    | [] => none
    | b :: _ =>
      if b.val % 16 = 11 then
        match parseHead p with
        | none => none
        | some (_, tg, q) => if tg ≠ 0 then none else some ([], q)
      else
        match parseField total fuel p with
        | none => none
        | some (m, q) =>
          match parseMembers total fuel q with
          | none => none
          | some (ms, q2) => some (m :: ms, q2)
end

/-- `parseFields`: the whole buffer as a sequence of fields -/
def parseTop (total : Nat) : Nat → Bytes → Option (List Tlv)
  | 0, _ => none
  | fuel+1, p =>
    match p with
    | [] => some []
    | _ :: _ =>
      match parseField total fuel p with
      | none => none
      | some (f, q) =>
        match parseTop total fuel q with
        | none => none
        | some fs => some (f :: fs)

/-! ## schema-directed interpretation (strict) -/

/-- narrowest width of a signed integer; 0 = the zero marker -/
def minWidth (v : Int) : Nat :=
  if v = 0 then 0
  else if -128 ≤ v ∧ v ≤ 127 then 1
  else if -32768 ≤ v ∧ v ≤ 32767 then 2
  else if -2147483648 ≤ v ∧ v ≤ 2147483647 then 4
  else 8

/-- `intRange`: lo, hi, widest admissible field for an integer kind -/
def intRange : Ty → Option (Int × Int × Nat)
  | .i8 => some (-128, 127, 1)
  | .u8 => some (0, 255, 2)
  | .i16 => some (-32768, 32767, 2)
  | .u16 => some (0, 65535, 4)
  | .i32 => some (-2147483648, 2147483647, 4)
  | .enum => some (-2147483648, 2147483647, 4)
  | .u32 => some (0, 4294967295, 8)
  | .i64 => some (-9223372036854775808, 9223372036854775807, 8)
  | _ => none

/-- an integer-typed field: admissible wire type, width, range, narrowest width -/
def interpInt (ty : Ty) (f : Tlv) : Option Val :=
  if ¬ (f.ty = 12 ∨ f.ty ≤ 3) then none
  else
    match intRange ty with
    | none => none
    | some (lo, hi, maxw) =>
      if f.width > maxw then none
      else if f.ival < lo ∨ f.ival > hi then none
      else if f.width ≠ minWidth f.ival then none
      else some (.int f.ival)

def interpBool (f : Tlv) : Option Val :=
  if ¬ (f.ty = 12 ∨ f.ty ≤ 3) then none
  else if f.width > 1 then none
  else if f.ival ≠ 0 ∧ f.ival ≠ 1 then none
  else some (.bool (f.ival ≠ 0))

/-- Go `==` on two decoded map keys of scalar kind (anything else: never equal) -/
def goEq : Val → Val → Bool
  | .int a, .int b => a == b
  | .bool a, .bool b => a == b
  | .str a, .str b => a == b
  | .f32 a, .f32 b =>
    let nan (x : Nat) : Bool := (x / 2 ^ 23) % 256 == 255 && x % 2 ^ 23 != 0
    !nan a && !nan b && (a == b || (a % 2 ^ 31 == 0 && b % 2 ^ 31 == 0))
  | .f64 a, .f64 b =>
    let nan (x : Nat) : Bool := (x / 2 ^ 52) % 2048 == 2047 && x % 2 ^ 52 != 0
    !nan a && !nan b && (a == b || (a % 2 ^ 63 == 0 && b % 2 ^ 63 == 0))
  | _, _ => false

/-- `ZeroText` / `DefaultText`: the value of an absent optional member without explicit default;
    a struct is the struct of its members' defaults (fuel: struct nesting) -/
def zeroRef (env : Env) : Nat → Ty → Val
  | _, .bool => .bool false
  | _, .f32 => .f32 0
  | _, .f64 => .f64 0
  | _, .str => .str []
  | _, .vec _ => .list []
  | fuel, .arr n e => .list (List.replicate n (zeroRef env fuel e))
  | _, .map _ _ => .map []
  | 0, .struct _ => .struct []
  | fuel+1, .struct name =>
    match env.find name with
    | none => .struct []
    | some fs => .struct (fs.map fun f => match f.dflt with
        | some d => d
        | none => zeroRef env fuel f.ty)
  | _, _ => .int 0
termination_by fuel ty => (fuel, sizeOf ty)
decreasing_by all_goals simp_wf <;> first | (apply Prod.Lex.right; omega) | (apply Prod.Lex.left; omega)

/-- members' tags strictly ascending (`last` starts at −1) -/
def ascending : Int → List Tlv → Bool
  | _, [] => true
  | last, m :: ms => decide ((m.tag : Int) > last) && ascending (m.tag : Int) ms

mutual
/-- `interp`: the value of a field of declared type `ty` -/
def interp (env : Env) : Nat → Ty → Tlv → Option Val
  | 0, _, _ => none
  | fuel+1, ty, f =>
    match ty with
    | .bool => interpBool f
    | .f32 => if f.ty ≠ 4 then none else some (.f32 f.bits)
    | .f64 => if f.ty ≠ 5 then none else some (.f64 f.bits)
    | .str =>
      if f.ty ≠ 6 ∧ f.ty ≠ 7 then none
      else if decide (f.ty = 7) ≠ decide (f.str.length > 255) then none
      else some (.str f.str)
    | .vec e =>
      if f.ty = 13 then
        if e = .i8 then some (.list (f.str.map fun c => Val.int (sext 8 c.val)))
        else if e = .u8 then some (.list (f.str.map fun c => Val.int (c.val : Nat)))
        else none
      else if f.ty = 9 then
        if e = .i8 then none    -- vector<byte> must be a simple list
        else
          match interpElems env fuel e f.kids with
          | none => none
          | some vs => some (.list vs)
      else none
    | .arr n e =>
      if f.ty = 9 then
        match interpElems env fuel e f.kids with
        | none => none
        | some vs => if vs.length ≠ n then none else some (.list vs)
      else none     -- a simple list is inadmissible for an array
    | .map k v =>
      if f.ty ≠ 8 then none
      else
        match interpPairs env fuel k v f.kids [] with
        | none => none
        | some kvs => some (.map kvs)
    | .struct name =>
      if f.ty ≠ 10 then none
      else
        match env.find name with
        | none => none
        | some fs =>
          if !ascending (-1) f.kids then none
          else
            match interpFields env fuel fs f.kids with
            | none => none
            | some vs => some (.struct vs)
    | t => interpInt t f

def interpElems (env : Env) : Nat → Ty → List Tlv → Option (List Val)
  | 0, _, _ => none
  | fuel+1, e, ks =>
    match ks with
    | [] => some []
    | k :: ks' =>
      match interp env fuel e k with
      | none => none
      | some v =>
        match interpElems env fuel e ks' with
        | none => none
        | some vs => some (v :: vs)

/-- entries in wire order; a duplicate key is an error -/
def interpPairs (env : Env) : Nat → Ty → Ty → List Tlv → List (Val × Val) → Option (List (Val × Val))
  | 0, _, _, _, _ => none
  | fuel+1, k, v, ks, acc =>
    match ks with
    | kf :: vf :: ks' =>
      match interp env fuel k kf with
      | none => none
      | some a =>
        match interp env fuel v vf with
        | none => none
        | some b =>
          if acc.any (fun p => goEq p.1 a) then none
          else interpPairs env fuel k v ks' (acc ++ [(a, b)])
    | _ => some acc

/-- `interpStruct` after the ascending check: members (strictly ascending tags) against the
    declared members (strictly ascending tags): each declared member takes the member carrying its
    tag, or is absent (error if required, else its default); a member that no declared member takes
    (unknown tag or out of order) is an error -/
def interpFields (env : Env) : Nat → List Field → List Tlv → Option (List Val)
  | 0, _, _ => none
  | fuel+1, fs, ms =>
    match fs with
    | [] =>
      match ms with
      | [] => some []
      | _ :: _ => none
    | f :: fs' =>
      let absent : Option (List Tlv × Val) :=
        if f.req then none
        else some (ms, match f.dflt with
          | some d => d
          | none => zeroRef env (env.length + 1) f.ty)
      let here : Option (List Tlv × Val) :=
        match ms with
        | m :: ms' =>
          if m.tag = f.tag then
            match interp env fuel f.ty m with
            | none => none
            | some v => some (ms', v)
          else absent
        | [] => absent
      match here with
      | none => none
      | some (rest, v) =>
        match interpFields env fuel fs' rest with
        | none => none
        | some vs => some (v :: vs)
end

/-- fuel for a buffer of `n` bytes under schema `env` -/
def refFuel (env : Env) (n : Nat) : Nat := (env.width + 3) * (n + 2)

/-- `RefDecoder{Strict: true}.Decode`: a struct body as produced by `WriteTo` -/
def decRef (env : Env) (S : String) (b : Bytes) : Option Val :=
  match env.find S with
  | none => none
  | some fs =>
    match parseTop b.length (b.length + 2) b with
    | none => none
    | some ms =>
      if !ascending (-1) ms then none
      else
        match interpFields env (refFuel env b.length) fs ms with
        | none => none
        | some vs => some (.struct vs)

end Tars.Ref
