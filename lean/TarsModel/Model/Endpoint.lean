/-
  Model of package `tars/util/endpoint` (C18):

    * `Parse`                       (parse.go)     → `parse`
    * `Endpoint.String`             (endpoint.go)  → `Endpoint.string`
    * `Tars2endpoint/Endpoint2tars` (convert.go)   → `tars2endpoint`, `endpoint2tars`

  together with a literal re-implementation of the parts of the Go standard library that `Parse`
  runs its argument through (validated by correspondence, stream `endpoint`):

    * `strings.Fields`   (ASCII fast path and the `FieldsFunc(s, unicode.IsSpace)` path with Go's
                          UTF-8 decoding of `for _, r := range s`)          → `fields`
    * `flag.FlagSet.Parse` / `parseOne` for non-boolean flags, `ContinueOnError`   → `parseArgs`
    * `flag.intValue.Set` = `strconv.ParseInt(s, 0, 64)` incl. sign, base prefixes, underscores,
      range errors (the value IS stored when Set fails)        → `parseInt`, `parseUint0`, `underscoreOK`
    * `fmt` verb `%d`                                          → `fmtInt`

  Go strings are byte strings: `Bytes`.  `int` is 64 bit (the harness refuses to run otherwise).
  A Go panic is an explicit outcome (`Outcome.panic`).  Core Lean only.
-/
import TarsModel.Model.Bytes
import TarsModel.Generated.Consts

namespace Tars.Endpoint
open Tars

/-- byte literal -/
abbrev B (n : Nat) (h : n < 256 := by decide) : Byte := ⟨n, h⟩

/-! ## strings.Fields -/

/-- `asciiSpace` of package strings: `\t \n \v \f \r` and space -/
def isAsciiSpace (b : Byte) : Bool := (9 ≤ b.val && b.val ≤ 13) || b.val = 32

/-- field splitting with the current (non-empty when inside a field) token `cur`: the ASCII loop
    of `strings.Fields` (`fieldStart`/`i`) written as a fold -/
def fieldsAux : Bytes → Bytes → List Bytes
  | [], cur => if cur = [] then [] else [cur]
  | b :: rest, cur =>
    if isAsciiSpace b then
      (if cur = [] then fieldsAux rest [] else cur :: fieldsAux rest [])
    else fieldsAux rest (cur ++ [b])

/-- ASCII fast path of `strings.Fields` -/
def fieldsAscii (s : Bytes) : List Bytes := fieldsAux s []

/-- UTF-8 continuation byte -/
def isCont (b : Byte) : Bool := 128 ≤ b.val && b.val ≤ 191

/-- one step of Go's `for _, r := range s` (= `utf8.DecodeRuneInString`): the rune at the head
    `b0 :: rest` and the number of bytes consumed *after* `b0`.  Every malformed, truncated,
    over-long or surrogate sequence yields `U+FFFD` with width 1. -/
def decodeRune (b0 : Byte) (rest : Bytes) : Nat × Nat :=
  let x := b0.val
  if x < 128 then (x, 0)
  else if 194 ≤ x ∧ x ≤ 223 then
    match rest with
    | b1 :: _ => if isCont b1 then ((x % 32) * 64 + b1.val % 64, 1) else (65533, 0)
    | [] => (65533, 0)
  else if 224 ≤ x ∧ x ≤ 239 then
    match rest with
    | b1 :: b2 :: _ =>
      let lo := if x = 224 then 160 else 128
      let hi := if x = 237 then 159 else 191
      if lo ≤ b1.val ∧ b1.val ≤ hi ∧ isCont b2 then
        ((x % 16) * 4096 + (b1.val % 64) * 64 + b2.val % 64, 2)
      else (65533, 0)
    | _ => (65533, 0)
  else if 240 ≤ x ∧ x ≤ 244 then
    match rest with
    | b1 :: b2 :: b3 :: _ =>
      let lo := if x = 240 then 144 else 128
      let hi := if x = 244 then 143 else 191
      if lo ≤ b1.val ∧ b1.val ≤ hi ∧ isCont b2 ∧ isCont b3 then
        ((x % 8) * 262144 + (b1.val % 64) * 4096 + (b2.val % 64) * 64 + b3.val % 64, 3)
      else (65533, 0)
    | _ => (65533, 0)
  else (65533, 0)

/-- `unicode.IsSpace` -/
def isSpaceRune (r : Nat) : Bool :=
  (9 ≤ r && r ≤ 13) || r = 32 || r = 133 || r = 160 || r = 5760 || (8192 ≤ r && r ≤ 8202) ||
  r = 8232 || r = 8233 || r = 8239 || r = 8287 || r = 12288

/-- `strings.FieldsFunc(s, unicode.IsSpace)`; `cur` = bytes of the field being collected -/
def fieldsUniAux (s : Bytes) (cur : Bytes) : List Bytes :=
  match s with
  | [] => if cur = [] then [] else [cur]
  | b :: rest =>
    let rw := decodeRune b rest
    if isSpaceRune rw.1 then
      (if cur = [] then fieldsUniAux (rest.drop rw.2) [] else cur :: fieldsUniAux (rest.drop rw.2) [])
    else fieldsUniAux (rest.drop rw.2) (cur ++ b :: rest.take rw.2)
termination_by s.length
decreasing_by all_goals (simp only [List.length_drop, List.length_cons]; omega)

def fieldsUnicode (s : Bytes) : List Bytes := fieldsUniAux s []

/-- all bytes below `utf8.RuneSelf` (`setBits < 0x80`) -/
def allAscii (s : Bytes) : Bool := s.all (fun b => b.val < 128)

/-- `strings.Fields` -/
def fields (s : Bytes) : List Bytes :=
  if allAscii s then fieldsAscii s else fieldsUnicode s

/-! ## strconv.ParseInt(s, 0, 64) -/

def maxUint64 : Nat := 2 ^ 64 - 1

/-- `lower(c) = c | ('x' - 'X')` -/
def lower (c : Nat) : Nat := c ||| 32

inductive LoopRes where
  | done (n : Nat) (underscores : Bool)
  | syntaxErr
  | rangeErr
  deriving Repr, DecidableEq

/-- value of a digit byte in `ParseUint`'s loop (`none` = syntax error) -/
def digitVal (c : Nat) : Option Nat :=
  if 48 ≤ c ∧ c ≤ 57 then some (c - 48)
  else if 97 ≤ lower c ∧ lower c ≤ 122 then some (lower c - 97 + 10)
  else none

/-- the digit loop of `strconv.ParseUint` (`base0` = the base argument was 0, bitSize 64) -/
def uintLoop (base : Nat) (base0 : Bool) : Bytes → Nat → Bool → LoopRes
  | [], n, us => .done n us
  | c :: cs, n, us =>
    if c.val = 95 ∧ base0 = true then uintLoop base base0 cs n true
    else
      match digitVal c.val with
      | none => .syntaxErr
      | some d =>
        if d ≥ base then .syntaxErr
        else if n ≥ maxUint64 / base + 1 then .rangeErr
        else if n * base + d > maxUint64 then .rangeErr
        else uintLoop base base0 cs (n * base + d) us

inductive Saw where
  | start | digit | underscore | other
  deriving DecidableEq, Repr

/-- main loop of `strconv.underscoreOK` -/
def underscoreLoop (hex : Bool) : Bytes → Saw → Bool
  | [], saw => saw != .underscore
  | c :: cs, saw =>
    if (48 ≤ c.val ∧ c.val ≤ 57) ∨ (hex = true ∧ 97 ≤ lower c.val ∧ lower c.val ≤ 102) then
      underscoreLoop hex cs .digit
    else if c.val = 95 then
      (if saw != .digit then false else underscoreLoop hex cs .underscore)
    else if saw == .underscore then false
    else underscoreLoop hex cs .other

/-- `strconv.underscoreOK` -/
def underscoreOK (s : Bytes) : Bool :=
  let s := match s with
    | c :: r => if c.val = 45 ∨ c.val = 43 then r else s
    | [] => s
  match s with
  | c0 :: c1 :: r =>
    if c0.val = 48 ∧ (lower c1.val = 98 ∨ lower c1.val = 111 ∨ lower c1.val = 120) then
      underscoreLoop (lower c1.val = 120) r .digit
    else underscoreLoop false s .start
  | _ => underscoreLoop false s .start

inductive UintRes where
  | ok (n : Nat)
  | syntaxErr
  | rangeErr
  deriving Repr, DecidableEq

/-- base and digit string chosen by `ParseUint` for base argument 0 (`s` non-empty) -/
def basePrefix (s : Bytes) : Nat × Bytes :=
  match s with
  | c0 :: c1 :: c2 :: r =>
    if c0.val = 48 then
      if lower c1.val = 98 then (2, c2 :: r)
      else if lower c1.val = 111 then (8, c2 :: r)
      else if lower c1.val = 120 then (16, c2 :: r)
      else (8, c1 :: c2 :: r)
    else (10, s)
  | c0 :: r => if c0.val = 48 then (8, r) else (10, s)
  | [] => (10, s)

/-- `strconv.ParseUint(s, 0, 64)` -/
def parseUint0 (s : Bytes) : UintRes :=
  if s = [] then .syntaxErr
  else
    let bp := basePrefix s
    match uintLoop bp.1 true bp.2 0 false with
    | .syntaxErr => .syntaxErr
    | .rangeErr => .rangeErr
    | .done n us => if us = true ∧ underscoreOK s = false then .syntaxErr else .ok n

inductive NumErr where
  | syntax | range
  deriving Repr, DecidableEq

/-- `strconv.ParseInt(s, 0, 64)`: returned value and error class -/
def parseInt (s : Bytes) : Int × Option NumErr :=
  match s with
  | [] => (0, some .syntax)
  | c :: r =>
    let neg : Bool := c.val = 45
    let body := if c.val = 43 ∨ c.val = 45 then r else s
    match parseUint0 body with
    | .syntaxErr => (0, some .syntax)
    | .rangeErr => (if neg then -(2 : Int) ^ 63 else (2 : Int) ^ 63 - 1, some .range)
    | .ok un =>
      if neg = false ∧ un ≥ 2 ^ 63 then ((2 : Int) ^ 63 - 1, some .range)
      else if neg = true ∧ un > 2 ^ 63 then (-(2 : Int) ^ 63, some .range)
      else (if neg then -(un : Int) else (un : Int), none)

/-! ## fmt %d -/

/-- decimal digits of a natural number, most significant first -/
def natDigits (n : Nat) : Bytes :=
  if n < 10 then [byte (48 + n)] else natDigits (n / 10) ++ [byte (48 + n % 10)]
termination_by n
decreasing_by omega

/-- `fmt.Sprintf("%d", v)` -/
def fmtInt (v : Int) : Bytes :=
  if v < 0 then B 45 :: natDigits v.natAbs else natDigits v.toNat

/-! ## flag.FlagSet -/

/-- the variables `Parse` binds its flags to -/
structure Flags where
  host : Bytes
  port : Int
  timeout : Int
  grid : Int
  qos : Int
  weight : Int
  weightType : Int
  authType : Int
  bind : Bytes
  deriving Repr, DecidableEq

/-- the defaults given in the `StringVar/IntVar` calls (regenerated from parse.go) -/
def defaultFlags : Flags :=
  { host := [], port := (Consts.epDefPort : Int), timeout := (Consts.epDefTimeout : Int),
    grid := (Consts.epDefGrid : Int), qos := (Consts.epDefQos : Int),
    weight := (Consts.epDefWeight : Int), weightType := (Consts.epDefWeightType : Int),
    authType := (Consts.epDefAuthType : Int), bind := [] }

inductive Flag where
  | host | port | timeout | grid | qos | weight | weightType | authType | bind
  deriving DecidableEq, Repr

/-- `f.formal[name]`: the flag table (names regenerated from parse.go; the extractor checks that
    they are nine distinct one-byte names) -/
def lookup (name : Bytes) : Option Flag :=
  match name with
  | [b] =>
    if b.val = Consts.epNameHost then some .host
    else if b.val = Consts.epNamePort then some .port
    else if b.val = Consts.epNameTimeout then some .timeout
    else if b.val = Consts.epNameGrid then some .grid
    else if b.val = Consts.epNameQos then some .qos
    else if b.val = Consts.epNameWeight then some .weight
    else if b.val = Consts.epNameWeightType then some .weightType
    else if b.val = Consts.epNameAuthType then some .authType
    else if b.val = Consts.epNameBind then some .bind
    else none
  | _ => none

/-- `flag.Value.Set`: new variables and whether Set succeeded.  `intValue.Set` stores the value
    returned by `ParseInt` even when it reports an error (0 on a syntax error, the int64 bound on a
    range error). -/
def Flag.set (f : Flag) (st : Flags) (v : Bytes) : Flags × Bool :=
  match f with
  | .host => ({ st with host := v }, true)
  | .bind => ({ st with bind := v }, true)
  | .port => let r := parseInt v; ({ st with port := r.1 }, r.2.isNone)
  | .timeout => let r := parseInt v; ({ st with timeout := r.1 }, r.2.isNone)
  | .grid => let r := parseInt v; ({ st with grid := r.1 }, r.2.isNone)
  | .qos => let r := parseInt v; ({ st with qos := r.1 }, r.2.isNone)
  | .weight => let r := parseInt v; ({ st with weight := r.1 }, r.2.isNone)
  | .weightType => let r := parseInt v; ({ st with weightType := r.1 }, r.2.isNone)
  | .authType => let r := parseInt v; ({ st with authType := r.1 }, r.2.isNone)

/-- why `FlagSet.Parse` stopped (the error is discarded by `endpoint.Parse`; kept for coverage) -/
inductive Stop where
  | endOfArgs | nonFlag | terminator | badSyntax | undefined | help | needsArg | invalidValue
  deriving DecidableEq, Repr

/-- the `for i := 1; i < len(name); i++ { if name[i] == '=' …` split of `parseOne`, applied to the
    bytes after the first one -/
def splitEqAux : Bytes → Bytes × Option Bytes
  | [] => ([], none)
  | b :: bs =>
    if b.val = 61 then ([], some bs)
    else let r := splitEqAux bs; (b :: r.1, r.2)

/-- name and optional `=value` part of a flag argument (dashes already removed, non-empty) -/
def splitEq : Bytes → Bytes × Option Bytes
  | [] => ([], none)
  | c :: rest => let r := splitEqAux rest; (c :: r.1, r.2)

def sHelp : Bytes := [B 104, B 101, B 108, B 112]

/-- `FlagSet.Parse` (loop over `parseOne`) with `ContinueOnError`: final variables and stop reason -/
def parseArgs : List Bytes → Flags → Flags × Stop
  | [], st => (st, .endOfArgs)
  | s :: rest, st =>
    match s with
    | c0 :: c1 :: tl =>
      if c0.val ≠ 45 then (st, .nonFlag)
      else if c1.val = 45 ∧ tl = [] then (st, .terminator)
      else
        let name := if c1.val = 45 then tl else c1 :: tl
        match name with
        | [] => (st, .badSyntax)
        | n0 :: _ =>
          if n0.val = 45 ∨ n0.val = 61 then (st, .badSyntax)
          else
            let nv := splitEq name
            match lookup nv.1 with
            | none => (st, if nv.1 = sHelp ∨ nv.1 = [B 104] then .help else .undefined)
            | some fl =>
              match nv.2 with
              | some v =>
                let r := fl.set st v
                if r.2 then parseArgs rest r.1 else (r.1, .invalidValue)
              | none =>
                match rest with
                | [] => (st, .needsArg)
                | v :: rest' =>
                  let r := fl.set st v
                  if r.2 then parseArgs rest' r.1 else (r.1, .invalidValue)
    | _ => (st, .nonFlag)
termination_by structural args => args

/-! ## Endpoint -/

/-- `endpoint.Endpoint` (all int32 members as `Int` within the int32 range by construction) -/
structure Endpoint where
  host : Bytes
  port : Int
  timeout : Int
  istcp : Int
  grid : Int
  qos : Int
  weight : Int
  weightType : Int
  authType : Int
  proto : Bytes
  bind : Bytes
  container : Bytes
  setId : Bytes
  key : Bytes
  deriving Repr, DecidableEq

/-- the zero value `Endpoint{}` -/
def Endpoint.zero : Endpoint :=
  { host := [], port := 0, timeout := 0, istcp := 0, grid := 0, qos := 0, weight := 0,
    weightType := 0, authType := 0, proto := [], bind := [], container := [], setId := [], key := [] }

def sTcp : Bytes := [B 116, B 99, B 112]
def sUdp : Bytes := [B 117, B 100, B 112]
def sSsl : Bytes := [B 115, B 115, B 108]
/-- `" -h "`, `" -p "`, `" -t "` of the format string of `String()` -/
def sDashH : Bytes := [B 32, B 45, B 104, B 32]
def sDashP : Bytes := [B 32, B 45, B 112, B 32]
def sDashT : Bytes := [B 32, B 45, B 116, B 32]

/-- `Endpoint.String`: `fmt.Sprintf("%s -h %s -p %d -t %d", e.Proto, e.Host, e.Port, e.Timeout)` -/
def Endpoint.string (e : Endpoint) : Bytes :=
  e.proto ++ sDashH ++ e.host ++ sDashP ++ fmtInt e.port ++ sDashT ++ fmtInt e.timeout

/-- Go `int32(x)` on an `int` -/
def toI32 (v : Int) : Int := wrapS 32 v

/-- the part of `Parse` after flag parsing: transport kind, weight normalisation (on the 64-bit
    `int` values, before the conversion to int32), struct literal, `Key` -/
def finish (proto : Bytes) (f : Flags) : Endpoint :=
  let isTcp : Int :=
    if proto = sTcp then (Consts.epIstcpOfTcp : Int)
    else if proto = sSsl then (Consts.epIstcpOfSsl : Int)
    else (Consts.epIstcpOfOther : Int)
  let proto' := if proto = sSsl then sTcp else proto
  let weight :=
    if f.weightType ≠ 0 ∧ (f.weight = (Consts.epWeightUnset : Int) ∨ f.weight > (Consts.epWeightMax : Int)) then
      (Consts.epWeightCap : Int)
    else f.weight
  let e : Endpoint :=
    { host := f.host, port := toI32 f.port, timeout := toI32 f.timeout, istcp := isTcp,
      grid := toI32 f.grid, qos := toI32 f.qos, weight := toI32 weight,
      weightType := toI32 f.weightType, authType := toI32 f.authType, proto := proto',
      bind := f.bind, container := [], setId := [], key := [] }
  { e with key := e.string }

/-- as found in the tree at round 0 / with the guard proposed in pending/C18-parse-guard.patch -/
inductive Variant where
  | asFound | repaired
  deriving DecidableEq, Repr

inductive Outcome where
  | panic (site : String)
  | ok (e : Endpoint)
  deriving Repr, DecidableEq

/-- `Parse` after its guard: `proto := endpoint[0:N]` (panics when shorter) and
    `strings.Fields(endpoint)[1:]` (panics when there is no field) -/
def parseCore (s : Bytes) : Outcome :=
  if s.length < Consts.epProtoLen then .panic "slice-proto"
  else
    match fields s with
    | [] => .panic "slice-fields"
    | _ :: args => .ok (finish (s.take Consts.epProtoLen) (parseArgs args defaultFlags).1)

/-- `endpoint.Parse`.  `repaired`: `if len(endpoint) < 3 || len(fields) == 0 { return Endpoint{} }`
    in front of the unchanged body. -/
def parse (v : Variant) (s : Bytes) : Outcome :=
  match v with
  | .asFound => parseCore s
  | .repaired =>
    if s.length < Consts.epProtoLen ∨ fields s = [] then .ok Endpoint.zero else parseCore s

/-- the variant the regenerated constants say the current tree is -/
def treeVariant : Variant := if Consts.epParseGuarded = 1 then .repaired else .asFound

/-! ## convert.go -/

/-- the members of `endpointf.EndpointF` that the conversions read or write -/
structure EndpointF where
  host : Bytes
  port : Int
  timeout : Int
  istcp : Int
  grid : Int
  qos : Int
  weight : Int
  weightType : Int
  authType : Int
  setId : Bytes
  deriving Repr, DecidableEq

/-- `Tars2endpoint` -/
def tars2endpoint (f : EndpointF) : Endpoint :=
  let proto := if f.istcp = (Consts.epUDP : Int) then sUdp else sTcp
  let e : Endpoint :=
    { host := f.host, port := f.port, timeout := f.timeout, istcp := f.istcp, grid := f.grid,
      qos := f.qos, weight := f.weight, weightType := f.weightType, authType := f.authType,
      proto := proto, bind := [], container := [], setId := f.setId, key := [] }
  { e with key := e.string }

/-- `Endpoint2tars` -/
def endpoint2tars (e : Endpoint) : EndpointF :=
  { host := e.host, port := e.port, timeout := e.timeout, istcp := e.istcp, grid := e.grid,
    qos := e.qos, weight := e.weight, weightType := e.weightType, authType := e.authType,
    setId := e.setId }

/-! ## Endpoint descriptions (Appendix C of DESIGN.md): what the C18 theorems quantify over -/

/-- one option with its value -/
inductive Opt where
  | h (v : Bytes) | p (v : Int) | t (v : Int) | g (v : Int) | q (v : Int)
  | w (v : Int) | v (v : Int) | e (v : Int) | b (v : Bytes)
  deriving Repr, DecidableEq

def Opt.flag : Opt → Flag
  | .h _ => .host | .p _ => .port | .t _ => .timeout | .g _ => .grid | .q _ => .qos
  | .w _ => .weight | .v _ => .weightType | .e _ => .authType | .b _ => .bind

/-- the flag's name byte (from the regenerated table) -/
def Flag.letter : Flag → Byte
  | .host => byte Consts.epNameHost | .port => byte Consts.epNamePort
  | .timeout => byte Consts.epNameTimeout | .grid => byte Consts.epNameGrid
  | .qos => byte Consts.epNameQos | .weight => byte Consts.epNameWeight
  | .weightType => byte Consts.epNameWeightType | .authType => byte Consts.epNameAuthType
  | .bind => byte Consts.epNameBind

/-- textual value of an option -/
def Opt.text : Opt → Bytes
  | .h x => x | .b x => x
  | .p x => fmtInt x | .t x => fmtInt x | .g x => fmtInt x | .q x => fmtInt x
  | .w x => fmtInt x | .v x => fmtInt x | .e x => fmtInt x

/-- the four spellings `flag` accepts: `-x v`, `--x v`, `-x=v`, `--x=v` -/
inductive Form where
  | plain | dd | eq | ddeq
  deriving Repr, DecidableEq

/-- an option as written: blanks before it, spelling, blanks between flag and value (unused by the
    `=` spellings) -/
structure Item where
  opt : Opt
  form : Form
  sep : Bytes
  sep2 : Bytes
  deriving Repr, DecidableEq

def Form.dashes : Form → Bytes
  | .plain => [B 45] | .eq => [B 45] | .dd => [B 45, B 45] | .ddeq => [B 45, B 45]

/-- the item as (preceding blanks, token) pairs -/
def Item.pairs (it : Item) : List (Bytes × Bytes) :=
  let fl := it.form.dashes ++ [it.opt.flag.letter]
  match it.form with
  | .plain => [(it.sep, fl), (it.sep2, it.opt.text)]
  | .dd => [(it.sep, fl), (it.sep2, it.opt.text)]
  | .eq => [(it.sep, fl ++ B 61 :: it.opt.text)]
  | .ddeq => [(it.sep, fl ++ B 61 :: it.opt.text)]

inductive Proto where
  | tcp | udp | ssl
  deriving Repr, DecidableEq

def Proto.bytes : Proto → Bytes
  | .tcp => sTcp | .udp => sUdp | .ssl => sSsl

/-- `desc := proto (sep opt)* blanks` -/
structure Desc where
  proto : Proto
  items : List Item
  trail : Bytes
  deriving Repr, DecidableEq

def renderPairs (ps : List (Bytes × Bytes)) : Bytes := ps.flatMap (fun p => p.1 ++ p.2)

/-- the endpoint string described by `d` -/
def render (d : Desc) : Bytes :=
  d.proto.bytes ++ renderPairs (d.items.flatMap Item.pairs) ++ d.trail

/-- assignment performed by a successfully parsed option -/
def Flags.apply (st : Flags) : Opt → Flags
  | .h x => { st with host := x }
  | .p x => { st with port := x }
  | .t x => { st with timeout := x }
  | .g x => { st with grid := x }
  | .q x => { st with qos := x }
  | .w x => { st with weight := x }
  | .v x => { st with weightType := x }
  | .e x => { st with authType := x }
  | .b x => { st with bind := x }

/-- the variables after all options of `d`, applied left to right to the defaults -/
def Desc.flags (d : Desc) : Flags := d.items.foldl (fun st it => st.apply it.opt) defaultFlags

/-- the endpoint a description denotes -/
def Desc.endpoint (d : Desc) : Endpoint := finish d.proto.bytes d.flags

/-- the options of a description in the order written -/
def Desc.opts (d : Desc) : List Opt := d.items.map (·.opt)

/-- value of an option / of a flag variable, for statements that range over all nine flags -/
inductive Val where
  | str (s : Bytes)
  | int (n : Int)
  deriving Repr, DecidableEq

def Opt.val : Opt → Val
  | .h x => .str x | .b x => .str x
  | .p x => .int x | .t x => .int x | .g x => .int x | .q x => .int x
  | .w x => .int x | .v x => .int x | .e x => .int x

/-- the variable bound to a flag -/
def Flags.get (st : Flags) : Flag → Val
  | .host => .str st.host | .bind => .str st.bind
  | .port => .int st.port | .timeout => .int st.timeout | .grid => .int st.grid | .qos => .int st.qos
  | .weight => .int st.weight | .weightType => .int st.weightType | .authType => .int st.authType

end Tars.Endpoint
