/-
  Executable MD5 (RFC 1321) over `Nat` bytes, core Lean only.

  Used by the consistent-hash driver to compute the Ketama ring points itself (an independent
  ring); it mirrors what `crypto/md5.Sum` returns and is validated against it by the C14 harness
  (stream `md5`).  Written with structural recursion on lists and plain `Nat` arithmetic so that
  small instances also reduce inside the kernel (`decide`) for the concrete collision witness.
-/
namespace Tars.MD5

def mask32 : Nat := 4294967295
def two32 : Nat := 4294967296

@[inline] def add32 (a b : Nat) : Nat := (a + b) % two32
@[inline] def not32 (a : Nat) : Nat := mask32 - a % two32
@[inline] def rotl32 (x c : Nat) : Nat := ((x <<< c) % two32) ||| (x >>> (32 - c))

/-- per-round left-rotation amounts -/
def sTable : List Nat :=
  [7, 12, 17, 22, 7, 12, 17, 22, 7, 12, 17, 22, 7, 12, 17, 22,
   5, 9, 14, 20, 5, 9, 14, 20, 5, 9, 14, 20, 5, 9, 14, 20,
   4, 11, 16, 23, 4, 11, 16, 23, 4, 11, 16, 23, 4, 11, 16, 23,
   6, 10, 15, 21, 6, 10, 15, 21, 6, 10, 15, 21, 6, 10, 15, 21]

/-- `floor(2^32 * |sin(i+1)|)` -/
def kTable : List Nat :=
  [0xd76aa478, 0xe8c7b756, 0x242070db, 0xc1bdceee, 0xf57c0faf, 0x4787c62a, 0xa8304613, 0xfd469501,
   0x698098d8, 0x8b44f7af, 0xffff5bb1, 0x895cd7be, 0x6b901122, 0xfd987193, 0xa679438e, 0x49b40821,
   0xf61e2562, 0xc040b340, 0x265e5a51, 0xe9b6c7aa, 0xd62f105d, 0x02441453, 0xd8a1e681, 0xe7d3fbc8,
   0x21e1cde6, 0xc33707d6, 0xf4d50d87, 0x455a14ed, 0xa9e3e905, 0xfcefa3f8, 0x676f02d9, 0x8d2a4c8a,
   0xfffa3942, 0x8771f681, 0x6d9d6122, 0xfde5380c, 0xa4beea44, 0x4bdecfa9, 0xf6bb4b60, 0xbebfbc70,
   0x289b7ec6, 0xeaa127fa, 0xd4ef3085, 0x04881d05, 0xd9d4d039, 0xe6db99e5, 0x1fa27cf8, 0xc4ac5665,
   0xf4292244, 0x432aff97, 0xab9423a7, 0xfc93a039, 0x655b59c3, 0x8f0ccc92, 0xffeff47d, 0x85845dd1,
   0x6fa87e4f, 0xfe2ce6e0, 0xa3014314, 0x4e0811a1, 0xf7537e82, 0xbd3af235, 0x2ad7d2bb, 0xeb86d391]

/-- (round index, shift, constant) for the 64 rounds -/
def rounds : List (Nat × Nat × Nat) :=
  (List.range 64).zip (sTable.zip kTable)

structure St where
  a : Nat
  b : Nat
  c : Nat
  d : Nat
deriving Repr, DecidableEq

def init : St := ⟨0x67452301, 0xefcdab89, 0x98badcfe, 0x10325476⟩

/-- little-endian 32-bit word from four bytes -/
@[inline] def le32 (b0 b1 b2 b3 : Nat) : Nat := b0 + b1 * 256 + b2 * 65536 + b3 * 16777216

/-- the sixteen message words of one 64-byte block -/
def wordsOf : List Nat → List Nat
  | b0 :: b1 :: b2 :: b3 :: rest => le32 b0 b1 b2 b3 :: wordsOf rest
  | _ => []

/-- word `g` of the block; blocks always have 16 words and `g < 16`, a miss is reported as 0 only
    for totality and never happens (`g` is reduced mod 16 below) -/
def word (m : List Nat) (g : Nat) : Nat :=
  match m[g]? with
  | some w => w
  | none => 0

def step (m : List Nat) (s : St) (r : Nat × Nat × Nat) : St :=
  let i := r.1
  let sh := r.2.1
  let k := r.2.2
  let fg : Nat × Nat :=
    if i < 16 then ((s.b &&& s.c) ||| (not32 s.b &&& s.d), i)
    else if i < 32 then ((s.d &&& s.b) ||| (not32 s.d &&& s.c), (5 * i + 1) % 16)
    else if i < 48 then (s.b ^^^ s.c ^^^ s.d, (3 * i + 5) % 16)
    else (s.c ^^^ (s.b ||| not32 s.d), (7 * i) % 16)
  let f := add32 (add32 (add32 fg.1 s.a) k) (word m fg.2)
  ⟨s.d, add32 s.b (rotl32 f sh), s.b, s.c⟩

def block (s : St) (bytes64 : List Nat) : St :=
  let m := wordsOf bytes64
  let t := rounds.foldl (step m) s
  ⟨add32 s.a t.a, add32 s.b t.b, add32 s.c t.c, add32 s.d t.d⟩

/-- little-endian bytes of `n` (`w` of them) -/
def leBytes : Nat → Nat → List Nat
  | 0, _ => []
  | w + 1, n => n % 256 :: leBytes w (n / 256)

/-- RFC 1321 padding: 0x80, zeros up to 56 mod 64, bit length as 64-bit little endian -/
def pad (msg : List Nat) : List Nat :=
  let n := msg.length
  let z := (119 - n % 64) % 64
  msg ++ [128] ++ List.replicate z 0 ++ leBytes 8 ((n * 8) % 18446744073709551616)

/-- process all complete 64-byte blocks (fuel = number of blocks) -/
def blocks : Nat → St → List Nat → St
  | 0, s, _ => s
  | n + 1, s, bs => blocks n (block s (bs.take 64)) (bs.drop 64)

/-- the 16 digest bytes -/
def sum (msg : List Nat) : List Nat :=
  let p := pad msg
  let s := blocks (p.length / 64) init p
  leBytes 4 s.a ++ leBytes 4 s.b ++ leBytes 4 s.c ++ leBytes 4 s.d

end Tars.MD5
