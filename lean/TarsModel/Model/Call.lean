/-
  Timed refinement of the call-path LTS (C09). Core Lean only.

  `Tars.Route.step` leaves every timer unconstrained.  Here a discrete clock `now` is added and

  * `TarsInvoke`'s effective deadline (`effDeadline`):
        timeout := s.timeout
        if ok, to, isTimeout := current.GetClientTimeout(ctx); ok && isTimeout { timeout = to }
        if dl, ok := ctx.Deadline(); ok { /* ctx keeps its deadline */ }
        else { ctx, cancel = context.WithTimeout(ctx, timeout) }
    i.e. the caller's context deadline if it has one, otherwise now + (per-call timeout, else the
    configured one) — for EVERY value of that timeout: a timeout of 0 gives `WithTimeout(ctx, 0)`, a
    deadline that has expired when the call starts, so the call comes back at once with a timeout (a
    negative timeout or a context that expired before the call behave the same; the Nat-valued clock of
    the model represents both by a deadline equal to the start);
  * `<-ctx.Done()` (action `timeout`) is possible only once `now ≥ deadline`;
  * time passes by the action `tick`, and only when no goroutine of a call could move without
    waiting (`canTick`): computation steps are instantaneous, `net.DialTimeout` returns within
    `DialTimeout`, the `rtimer.After(WriteTimeout)` case of `TarsClient.Send` is taken at the latest
    `WriteTimeout` after the `select` was entered (if `WriteTimeout > 0`), `ctx.Done()` is noticed at
    the deadline.  A call may wait without bound (`tickOk`) only: before it starts, for the dial lock
    while another caller holds it, inside the dial (up to `DialTimeout`), at a FULL send queue (up to
    `WriteTimeout`, forever if `WriteTimeout = 0`), for the reply (up to the deadline).

  What is NOT in the model: scheduling latency, timer slack (the time wheel of `rtimer` fires up to
  1/20 early, so no lower bound is put on `writeTimeout`), the duration of computation.  The bound
  theorems of `Props/C09.lean` are statements about this clock only.

  Ghost time stamps per call (`Times`): `start` (TarsInvoke entered), `deadline`, `lockAt`
  (connLock acquired), `enqAt` (reached the select of `TarsClient.Send`), `blocked` (time passed
  while it sat at a full send queue), `ret` (returned).
-/
import TarsModel.Model.Route

namespace Tars.Call
open Tars.Route

/-- the timeout `TarsInvoke` uses when the context has no deadline -/
def effTimeout (cfg : Cfg) (par : Params) : Nat :=
  match par.callTimeout with
  | some t => t
  | none => cfg.timeout

/-- effective deadline chosen at time `now` -/
def effDeadline (cfg : Cfg) (now : Nat) (par : Params) : Nat :=
  match par.ctxDeadline with
  | some d => d
  | none => now + effTimeout cfg par

/-! ## dispatch paths of `TarsInvoke`

  After the effective-deadline selection `TarsInvoke` reaches `doInvoke` on one of four paths:
        if app.allFilters.cf != nil       { err = app.allFilters.cf(ctx, msg, s.doInvoke, timeout) }   -- `single`
        else if cf := middleware chain    { err = cf(ctx, msg, s.doInvoke, timeout) }                  -- `middleware`
        else { pre filters …; err = s.doInvoke(ctx, msg, timeout); post filters … }                    -- `direct` / `prePost`
  (client filters are assumed pass-through: they hand ctx, msg and timeout on unchanged).  Two
  contexts exist at that point: the caller's (deadline `par.ctxDeadline`, possibly none) and the one
  assigned by `ctx, cancel = context.WithTimeout(ctx, timeout)` in the no-deadline branch.  Which of
  them each call site passes is re-extracted from the source (`Consts.callCtxSite…` = 1 iff the site
  passes the variable assigned by `context.WithTimeout`). -/

inductive Path
  | direct | single | middleware | prePost
  deriving DecidableEq, Repr

/-- does the call site of this path pass the context that went through `context.WithTimeout`? -/
def passesInvokeCtx : Path → Bool
  | .direct => Consts.callCtxSiteDirect == 1
  | .prePost => Consts.callCtxSiteDirect == 1
  | .single => Consts.callCtxSiteSingle == 1
  | .middleware => Consts.callCtxSiteMiddleware == 1

/-- is `ctx, cancel = context.WithTimeout(ctx, timeout)` executed whenever the caller's context has no
    deadline — whatever the value of `timeout`, in particular for `timeout = 0` (the wrapped context is
    then expired from the start)?  Re-extracted: the assignment sits directly in the `else` of
    `if dl, ok := ctx.Deadline(); ok`, under no comparison of the timeout with a literal. -/
def wrapsWhateverTimeout : Bool := Consts.callWithTimeoutUnguarded == 1

/-- the deadline of the context `doInvoke` waits on (`none`: it never expires) -/
def handedDeadline (cfg : Cfg) (now : Nat) (par : Params) (p : Path) : Option Nat :=
  match par.ctxDeadline with
  | some d => some d                    -- both contexts carry the caller's deadline
  | none => if passesInvokeCtx p && wrapsWhateverTimeout then some (now + effTimeout cfg par) else none

structure Times where
  start : Nat
  deadline : Nat
  lockAt : Nat
  enqAt : Nat
  blocked : Bool
  ret : Nat
  deriving DecidableEq, Hashable, Repr

def Times.zero : Times := ⟨0, 0, 0, 0, false, 0⟩

structure TState where
  base : State
  now : Nat
  times : List Times
  deriving DecidableEq, Repr

inductive TAction
  | tick
  | act (a : Action)
  deriving DecidableEq, Repr

def tinit (cfg : Cfg) (ctr : Int) : TState := ⟨init cfg ctr, 0, []⟩

def queueFull (cfg : Cfg) (b : State) (a : Nat) : Bool :=
  match b.conns[a]? with
  | some k => decide (cfg.queueCap ≤ k.sendQ.length)
  | none => false

def connLocked (b : State) (a : Nat) : Bool :=
  match b.conns[a]? with
  | some k => k.locked
  | none => false

/-- may time pass while the call is where it is? -/
def tickOk (cfg : Cfg) (b : State) (now : Nat) (c : Call) (t : Times) : Bool :=
  match c.pc with
  | .idle => true
  | .done _ => true
  | .lock => connLocked b c.adp
  | .dial => decide (now < t.lockAt + cfg.dialTimeout)
  | .enq => queueFull cfg b c.adp && (decide (cfg.writeTimeout = 0) || decide (now < t.enqAt + cfg.writeTimeout))
  | .wait => decide (now < t.deadline)
  | _ => false

def canTick (cfg : Cfg) (ts : TState) : Bool :=
  (List.zip ts.base.calls ts.times).all (fun ct => tickOk cfg ts.base ts.now ct.1 ct.2)

/-- a tick marks every call sitting at the (full) send queue as blocked -/
def stampTick (calls : List Call) (times : List Times) : List Times :=
  List.zipWith (fun c t => if c.pc = .enq then { t with blocked := true } else t) calls times

/-- timing guard of an action -/
def timeOk (ts : TState) : Action → Bool
  | .call i .timeout =>
    match ts.times[i]? with
    | some t => decide (t.deadline ≤ ts.now)
    | none => false
  | _ => true

def stampCall (cfg : Cfg) (b : State) (now : Nat) (c : Call) (t : Times) : CallAct → Times
  | .begin => { t with start := now }
  | .pre => { t with deadline := effDeadline cfg now c.par }
  | .lockAcq =>
    match b.conns[c.adp]? with
    | some k => if k.closed then { t with lockAt := now } else { t with lockAt := now, enqAt := now, blocked := false }
    | none => t
  | .dialOk => { t with enqAt := now, blocked := false }
  | .post => { t with ret := now }
  | _ => t

def stamp (cfg : Cfg) (ts : TState) : Action → List Times
  | .spawn _ => ts.times ++ [Times.zero]
  | .call i a =>
    match ts.base.calls[i]?, ts.times[i]? with
    | some c, some t => ts.times.set i (stampCall cfg ts.base ts.now c t a)
    | _, _ => ts.times
  | _ => ts.times

def tstep (cfg : Cfg) (ts : TState) : TAction → Option TState
  | .tick =>
    if canTick cfg ts then some { ts with now := ts.now + 1, times := stampTick ts.base.calls ts.times }
    else none
  | .act a =>
    if timeOk ts a then
      match step cfg ts.base a with
      | some b' => some { base := b', now := ts.now, times := stamp cfg ts a }
      | none => none
    else none

def trun (cfg : Cfg) (ts : TState) : List TAction → Option TState
  | [] => some ts
  | a :: as => match tstep cfg ts a with
    | some ts' => trun cfg ts' as
    | none => none

inductive TReachable (cfg : Cfg) (ctr : Int) : TState → Prop
  | init : TReachable cfg ctr (tinit cfg ctr)
  | step {ts ts' : TState} (a : TAction) : TReachable cfg ctr ts → tstep cfg ts a = some ts' → TReachable cfg ctr ts'

/-- the latest return time the model guarantees -/
def budget (cfg : Cfg) (t : Times) : Nat :=
  max t.start (max t.deadline (t.lockAt + cfg.dialTimeout + (if t.blocked then cfg.writeTimeout else 0)))

/-- the bound the property asks for: effective deadline (not before the start) + dial bound -/
def propertyBound (cfg : Cfg) (t : Times) : Nat := max t.start t.deadline + cfg.dialTimeout

end Tars.Call
