/-
  Driver for the pool model (C19).

    newpool <numWorkers> <jobQueueLen>        → `ok <n> <q>` | `panic`
    admits  <n> <q> <budget> <ev> <ev> …      → `ok <maxStates> <finalStates>`
                                               | `reject <index> <ev> <statesBefore>`
                                               | `budget <index>` | `bad-op`
    admits0 …                                  same, without the symmetry reduction (cross-check)

  Events: `C<j>` submit called, `R<j>` submit returned, `S<j>` job j started, `E<j>` job j ended,
  `RC` Release called, `RR` Release returned.

  `admits` decides whether the LTS `Tars.Pool.step` has an execution from `init ⟨n, q⟩` whose
  sequence of visible labels is the given history: subset construction, closing the state set
  under the internal (τ) actions after every visible event.  It uses exactly the `step` function the
  theorems of `Props/C19.lean` are about.

  Symmetry reduction (`canon`): the labels do not mention worker identities and `step` commutes with
  every permutation of the worker indices, so states are kept modulo such permutations (workers
  sorted by program counter; in a reachable state the waiting workers are exactly
  `picked ++ idleQ`, so the idle queue is canonically the ascending block of waiting indices).  The
  ghost fields `submitted`/`done` are erased: no guard reads `done`, and `submitted` is read only by
  the freshness guard of `subCall`, which the driver checks up front (all `C` ids distinct).
  `admits0` does none of this (it only drops nothing and dedups equal states); the harness compares
  the two on every history small enough.
-/
import Std.Data.HashSet
import TarsModel.Driver.Common
import TarsModel.Model.Pool

namespace Tars.Driver.Pool
open Tars Tars.Driver Tars.Pool

abbrev SSet := Std.HashSet State

def parseEv (s : String) : Option Ev :=
  match s.toList with
  | ['R', 'C'] => some .relCall
  | ['R', 'R'] => some .relRet
  | 'C' :: ds => (String.ofList ds).toNat?.map .call
  | 'R' :: ds => (String.ofList ds).toNat?.map .ret
  | 'S' :: ds => (String.ofList ds).toNat?.map .start
  | 'E' :: ds => (String.ofList ds).toNat?.map .fin
  | _ => none

def showEv : Ev → String
  | .call j => s!"C{j}" | .ret j => s!"R{j}" | .start j => s!"S{j}" | .fin j => s!"E{j}"
  | .relCall => "RC" | .relRet => "RR"

def parseEvs : List String → Option (List Ev)
  | [] => some []
  | w :: ws => match parseEv w, parseEvs ws with
    | some e, some es => some (e :: es)
    | _, _ => none

/-- all internal actions that could be enabled in `s` -/
def tauActions (s : State) : List Action :=
  s.calling.map Action.subSend ++
  (List.range s.ws.length).filterMap (fun w => if s.ws[w]? = some .reg then some (Action.wReg w) else none) ++
  [.dTake, .dPick, .dGive, .relSend, .sTake, .sSend, .sAck, .dAck]

/-- the actions carrying label `e` -/
def visActions (s : State) : Ev → List Action
  | .call j => [.subCall j]
  | .ret j => [.subRet j]
  | .start j => (List.range s.ws.length).map (fun w => Action.start w j)
  | .fin j => (List.range s.ws.length).map (fun w => Action.fin w j)
  | .relCall => [.relCall]
  | .relRet => [.relRet]

def wkey : WPc → Nat
  | .reg => 0 | .wait => 1 | .stopAck => 2 | .dead => 3
  | .got j => 4 + 2 * j | .run j => 5 + 2 * j

def findIdx (p : WPc → Bool) : List WPc → Nat → Nat
  | [], i => i
  | x :: xs, i => if p x then i else findIdx p xs (i + 1)

/-- canonical representative modulo worker permutations, ghost fields erased (see header) -/
def canon (s : State) : State :=
  let ws := s.ws.mergeSort (fun a b => wkey a ≤ wkey b)
  let fw := findIdx (fun x => x == .wait) ws 0
  let fa := findIdx (fun x => x == .stopAck) ws 0
  let (d, off) := match s.d with
    | .give j _ => (DPc.give j fw, 1)
    | .stopSend i _ => (DPc.stopSend i fw, 1)
    | .stopWait i _ => (DPc.stopWait i fa, 0)
    | d => (d, 0)
  { s with ws := ws, d := d, idleQ := (List.range s.idleQ.length).map (· + fw + off),
           calling := s.calling.mergeSort (· ≤ ·), retq := s.retq.mergeSort (· ≤ ·),
           submitted := [], done := [] }

/-- close `seen` under τ-steps; `none` = budget exceeded -/
partial def closure (cfg : Cfg) (cn : State → State) (budget : Nat) :
    List State → SSet → Option SSet
  | [], seen => some seen
  | s :: rest, seen =>
    if seen.size > budget then none
    else
      let succs := (tauActions s).filterMap (fun a => (step cfg s a).map cn)
      let (todo, seen) := succs.foldl
        (fun (acc : List State × SSet) x =>
          if acc.2.contains x then acc else (x :: acc.1, acc.2.insert x)) (rest, seen)
      closure cfg cn budget todo seen

def startSet (cfg : Cfg) (cn : State → State) (budget : Nat) (ss : List State) : Option SSet :=
  let seen := ss.foldl (fun (acc : SSet) x => acc.insert x) {}
  closure cfg cn budget seen.toList seen

/-- one visible event -/
def onEvent (cfg : Cfg) (cn : State → State) (budget : Nat) (cur : SSet) (e : Ev) : Option SSet :=
  let nxt := cur.fold (fun (acc : List State) s =>
    (visActions s e).foldl (fun acc a => match step cfg s a with
      | some s' => cn s' :: acc
      | none => acc) acc) []
  startSet cfg cn budget nxt

def dupCall : List Ev → List Nat → Option Nat
  | [], _ => none
  | .call j :: es, seen => if seen.contains j then some j else dupCall es (j :: seen)
  | _ :: es, seen => dupCall es seen

partial def admitsLoop (cfg : Cfg) (cn : State → State) (budget : Nat) :
    List Ev → Nat → SSet → Nat → String
  | [], _, cur, mx => s!"ok {mx} {cur.size}"
  | e :: es, i, cur, mx =>
    match onEvent cfg cn budget cur e with
    | none => s!"budget {i}"
    | some nxt =>
      if nxt.isEmpty then s!"reject {i} {showEv e} {cur.size}"
      else admitsLoop cfg cn budget es (i + 1) nxt (max mx nxt.size)

def admits (cfg : Cfg) (cn : State → State) (budget : Nat) (h : List Ev) : String :=
  match dupCall h [] with
  | some j => s!"reject 0 dup-call-{j} 0"
  | none =>
    match startSet cfg cn budget [cn (init cfg)] with
    | none => "budget 0"
    | some s0 => admitsLoop cfg cn budget h 0 s0 s0.size

def handle (ws : List String) : String :=
  match ws with
  | ["newpool", n, q] =>
    match parseInt? n, parseInt? q with
    | some n, some q => match newPool n q with
      | .ok (cfg, _) => s!"ok {cfg.n} {cfg.q}"
      | .error .panicMakechan => "panic"
    | _, _ => "bad-op"
  | "admits" :: n :: q :: b :: evs =>
    match parseNat? n, parseNat? q, parseNat? b, parseEvs evs with
    | some n, some q, some b, some h => admits ⟨n, q⟩ canon b h
    | _, _, _, _ => "bad-op"
  | "admits0" :: n :: q :: b :: evs =>
    match parseNat? n, parseNat? q, parseNat? b, parseEvs evs with
    | some n, some q, some b, some h => admits ⟨n, q⟩ id b h
    | _, _, _, _ => "bad-op"
  | _ => "bad-op"

end Tars.Driver.Pool
