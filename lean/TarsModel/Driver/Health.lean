/-
  Driver for the failover model (C15), stateful line protocol:
    init <stamp:0|1|auto> <now0> <n>        registry = endpoints 0..n-1
    adv <d>                                 d seconds pass
    chk <csv of connectable endpoints | ->  one checkStatus
    start <ep|nil> <sendOk> <oneway>        a call was issued and SelectAdapterProxy returned <ep>
    fin <ep> <probe> <ok>                   the open call on <ep> (needCheck = <probe>) completed
  Answer: `<events of this step, oldest first, ';'-separated>|<canonical state>`.
  `start`/`fin` carry what the implementation was observed to choose; the driver checks that the
  model admits that choice (`inadmissible …` otherwise) and resolves the model's `choice`/`k` from it.
-/
import TarsModel.Driver.Common
import TarsModel.Model.Health

namespace Tars.Driver.Health
open Tars Tars.Driver Tars.Health

def evStr : Event → String
  | .picked ep p _ => s!"picked:{ep}:{if p then 1 else 0}"
  | .noEndpoint _ => "none"
  | .ok ep _ => s!"ok:{ep}"
  | .fail ep _ => s!"fail:{ep}"
  | .blocked ep _ => s!"blocked:{ep}"
  | .grant ep _ => s!"grant:{ep}"
  | .reinstated ep _ => s!"reinst:{ep}"

def csv (l : List String) : String := if l.isEmpty then "-" else String.intercalate "," l

def sortNat (l : List Nat) : List Nat := l.mergeSort (fun a b => a ≤ b)

def age (now t : Int) : String :=
  let a := now - t
  if a ≥ 1000000 then "inf" else toString a

def recStr (now : Int) (ep : Nat) (r : Rec) : String :=
  s!"{ep}:{r.failCount}/{r.lastFailCount}/{r.sendCount}/{if r.status then 1 else 0}/{age now r.lastSuccessTime}/{age now r.lastBlockTime}/{age now r.lastCheckTime}/{if r.closed then 1 else 0}"

def stateStr (s : Mgr) : String :=
  let recs := (sortNat s.reg.eraseDups).filterMap fun ep => if s.has ep then some (recStr s.now ep (s.recs ep)) else none
  let infl := sortNat (s.inflight.map fun c => 2 * c.1 + (if c.2 then 1 else 0))
  s!"act={csv ((sortNat s.active).map toString)} sel={csv ((sortNat s.sel).map toString)} q={csv (s.queue.map toString)} pend={csv ((sortNat s.pend).map toString)} infl={csv (infl.map fun x => s!"{x / 2}:{x % 2}")} recs={if recs.isEmpty then "-" else String.intercalate ";" recs}"

def answer (old new : Mgr) : String :=
  let evs := (new.log.take (new.log.length - old.log.length)).reverse
  (if evs.isEmpty then "-" else String.intercalate ";" (evs.map evStr)) ++ "|" ++ stateStr new

def parseCsvNat (w : String) : Option (List Nat) :=
  if w = "-" then some [] else (w.splitOn ",").mapM parseNat?

/-- index of the first element satisfying p -/
def findIdx? {α : Type} (p : α → Bool) : List α → Nat → Option Nat
  | [], _ => none
  | x :: xs, i => if p x then some i else findIdx? p xs (i + 1)

/-- resolve the observed endpoint of a `start` into the model's `choice` -/
def resolveStart (s : Mgr) (obs : Option Nat) : Except String Nat :=
  match s.reg, obs with
  | [], none => .ok 0
  | [], some _ => .error "model: registry empty, no endpoint can be returned"
  | _ :: _, none => .error "model: an endpoint must be returned"
  | _ :: _, some ep =>
    match s.queue with
    | q :: _ => if q = ep then .ok 0 else .error s!"model: probe candidate {q} must be returned"
    | [] =>
      let pool := if s.sel.isEmpty then s.reg else s.sel
      match findIdx? (· == ep) pool 0 with
      | some i => .ok i
      | none => .error s!"model: endpoint {ep} is not in {if s.sel.isEmpty then "the registry list" else "rotation"}"

def handle (st : Option Mgr) (ws : List String) : Option Mgr × String :=
  match st, ws with
  | _, ["init", stamp, now0, n] =>
    match parseInt? now0, parseNat? n with
    | some t, some k =>
      let sv := if stamp = "auto" then Consts.healthProbeStamps == 1 else stamp = "1"
      let s := Health.init sv (List.range k) t
      (some s, "-|" ++ stateStr s)
    | _, _ => (st, "bad-op")
  | some s, ["adv", d] =>
    match parseNat? d with
    | some k => let s' := step s (.advance k); (some s', answer s s')
    | none => (st, "bad-op")
  | some s, ["chk", c] =>
    match parseCsvNat c with
    | some conn => let s' := step s (.checkStatus conn); (some s', answer s s')
    | none => (st, "bad-op")
  | some s, ["start", ep, so, ow] =>
    let obs : Option (Option Nat) := if ep = "nil" then some none else (parseNat? ep).map some
    match obs, parseBool? so, parseBool? ow with
    | some o, some sendOk, some oneway =>
      match resolveStart s o with
      | .ok choice => let s' := step s (.start choice sendOk oneway); (some s', answer s s')
      | .error e => (st, "inadmissible " ++ e ++ " | " ++ stateStr s)
    | _, _, _ => (st, "bad-op")
  | some s, ["fin", ep, pr, ok] =>
    match parseNat? ep, parseBool? pr, parseBool? ok with
    | some e, some p, some o =>
      match findIdx? (fun c => c.1 == e && c.2 == p) s.inflight 0 with
      | some k => let s' := step s (.finish k o); (some s', answer s s')
      | none => (st, s!"inadmissible model: no open call on {e} with probe={p} | " ++ stateStr s)
    | _, _, _ => (st, "bad-op")
  | some s, ["state"] => (st, "-|" ++ stateStr s)
  | _, _ => (st, "bad-op")

end Tars.Driver.Health
