/-
  Driver for the client-connection LTS (C11), stream `clientconn`:

    variant                                   → asFound | repaired        (what the extractor saw in the tree)
    admits <asFound|repaired|tree> <cap> <idle 0|1> <event>…
        → ok states=<n> max=<m>               the LTS has a run with exactly this visible history
        → reject <i> <event>                  no run performs the first i events and then event i
        → toobig <i> <n>                      state set exceeded the limit (nothing decided)
    run <asFound|repaired|tree> <cap> <action>…
        → ok closed=<0|1> conns=<n> sendQ=<n> failQ=<n> attempts=<id@k,…> arrived=<id@k,…>
             lost=<id@k,…> senders=<pc,…> falseClose=<0|1> deadWrite=<0|1> parked=<0|1>
        → stuck <i> <action>

    dial-variant                              → locked | unlocked         (does ReConnect dial under connLock)
    notify-variant                            → reconnectFirst | guardFirst   (order of the tests in onPush)
    notify-run <reconnectFirst|guardFirst|tree> <action>…   (adapter-level model, Model/AdapterPush.lean)
        actions: setCallback · pNotify.<g> · pPush.<g>.<payload> · recv.<i> · send.<id>
        → ok gen=<n> sends=<id@gen,…> stale=<ids sent to a client whose notification was processed>
             pushed=<payload,…> graceClosing=<g,…>   |   stuck <i> <action>

  events:  B.<id> Send entered · R.<id> Send returned nil · F.<id> Send returned the write timeout ·
           C some Send passed "Send.reconnected" · T.<k> I.<k> G.<k> sender of connection k passed
           "send.top" / "send.inner" / "send.got" · X.<k> receiver k passed "recv.closing" ·
           P.<k> server closes connection k (FIN) · Q.<k> server aborts connection k (RST) · A.<k> server accepted connection k ·
           V.<k>.<id> server read request id on connection k · S.<closed>.<sendQ>.<failQ>.<conns> probe
  actions: <name>[.<arg>…] with the constructor names of `Action` (`mark.top.0`, `sTakeQ.0`, `callBegin.2`)
-/
import TarsModel.Driver.Common
import TarsModel.Model.ClientConn
import TarsModel.Model.AdapterPush

namespace Tars.Driver.ClientConn
open Tars Tars.Driver Tars.ClientConn

def splitDots (s : String) : List String :=
  (s.toList.foldr (fun c (acc : List (List Char)) =>
      if c = '.' then [] :: acc
      else match acc with
        | [] => [[c]]
        | x :: xs => (c :: x) :: xs) [[]]).map String.ofList

def parseVariant : String → Option Variant
  | "asFound" => some .asFound
  | "repaired" => some .repaired
  | "tree" => some treeVariant
  | _ => none

def variantName : Variant → String
  | .asFound => "asFound"
  | .repaired => "repaired"

def parseEvent (tok : String) : Option Event :=
  match splitDots tok with
  | ["B", id] => (parseNat? id).map .callBegin
  | ["R", id] => (parseNat? id).map .callRet
  | ["F", id] => (parseNat? id).map .callFail
  | ["C"] => some .reconnected
  | ["T", k] => (parseNat? k).map (.mark .top)
  | ["I", k] => (parseNat? k).map (.mark .inner)
  | ["G", k] => (parseNat? k).map (.mark .got)
  | ["X", k] => (parseNat? k).map (.mark .closing)
  | ["P", k] => (parseNat? k).map .pClose
  | ["Q", k] => (parseNat? k).map .pReset
  | ["A", k] => (parseNat? k).map .accept
  | ["V", k, id] =>
    match parseNat? k, parseNat? id with
    | some k, some id => some (.recv k id)
    | _, _ => none
  | ["S", c, q, f, n] =>
    match parseBool? c, parseNat? q, parseNat? f, parseNat? n with
    | some c, some q, some f, some n => some (.probe c q f n)
    | _, _, _, _ => none
  | _ => none

def parsePoint : String → Option Point
  | "top" => some .top
  | "inner" => some .inner
  | "got" => some .got
  | "closing" => some .closing
  | _ => none

def parseAction (tok : String) : Option Action :=
  match splitDots tok with
  | ["mark", p, k] =>
    match parsePoint p, parseNat? k with
    | some p, some k => some (.mark p k)
    | _, _ => none
  | ["obsRecv", k, id] =>
    match parseNat? k, parseNat? id with
    | some k, some id => some (.obsRecv k id)
    | _, _ => none
  | [name, n] =>
    match parseNat? n with
    | none => none
    | some n =>
      match name with
      | "callBegin" => some (.callBegin n)
      | "callReconnect" => some (.callReconnect n)
      | "markReconnected" => some (.markReconnected n)
      | "callEnq" => some (.callEnq n)
      | "callFail" => some (.callFail n)
      | "callRet" => some (.callRet n)
      | "pClose" => some (.pClose n)
      | "pReset" => some (.pReset n)
      | "rEof" => some (.rEof n)
      | "rErr" => some (.rErr n)
      | "rClose" => some (.rClose n)
      | "rSignal" => some (.rSignal n)
      | "sTopDone" => some (.sTopDone n)
      | "sTopGo" => some (.sTopGo n)
      | "sTakeFail" => some (.sTakeFail n)
      | "sNoFail" => some (.sNoFail n)
      | "sTakeQ" => some (.sTakeQ n)
      | "sTickClosed" => some (.sTickClosed n)
      | "sTickIdle" => some (.sTickIdle n)
      | "sTickCont" => some (.sTickCont n)
      | "sIdleClose" => some (.sIdleClose n)
      | "sInnerFail" => some (.sInnerFail n)
      | "sInnerDone" => some (.sInnerDone n)
      | "sCheckOk" => some (.sCheckOk n)
      | "sCheckLost" => some (.sCheckLost n)
      | "sHandback" => some (.sHandback n)
      | "sWriteOk" => some (.sWriteOk n)
      | "sWriteLost" => some (.sWriteLost n)
      | "sWriteFail" => some (.sWriteFail n)
      | "sRequeue" => some (.sRequeue n)
      | "sFailClose" => some (.sFailClose n)
      | "obsAccept" => some (.obsAccept n)
      | _ => none
  | _ => none

def parseAll {α : Type} (f : String → Option α) : List String → Option (List α)
  | [] => some []
  | t :: ts =>
    match f t, parseAll f ts with
    | some a, some as => some (a :: as)
    | _, _ => none

def spcName : SPc → String
  | .atTop => "atTop"
  | .top => "top"
  | .pickFail => "pickFail"
  | .atInner => "atInner"
  | .inner => "inner"
  | .atGot _ => "atGot"
  | .got _ => "got"
  | .ready _ => "ready"
  | .failed _ => "failed"
  | .failClosing => "failClosing"
  | .idleClosing => "idleClosing"
  | .handback _ => "handback"
  | .exited => "exited"

def b01 (b : Bool) : String := if b then "1" else "0"

def showPairs (l : List (Nat × Nat)) : String :=
  if l.isEmpty then "-" else String.intercalate "," (l.map (fun p => s!"{p.1}@{p.2}"))

/-- the three clauses of `C11_full`, evaluated on one state (for the replay output) -/
def falseClose (s : State) : Bool :=
  s.isClosed && match s.conns.getLast? with
    | some c => !c.known
    | none => false

def deadWrite (s : State) : Bool := s.attempts.any (fun p => p.1.dead.contains p.2)

/-- a request is queued, the flag says closed or the current sender is gone although the client
never closed the current connection, and no `Send` is in progress -/
def parked (s : State) : Bool :=
  (!s.sendQ.isEmpty || s.failQ.isSome) && s.calls.isEmpty &&
    match s.conns.getLast? with
    | some c => !c.known && (s.isClosed || c.spc == .exited)
    | none => false

def showState (s : State) : String :=
  s!"closed={b01 s.isClosed} conns={s.conns.length} sendQ={s.sendQ.length} failQ={optLen s.failQ} " ++
  s!"attempts={showPairs (s.attempts.map (fun p => (p.1.id, p.2)))} arrived={showPairs s.arrived} " ++
  s!"lost={showPairs s.lost} senders={String.intercalate "," (s.conns.map (fun c => spcName c.spc))} " ++
  s!"falseClose={b01 (falseClose s)} deadWrite={b01 (deadWrite s)} parked={b01 (parked s)}"

/-- `Tars.ClientConn.admits` with a state-set limit of 4000 (`ok` iff `admits v cap idle evs 4000`) -/
def doAdmits (v : Variant) (cap : Nat) (idle : Bool) (unlocked : Bool) (toks : List String) : String :=
  match parseAll parseEvent toks with
  | none => "bad-op"
  | some evs =>
    let start : State := if unlocked then { idleOK := idle, unlockedDial := true }
      else if idle then init else initNoIdle
    match admitsFrom v cap 4000 [start] evs 0 1 with
    | .ok (ss, mx) => s!"ok states={ss.length} max={mx}"
    | .error (i, 0) => s!"reject {i} {toks.getD i "?"}"
    | .error (i, n) => s!"toobig {i} {n}"

def doRun (v : Variant) (cap : Nat) (toks : List String) : String :=
  match parseAll parseAction toks with
  | none => "bad-op"
  | some acts =>
    let rec go (s : State) (as : List Action) (i : Nat) : Except Nat State :=
      match as with
      | [] => .ok s
      | a :: rest =>
        match step v cap s a with
        | some s' => go s' rest (i + 1)
        | none => .error i
    match go init acts 0 with
    | .ok s => "ok " ++ showState s
    | .error i => s!"stuck {i} {toks.getD i "?"}"

def parseNotifyAction (tok : String) : Option AdapterPush.Action :=
  match splitDots tok with
  | ["setCallback"] => some .setCallback
  | ["pNotify", g] => (parseNat? g).map .pNotify
  | ["pPush", g, d] =>
    match parseNat? g, parseNat? d with
    | some g, some d => some (.pPush g d)
    | _, _ => none
  | ["recv", i] => (parseNat? i).map .recv
  | ["graceDone", j] => (parseNat? j).map .graceDone
  | ["send", id] => (parseNat? id).map .send
  | _ => none

def showNats (l : List Nat) : String :=
  if l.isEmpty then "-" else String.intercalate "," (l.map toString)

def notifyVariantName : AdapterPush.Variant → String
  | .reconnectFirst => "reconnectFirst"
  | .guardFirst => "guardFirst"
  | .casGated => "casGated"

def parseNotifyVariant : String → Option AdapterPush.Variant
  | "reconnectFirst" => some .reconnectFirst
  | "guardFirst" => some .guardFirst
  | "casGated" => some .casGated
  | "tree" => some AdapterPush.treeVariant
  | _ => none

def doNotifyRun (v : AdapterPush.Variant) (toks : List String) : String :=
  match parseAll parseNotifyAction toks with
  | none => "bad-op"
  | some acts =>
    let rec go (s : AdapterPush.State) (as : List AdapterPush.Action) (i : Nat) : Except Nat AdapterPush.State :=
      match as with
      | [] => .ok s
      | a :: rest =>
        match AdapterPush.step v s a with
        | some s' => go s' rest (i + 1)
        | none => .error i
    match go AdapterPush.init acts 0 with
    | .ok s =>
      let stale := (s.sends.filter (fun x => x.noticed.contains x.gen)).map (fun x => x.id)
      s!"ok gen={s.gen} sends={showPairs (s.sends.map (fun x => (x.id, x.gen)))} stale={showNats stale} " ++
      s!"pushed={showNats s.pushed} graceClosing={showNats s.graceClosing}"
    | .error i => s!"stuck {i} {toks.getD i "?"}"

def handle (ws : List String) : String :=
  match ws with
  | ["variant"] => variantName treeVariant
  | ["dial-variant"] => if treeUnlockedDial then "unlocked" else "locked"
  | ["notify-variant"] => notifyVariantName AdapterPush.treeVariant
  | "notify-run" :: v :: toks =>
    match parseNotifyVariant v with
    | some v => doNotifyRun v toks
    | none => "bad-op"
  | "admits" :: vs :: cap :: idle :: toks =>
    match parseVariant vs, parseNat? cap, parseBool? idle with
    | some v, some cap, some idle => doAdmits v cap idle (vs == "tree" && treeUnlockedDial) toks
    | _, _, _ => "bad-op"
  | "run" :: v :: cap :: toks =>
    match parseVariant v, parseNat? cap with
    | some v, some cap => doRun v cap toks
    | _, _ => "bad-op"
  | _ => "bad-op"

end Tars.Driver.ClientConn
