/-
  Driver for the call-path model (C08, C09), stream `call`.

    genrun <ctr> <ops>                      ops ∈ {c,a}*: CAS / add steps in this order
        → ok <ctr'> <id> …                  ids returned, oldest first
    genseq <ctr> <n>                        n uninterrupted executions of genRequestID
        → ok <ctr'> <id> …  |  stuck
    genctr <ctr> <n>                        same, only the final counter and the number of ids
        → ok <ctr'> <n>
    genadmits <ctr> <ids,…> <ids,…> …       one comma-separated list of returned ids per goroutine ("-" = none)
        → ok <states>  |  reject            is there an interleaving of the goroutines' CAS/add steps
                                            in which every goroutine gets exactly its ids, in its order?
    deadline <cfgTimeout> <ctxDeadline|-> <callTimeout|-> <now>   → <effective deadline>
    deadline <cfgTimeout> <ctxDeadline|-> <callTimeout|-> <now> <direct|single|middleware|prepost>
        → <deadline of the context doInvoke waits on when dispatched this way> | none
    budget <dial> <write> <start> <deadline> <lockAt> <blocked>   → <budget> <propertyBound>
    admits  <nAdp> <objQueueMax> <queueCap> <writeTimeout> <ctr0> <budget> <event> …
        → ok <maxStates> <finalStates> | reject <index> <event> <statesBefore> | budget <index> | bad-op
    admits0 …                               same without the state reduction (cross-check)

  Events of a history (one token each):
    B.<i>.<ow>.<body>[.<proxy>]  caller i (= number of B events before it) is about to call TarsInvoke on
                             ServantProxy object <proxy> (default 0)
                             (ow = 1: one-way); model actions `spawn`, `call i begin`
    Q.<a>.<id>.<i>           the peer of adapter a has read the request of caller i, it carries id:
                             a FILTER (no action): call i has this id and has enqueued its request
    E.<a>.<id>.<ow>.<body>   the peer of adapter a sends a response packet; model action `emit`
    R.<i>.ok.<id>.<body>     TarsInvoke of caller i returned nil with this response; action `call i post`
    R.<i>.err | R.<i>.ow     … returned an error | nil for a one-way request
    Z.<queueLen[,queueLen…]>.<pending>.<invokeNum>   FILTER: the counters read through the verif export
                             (queueLen of every ServantProxy object, in order)
    M.<ctr>                  FILTER: msgID read through the verif export

  `admits` decides whether the LTS `Tars.Route.step` has an execution from `init cfg ctr0` whose visible
  actions are the history (subset construction, τ-closure over all other actions: every internal step
  of every caller, `lookup`/`deliver`/`giveUp` of every receiver, `drain`, `connClose`).  It uses the
  `step` function the theorems of Props/C08.lean and Props/C09.lean are about.

  State reduction (`canon`, not proved, cross-checked by the harness against `admits0` on the small
  histories): ghost fields erased (`issued`, `emitted`, `seq`); receivers that can take no further
  effective step (terminal, offering to a call that is past its `select`, id 0, one-way typed, or
  unregistered id that no later call of this history can be given) count as `dropped`; the send queue
  is erased when its capacity exceeds the number of calls of the history; steps that commute with
  everything and are invisible (`preInvoke`; the queueLen gate/increment/decrement when ObjQueueMax
  exceeds the number of calls) are taken at once (`eagerNorm`).
-/
import Std.Data.HashSet
import TarsModel.Driver.Common
import TarsModel.Model.Call

namespace Tars.Driver.Call
open Tars Tars.Driver Tars.Route

abbrev SSet := Std.HashSet State

def splitOn (sep : Char) (s : String) : List String :=
  (s.toList.foldr (fun c (acc : List (List Char)) =>
      if c = sep then [] :: acc
      else match acc with
        | [] => [[c]]
        | x :: xs => (c :: x) :: xs) [[]]).map String.ofList

inductive Ev
  | begin (i : Nat) (ow : Bool) (body : Nat) (px : Nat)
  | req (a : Nat) (id : Int) (i : Nat)
  | emit (a : Nat) (p : Pkt)
  | retOk (i : Nat) (id : Int) (body : Nat)
  | retErr (i : Nat)
  | retOw (i : Nat)
  | quiet (qs : List Int) (p : Nat) (n : Int)
  | ctr (v : Int)

def parseEv (tok : String) : Option Ev :=
  match splitOn '.' tok with
  | ["B", i, ow, b] =>
    match parseNat? i, parseBool? ow, parseNat? b with
    | some i, some ow, some b => some (.begin i ow b 0)
    | _, _, _ => none
  | ["B", i, ow, b, px] =>
    match parseNat? i, parseBool? ow, parseNat? b, parseNat? px with
    | some i, some ow, some b, some px => some (.begin i ow b px)
    | _, _, _, _ => none
  | ["Q", a, id, i] =>
    match parseNat? a, parseInt? id, parseNat? i with
    | some a, some id, some i => some (.req a id i)
    | _, _, _ => none
  | ["E", a, id, ow, b] =>
    match parseNat? a, parseInt? id, parseBool? ow, parseNat? b with
    | some a, some id, some ow, some b => some (.emit a ⟨id, ow, b⟩)
    | _, _, _, _ => none
  | ["R", i, "ok", id, b] =>
    match parseNat? i, parseInt? id, parseNat? b with
    | some i, some id, some b => some (.retOk i id b)
    | _, _, _ => none
  | ["R", i, "err"] => (parseNat? i).map .retErr
  | ["R", i, "ow"] => (parseNat? i).map .retOw
  | ["Z", q, p, n] =>
    match (splitOn ',' q).foldr (fun w acc => match parseInt? w, acc with
        | some v, some l => some (v :: l)
        | _, _ => none) (some []), parseNat? p, parseInt? n with
    | some qs, some p, some n => some (.quiet qs p n)
    | _, _, _ => none
  | ["M", v] => (parseInt? v).map .ctr
  | _ => none

def parseEvs : List String → Option (List Ev)
  | [] => some []
  | w :: ws => match parseEv w, parseEvs ws with
    | some e, some es => some (e :: es)
    | _, _ => none

/-! ### genRequestID alone -/

def genRun (g : Gen) : List Char → Option Gen
  | [] => some g
  | 'c' :: r => genRun g.cas r
  | 'a' :: r => genRun g.add r
  | _ => none

def showGen (g : Gen) : String :=
  g.issued.reverse.foldl (fun acc v => acc ++ " " ++ toString v) s!"ok {g.ctr}"

def genSeqN (g : Gen) : Nat → Option Gen
  | 0 => some g
  | n + 1 =>
    match genSeq g 3 with
    | (g', some _) => genSeqN g' n
    | (_, none) => none

/-- per goroutine: ids still to be returned, and whether it is before its CAS -/
structure GThread where
  todo : List Int
  atCas : Bool
  deriving DecidableEq, Hashable

structure GState where
  ctr : Int
  ths : List GThread
  deriving DecidableEq, Hashable

def gSucc (s : GState) : List GState :=
  (List.range s.ths.length).filterMap (fun k =>
    match s.ths[k]? with
    | some th =>
      match th.todo with
      | [] => none
      | want :: rest =>
        if th.atCas then some { ctr := casStep s.ctr, ths := s.ths.set k { th with atCas := false } }
        else
          let v := addStep s.ctr
          if issues v then
            if v = want then some { ctr := v, ths := s.ths.set k ⟨rest, true⟩ } else none
          else some { s with ctr := v }
    | none => none)

partial def gSearch (todo : List GState) (seen : Std.HashSet GState) (limit : Nat) : Option Nat :=
  match todo with
  | [] => none
  | s :: rest =>
    if s.ths.all (fun th => th.todo.isEmpty) then some seen.size
    else if seen.size > limit then none
    else
      let (todo', seen') := (gSucc s).foldl
        (fun (acc : List GState × Std.HashSet GState) x =>
          if acc.2.contains x then acc else (x :: acc.1, acc.2.insert x)) (rest, seen)
      gSearch todo' seen' limit

def parseIds (s : String) : Option (List Int) :=
  if s = "-" then some []
  else (splitOn ',' s).foldr (fun w acc => match parseInt? w, acc with
    | some v, some l => some (v :: l)
    | _, _ => none) (some [])

/-! ### histories -/

structure Hist where
  nCalls : Nat      -- B events in the whole history
  bigQ : Bool       -- the send queue can never be full in this history

/-- could a later `genRequestID` of this history return `id`? (conservative) -/
def mayIssue (ctr : Int) (n : Nat) (id : Int) : Bool :=
  let m : Int := 2 * (maxInt32 + 1)
  let d := (id - ctr) % m
  let toMax := (maxInt32 - ctr) % m
  (decide (1 ≤ d) && decide (d ≤ (n : Int))) || (decide (toMax ≤ (n : Int)) && decide (1 ≤ id) && decide (id ≤ (n : Int) + 1))

def canonRcv (h : Hist) (s : State) (x : Rcv) : Rcv :=
  let dead : Rcv := { x with pc := .dropped }
  match x.pc with
  | .pushed | .dropped | .delivered => dead
  | .offer i =>
    match s.calls[i]? with
    | some c => (match c.pc with
      | .wait | .enq | .dial | .lock => x
      | _ => dead)
    | none => dead
  | .decoded =>
    if x.pkt.id = 0 || x.pkt.oneway then dead
    else if (tLoad s.table x.adp x.pkt.id).isNone && !mayIssue s.gen.ctr (2 * h.nCalls + 2) x.pkt.id then dead
    else x

def canon (h : Hist) (s : State) : State :=
  { s with
    gen := { s.gen with issued := [] },
    emitted := [],
    calls := s.calls.map (fun c => { c with seq := 0 }),
    rcvs := s.rcvs.map (canonRcv h s),
    conns := if h.bigQ then s.conns.map (fun k => { k with sendQ := [] }) else s.conns }

/-- steps that commute with every other action and are invisible to every event of a history:
    `preInvoke` always; the `queueLen` gate, increment and decrement when the gate can never close
    (more room than calls).  A state in which such a step is pending is replaced by its successor. -/
def eagerAct (bigMax : Bool) (c : Call) : Option CallAct :=
  match c.pc with
  | .pre => some .pre
  | .gate => if bigMax then some .gate else none
  | .incQ => if bigMax then some .incQ else none
  | .decQ _ => if bigMax then some .decQ else none
  | _ => none

def eagerPass (cfg : Cfg) (bigMax : Bool) (s : State) : State × Bool :=
  (List.range s.calls.length).foldl (fun (acc : State × Bool) i =>
    match acc.1.calls[i]? with
    | some c =>
      (match eagerAct bigMax c with
      | some a => (match step cfg acc.1 (.call i a) with
        | some s' => (s', true)
        | none => acc)
      | none => acc)
    | none => acc) (s, false)

def eagerNorm (cfg : Cfg) (bigMax : Bool) : Nat → State → State
  | 0, s => s
  | fuel + 1, s =>
    match eagerPass cfg bigMax s with
    | (s', true) => eagerNorm cfg bigMax fuel s'
    | (s', false) => s'

def callTaus (nAdp : Nat) : List CallAct :=
  [.cas, .add, .pre, .selectAdp none, .gate, .incQ, .store, .lockAcq, .dialOk, .dialFail, .enqueue,
   .writeTimeout, .timeout, .decQ, .del] ++ (List.range nAdp).map (fun a => CallAct.selectAdp (some a))

/-- all internal actions that could be enabled in `s` -/
def tauActions (cfg : Cfg) (s : State) : List Action :=
  let cs := (List.range s.calls.length).foldr (fun i acc =>
    match s.calls[i]? with
    | some c => (match c.pc with
      | .idle | .done _ | .post _ => acc
      | _ => (callTaus cfg.nAdp).map (Action.call i) ++ acc)
    | none => acc) []
  let rs := (List.range s.rcvs.length).foldr (fun r acc =>
    match s.rcvs[r]? with
    | some x => (match x.pc with
      | .decoded => Action.lookup r :: acc
      | .offer _ => Action.deliver r :: Action.giveUp r :: acc
      | _ => acc)
    | none => acc) []
  let ks := (List.range cfg.nAdp).foldr (fun a acc => Action.drain a :: Action.connClose a :: acc) []
  cs ++ rs ++ ks

partial def closure (cfg : Cfg) (cn : State → State) (budget : Nat) : List State → SSet → Option SSet
  | [], seen => some seen
  | s :: rest, seen =>
    if seen.size > budget then none
    else
      let succs := (tauActions cfg s).filterMap (fun a => (step cfg s a).map cn)
      let (todo, seen) := succs.foldl
        (fun (acc : List State × SSet) x =>
          if acc.2.contains x then acc else (x :: acc.1, acc.2.insert x)) (rest, seen)
      closure cfg cn budget todo seen

def startSet (cfg : Cfg) (cn : State → State) (budget : Nat) (ss : List State) : Option SSet :=
  let seen := ss.foldl (fun (acc : SSet) x => acc.insert x) {}
  closure cfg cn budget seen.toList seen

def enqueuedOutcome : Outcome → Bool
  | .reply _ | .timeout | .onewayOk => true
  | _ => false

/-- the request of the call has been put into the send queue -/
def pastEnqueue : Pc → Bool
  | .wait => true
  | .decQ o | .del o | .post o | .done o => enqueuedOutcome o
  | _ => false

/-- the successors of `s` under the visible event `e` (filters keep or drop `s`) -/
def onState (cfg : Cfg) (s : State) : Ev → List State
  | .begin i ow body px =>
    if s.calls.length = i then
      match step cfg s (.spawn ⟨ow, body, none, none, px⟩) with
      | some s1 => (step cfg s1 (.call i .begin)).toList
      | none => []
    else []
  | .req a id i =>
    match s.calls[i]? with
    | some c => if c.id = id ∧ c.adp = a ∧ pastEnqueue c.pc then [s] else []
    | none => []
  | .emit a p => (step cfg s (.emit a p)).toList
  | .retOk i id body =>
    match s.calls[i]? with
    | some c => if c.pc = .post (.reply ⟨id, false, body⟩) then (step cfg s (.call i .post)).toList else []
    | none => []
  | .retErr i =>
    match s.calls[i]? with
    | some c => (match c.pc with
      | .post .timeout | .post .sendErr | .post .noAdapter | .post .queueFull => (step cfg s (.call i .post)).toList
      | _ => [])
    | none => []
  | .retOw i =>
    match s.calls[i]? with
    | some c => if c.pc = .post .onewayOk then (step cfg s (.call i .post)).toList else []
    | none => []
  | .quiet qs p n =>
    if ((List.range qs.length).all (fun k => qGet s.queueLens k == qs.getD k 0)) ∧ s.table.length = p ∧ s.invokeNum = n then [s]
    else []
  | .ctr v => if s.gen.ctr = v then [s] else []

def onEvent (cfg : Cfg) (cn : State → State) (budget : Nat) (cur : SSet) (e : Ev) : Option SSet :=
  let nxt := cur.fold (fun (acc : List State) s => (onState cfg s e).map cn ++ acc) []
  startSet cfg cn budget nxt

partial def admitsLoop (cfg : Cfg) (cn : State → State) (budget : Nat) (toks : List String) :
    List Ev → Nat → SSet → Nat → String
  | [], _, cur, mx => s!"ok {mx} {cur.size}"
  | e :: es, i, cur, mx =>
    match onEvent cfg cn budget cur e with
    | none => s!"budget {i}"
    | some nxt =>
      if nxt.isEmpty then s!"reject {i} {toks.getD i "?"} {cur.size}"
      else admitsLoop cfg cn budget toks es (i + 1) nxt (max mx nxt.size)

def admits (cfg : Cfg) (ctr : Int) (reduce : Bool) (budget : Nat) (toks : List String) (h : List Ev) : String :=
  let nCalls := (h.filter (fun e => match e with | .begin .. => true | _ => false)).length
  let hist : Hist := ⟨nCalls, decide (nCalls < cfg.queueCap)⟩
  let bigMax : Bool := decide ((nCalls : Int) < cfg.objQueueMax)
  let cn : State → State := if reduce then (fun s => canon hist (eagerNorm cfg bigMax 4 s)) else id
  match startSet cfg cn budget [cn (init cfg ctr)] with
  | none => "budget 0"
  | some s0 => admitsLoop cfg cn budget toks h 0 s0 s0.size

def parseOptNat (s : String) : Option (Option Nat) :=
  if s = "-" then some none else (parseNat? s).map some

def handle (ws : List String) : String :=
  match ws with
  | ["genrun", c, ops] =>
    match parseInt? c with
    | some c => (match genRun ⟨c, []⟩ ops.toList with
      | some g => showGen g
      | none => "bad-op")
    | none => "bad-op"
  | ["genrun", c] =>
    match parseInt? c with
    | some c => showGen ⟨c, []⟩
    | none => "bad-op"
  | ["genseq", c, n] =>
    match parseInt? c, parseNat? n with
    | some c, some n => (match genSeqN ⟨c, []⟩ n with
      | some g => showGen g
      | none => "stuck")
    | _, _ => "bad-op"
  | ["genctr", c, n] =>
    match parseInt? c, parseNat? n with
    | some c, some n => (match genSeqN ⟨c, []⟩ n with
      | some g => s!"ok {g.ctr} {g.issued.length}"
      | none => "stuck")
    | _, _ => "bad-op"
  | "genadmits" :: c :: lists =>
    match parseInt? c, lists.foldr (fun w acc => match parseIds w, acc with
        | some l, some ls => some (l :: ls)
        | _, _ => none) (some []) with
    | some c, some ls =>
      let s0 : GState := ⟨c, ls.map (fun l => ⟨l, true⟩)⟩
      (match gSearch [s0] (({} : Std.HashSet GState).insert s0) 2000000 with
      | some n => s!"ok {n}"
      | none => "reject")
    | _, _ => "bad-op"
  | ["deadline", t, ctx, per, now, path] =>
    let pth : Option Tars.Call.Path := match path with
      | "direct" => some .direct | "single" => some .single
      | "middleware" => some .middleware | "prepost" => some .prePost | _ => none
    match parseNat? t, parseOptNat ctx, parseOptNat per, parseNat? now, pth with
    | some t, some ctx, some per, some now, some pth =>
      (match Tars.Call.handedDeadline ⟨1, 0, 1, 0, 0, t⟩ now ⟨false, 0, ctx, per, 0⟩ pth with
      | some d => toString d
      | none => "none")
    | _, _, _, _, _ => "bad-op"
  | ["deadline", t, ctx, per, now] =>
    match parseNat? t, parseOptNat ctx, parseOptNat per, parseNat? now with
    | some t, some ctx, some per, some now =>
      toString (Tars.Call.effDeadline ⟨1, 0, 1, 0, 0, t⟩ now ⟨false, 0, ctx, per, 0⟩)
    | _, _, _, _ => "bad-op"
  | ["budget", d, w, st, dl, la, bl] =>
    match parseNat? d, parseNat? w, parseNat? st, parseNat? dl, parseNat? la, parseBool? bl with
    | some d, some w, some st, some dl, some la, some bl =>
      let cfg : Cfg := ⟨1, 0, 1, w, d, 0⟩
      let t : Tars.Call.Times := ⟨st, dl, la, la, bl, 0⟩
      s!"{Tars.Call.budget cfg t} {Tars.Call.propertyBound cfg t}"
    | _, _, _, _, _, _ => "bad-op"
  | "admits" :: n :: om :: qc :: wt :: c :: b :: evs =>
    match parseNat? n, parseInt? om, parseNat? qc, parseNat? wt, parseInt? c, parseNat? b, parseEvs evs with
    | some n, some om, some qc, some wt, some c, some b, some h => admits ⟨n, om, qc, wt, 0, 0⟩ c true b evs h
    | _, _, _, _, _, _, _ => "bad-op"
  | "admits0" :: n :: om :: qc :: wt :: c :: b :: evs =>
    match parseNat? n, parseInt? om, parseNat? qc, parseNat? wt, parseInt? c, parseNat? b, parseEvs evs with
    | some n, some om, some qc, some wt, some c, some b, some h => admits ⟨n, om, qc, wt, 0, 0⟩ c false b evs h
    | _, _, _, _, _, _, _ => "bad-op"
  | _ => "bad-op"

end Tars.Driver.Call
