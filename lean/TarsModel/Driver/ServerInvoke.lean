/-
  Driver for the server-answer model (C10), stream `srvinvoke`.

    serve <variant> <pool> <ht> <udp> <ver> <ptype> <mtype> <id> <servant> <func> <buf> <timeout> <ctx> <status> <sub> <kind> <code> <msg> <dur>
        → the admissible outcomes, joined by ` | `; one outcome is
          `inv=<0|1> n=<writes> <packet>*`, a packet is
            `rsp <ver> <ptype> <id> <mtype> <ret> <buf> <status> <desc> <ctx>`
          | `req <ver> <ptype> <mtype> <id> <servant> <func> <buf> <timeout> <ctx> <status>`
          | `empty`                                  (a write of zero bytes)
    timeout <variant> <ver> <ptype> <id>             → `InvokeTimeout` alone: a packet or `nil`
    closemsg <variant>                               → `GetCloseMsg`
    tupattrs <ret> <outs>                            → the attributes the emitted dispatcher puts into a TUP answer, in
                                                       PutBuffer order: <ret> = `-` (void) | `=<hex of the encoded return value>`,
                                                       <outs> = `-` | `<name>:<hex>,…`; answer `<name>:<hex>,…` | `-`
    variant                                          → `<ti><se><ts>` of the current tree (from Generated/Consts)

  <variant> = `tree` | `asfound` | `repaired` | three flags `<ti><se><ts>` (timeoutIdentity, skipEmpty,
  tupStatus).  Strings and byte buffers travel as hex of their bytes (`-` = empty; a byte b is the
  character with code b, the model only compares strings); maps as `k:v,k:v` (`-` = empty), printed
  sorted by key.  <kind> is the behaviour of the harness's test dispatcher for the request's function
  name (the same Go function decides it for the real dispatcher in the server process):
    ok        tars2go's success path, echoing the request's buffer, status and context
    raw       returns nil without touching *tarsResp
    setpt     like ok, but with CPacketType = 1 and IMessageType = 7 in *tarsResp
    err       returns &tars.Error{code, msg}          plainerr   returns errors.New(msg)
  <dur> = model-time the dispatcher runs (ms).
-/
import TarsModel.Driver.Common
import TarsModel.Model.ServerInvoke

namespace Tars.Driver.ServerInvoke
open Tars Tars.Driver Tars.ServerInvoke

def strOfBytes (bs : Bytes) : String := String.ofList (bs.map (fun b => Char.ofNat b.val))
def bytesOfStr (s : String) : Bytes := s.toList.map (fun c => byte c.toNat)

def parseStr (s : String) : Option String := (fromHex s).map strOfBytes
def showStr (s : String) : String := hexOut (bytesOfStr s)
def parseBuf (s : String) : Option Buf := (fromHex s).map (fun bs => bs.map (fun b => (b.val : Int)))
def showBuf (b : Buf) : String := hexOut (b.map (fun i => byte i.toNat))

def splitOn (c : Char) (s : String) : List String :=
  let rec go : List Char → List Char → List String → List String
    | [], cur, acc => (String.ofList cur.reverse :: acc).reverse
    | x :: xs, cur, acc => if x = c then go xs [] (String.ofList cur.reverse :: acc) else go xs (x :: cur) acc
  go s.toList [] []

def parseMap (s : String) : Option SMap :=
  if s = "-" then some []
  else (splitOn ',' s).foldr (fun kv acc =>
    match acc, splitOn ':' kv with
    | some m, [k, v] => match parseStr k, parseStr v with
      | some k', some v' => some ((k', v') :: m)
      | _, _ => none
    | _, _ => none) (some [])

def insertSorted (e : String × String) : List (String × String) → List (String × String)
  | [] => [e]
  | x :: xs => if e.1 < x.1 then e :: x :: xs else x :: insertSorted e xs

def showMap (m : SMap) : String :=
  let hexed := m.map (fun e => (showStr e.1, showStr e.2))
  let sorted := hexed.foldr insertSorted []
  if sorted.isEmpty then "-" else String.intercalate "," (sorted.map (fun e => e.1 ++ ":" ++ e.2))

def parseVariant (s : String) : Option Variant :=
  match s with
  | "tree" => some treeVariant
  | "asfound" => some .asFound
  | "repaired" => some .repaired
  | _ => match s.toList with
    | [a, b, c] =>
      let f : Char → Option Bool := fun x => if x = '1' then some true else if x = '0' then some false else none
      match f a, f b, f c with
      | some x, some y, some z => some ⟨x, y, z⟩
      | _, _, _ => none
    | _ => none

def showVariant (v : Variant) : String :=
  let f : Bool → String := fun b => if b then "1" else "0"
  f v.timeoutIdentity ++ f v.skipEmpty ++ f v.tupStatus

def showWire : Option Wire → String
  | none => "empty"
  | some (.rsp p) =>
    s!"rsp {p.iVersion} {p.cPacketType} {p.iRequestId} {p.iMessageType} {p.iRet} {showBuf p.sBuffer} {showMap p.status} {showStr p.sResultDesc} {showMap p.context}"
  | some (.req p) =>
    s!"req {p.iVersion} {p.cPacketType} {p.iMessageType} {p.iRequestId} {showStr p.sServantName} {showStr p.sFuncName} {showBuf p.sBuffer} {p.iTimeout} {showMap p.context} {showMap p.status}"

def showOutcome (o : Outcome) : String :=
  let inv := if o.invoked then "1" else "0"
  String.intercalate " " (s!"inv={inv}" :: s!"n={o.sent.length}" :: o.sent.map showWire)

/-- the harness's test dispatcher -/
def testDisp (kind : String) (code : Int) (msg : String) (dur : Nat) : Option Disp :=
  match kind with
  | "ok" => some ⟨fun req rsp => genOk req.sBuffer req.status req.context req rsp, dur⟩
  | "raw" => some ⟨fun _ rsp => ⟨rsp, none⟩, dur⟩
  | "setpt" => some ⟨fun req _ =>
      ⟨⟨req.iVersion, 1, req.iRequestId, 7, 0, req.sBuffer, req.status, "", req.context⟩, none⟩, dur⟩
  | "err" => some ⟨genErr (.tars code msg), dur⟩
  | "plainerr" => some ⟨genErr (.plain msg), dur⟩
  | _ => none

def handle : List String → String
  | ["serve", v, pool, ht, udp, ver, ptype, mtype, id, servant, func, buf, timeout, ctx, status, sub, kind, code, msg, dur] =>
    match parseVariant v, parseNat? pool, parseNat? ht, parseBool? udp with
    | some v, some pool, some ht, some udp =>
      match parseInt? ver, parseInt? ptype, parseInt? mtype, parseInt? id, parseStr servant, parseStr func with
      | some ver, some ptype, some mtype, some id, some servant, some func =>
        match parseBuf buf, parseInt? timeout, parseMap ctx, parseMap status, parseInt? sub with
        | some buf, some timeout, some ctx, some status, some sub =>
          match parseInt? code, parseStr msg, parseNat? dur with
          | some code, some msg, some dur =>
            match testDisp kind code msg dur with
            | some d =>
              let req : RequestPacket := ⟨ver, ptype, mtype, id, servant, func, buf, timeout, ctx, status⟩
              String.intercalate " | " ((serveOne v ⟨pool, ht, udp⟩ req sub d).map showOutcome)
            | none => "bad-kind"
          | _, _, _ => "bad-disp"
        | _, _, _, _, _ => "bad-req2"
      | _, _, _, _, _, _ => "bad-req1"
    | _, _, _, _ => "bad-config"
  | ["timeout", v, ver, ptype, id] =>
    match parseVariant v, parseInt? ver, parseInt? ptype, parseInt? id with
    | some v, some ver, some ptype, some id =>
      match invokeTimeout v { RequestPacket.zero with iVersion := ver, cPacketType := ptype, iRequestId := id } with
      | none => "nil"
      | some w => showWire (some w)
    | _, _, _, _ => "bad-op"
  | ["closemsg", v] =>
    match parseVariant v with
    | some v => showWire (some (getCloseMsg v))
    | none => "bad-op"
  | ["tupattrs", ret, outs] =>
    -- ret: `-` (void) | `=<hex>`; outs: `-` | `name:hex,name:hex` (names hex as well)
    let retV : Option (Option (List Nat)) :=
      if ret = "-" then some none
      else match ret.toList with
        | '=' :: h => (fromHex (String.ofList h)).map (fun bs => some (bs.map (·.val)))
        | _ => none
    let outsV : Option (List (String × List Nat)) :=
      if outs = "-" then some []
      else (splitOn ',' outs).foldr (fun kv acc =>
        match acc, splitOn ':' kv with
        | some m, [k, v] => match parseStr k, fromHex v with
          | some k', some v' => some ((k', v'.map (·.val)) :: m)
          | _, _ => none
        | _, _ => none) (some [])
    match retV, outsV with
    | some r, some os =>
      let attrs := genTupRspAttrs r os
      if attrs.isEmpty then "-"
      else String.intercalate "," (attrs.map (fun e => showStr e.1 ++ ":" ++ hexOut (e.2.map byte)))
    | _, _ => "bad-op"
  | ["variant"] => showVariant treeVariant
  | _ => "bad-op"

end Tars.Driver.ServerInvoke
