/-
  Driver for the framing model (C07).

    req  <maxLen> <bytes>                    → `ret <pkgLen> <status>` | `panic`
    session <s|c> <maxLen> <chunk>… | <chunk>… | …  → one `feed` answer per connection, joined by ` | `
                                               (every connection starts with `reconnect`)
    feed <s|c> <maxLen> <chunk> <chunk> …    → `st=<o|c|p> buf=<len>:<hash> trace=<n><o|c|p>,… pk=<len>:<hash>,…`

  `<bytes>`/`<chunk>`: `-` (empty) or comma-separated parts, each `hex` or `hex*count` (the hex
  string repeated).  `trace`: after every chunk the cumulative number of delivered packets and the
  status.  Packets and the buffer are reported as length and FNV-1a/32 hash.
-/
import TarsModel.Driver.Common
import TarsModel.Model.Frame

namespace Tars.Driver.Frame
open Tars Tars.Driver Tars.Frame

def fnv (bs : Bytes) : Nat :=
  bs.foldl (fun h b => ((h ^^^ b.val) * 16777619) % 4294967296) 2166136261

def splitOn (sep : Char) (s : String) : List String :=
  let rec go : List Char → List Char → List String → List String
    | [], cur, acc => (String.ofList cur.reverse :: acc).reverse
    | c :: cs, cur, acc =>
      if c = sep then go cs [] (String.ofList cur.reverse :: acc) else go cs (c :: cur) acc
  go s.toList [] []

def parsePart (s : String) : Option Bytes :=
  match splitOn '*' s with
  | [h] => fromHex h
  | [h, n] =>
    match fromHex h, parseNat? n with
    | some bs, some k => some (List.replicate k bs).flatten
    | _, _ => none
  | _ => none

def parseBytes (s : String) : Option Bytes :=
  if s = "-" then some []
  else (splitOn ',' s).foldl (fun acc p =>
    match acc, parsePart p with
    | some a, some b => some (a ++ b)
    | _, _ => none) (some [])

def parseChunks : List String → Option (List Bytes)
  | [] => some []
  | w :: ws =>
    match parseBytes w, parseChunks ws with
    | some c, some cs => some (c :: cs)
    | _, _ => none

def stName : Status → String
  | .open => "o" | .closed => "c" | .panicked => "p"

def summary (bs : Bytes) : String := s!"{bs.length}:{fnv bs}"

def commaSep (xs : List String) : String :=
  if xs.isEmpty then "-" else String.intercalate "," xs

def parseSide (s : String) : Option Side :=
  if s = "s" then some .server else if s = "c" then some .client else none

/-- split a word list at the words `|` -/
def splitWords (ws : List String) : List (List String) :=
  let rec go : List String → List String → List (List String) → List (List String)
    | [], cur, acc => (cur.reverse :: acc).reverse
    | w :: rest, cur, acc => if w = "|" then go rest [] (cur.reverse :: acc) else go rest (w :: cur) acc
  go ws [] []

def handle (ws : List String) : String :=
  match ws with
  | ["req", m, b] =>
    match parseInt? m, parseBytes b with
    | some maxLen, some bs =>
      match tarsRequest maxLen bs with
      | .ret n s => s!"ret {n} {s}"
      | .panic => "panic"
    | _, _ => "bad-op"
  | "feed" :: side :: m :: chunks =>
    match parseSide side, parseInt? m, parseChunks chunks with
    | some sd, some maxLen, some cs =>
      let r := feedTrace sd maxLen Conn.init 0 cs
      let tr := r.2.2.map fun (n, s) => s!"{n}{stName s}"
      let pk := r.2.1.map summary
      s!"st={stName r.1.status} buf={summary r.1.buf} trace={commaSep tr} pk={commaSep pk}"
    | _, _, _ => "bad-op"
  | "session" :: side :: m :: rest =>
    -- connections separated by the word `|`
    let groups := splitWords rest
    match parseSide side, parseInt? m, groups.mapM parseChunks with
    | some sd, some maxLen, some conns =>
      let rs := conns.map fun cs =>
        let r := feedTrace sd maxLen (reconnect Conn.init) 0 cs
        let tr := r.2.2.map fun (n, s) => s!"{n}{stName s}"
        s!"st={stName r.1.status} buf={summary r.1.buf} trace={commaSep tr} pk={commaSep (r.2.1.map summary)}"
      String.intercalate " | " rs
    | _, _, _ => "bad-op"
  | _ => "bad-op"

end Tars.Driver.Frame
