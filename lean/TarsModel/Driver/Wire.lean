/-
  Driver for the primitive codec (C02): `w <type> <tag> <value>` and
  `r <type> <tag> <require> <old> <hex>`.
-/
import TarsModel.Driver.Common
import TarsModel.Model.Wire
import TarsModel.Model.SkipIter
import TarsModel.Model.Tup
import TarsModel.Model.TraceKey

namespace Tars.Driver.Wire
open Tars Tars.Driver

def errName : Err → String
  | .eof => "eof" | .require => "require" | .mismatch => "mismatch" | .invalid => "invalid"
  | .slhead => "slhead" | .fuel => "fuel" | .panic s => "panic:" ++ s

def showRes {α : Type} (sh : α → String) (x : Res α) : String :=
  match x with
  | (.ok a, r) => s!"ok {sh a} {r.pos}"
  | (.error e, _) => s!"err {errName e}"

def write (ty : String) (tag : Nat) (v : String) : Option Bytes :=
  match ty with
  | "i8" => (parseInt? v).map (writeInt8 · tag)
  | "i16" => (parseInt? v).map (writeInt16 · tag)
  | "i32" => (parseInt? v).map (writeInt32 · tag)
  | "i64" => (parseInt? v).map (writeInt64 · tag)
  | "u8" => (parseNat? v).map (writeUint8 · tag)
  | "u16" => (parseNat? v).map (writeUint16 · tag)
  | "u32" => (parseNat? v).map (writeUint32 · tag)
  | "bool" => (parseBool? v).map (writeBool · tag)
  | "f32" => (parseNat? v).map (writeFloat32 · tag)
  | "f64" => (parseNat? v).map (writeFloat64 · tag)
  | "str" => (fromHex v).map (writeString · tag)
  | _ => none

def read (ty : String) (tag : Nat) (req : Bool) (old : String) (data : Bytes) : Option String :=
  let r := Reader.mk0 data
  match ty with
  | "i8" => (parseInt? old).map fun o => showRes toString (readInt8 o tag req r)
  | "i16" => (parseInt? old).map fun o => showRes toString (readInt16 o tag req r)
  | "i32" => (parseInt? old).map fun o => showRes toString (readInt32 o tag req r)
  | "i64" => (parseInt? old).map fun o => showRes toString (readInt64 o tag req r)
  | "u8" => (parseNat? old).map fun o => showRes toString (readUint8 o tag req r)
  | "u16" => (parseNat? old).map fun o => showRes toString (readUint16 o tag req r)
  | "u32" => (parseNat? old).map fun o => showRes toString (readUint32 o tag req r)
  | "bool" => (parseBool? old).map fun o => showRes (fun b => if b then "1" else "0") (readBool o tag req r)
  | "f32" => (parseNat? old).map fun o => showRes toString (readFloat32 o tag req r)
  | "f64" => (parseNat? old).map fun o => showRes toString (readFloat64 o tag req r)
  | "str" => (fromHex old).map fun o => showRes hexOut (readString o tag req r)
  | _ => none

/-! ### TUP attribute set (`Model/Tup.lean`; harness `harness/tuprun`) -/

/-- bytes of the line protocol inside an entry list: plain hex, the empty string for no bytes -/
def hexIn (s : String) : Option Bytes := if s.isEmpty then some [] else fromHex s
def hexPlain (bs : Bytes) : String := if bs.isEmpty then "" else toHex bs

/-- split at a separator character -/
def splitAt (sep : Char) : List Char → List Char → List String → List String
  | [], cur, acc => (String.ofList cur.reverse :: acc).reverse
  | c :: cs, cur, acc =>
    if c = sep then splitAt sep cs [] (String.ofList cur.reverse :: acc) else splitAt sep cs (c :: cur) acc

/-- `khex=vhex,khex=vhex,…` (`-` = no entry) -/
def parseEntries (s : String) : Option Tup.TupMap :=
  if s = "-" then some []
  else (splitAt ',' s.toList [] []).mapM fun e =>
    match splitAt '=' e.toList [] [] with
    | [k, v] => do let k' ← hexIn k; let v' ← hexIn v; pure (k', v')
    | _ => none

/-- entries sorted by key (hex order = byte order) -/
def showEntries (m : Tup.TupMap) : String :=
  if m.isEmpty then "-"
  else
    let es := (m.map fun p => (hexPlain p.1, hexPlain p.2)).mergeSort (fun a b => decide (a.1 ≤ b.1))
    ",".intercalate (es.map fun p => p.1 ++ "=" ++ p.2)

/-- canonical result of `UniAttribute.Decode`: outcome, `u.data` afterwards, reader position,
    ghost counters -/
def showTup (o : Tup.Out) : String :=
  let oc := match o.err with | none => "ok" | some e => "err:" ++ errName e
  s!"{oc} {showEntries o.data} pos={o.rd.pos} iters={o.iters} alloc={o.alloc}"

def handle (ws : List String) : String :=
  match ws with
  | ["w", ty, tag, v] =>
    match parseNat? tag with
    | some t => match write ty t v with
      | some bs => hexOut bs
      | none => "bad-op"
    | none => "bad-op"
  | ["r", ty, tag, req, old, hex] =>
    match parseNat? tag, parseBool? req, fromHex hex with
    | some t, some rq, some data => (read ty t rq old data).getD "bad-op"
    | _, _, _ => "bad-op"
  | ["skipend", hex] =>
    -- Reader.SkipToStructEnd() as it is now (iterative) …
    match fromHex hex with
    | some data => showRes (fun _ => "-") (skipToStructEndIter (Reader.mk0 data))
    | none => "bad-op"
  | ["skipendrec", hex] =>
    -- … and the recursive specification
    match fromHex hex with
    | some data => let r := Reader.mk0 data; showRes (fun _ => "-") (skipToStructEnd r.fuel r)
    | none => "bad-op"
  | ["skipstack", hex] =>
    -- largest number of entries on the explicit skip stack
    match fromHex hex with
    | some data => let r := Reader.mk0 data; toString (maxStackFields r.iterFuel Consts.tyStructBegin [] r)
    | none => "bad-op"
  | ["tupenc", ents] =>
    -- UniAttribute.Encode, the `range` visiting the entries in the given order
    match parseEntries ents with
    | some l => hexOut (Tup.encode l)
    | none => "bad-op"
  | ["tupdec", hex] =>
    -- UniAttribute.Decode of the current tree into a fresh attribute set
    match fromHex hex with
    | some data => showTup (Tup.decode [] (Reader.mk0 data))
    | none => "bad-op"
  | ["tupdecv", v, hex] =>
    -- … of a given variant (1 = count validated, 0 = as found)
    match parseBool? v, fromHex hex with
    | some c, some data => showTup (Tup.decodeV c [] (Reader.mk0 data))
    | _, _ => "bad-op"
  | ["tupvariant"] => if Tup.countChecked then "checked" else "asfound"
  | ["tracetype", dflt, hex] =>
    -- trace.initType(tid) with GetTraceParamMaxLen() = dflt
    match parseNat? dflt, hexIn (if hex = "-" then "" else hex) with
    | some d, some tid =>
      match TraceKey.initType d tid with
      | .ok (t, m) => s!"ok {t} {m}"
      | .error e => "err " ++ errName e
    | _, _ => "bad-op"
  | ["tracekey", dflt, hex] =>
    -- SpanContext.Init(traceKey)
    match parseNat? dflt, hexIn (if hex = "-" then "" else hex) with
    | some d, some key =>
      match TraceKey.spanInit d key with
      | .ok (some (t, m)) => s!"ok {t} {m}"
      | .ok none => "reset"
      | .error e => "err " ++ errName e
    | _, _ => "bad-op"
  | ["widen", bits] =>
    match parseNat? bits with
    | some b => toString (widenF32 b)
    | none => "bad-op"
  | _ => "bad-op"

end Tars.Driver.Wire
