/-
  Driver for the primitive codec (C02): `w <type> <tag> <value>` and
  `r <type> <tag> <require> <old> <hex>`.
-/
import TarsModel.Driver.Common
import TarsModel.Model.Wire
import TarsModel.Model.SkipIter

namespace Tars.Driver.Wire
open Tars Tars.Driver

def errName : Err → String
  | .eof => "eof" | .require => "require" | .mismatch => "mismatch" | .invalid => "invalid"
  | .slhead => "slhead" | .fuel => "fuel" | .panic s => "panic:" ++ s

def showRes {α : Type} (sh : α → String) (x : Res α) : String :=
  match x with
  | (.ok a, r) => s!"ok {sh a} {r.pos}"
  | (.error e, _) => s!"err {errName e}"

def write (ty : String) (tag : Nat) (v : String) : Option Bytes :=
  match ty with
  | "i8" => (parseInt? v).map (writeInt8 · tag)
  | "i16" => (parseInt? v).map (writeInt16 · tag)
  | "i32" => (parseInt? v).map (writeInt32 · tag)
  | "i64" => (parseInt? v).map (writeInt64 · tag)
  | "u8" => (parseNat? v).map (writeUint8 · tag)
  | "u16" => (parseNat? v).map (writeUint16 · tag)
  | "u32" => (parseNat? v).map (writeUint32 · tag)
  | "bool" => (parseBool? v).map (writeBool · tag)
  | "f32" => (parseNat? v).map (writeFloat32 · tag)
  | "f64" => (parseNat? v).map (writeFloat64 · tag)
  | "str" => (fromHex v).map (writeString · tag)
  | _ => none

def read (ty : String) (tag : Nat) (req : Bool) (old : String) (data : Bytes) : Option String :=
  let r := Reader.mk0 data
  match ty with
  | "i8" => (parseInt? old).map fun o => showRes toString (readInt8 o tag req r)
  | "i16" => (parseInt? old).map fun o => showRes toString (readInt16 o tag req r)
  | "i32" => (parseInt? old).map fun o => showRes toString (readInt32 o tag req r)
  | "i64" => (parseInt? old).map fun o => showRes toString (readInt64 o tag req r)
  | "u8" => (parseNat? old).map fun o => showRes toString (readUint8 o tag req r)
  | "u16" => (parseNat? old).map fun o => showRes toString (readUint16 o tag req r)
  | "u32" => (parseNat? old).map fun o => showRes toString (readUint32 o tag req r)
  | "bool" => (parseBool? old).map fun o => showRes (fun b => if b then "1" else "0") (readBool o tag req r)
  | "f32" => (parseNat? old).map fun o => showRes toString (readFloat32 o tag req r)
  | "f64" => (parseNat? old).map fun o => showRes toString (readFloat64 o tag req r)
  | "str" => (fromHex old).map fun o => showRes hexOut (readString o tag req r)
  | _ => none

def handle (ws : List String) : String :=
  match ws with
  | ["w", ty, tag, v] =>
    match parseNat? tag with
    | some t => match write ty t v with
      | some bs => hexOut bs
      | none => "bad-op"
    | none => "bad-op"
  | ["r", ty, tag, req, old, hex] =>
    match parseNat? tag, parseBool? req, fromHex hex with
    | some t, some rq, some data => (read ty t rq old data).getD "bad-op"
    | _, _, _ => "bad-op"
  | ["skipend", hex] =>
    -- Reader.SkipToStructEnd() as it is now (iterative) …
    match fromHex hex with
    | some data => showRes (fun _ => "-") (skipToStructEndIter (Reader.mk0 data))
    | none => "bad-op"
  | ["skipendrec", hex] =>
    -- … and the recursive specification
    match fromHex hex with
    | some data => let r := Reader.mk0 data; showRes (fun _ => "-") (skipToStructEnd r.fuel r)
    | none => "bad-op"
  | ["skipstack", hex] =>
    -- largest number of entries on the explicit skip stack
    match fromHex hex with
    | some data => let r := Reader.mk0 data; toString (maxStackFields r.iterFuel Consts.tyStructBegin [] r)
    | none => "bad-op"
  | ["widen", bits] =>
    match parseNat? bits with
    | some b => toString (widenF32 b)
    | none => "bad-op"
  | _ => "bad-op"

end Tars.Driver.Wire
