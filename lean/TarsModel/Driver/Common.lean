/-
  Line-protocol plumbing shared by all drivers: one operation per input line, one result line
  per operation.  Core Lean only.
-/
import TarsModel.Model.Bytes

namespace Tars.Driver

def wordsAux : List Char → List Char → List String → List String
  | [], cur, acc => (if cur.isEmpty then acc else String.ofList cur.reverse :: acc).reverse
  | c :: cs, cur, acc =>
    if c = ' ' || c = '\n' || c = '\r' || c = '\t' then
      wordsAux cs [] (if cur.isEmpty then acc else String.ofList cur.reverse :: acc)
    else wordsAux cs (c :: cur) acc

def words (line : String) : List String := wordsAux line.toList [] []

/-- stateless driver loop -/
partial def loopPure (h : IO.FS.Stream) (out : IO.FS.Stream) (f : List String → String) : IO Unit := do
  let line ← h.getLine
  if line.isEmpty then out.flush; return ()
  if line.startsWith "#flush" then out.flush; loopPure h out f
  else
    out.putStrLn (f (words line))
    loopPure h out f

/-- stateful driver loop -/
partial def loopState {σ : Type} (h : IO.FS.Stream) (out : IO.FS.Stream)
    (step : σ → List String → σ × String) (st : σ) : IO Unit := do
  let line ← h.getLine
  if line.isEmpty then out.flush; return ()
  if line.startsWith "#flush" then out.flush; loopState h out step st
  else
    let (st', o) := step st (words line)
    out.putStrLn o
    loopState h out step st'

def parseInt? (s : String) : Option Int := s.toInt?
def parseNat? (s : String) : Option Nat := s.toNat?
def parseBool? (s : String) : Option Bool :=
  if s = "1" || s = "true" then some true else if s = "0" || s = "false" then some false else none

end Tars.Driver
