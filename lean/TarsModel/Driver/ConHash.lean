/-
  Driver for C14 (stream `conhash`): consistent-hash ring instances, mod-hash instances, the
  routing decision, MD5 and the string hashes.  Hosts travel as hex of their bytes (`-` = empty).

    variant                                 asfound | repaired  (which ring the tree has, per the extractor)
    new <id> <ew 0|1> <alg k|d>             ok       (an instance of that variant)
    refresh <id> <hexhost>:<w> ...          ok
    add <id> <hexhost> <w>                  ok | err
    remove <id> <hexhost> <w>               ok | err
    find <id> <key> ...                     <hexhost>:<w> | nf | zero   (one per key)
    size <id>                               <len sortedKeys> <len hashRing> <len mapValues>
    pts <alg> <hexhost> <n>                 ring points of virtual nodes 0..n-1
    md5 <hex>                               digest (hex)
    khash <alg> <hex>                       KetamaHashAlg.Hash / DefaultHashAlg.Hash
    mhnew <id> <ew>                         ok
    mhrefresh <id> <cycle> <hexhost>:<w>... ok            (cycle = i,j,k or -, the builder's answer)
    mhadd <id> <cycle> <hexhost> <w>        ok | err
    mhremove <id> <cycle> <hexhost> <w>     ok | err
    mhsel <id> <code> ...                   <hexhost>:<w> | err | panic
    route <cc 0|1> <set 0|1> <ty> <code>    <isHash> <hashType> <hashCode> <strategy>
    routeops <cc 0|1> <op> ...              same, after the per-call options h:<ty>:<code> | t:<ms> | i | p in that order
    sap <direct> <nEp> <nEpf> <pending> <isHash> <ty> <code> <ring id> <mh id> <rr hexhost:w|err>
                                            outcome of SelectAdapterProxy
    hashfn <s|e|n|m> <rune> ...             HashString | Hash | HashNew | MagicStringHash
-/
import TarsModel.Driver.Common
import TarsModel.Model.ConHash
import TarsModel.Model.ConHashFix
import TarsModel.Model.HashRoute

namespace Tars.Driver.ConHash
open Tars Tars.Driver Tars.ConHash Tars.HashRoute

abbrev Host := List Nat

/-- a ring instance of the variant recorded for the current tree -/
inductive AnyRing where
  | asFound (r : Ring Host)
  | repaired (r : ConHashFix.RingF Host)

structure Inst where
  ketama : Bool
  ring : AnyRing

/-- the variant of `consistenthash_new.go` the extractor recognised in the tree -/
def repairedTree : Bool := Consts.conHashRepaired == 1

def AnyRing.new (ew : Bool) : AnyRing :=
  if repairedTree then .repaired (ConHashFix.RingF.new ew) else .asFound (Ring.new ew)

def AnyRing.refresh (pts : Host → Nat → List Nat) : AnyRing → List (Ep Host) → AnyRing
  | .asFound r, es => .asFound (ConHash.refresh pts r es)
  | .repaired r, es => .repaired (ConHashFix.refresh ConHashFix.bytesLt pts r es)

def AnyRing.add (pts : Host → Nat → List Nat) : AnyRing → Ep Host → Option AnyRing
  | .asFound r, e => (ConHash.add pts r e).map .asFound
  | .repaired r, e => (ConHashFix.add ConHashFix.bytesLt pts r e).map .repaired

def AnyRing.remove (pts : Host → Nat → List Nat) : AnyRing → Ep Host → Option AnyRing
  | .asFound r, e => (ConHash.remove pts r e).map .asFound
  | .repaired r, e => (ConHashFix.remove ConHashFix.bytesLt pts r e).map .repaired

def AnyRing.find : AnyRing → Nat → Found Host
  | .asFound r, k => ConHash.findInt32 r k
  | .repaired r, k => ConHashFix.findInt32 r k

def AnyRing.sizes : AnyRing → Nat × Nat × Nat
  | .asFound r => (r.sortedKeys.size, r.hashRing.length, r.mapValues.length)
  | .repaired r => (r.sortedKeys.size, r.hashRing.length, r.mapValues.length)

structure MInst where
  mh : ModHash Host

structure St where
  rings : List (Nat × Inst) := []
  mhs : List (Nat × MInst) := []

def lookup {α : Type} : List (Nat × α) → Nat → Option α
  | [], _ => none
  | (k, v) :: l, i => if k = i then some v else lookup l i

def store {α : Type} : List (Nat × α) → Nat → α → List (Nat × α)
  | [], i, v => [(i, v)]
  | (k, w) :: l, i, v => if k = i then (i, v) :: l else (k, w) :: store l i v

def hostOfHex (s : String) : Option Host := (fromHex s).map (fun bs => bs.map (·.val))
def hexOfHost (h : Host) : String := hexOut (h.map byte)

def ptsFn (ketama : Bool) : Host → Nat → List Nat := if ketama then ketamaPts else defaultPts

def splitOn (c : Char) (s : String) : List String :=
  let rec go : List Char → List Char → List String → List String
    | [], cur, acc => (String.ofList cur.reverse :: acc).reverse
    | x :: xs, cur, acc => if x = c then go xs [] (String.ofList cur.reverse :: acc) else go xs (x :: cur) acc
  go s.toList [] []

def parseEp (s : String) : Option (Ep Host) :=
  match splitOn ':' s with
  | [h, w] =>
    match hostOfHex h, parseInt? w with
    | some host, some wt => some ⟨host, wt⟩
    | _, _ => none
  | _ => none

def parseEps : List String → Option (List (Ep Host))
  | [] => some []
  | s :: ss =>
    match parseEp s, parseEps ss with
    | some e, some es => some (e :: es)
    | _, _ => none

def parseNats : List String → Option (List Nat)
  | [] => some []
  | s :: ss =>
    match parseNat? s, parseNats ss with
    | some n, some ns => some (n :: ns)
    | _, _ => none

def parseCycle (s : String) : Option (List Nat) :=
  if s = "-" then some [] else parseNats (splitOn ',' s)

def showEp (e : Ep Host) : String := s!"{hexOfHost e.host}:{e.weight}"

def showFound : Found Host → String
  | .notFound => "nf"
  | .ep e => showEp e
  | .zeroEp => "zero"

def showSel : Sel Host → String
  | .err => "err"
  | .ep e => showEp e
  | .panic => "panic"

def showRoute : Route Host → String
  | .nilNoEndpoint => "nil-noendpoint"
  | .check => "check"
  | .selected e => "sel " ++ showEp e
  | .selectedZero => "sel zero"
  | .fallbackRandom => "random"
  | .nilSelectorError => "nil-selerr"
  | .panic => "panic"

def showStrategy : Strategy → String
  | .conHash => "conhash" | .modHash => "modhash" | .roundRobin => "roundrobin"

def joinSp (l : List String) : String := " ".intercalate l

def step (st : St) (ws : List String) : St × String :=
  match ws with
  | ["variant"] => (st, if repairedTree then "repaired" else "asfound")
  | ["new", id, ew, alg] =>
    match parseNat? id, parseBool? ew with
    | some i, some e => ({ st with rings := store st.rings i ⟨alg = "k", AnyRing.new e⟩ }, "ok")
    | _, _ => (st, "bad-op")
  | "refresh" :: id :: eps =>
    match parseNat? id, parseEps eps with
    | some i, some es =>
      match lookup st.rings i with
      | some inst => ({ st with rings := store st.rings i { inst with ring := inst.ring.refresh (ptsFn inst.ketama) es } }, "ok")
      | none => (st, "bad-id")
    | _, _ => (st, "bad-op")
  | ["add", id, h, w] =>
    match parseNat? id, hostOfHex h, parseInt? w with
    | some i, some host, some wt =>
      match lookup st.rings i with
      | some inst =>
        match inst.ring.add (ptsFn inst.ketama) ⟨host, wt⟩ with
        | some r' => ({ st with rings := store st.rings i { inst with ring := r' } }, "ok")
        | none => (st, "err")
      | none => (st, "bad-id")
    | _, _, _ => (st, "bad-op")
  | ["remove", id, h, w] =>
    match parseNat? id, hostOfHex h, parseInt? w with
    | some i, some host, some wt =>
      match lookup st.rings i with
      | some inst =>
        match inst.ring.remove (ptsFn inst.ketama) ⟨host, wt⟩ with
        | some r' => ({ st with rings := store st.rings i { inst with ring := r' } }, "ok")
        | none => (st, "err")
      | none => (st, "bad-id")
    | _, _, _ => (st, "bad-op")
  | "find" :: id :: keys =>
    match parseNat? id, parseNats keys with
    | some i, some ks =>
      match lookup st.rings i with
      | some inst => (st, joinSp (ks.map fun k => showFound (inst.ring.find k)))
      | none => (st, "bad-id")
    | _, _ => (st, "bad-op")
  | ["size", id] =>
    match parseNat? id with
    | some i =>
      match lookup st.rings i with
      | some inst => let z := inst.ring.sizes; (st, s!"{z.1} {z.2.1} {z.2.2}")
      | none => (st, "bad-id")
    | none => (st, "bad-op")
  | ["pts", alg, h, n] =>
    match hostOfHex h, parseNat? n with
    | some host, some cnt =>
      (st, joinSp (((List.range cnt).flatMap (ptsFn (alg = "k") host)).map toString))
    | _, _ => (st, "bad-op")
  | ["md5", hex] =>
    match hostOfHex hex with
    | some bs => (st, hexOfHost (MD5.sum bs))
    | none => (st, "bad-op")
  | ["khash", alg, hex] =>
    match hostOfHex hex with
    | some bs => (st, toString (if alg = "k" then ketamaHash bs else defaultHash bs))
    | none => (st, "bad-op")
  | ["mhnew", id, ew] =>
    match parseNat? id, parseBool? ew with
    | some i, some e => ({ st with mhs := store st.mhs i ⟨ModHash.new e⟩ }, "ok")
    | _, _ => (st, "bad-op")
  | "mhrefresh" :: id :: cyc :: eps =>
    match parseNat? id, parseCycle cyc, parseEps eps with
    | some i, some c, some es =>
      match lookup st.mhs i with
      | some inst => ({ st with mhs := store st.mhs i ⟨inst.mh.refresh (fun _ => c) es⟩ }, "ok")
      | none => (st, "bad-id")
    | _, _, _ => (st, "bad-op")
  | ["mhadd", id, cyc, h, w] =>
    match parseNat? id, parseCycle cyc, hostOfHex h, parseInt? w with
    | some i, some c, some host, some wt =>
      match lookup st.mhs i with
      | some inst =>
        match inst.mh.add (fun _ => c) ⟨host, wt⟩ with
        | some m' => ({ st with mhs := store st.mhs i ⟨m'⟩ }, "ok")
        | none => (st, "err")
      | none => (st, "bad-id")
    | _, _, _, _ => (st, "bad-op")
  | ["mhremove", id, cyc, h, w] =>
    match parseNat? id, parseCycle cyc, hostOfHex h, parseInt? w with
    | some i, some c, some host, some wt =>
      match lookup st.mhs i with
      | some inst =>
        match inst.mh.remove (fun _ => c) ⟨host, wt⟩ with
        | some m' => ({ st with mhs := store st.mhs i ⟨m'⟩ }, "ok")
        | none => (st, "err")
      | none => (st, "bad-id")
    | _, _, _, _ => (st, "bad-op")
  | "mhsel" :: id :: codes =>
    match parseNat? id, parseNats codes with
    | some i, some cs =>
      match lookup st.mhs i with
      | some inst => (st, joinSp (cs.map fun c => showSel (inst.mh.select c)))
      | none => (st, "bad-id")
    | _, _ => (st, "bad-op")
  | ["route", cc, set, ty, code] =>
    match parseBool? cc, parseBool? set, parseInt? ty, parseNat? code with
    | some hasCC, some doSet, some t, some c =>
      let ctx : Option ClientCurrent := if hasCC then some newClientCurrent else none
      let ctx := if doSet then (setClientHash ctx t c).1 else ctx
      let m := msgOfCtx ctx
      (st, s!"{if m.isHash then 1 else 0} {m.hashType} {m.hashCode} {showStrategy (strategy m)}")
    | _, _, _, _ => (st, "bad-op")
  | "routeops" :: cc :: toks =>
    match parseBool? cc with
    | some hasCC =>
      let parseOp (t : String) : Option CtxOp :=
        match splitOn ':' t with
        | ["h", ty, code] => (match parseInt? ty, parseNat? code with | some a, some b => some (.hash a b) | _, _ => none)
        | ["t", ms] => (parseInt? ms).map .timeout
        | ["i"] => some (.serverIP "x")
        | ["p"] => some (.serverPort "x")
        | _ => none
      let ops := toks.filterMap parseOp
      if ops.length ≠ toks.length then (st, "bad-op")
      else
        let ctx : Option ClientCurrent := if hasCC then some newClientCurrent else none
        let m := msgOfCtx (applyCtxOps ctx ops)
        (st, s!"{if m.isHash then 1 else 0} {m.hashType} {m.hashCode} {showStrategy (strategy m)}")
    | none => (st, "bad-op")
  | ["sap", direct, nEp, nEpf, pending, isHash, ty, code, rid, mid, rr] =>
    match parseBool? direct, parseNat? nEp, parseNat? nEpf, parseBool? pending, parseBool? isHash, parseInt? ty,
          parseNat? code, parseNat? rid, parseNat? mid with
    | some d, some n1, some n2, some p, some ih, some t, some c, some ri, some mi =>
      match lookup st.rings ri, lookup st.mhs mi with
      | some rinst, some minst =>
        let rrSel : Option (Sel Host) := if rr = "err" then some .err else (parseEp rr).map Sel.ep
        match rrSel with
        | some rs =>
          (st, showRoute (selectAdapterProxy d n1 n2 p ⟨ih, t, c⟩ (rinst.ring.find) (minst.mh.select) rs))
        | none => (st, "bad-op")
      | _, _ => (st, "bad-id")
    | _, _, _, _, _, _, _, _, _ => (st, "bad-op")
  | "hashfn" :: f :: runes =>
    match parseNats runes with
    | some rs =>
      match f with
      | "s" => (st, toString (hashString rs))
      | "e" => (st, toString (hashElf rs))
      | "n" => (st, toString (hashNew rs))
      | "m" => (st, toString (magicStringHash rs))
      | _ => (st, "bad-op")
    | none => (st, "bad-op")
  | _ => (st, "bad-op")

end Tars.Driver.ConHash
