/-
  Driver for the endpoint model (C18), stream `endpoint`:

    variant                                   → asFound | repaired   (what the regenerated constants select)
    parse <hex>                               → result of `parse treeVariant`
    parseV a|r <hex>                          → result of `parse asFound|repaired`
    fields <hex>                              → n f1 … fn
    atoi <hex>                                → <value> ok|syntax|range
    fmt <int>                                 → hex of `%d`
    t2e host port timeout istcp grid qos weight wtype auth setid          → endpoint line
    e2t host port timeout istcp grid qos weight wtype auth proto bind setid → EndpointF line
    desc <proto> <trail> <item>*              → <hex of render d> | <endpoint line of d.endpoint>
         item = <kind>:<form>:<sep>:<sep2>:<value>   kind ∈ hptgqwveb, form ∈ p d e f,
         value = hex for h and b, decimal otherwise
-/
import TarsModel.Driver.Common
import TarsModel.Model.Endpoint

namespace Tars.Driver.Endpoint
open Tars Tars.Driver Tars.Endpoint

def stopName : Stop → String
  | .endOfArgs => "end" | .nonFlag => "nonflag" | .terminator => "terminator" | .badSyntax => "badsyntax"
  | .undefined => "undefined" | .help => "help" | .needsArg => "needsarg" | .invalidValue => "invalid"

def showEndpoint (e : Tars.Endpoint.Endpoint) : String :=
  s!"host={hexOut e.host} port={e.port} timeout={e.timeout} istcp={e.istcp} grid={e.grid} qos={e.qos} " ++
  s!"weight={e.weight} wtype={e.weightType} auth={e.authType} proto={hexOut e.proto} bind={hexOut e.bind} " ++
  s!"setid={hexOut e.setId} key={hexOut e.key}"

def showF (f : EndpointF) : String :=
  s!"host={hexOut f.host} port={f.port} timeout={f.timeout} istcp={f.istcp} grid={f.grid} qos={f.qos} " ++
  s!"weight={f.weight} wtype={f.weightType} auth={f.authType} setid={hexOut f.setId}"

/-- coverage information only: how flag parsing ended and which `Fields` path ran -/
def branch (s : Bytes) : String :=
  let path := if allAscii s then "ascii" else "unicode"
  match fields s with
  | [] => s!"stop=nofields path={path}"
  | _ :: args => s!"stop={stopName (parseArgs args defaultFlags).2} path={path}"

def showOutcome (s : Bytes) (o : Outcome) : String :=
  match o with
  | .panic site => s!"panic {site}"
  | .ok e => s!"ok {showEndpoint e} {branch s}"

def splitOn (c : Char) (s : String) : List String :=
  let rec go : List Char → List Char → List String → List String
    | [], cur, acc => (String.ofList cur.reverse :: acc).reverse
    | x :: xs, cur, acc => if x = c then go xs [] (String.ofList cur.reverse :: acc) else go xs (x :: cur) acc
  go s.toList [] []

def parseItem (w : String) : Option Item :=
  match splitOn ':' w with
  | [k, f, sep, sep2, v] =>
    let form? : Option Form := match f with
      | "p" => some .plain | "d" => some .dd | "e" => some .eq | "f" => some .ddeq | _ => none
    let opt? : Option Opt := match k with
      | "h" => (fromHex v).map .h
      | "b" => (fromHex v).map .b
      | "p" => (parseInt? v).map .p
      | "t" => (parseInt? v).map .t
      | "g" => (parseInt? v).map .g
      | "q" => (parseInt? v).map .q
      | "w" => (parseInt? v).map .w
      | "v" => (parseInt? v).map .v
      | "e" => (parseInt? v).map .e
      | _ => none
    match form?, opt?, fromHex sep, fromHex sep2 with
    | some form, some opt, some s1, some s2 => some { opt := opt, form := form, sep := s1, sep2 := s2 }
    | _, _, _, _ => none
  | _ => none

def parseItems : List String → Option (List Item)
  | [] => some []
  | w :: ws => match parseItem w, parseItems ws with
    | some i, some is => some (i :: is)
    | _, _ => none

def handle (ws : List String) : String :=
  match ws with
  | ["variant"] => (match treeVariant with | .asFound => "asFound" | .repaired => "repaired")
  | ["parse", hex] =>
    match fromHex hex with
    | some s => showOutcome s (parse treeVariant s)
    | none => "bad-op"
  | ["parseV", v, hex] =>
    match fromHex hex, v with
    | some s, "a" => showOutcome s (parse .asFound s)
    | some s, "r" => showOutcome s (parse .repaired s)
    | _, _ => "bad-op"
  | ["fields", hex] =>
    match fromHex hex with
    | some s => let fs := fields s; fs.foldl (fun acc f => acc ++ " " ++ hexOut f) (toString fs.length)
    | none => "bad-op"
  | ["atoi", hex] =>
    match fromHex hex with
    | some s =>
      let r := parseInt s
      s!"{r.1} " ++ (match r.2 with | none => "ok" | some .syntax => "syntax" | some .range => "range")
    | none => "bad-op"
  | ["fmt", v] =>
    match parseInt? v with
    | some n => hexOut (fmtInt n)
    | none => "bad-op"
  | ["t2e", host, port, timeout, istcp, grid, qos, weight, wtype, auth, setid] =>
    match fromHex host, parseInt? port, parseInt? timeout, parseInt? istcp, parseInt? grid, parseInt? qos,
          parseInt? weight, parseInt? wtype, parseInt? auth, fromHex setid with
    | some h, some p, some t, some i, some g, some q, some w, some wt, some a, some sid =>
      showEndpoint (tars2endpoint { host := h, port := p, timeout := t, istcp := i, grid := g, qos := q,
                                    weight := w, weightType := wt, authType := a, setId := sid })
    | _, _, _, _, _, _, _, _, _, _ => "bad-op"
  | ["e2t", host, port, timeout, istcp, grid, qos, weight, wtype, auth, proto, bind, setid] =>
    match fromHex host, parseInt? port, parseInt? timeout, parseInt? istcp, parseInt? grid, parseInt? qos,
          parseInt? weight, parseInt? wtype, parseInt? auth, fromHex proto, fromHex bind, fromHex setid with
    | some h, some p, some t, some i, some g, some q, some w, some wt, some a, some pr, some b, some sid =>
      showF (endpoint2tars { host := h, port := p, timeout := t, istcp := i, grid := g, qos := q,
                             weight := w, weightType := wt, authType := a, proto := pr, bind := b,
                             container := [], setId := sid, key := [] })
    | _, _, _, _, _, _, _, _, _, _, _, _ => "bad-op"
  | "desc" :: proto :: trail :: items =>
    let proto? : Option Proto := match proto with
      | "tcp" => some .tcp | "udp" => some .udp | "ssl" => some .ssl | _ => none
    match proto?, fromHex trail, parseItems items with
    | some p, some tr, some its =>
      let d : Desc := { proto := p, items := its, trail := tr }
      s!"{hexOut (render d)} | {showEndpoint d.endpoint}"
    | _, _, _ => "bad-op"
  | _ => "bad-op"

end Tars.Driver.Endpoint
