/-
  Driver for the size-rolling writer (C20, stream `rollwriter`):

    reopens                                         → 0 | 1   (what the extractor saw in the tree)
    roll <0|1|tree> <num> <size> <len@now>…         the i-th token is the i-th `Write` call: its length in
                                                    bytes and the `gtime.CurrUnixTime` it saw
        → <slots> files, oldest first: `f<k>=<i,j,…>` (indices of the writes the file consists of,
          `-` if the file does not exist or is empty), then `dropped=<…>` and `cur=<open|closed|nil>`
-/
import TarsModel.Driver.Common
import TarsModel.Model.LogWriter

namespace Tars.Driver.LogWriter
open Tars Tars.Driver Tars.LogWriter

def splitAt (ch : Char) (s : String) : List String :=
  (s.toList.foldr (fun c (acc : List (List Char)) =>
      if c = ch then [] :: acc
      else match acc with
        | [] => [[c]]
        | x :: xs => (c :: x) :: xs) [[]]).map String.ofList

def parseWrites : List String → Nat → Option (List (Env × (Nat × Nat)))
  | [], _ => some []
  | t :: ts, i =>
    match splitAt '@' t with
    | [l, n] =>
      match parseNat? l, parseNat? n, parseWrites ts (i + 1) with
      | some l, some n, some rest => some ((⟨n, true⟩, (i, l)) :: rest)
      | _, _, _ => none
    | _ => none

def showIds (l : List (Nat × Nat)) : String :=
  if l.isEmpty then "-" else String.intercalate "," (l.map (fun p => toString p.1))

def showFiles (s : State (Nat × Nat)) : Nat → List String
  | 0 => []
  | k + 1 => s!"f{k}={showIds (fileAt s k)}" :: showFiles s k

def doRoll (reopen : Bool) (num size : Nat) (toks : List String) : String :=
  match parseWrites toks 0 with
  | none => "bad-op"
  | some ws =>
    let s := writes (fun p : Nat × Nat => p.2) reopen num size init ws
    let cur := match s.cur with
      | .nil => "nil"
      | .opened _ => "open"
      | .closed _ => "closed"
    String.intercalate " " (showFiles s (slots num)) ++ s!" dropped={showIds s.dropped} cur={cur}"

def handle (ws : List String) : String :=
  match ws with
  | ["reopens"] => if treeReopens then "1" else "0"
  | "roll" :: r :: num :: size :: toks =>
    let reopen : Option Bool :=
      if r = "tree" then some treeReopens else if r = "1" then some true else if r = "0" then some false else none
    match reopen, parseNat? num, parseNat? size with
    | some b, some n, some sz => doRoll b n sz toks
    | _, _, _ => "bad-op"
  | _ => "bad-op"

end Tars.Driver.LogWriter
