/-
  Driver for the graceful-shutdown LTS (C12), stream `serverconn`:

    consts                      → pollMs=<n> drainMs=<n> idleSecs=<n> readDlMs=<n> waits=<n> closes=<n>
    variant                     → release=<asFound|afterDrain> closeIdles=<asFound|kickOnly> invokeDec=<deferred|lastStatement|beforeWrite>   (what the extractor saw)
    admits <asFound|fixed|atomic|repaired|leak|early|notick|tree> <N> <Q> <budget> <event>…
        → ok <maxStates> <finalStates>        the LTS has a run with exactly this visible history
        → reject <i> <event> <states>         no run performs the first i events and then event i
        → budget <i>                          state set exceeded the budget (nothing decided)
    run <asFound|fixed|atomic|tree> <N> <Q> <action>…
        → ok spc=<…> pst=<…> listen=<n> conns=<summary;…>  |  stuck <i> <action>

  N = 0: no worker pool (`MaxInvoke = 0`); otherwise pool with N workers and job-queue capacity Q.

  events (what the harness observes of one real `transport.TarsServer`; `c` = connection index in
  connect order, `r` = request id):
    C.c  client connected           S.c.r  client wrote request r     P.c.r  ParsePackage sees r complete at the head of the buffer
    O.c.r  client wrote request r that needs no response (one-way packet, or Invoke returns an empty response)
    A    Serve() returned (accept loop over; with a pool: the pool has been released)
    I.c.r  Invoke(r) entered        E.c.r  Invoke(r) returned         R.c.r  client received response r
    M.c  client received the close message        X.c  client read EOF        D.c  DoClose called (receiver closed the connection)
    H    Shutdown called            T.1 / T.0 / T.x  Shutdown returned (all closed / context expired / either)
    Y.c  CloseIdles has seen connection c idle (numInvoke == 0, stale idle stamp) and is about to
         Close() it (as found) / wake its receiver (repaired)   (verif hook)
    Q    quiescence: the harness has waited far longer than every handler duration and poll period and
         nothing more was observed — admitted iff some current state cannot reach, by internal steps, a
         state in which a handler starts or ends or a client receives something
  every other action of the LTS is internal (τ); `admits` closes the state set under τ after each event.

  actions for `run`: cn · sd.c.r · ac.c · rg.c · st.c · rd.c.n · re.c.<0|1> · ag.c · dp.c · eq.c · pt · pg ·
    hs.c.i hf.c.i he.c.i hw.c.i hl.c.i hk.c.i hd.c.i · sn.c.r · dc.c · sc · cl · ax · rc · ps · rr · cm · or · cb · cv.c · cc · ce · cx ·
    rR.c.i · rM.c · rX.c
-/
import Std.Data.HashSet
import TarsModel.Driver.Common
import TarsModel.Model.ServerConn

namespace Tars.Driver.ServerConn
open Tars Tars.Driver Tars.ServerConn

abbrev SSet := Std.HashSet State

def splitDots (s : String) : List String :=
  (s.toList.foldr (fun c (acc : List (List Char)) =>
      if c = '.' then [] :: acc
      else match acc with
        | [] => [[c]]
        | x :: xs => (c :: x) :: xs) [[]]).map String.ofList

inductive Ev
  | conn (c : Nat)
  | send (c r : Nat)
  | sendNR (c r : Nat)
  | served
  | parsed (c r : Nat)
  | inv (c r : Nat)
  | ended (c r : Nat)
  | rsp (c r : Nat)
  | msg (c : Nat)
  | eof (c : Nat)
  | doClose (c : Nat)
  | shut
  | ret (d : Option Bool)
  | yield (c : Nat)
  | quiet
deriving Repr

def parseEv (tok : String) : Option Ev :=
  match splitDots tok with
  | ["H"] => some .shut
  | ["Q"] => some .quiet
  | ["A"] => some .served
  | ["T", "1"] => some (.ret (some true))
  | ["T", "0"] => some (.ret (some false))
  | ["T", "x"] => some (.ret none)
  | [k, a] =>
    match parseNat? a with
    | some a =>
      match k with
      | "C" => some (.conn a) | "M" => some (.msg a) | "X" => some (.eof a)
      | "D" => some (.doClose a) | "Y" => some (.yield a)
      | _ => none
    | none => none
  | [k, a, b] =>
    match parseNat? a, parseNat? b with
    | some a, some b =>
      match k with
      | "S" => some (.send a b) | "O" => some (.sendNR a b) | "P" => some (.parsed a b) | "I" => some (.inv a b)
      | "E" => some (.ended a b) | "R" => some (.rsp a b)
      | _ => none
    | _, _ => none
  | _ => none

def parseAll {α : Type} (f : String → Option α) : List String → Option (List α)
  | [] => some []
  | t :: ts =>
    match f t, parseAll f ts with
    | some a, some as => some (a :: as)
    | _, _ => none

/-- index of the request with id `r` among the dispatched requests of connection `c` -/
def reqIndex (s : State) (c r : Nat) : Option Nat :=
  match s.conns[c]? with
  | some k => k.reqs.findIdx? (fun q => q.id == r)
  | none => none

/-- `CloseIdles` finds connection `c` idle: `ciVisit c` with `numInvoke = 0` and a stale idle stamp
(after the clock action if the stamp is still fresh) -/
def idleVisit (cfg : Cfg) (s : State) (c : Nat) : List State :=
  match s.pass, s.conns[c]? with
  | some p, some k =>
    if p.todo.contains c && p.holding.isNone && k.registered && k.numInvoke = 0 then
      match (if k.stale then some s else step cfg s (.age c)) with
      | some s1 => (step cfg s1 (.ciVisit c)).toList
      | none => []
    else []
  | _, _ => []

/-- the successor states of `s` under the observed event -/
def fire (cfg : Cfg) (s : State) : Ev → List State
  | .conn c => if c = s.conns.length then (step cfg s .connect).toList else []
  | .send c r => (step cfg s (.send c r)).toList
  | .sendNR c r => (step cfg s (.sendNR c r)).toList
  | .served => if s.apc = .returned then [s] else []
  | .parsed c r =>
    match s.conns[c]? with
    | some k =>
      match k.rpc, k.buf with
      | .parse, x :: _ => if x = r then [s] else []
      | _, _ => []
    | none => []
  | .inv c r =>
    match reqIndex s c r with
    | some i => (step cfg s (.start c i)).toList
    | none => []
  | .ended c r =>
    match reqIndex s c r with
    | some i => (step cfg s (.fin c i)).toList ++ (step cfg s (.finEarly c i)).toList
    | none => []
  | .rsp c r =>
    match reqIndex s c r with
    | some i => (step cfg s (.recvRsp c i)).toList
    | none => []
  | .msg c => (step cfg s (.recvMsg c)).toList
  | .eof c => (step cfg s (.recvEof c)).toList
  | .doClose c =>
    match s.conns[c]? with
    | some k => if k.rpc = .closed then [s] else []
    | none => []
  | .shut => (step cfg s .shutdownCall).toList
  | .ret d =>
    match s.spc, d with
    | .returned b, some b' => if b = b' then [s] else []
    | .returned _, none => [s]
    | _, _ => []
  | .yield c =>
    -- as found: the load has happened and the connection is held for closing; kick-only: the
    -- yield sits before the wake-up, the visit itself is the observed step
    (match s.pass with
     | some p => if p.holding = some c then [s] else []
     | none => []) ++
    (match cfg.ci with
     | .kickOnly => idleVisit cfg s c
     | _ => [])
  | .quiet => [s]   -- filtered in `admitsLoop` (needs the τ-closure)

/-- an output the harness would observe if the run went on -/
def outputEnabled (cfg : Cfg) (s : State) : Bool :=
  (List.range s.conns.length).any fun c =>
    match s.conns[c]? with
    | some k =>
      ((List.range k.reqs.length).any fun i =>
        (step cfg s (.start c i)).isSome || (step cfg s (.fin c i)).isSome ||
        (step cfg s (.finEarly c i)).isSome ||
        (step cfg s (.recvRsp c i)).isSome) ||
      (step cfg s (.recvMsg c)).isSome || (step cfg s (.recvEof c)).isSome
    | none => false

/-- internal actions that may be enabled in `s` (a superset; `step` decides). Restrictions that only
drop runs and never invent one: read errors only once the server is closing (the harness uses no
read timeout and clients do not close first), and only the non-fatal kind (with `isClosed` both
kinds make the receiver return); the clock action `age c` only immediately before `CloseIdles`
looks at `c` (see `visit`). `fine` = the steps of a `CloseIdles` call are interleaved with
everything else one by one (needed when the history contains a yield event); otherwise a call is
executed as one block (`macroPass`). -/
def tauActions (fine : Bool) (s : State) : List Action :=
  let perConn := (List.range s.conns.length).flatMap fun c =>
    match s.conns[c]? with
    | none => []
    | some k =>
      let recv : List Action :=
        match k.rpc with
        | .backlog => [.accept c]
        | .unreg => [.register c]
        | .top => [.stamp c]
        | .reading =>
          ((List.range k.wire.length).map fun n => Action.read c (n + 1)) ++
            (if s.isClosed then [Action.readErr c false] else [])
        | .parse => [.dispatch c]
        | .sending _ => [.enqueue c]
        | .drainWait => [.drainTick c]
        | .draining => [.drainClose c]
        | .closed => []
      let hs : List Action := (List.range k.reqs.length).flatMap fun i =>
        match k.reqs[i]? with
        | some q =>
          match q.st with
          | .finished => [Action.write c i, Action.skip c i]
          | .writePending => [Action.lateWrite c i]
          | _ => []
        | none => []
      recv ++ hs
  perConn ++
    [.pTake, .pGive, .setClosed, .acceptExit, .relCall, .pStop, .relRet, .closeMsg, .onShutdownRet, .ctxExpire] ++
    (if fine then [.ciBegin, .ciClose, .ciEnd] else [])

/-- `CloseIdles` looks at connection `c`: with the idle stamp as it is, and — if that makes a
difference — with two more seconds on the clock -/
def visit (cfg : Cfg) (s : State) (c : Nat) : List State :=
  let plain := (step cfg s (.ciVisit c)).toList
  let aged :=
    match s.conns[c]? with
    | some k =>
      if k.numInvoke = 0 && !k.stale && k.registered then
        match step cfg s (.age c) with
        | some s1 => (step cfg s1 (.ciVisit c)).toList
        | none => []
      else []
    | none => []
  plain ++ aged

/-- one whole `CloseIdles` call without interleaving: `ciBegin`, every connection of the snapshot
(each followed at once by its `Close()` if it was found idle), `ciEnd` -/
def macroPass (cfg : Cfg) (s : State) : List State :=
  match step cfg s .ciBegin with
  | none => []
  | some s0 =>
    let todo := match s0.pass with | some p => p.todo | none => []
    let after := todo.foldl (fun (acc : List State) c =>
      acc.flatMap fun x =>
        (visit cfg x c).map fun y =>
          match step cfg y .ciClose with
          | some z => z
          | none => y) [s0]
    after.filterMap fun x => step cfg x .ciEnd

/-- The first instants of `Shutdown` take microseconds (store `isClosed`, `OnShutdown`, create the
ticker; the accept loop wakes up from its expired deadline and leaves), everything else in the model
happens on a scale of 100 ms or more. The search therefore lets nothing else happen internally while one
of these steps is pending. Like the other restrictions this can only lose runs. -/
def urgent (cfg : Cfg) (s : State) : List State :=
  match s.spc with
  | .called => (step cfg s .setClosed).toList
  | .onShutdown =>
    [Action.acceptExit, .closeMsg, .onShutdownRet].filterMap (step cfg s)
  | _ => if s.isClosed then (step cfg s .acceptExit).toList else []

/-- all τ-successors of `s` -/
def tauSuccs (cfg : Cfg) (fine : Bool) (s : State) : List State :=
  let u := urgent cfg s
  if !u.isEmpty then u else
  (tauActions fine s).filterMap (step cfg s) ++
    (if fine then
      (match s.pass with
       | some p => p.todo.flatMap (visit cfg s)
       | none => [])
     else macroPass cfg s)

/-- ghost fields that no guard reads are erased so that equal behaviours are merged -/
def erase (s : State) : State :=
  { s with msgTo := [], lastPass := [], fpNotified := false, conns := s.conns.map fun k =>
             { k with sent := [], byIdles := false, missedClosed := false, lateReg := false, sawNotify := false } }

/-- every enabled deferred `numInvoke--` is executed at once. Doing it early only lowers `numInvoke`
and frees workers earlier; whatever a later `numInvoke > 0` would have prevented (a close) is an
internal step the run can simply not take, so no visible history is lost — and since only real
`step`s are applied, none is invented. This keeps the state sets small (a finished handler is in one
state, not three). -/
def eagerDec (cfg : Cfg) (s : State) : State :=
  (List.range s.conns.length).foldl (fun s c =>
    match s.conns[c]? with
    | some k =>
      (List.range k.reqs.length).foldl (fun s i =>
        match step cfg s (.dec c i) with
        | some s' => s'
        | none => s) s
    | none => s) s

def canonC (cfg : Cfg) (s : State) : State := erase (eagerDec cfg s)

/-- close `seen` under τ-steps; `none` = budget exceeded -/
partial def closure (cfg : Cfg) (fine : Bool) (budget : Nat) : List State → SSet → Option SSet
  | [], seen => some seen
  | s :: rest, seen =>
    if seen.size > budget then none
    else
      let succs := (tauSuccs cfg fine s).map (canonC cfg)
      let (todo, seen) := succs.foldl
        (fun (acc : List State × SSet) x =>
          if acc.2.contains x then acc else (x :: acc.1, acc.2.insert x)) (rest, seen)
      closure cfg fine budget todo seen

def startSet (cfg : Cfg) (fine : Bool) (budget : Nat) (ss : List State) : Option SSet :=
  let seen := ss.foldl (fun (acc : SSet) x => acc.insert x) {}
  closure cfg fine budget seen.toList seen

/-- `send` checks the ghost list `sent` (no request id twice per connection); the driver checks that
up front so that `canon` may erase the list -/
def dupSend : List Ev → List (Nat × Nat) → Bool
  | [], _ => false
  | .send c r :: es, seen => if seen.contains (c, r) then true else dupSend es ((c, r) :: seen)
  | .sendNR c r :: es, seen => if seen.contains (c, r) then true else dupSend es ((c, r) :: seen)
  | _ :: es, seen => dupSend es seen

partial def admitsLoop (cfg : Cfg) (fine : Bool) (budget : Nat) (toks : List String) :
    List Ev → Nat → SSet → Nat → String
  | [], _, cur, mx => s!"ok {mx} {cur.size}"
  | e :: es, i, cur, mx =>
    let quietOk (s : State) : Bool :=
      match startSet cfg fine budget [s] with
      | some cl => cl.fold (fun ok x => ok && !outputEnabled cfg x) true
      | none => true
    let nxt := cur.fold (fun (acc : List State) s =>
      match e with
      | .quiet => if quietOk s then s :: acc else acc
      | _ => (fire cfg s e).map (canonC cfg) ++ acc) []
    match startSet cfg fine budget nxt with
    | none => s!"budget {i}"
    | some nx =>
      if nx.isEmpty then s!"reject {i} {toks.getD i "?"} {cur.size}"
      else admitsLoop cfg fine budget toks es (i + 1) nx (max mx nx.size)

def admits (cfg : Cfg) (budget : Nat) (toks : List String) (h : List Ev) : String :=
  if dupSend h [] then "reject 0 dup-send 0"
  else
    -- a yield event needs the steps of CloseIdles one by one
    let fine := h.any fun e => match e with | .yield _ => true | _ => false
    match startSet cfg fine budget [canonC cfg init] with
    | none => "budget 0"
    | some s0 => admitsLoop cfg fine budget toks h 0 s0 s0.size

def poolOf (n q : Nat) : Option (Nat × Nat) := if n = 0 then none else some (n, q)

def parseCfg (v : String) (n q : Nat) : Option Cfg :=
  match v with
  | "asFound" => some (asFound (poolOf n q))
  | "fixed" => some { asFound (poolOf n q) with releaseAfterDrain := true }
  | "atomic" => some { asFound (poolOf n q) with ci := .atomic }
  | "repaired" => some (repaired (poolOf n q))
  | "leak" => some { repaired (poolOf n q) with decDeferred := false }
  | "early" => some { repaired (poolOf n q) with decDeferred := false, decEarly := true }
  | "notick" => some { repaired (poolOf n q) with drainFirstTick := false }
  | "tree" => some (treeCfg (poolOf n q))
  | _ => none

def parseAct (tok : String) : Option Action :=
  match splitDots tok with
  | ["cn"] => some .connect | ["pt"] => some .pTake | ["pg"] => some .pGive | ["sc"] => some .shutdownCall
  | ["cl"] => some .setClosed | ["ax"] => some .acceptExit | ["rc"] => some .relCall
  | ["ps"] => some .pStop | ["rr"] => some .relRet | ["cm"] => some .closeMsg
  | ["or"] => some .onShutdownRet | ["cb"] => some .ciBegin | ["cc"] => some .ciClose
  | ["ce"] => some .ciEnd | ["cx"] => some .ctxExpire
  | [k, a] =>
    match parseNat? a with
    | some a =>
      match k with
      | "ac" => some (.accept a) | "rg" => some (.register a) | "st" => some (.stamp a)
      | "ag" => some (.age a) | "dp" => some (.dispatch a) | "eq" => some (.enqueue a)
      | "dc" => some (.drainClose a) | "dt" => some (.drainTick a) | "cv" => some (.ciVisit a) | "rM" => some (.recvMsg a)
      | "rX" => some (.recvEof a)
      | _ => none
    | none => none
  | [k, a, b] =>
    match parseNat? a, parseNat? b with
    | some a, some b =>
      match k with
      | "sd" => some (.send a b) | "sn" => some (.sendNR a b) | "hk" => some (.skip a b) | "he" => some (.finEarly a b) | "hl" => some (.lateWrite a b) | "rd" => some (.read a b) | "re" => some (.readErr a (b != 0))
      | "hs" => some (.start a b) | "hf" => some (.fin a b) | "hw" => some (.write a b)
      | "hd" => some (.dec a b) | "rR" => some (.recvRsp a b)
      | _ => none
    | _, _ => none
  | _ => none

def spcName : SPc → String
  | .idle => "idle" | .called => "called" | .onShutdown => "onShutdown" | .polling => "polling"
  | .returned true => "drained" | .returned false => "expired"

def pstName : PSt → String
  | .live => "live" | .stopReq => "stopReq" | .stopping => "stopping" | .stopped => "stopped"

def stName : HSt → String
  | .queued => "q" | .handed => "h" | .running => "r" | .finished => "f"
  | .wrote true => "W" | .wrote false => "w" | .done true => "D" | .done false => "d" | .leaked => "L" | .writePending => "p" | .doneLate true => "A" | .doneLate false => "a"

def b01 (b : Bool) : String := if b then "1" else "0"

def connSummary (k : Conn) : String :=
  let rs := String.intercalate "," (k.reqs.map fun q => s!"{q.id}{stName q.st}")
  let got := String.intercalate "," (k.got.map toString)
  s!"closed={b01 k.srvClosed},ni={k.numInvoke},msg={b01 k.notified},reqs=[{rs}],got=[{got}],gotMsg={b01 k.gotMsg},eof={b01 k.sawEof}"

def doRun (cfg : Cfg) (toks : List String) : String :=
  match parseAll parseAct toks with
  | none => "bad-op"
  | some acts =>
    let rec go (s : State) (as : List Action) (i : Nat) : Except Nat State :=
      match as with
      | [] => .ok s
      | a :: rest =>
        match step cfg s a with
        | some s' => go s' rest (i + 1)
        | none => .error i
    match go init acts 0 with
    | .ok s =>
      let cs := String.intercalate ";" (s.conns.map connSummary)
      s!"ok spc={spcName s.spc} pst={pstName s.pst} listen={s.listenClosed} conns={cs}"
    | .error i => s!"stuck {i} {toks.getD i "?"}"

def handle (ws : List String) : String :=
  match ws with
  | ["consts"] =>
    s!"pollMs={Consts.srvShutdownPollMs} drainMs={Consts.srvDrainPollMs} idleSecs={Consts.srvCloseIdlesSecs} readDlMs={Consts.srvClosingReadDeadlineMs} waits={Consts.srvHandleWaitsBeforeRelease} closes={Consts.srvCloseIdlesCloses}"
  | ["variant"] =>
    let c := treeCfg none
    let r := if c.releaseAfterDrain then "afterDrain" else "asFound"
    let ci := match c.ci with | .asFound => "asFound" | .atomic => "atomic" | .kickOnly => "kickOnly"
    let d := if c.decDeferred then "deferred" else if c.decEarly then "beforeWrite" else "lastStatement"
    let t := if c.drainFirstTick then "afterTick" else "beforeTick"
    s!"release={r} closeIdles={ci} invokeDec={d} drainTest={t}"
  | "admits" :: v :: n :: q :: b :: toks =>
    match parseNat? n, parseNat? q, parseNat? b with
    | some n, some q, some b =>
      match parseCfg v n q, parseAll parseEv toks with
      | some cfg, some evs => admits cfg b toks evs
      | _, _ => "bad-op"
    | _, _, _ => "bad-op"
  | "run" :: v :: n :: q :: toks =>
    match parseNat? n, parseNat? q with
    | some n, some q =>
      match parseCfg v n q with
      | some cfg => doRun cfg toks
      | none => "bad-op"
    | _, _ => "bad-op"
  | _ => "bad-op"

end Tars.Driver.ServerConn
