/-
  Driver for the call-path model (C01), stream `callpath`.  One answer line per operation:

  * `serr nil` | `serr plain <msghex>` | `serr tars <code> <msghex>` (a 4-token form
    `serr nil|plain <ignored> <msghex>` is accepted too) → `<iret> <deschex>`: what `Protocol.Invoke`
    puts into `(IRet, SResultDesc)` of the response for that result of the implementation;
  * `cerr <iret> <deschex>` → `ok` | `plain <msghex>` | `tars <code> <msghex>`: what `doInvoke`
    returns for a response carrying these;
  * `serrv <asfound|repaired> …`, `cerrv <asfound|repaired> …`: the same with the variant given
    (without it: the variant of the current tree, regenerated);
  * `cfilters <single 0|1> <nmw> <npre> <npost> <callerr 0|1>` and
    `sfilters <asfound|repaired|current> <single 0|1> <nmw> <npre> <npost> <callerr 0|1>` → the event
    trace of pass-through recording filters around a call that returns nil (`0`) or an error (`1`),
    as space-separated names `single.before single.after mw<i>.before mw<i>.after pre<i> post<i> call`
    followed by ` => ok` or ` => err`.
  Payloads are hex (`-` = empty) or decimal.
-/
import TarsModel.Driver.Common
import TarsModel.Model.CallPath

namespace Tars.Driver.CallPath
open Tars Tars.Driver Tars.CallPath Tars.Filter

def parseVariant? (s : String) : Option Variant :=
  if s = "asfound" then some .asFound else if s = "repaired" then some .repaired else none

def showPair (p : Int × Bytes) : String := s!"{p.1} {hexOut p.2}"

def parseImplErr? : List String → Option (Option GoErr)
  | ["nil"] => some none
  | ["nil", _, _] => some none
  | ["plain", m] => (fromHex m).map fun b => some (.plain b)
  | ["plain", _, m] => (fromHex m).map fun b => some (.plain b)
  | ["tars", c, m] =>
    match parseInt? c, fromHex m with
    | some code, some b => some (some (.tars code b))
    | _, _ => none
  | _ => none

/-- `serr`: the `(IRet, SResultDesc)` of the response.  For a nil error these are the values the
    generated `Dispatch` stores (`IRet: 0, SResultDesc: ""`). -/
def serr (v : Variant) (e : Option GoErr) : String :=
  match e with
  | none => showPair ((Consts.cpDispatchRet : Nat), [])
  | some e => showPair (serverErr v e)

def cerr (v : Variant) (iret : Int) (desc : Bytes) : String :=
  match clientErr v iret desc with
  | none => "ok"
  | some (.plain m) => s!"plain {hexOut m}"
  | some (.tars c m) => s!"tars {c} {hexOut m}"

/-- the call the recording filters are wrapped around: records `call`, returns nil or an error -/
def theCall (callerr : Bool) : Comp String Unit Bool := fun s => (["call"], callerr, s)

def showTrace (x : List String × Bool × Unit) : String :=
  String.intercalate " " x.1 ++ (if x.2.1 then " => err" else " => ok")

def filtersOp (variant : Option Variant) (single nmw npre npost callerr : String) : String :=
  match parseBool? single, parseNat? nmw, parseNat? npre, parseNat? npost, parseBool? callerr with
  | some sg, some m, some p, some q, some ce =>
    let reg : Reg String Unit Bool := recReg false sg m p q
    match variant with
    | none => showTrace (runClient false reg (theCall ce) ())
    | some v => showTrace (runServer v false reg (theCall ce) ())
  | _, _, _, _, _ => "bad-op"

def handle (ws : List String) : String :=
  match ws with
  | "serr" :: rest =>
    match parseImplErr? rest with
    | some e => serr currentZeroCode e
    | none => "bad-op"
  | "serrv" :: v :: rest =>
    match parseVariant? v, parseImplErr? rest with
    | some v, some e => serr v e
    | _, _ => "bad-op"
  | ["cerr", iret, desc] =>
    match parseInt? iret, fromHex desc with
    | some i, some d => cerr currentEmptyDesc i d
    | _, _ => "bad-op"
  | ["cerrv", v, iret, desc] =>
    match parseVariant? v, parseInt? iret, fromHex desc with
    | some v, some i, some d => cerr v i d
    | _, _, _ => "bad-op"
  | ["cfilters", single, nmw, npre, npost, callerr] => filtersOp none single nmw npre npost callerr
  | ["sfilters", v, single, nmw, npre, npost, callerr] =>
    if v = "current" then filtersOp (some currentPostFilter) single nmw npre npost callerr
    else
      match parseVariant? v with
      | some v => filtersOp (some v) single nmw npre npost callerr
      | none => "bad-op"
  | _ => "bad-op"

end Tars.Driver.CallPath
