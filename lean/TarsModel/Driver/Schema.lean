/-
  Driver for the generated-struct codec model (streams C03–C06): text syntax for types and values.

  Ty   : b i8 u8 i16 u16 i32 u32 i64 f32 f64 s e | v<T> | a<N,T> | m<K,V> | t<Name>
  Val  : B0 B1 | I<int> | F<bits> | D<bits> | S<hex|-> | L[v,…] | M[k=v,…] | T[v,…]
  Field: tag:req:Ty:dflt      (dflt = `-` or a Val), fields separated by `;`
  Ops  : schema <Name> <fields|->   reset   enc <Name> <Val>   dec <Name> <Val|fresh> <hex>
         zero <Name>
-/
import TarsModel.Driver.Common
import TarsModel.Driver.Wire
import TarsModel.Model.Schema

namespace Tars.Driver.Schema
open Tars Tars.Driver

/-! ### printing -/

partial def showTy : Ty → String
  | .bool => "b" | .i8 => "i8" | .u8 => "u8" | .i16 => "i16" | .u16 => "u16" | .i32 => "i32"
  | .u32 => "u32" | .i64 => "i64" | .f32 => "f32" | .f64 => "f64" | .str => "s" | .enum => "e"
  | .vec e => "v<" ++ showTy e ++ ">"
  | .arr n e => "a<" ++ toString n ++ "," ++ showTy e ++ ">"
  | .map k v => "m<" ++ showTy k ++ "," ++ showTy v ++ ">"
  | .struct n => "t<" ++ n ++ ">"

partial def showVal : Val → String
  | .bool b => if b then "B1" else "B0"
  | .int i => "I" ++ toString i
  | .f32 b => "F" ++ toString b
  | .f64 b => "D" ++ toString b
  | .str s => "S" ++ hexOut s
  | .list vs => "L[" ++ ",".intercalate (vs.map showVal) ++ "]"
  | .map kvs => "M[" ++ ",".intercalate (kvs.map fun (k, v) => showVal k ++ "=" ++ showVal v) ++ "]"
  | .struct vs => "T[" ++ ",".intercalate (vs.map showVal) ++ "]"

/-! ### parsing (recursive descent over `List Char`, fuel = input length) -/

def takeWhileC (p : Char → Bool) : List Char → List Char × List Char
  | [] => ([], [])
  | c :: cs => if p c then let (a, b) := takeWhileC p cs; (c :: a, b) else ([], c :: cs)

def isNameChar (c : Char) : Bool := c.isAlphanum || c = '_' || c = '.'

def parseTyF : Nat → List Char → Option (Ty × List Char)
  | 0, _ => none
  | fuel+1, cs =>
    match cs with
    | 'v' :: '<' :: rest =>
      match parseTyF fuel rest with
      | some (e, '>' :: rest') => some (.vec e, rest')
      | _ => none
    | 'a' :: '<' :: rest =>
      let (ds, rest1) := takeWhileC Char.isDigit rest
      match (String.ofList ds).toNat?, rest1 with
      | some n, ',' :: rest2 =>
        match parseTyF fuel rest2 with
        | some (e, '>' :: rest') => some (.arr n e, rest')
        | _ => none
      | _, _ => none
    | 'm' :: '<' :: rest =>
      match parseTyF fuel rest with
      | some (k, ',' :: rest1) =>
        match parseTyF fuel rest1 with
        | some (v, '>' :: rest') => some (.map k v, rest')
        | _ => none
      | _ => none
    | 't' :: '<' :: rest =>
      let (nm, rest1) := takeWhileC isNameChar rest
      match rest1 with
      | '>' :: rest' => some (.struct (String.ofList nm), rest')
      | _ => none
    | _ =>
      let (w, rest) := takeWhileC Char.isAlphanum cs
      match String.ofList w with
      | "b" => some (.bool, rest) | "i8" => some (.i8, rest) | "u8" => some (.u8, rest)
      | "i16" => some (.i16, rest) | "u16" => some (.u16, rest) | "i32" => some (.i32, rest)
      | "u32" => some (.u32, rest) | "i64" => some (.i64, rest) | "f32" => some (.f32, rest)
      | "f64" => some (.f64, rest) | "s" => some (.str, rest) | "e" => some (.enum, rest)
      | _ => none

def isNumChar (c : Char) : Bool := c.isDigit || c = '-'
def isHexChar (c : Char) : Bool := c.isAlphanum || c = '-'

mutual
def parseValF : Nat → List Char → Option (Val × List Char)
  | 0, _ => none
  | fuel+1, cs =>
    match cs with
    | 'B' :: '0' :: rest => some (.bool false, rest)
    | 'B' :: '1' :: rest => some (.bool true, rest)
    | 'I' :: rest =>
      let (ds, rest') := takeWhileC isNumChar rest
      (String.ofList ds).toInt?.map fun i => (.int i, rest')
    | 'F' :: rest =>
      let (ds, rest') := takeWhileC Char.isDigit rest
      (String.ofList ds).toNat?.map fun n => (.f32 n, rest')
    | 'D' :: rest =>
      let (ds, rest') := takeWhileC Char.isDigit rest
      (String.ofList ds).toNat?.map fun n => (.f64 n, rest')
    | 'S' :: rest =>
      let (hs, rest') := takeWhileC isHexChar rest
      (fromHex (String.ofList hs)).map fun b => (.str b, rest')
    | 'L' :: '[' :: rest => (parseValsF fuel rest []).map fun (vs, r) => (.list vs, r)
    | 'T' :: '[' :: rest => (parseValsF fuel rest []).map fun (vs, r) => (.struct vs, r)
    | 'M' :: '[' :: rest => (parsePairsF fuel rest []).map fun (kvs, r) => (.map kvs, r)
    | _ => none

/-- after `[`: values separated by `,` up to `]` -/
def parseValsF : Nat → List Char → List Val → Option (List Val × List Char)
  | 0, _, _ => none
  | fuel+1, cs, acc =>
    match cs with
    | ']' :: rest => some (acc.reverse, rest)
    | ',' :: rest => parseValsF fuel rest acc
    | _ =>
      match parseValF fuel cs with
      | some (v, rest) => parseValsF fuel rest (v :: acc)
      | none => none

def parsePairsF : Nat → List Char → List (Val × Val) → Option (List (Val × Val) × List Char)
  | 0, _, _ => none
  | fuel+1, cs, acc =>
    match cs with
    | ']' :: rest => some (acc.reverse, rest)
    | ',' :: rest => parsePairsF fuel rest acc
    | _ =>
      match parseValF fuel cs with
      | some (k, '=' :: rest) =>
        match parseValF fuel rest with
        | some (v, rest') => parsePairsF fuel rest' ((k, v) :: acc)
        | none => none
      | _ => none
end

def parseVal (s : String) : Option Val :=
  let cs := s.toList
  match parseValF (cs.length + 2) cs with
  | some (v, []) => some v
  | _ => none

def parseTy (s : String) : Option Ty :=
  let cs := s.toList
  match parseTyF (cs.length + 2) cs with
  | some (t, []) => some t
  | _ => none

def splitOnChar (c : Char) (cs : List Char) : List (List Char) :=
  let rec go : List Char → List Char → List (List Char) → List (List Char)
    | [], cur, acc => (cur.reverse :: acc).reverse
    | x :: xs, cur, acc => if x = c then go xs [] (cur.reverse :: acc) else go xs (x :: cur) acc
  go cs [] []

def parseField (cs : List Char) : Option Field :=
  match splitOnChar ':' cs with
  | [tg, rq, ty, df] =>
    match (String.ofList tg).toNat?, parseBool? (String.ofList rq), parseTy (String.ofList ty) with
    | some t, some r, some y =>
      if df = ['-'] then some ⟨t, r, y, none⟩
      else (parseVal (String.ofList df)).map fun d => ⟨t, r, y, some d⟩
    | _, _, _ => none
  | _ => none

def parseFields (s : String) : Option (List Field) :=
  if s = "-" then some []
  else (splitOnChar ';' s.toList).mapM parseField

/-! ### ops -/

def showRes (x : Res Val) : String :=
  match x with
  | (.ok v, r) => s!"ok {showVal v} {r.pos}"
  | (.error e, _) => s!"err {Wire.errName e}"

def step (env : Env) (ws : List String) : Env × String :=
  match ws with
  | ["reset"] => ([], "ok")
  | ["schema", name, fields] =>
    match parseFields fields with
    | some fs => (env ++ [(name, fs)], "ok")
    | none => (env, "bad-op")
  | ["enc", name, v] =>
    match parseVal v with
    | some val => (env, hexOut (encStruct env name val))
    | none => (env, "bad-op")
  | ["dec", name, old, hex] =>
    match fromHex hex with
    | some data =>
      let o := if old = "fresh" then some (freshStruct env name) else parseVal old
      match o with
      | some ov => (env, showRes (decStruct env name ov (Reader.mk0 data)))
      | none => (env, "bad-op")
    | none => (env, "bad-op")
  | ["zero", name] => (env, showVal (freshStruct env name))
  | _ => (env, "bad-op")

end Tars.Driver.Schema
