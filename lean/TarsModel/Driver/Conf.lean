/-
  Driver for the config-parser model (C17), stream `conf`.

  `doc <n> <item>* Q <path>*`     a grammar document and path strings (hex)
      item := T <nlines> <line>* <tail> | D <name> <n> <item>*
      line := K <pre> <key> <mid> 0 <post> | K <pre> <key> <mid> 1 <ws> <value> <post>
            | C <pre> <text> | B <ws>
    answer: `render <hex> toks <tok>* end wf <b> canon <b> maxline <n> R <result> A <result>`
  `toks <tok>* (eof|err) Q <path>*`   a token stream as returned by Go's xml.Decoder
      tok := S<hex> | E<hex> | C<hex> | O
    answer: `R <result> A <result>`
  result (R = repaired variant, A = as-found variant) :=
      ok (<query answer> )* | error <kind> | panic
  query answer := S=<hex>;D=<set>;K=<set>;L=<list>;M=<k:v set>;I=<int>;J=<int>;B=<b><b>
-/
import TarsModel.Driver.Common
import TarsModel.Model.Conf

namespace Tars.Driver.Conf
open Tars Tars.Driver Tars.Conf

def hx (s : String) : Option Txt := fromHex s

/-- `n` parses of `p` in sequence -/
partial def many {α : Type} (p : List String → Option (α × List String)) :
    Nat → List String → Option (List α × List String)
  | 0, ws => some ([], ws)
  | n+1, ws => do
    let (a, ws) ← p ws
    let (as, ws) ← many p n ws
    pure (a :: as, ws)

def parseLine : List String → Option (Line × List String)
  | "K" :: pre :: key :: mid :: "0" :: post :: ws => do
    pure (.kv (← hx pre) (← hx key) (← hx mid) none (← hx post), ws)
  | "K" :: pre :: key :: mid :: "1" :: w :: v :: post :: ws => do
    pure (.kv (← hx pre) (← hx key) (← hx mid) (some (← hx w, ← hx v)) (← hx post), ws)
  | "C" :: pre :: t :: ws => do pure (.comment (← hx pre) (← hx t), ws)
  | "B" :: w :: ws => do pure (.blank (← hx w), ws)
  | _ => none

partial def parseItem : List String → Option (Item × List String)
  | "T" :: n :: ws => do
    let (ls, ws) ← many parseLine (← n.toNat?) ws
    match ws with
    | tail :: ws => pure (.text ⟨ls, ← hx tail⟩, ws)
    | [] => none
  | "D" :: name :: n :: ws => do
    let (is, ws) ← many parseItem (← n.toNat?) ws
    pure (.dom (← hx name) is, ws)
  | _ => none

def parseTok (s : String) : Option Token :=
  match s.toList with
  | 'S' :: r => (hx (String.ofList r)).map .start
  | 'E' :: r => (hx (String.ofList r)).map .fin
  | 'C' :: r => (hx (String.ofList r)).map .chardata
  | ['O'] => some .other
  | _ => none

def showTok : Token → String
  | .start n => "S" ++ hexOut n
  | .fin n => "E" ++ hexOut n
  | .chardata t => "C" ++ hexOut t
  | .other => "O"

def sorted (l : List String) : List String := (l.toArray.qsort (· < ·)).toList

def showErr : ErrKind → String
  | .endMismatch => "endMismatch" | .tokenizer => "tokenizer" | .lineTooLong => "lineTooLong"

def defStr : Txt := [byte 60, byte 100, byte 101, byte 102, byte 62]   -- "<def>"

def answer (root : Elem) (path : Txt) : String :=
  let b (x : Bool) := if x then "1" else "0"
  "S=" ++ hexOut (GetStringWithDef root path defStr) ++
  ";D=" ++ ",".intercalate (sorted ((GetDomain root path).map hexOut)) ++
  ";K=" ++ ",".intercalate (sorted ((GetDomainKey root path).map hexOut)) ++
  ";L=" ++ ",".intercalate ((GetDomainLine root path).map hexOut) ++
  ";M=" ++ ",".intercalate (sorted ((GetMap root path).map (fun kv => hexOut kv.1 ++ ":" ++ hexOut kv.2))) ++
  ";I=" ++ toString (GetIntWithDef root path (-7)) ++
  ";J=" ++ toString (GetInt32WithDef root path (-7)) ++
  ";B=" ++ b (GetBoolWithDef root path true) ++ b (GetBoolWithDef root path false)

def result (v : Variant) (s : Stream) (paths : List Txt) : String :=
  match initFromTokens v s with
  | .ok root => " ".intercalate ("ok" :: paths.map (answer root))
  | .error e => "error " ++ showErr e
  | .panic => "panic"

def both (s : Stream) (paths : List Txt) : String :=
  "R " ++ result .repaired s paths ++ " A " ++ result .asFound s paths

def parsePaths (ws : List String) : Option (List Txt) := ws.mapM hx

def handle (ws : List String) : String :=
  match ws with
  | "doc" :: n :: rest =>
    match n.toNat? with
    | none => "bad-op"
    | some n =>
      match many parseItem n rest with
      | some (d, "Q" :: qs) =>
        match parsePaths qs with
        | some paths =>
          let b (x : Bool) := if x then "1" else "0"
          "render " ++ hexOut (renderL d) ++ " toks " ++ " ".intercalate ((tokensL d).map showTok) ++
          " end wf " ++ b (wfL d) ++ " canon " ++ b (canonL d) ++ " maxline " ++ toString (maxLineL d) ++ " " ++
          both ⟨tokensL d, false⟩ paths
        | none => "bad-op"
      | _ => "bad-op"
  | "toks" :: rest =>
    let toks := rest.takeWhile (fun w => w != "eof" && w != "err")
    match rest.dropWhile (fun w => w != "eof" && w != "err") with
    | e :: "Q" :: qs =>
      match toks.mapM parseTok, parsePaths qs with
      | some ts, some paths => both ⟨ts, e == "err"⟩ paths
      | _, _ => "bad-op"
    | _ => "bad-op"
  | _ => "bad-op"

end Tars.Driver.Conf
