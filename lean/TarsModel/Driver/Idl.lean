/-
  Driver for the tars2go front-end model (C16):
    lex <hex>                 token sequence of the input
    parse <a|r> <hex>         parse.NewParse on one file (as-found / repaired variant)
    tool <a|r> <hex>          the same plus the generator's acceptance conditions
  Answers: `ok <canonical dump>` | `diag <site>` | `hang` | `unsupported <what>`.
-/
import TarsModel.Driver.Common
import TarsModel.Model.Idl

namespace Tars.Driver.Idl
open Tars Tars.Idl Tars.Driver

def raw (b : Bytes) : String :=
  if b.isEmpty then "-" else String.ofList (b.map fun c => Char.ofNat c.val)

def primName : Prim → String
  | .int => "int" | .bool => "bool" | .short => "short" | .byte => "byte" | .long => "long"
  | .float => "float" | .double => "double" | .string => "string"

def tokStr : Tok → String
  | .eof => "<eos>"
  | .braceL => "{" | .braceR => "}" | .semi => ";" | .eq => "=" | .shl => "<" | .shr => ">"
  | .comma => "," | .ptl => "(" | .ptr => ")" | .sqL => "[" | .sqR => "]"
  | .kinclude => "#include"
  | .kmodule => "module" | .kenum => "enum" | .kstruct => "struct" | .kinterface => "interface"
  | .krequire => "require" | .koptional => "optional" | .kconst => "const" | .kunsigned => "unsigned"
  | .kvoid => "void" | .kout => "out" | .kkey => "key" | .ktrue => "true" | .kfalse => "false"
  | .tprim p => primName p | .tvector => "vector" | .tmap => "map" | .tarray => "array"
  | .name s => "n:" ++ raw s
  | .str s => "s:" ++ hexOut s
  | .int t v => "i:" ++ hexOut t ++ ":" ++ toString v
  | .float t => "f:" ++ hexOut t
  | .bad => "bad"

def lexLine (input : Bytes) : String :=
  let ts := tokens input
  let body := " ".intercalate (ts.map tokStr)
  match ts.getLast? with
  | some .bad => body
  | _ => if ts.isEmpty then "<eos>" else body ++ " <eos>"

def ctypeStr : CType → String
  | .unresolved => "0" | .struct => "s" | .enum => "e"

def tyStr : VarType → String
  | .prim p u => (if u then "u" else "") ++ primName p
  | .named n c => "N(" ++ raw n ++ "," ++ ctypeStr c ++ ")"
  | .vector k => "V(" ++ tyStr k ++ ")"
  | .map k v => "M(" ++ tyStr k ++ "," ++ tyStr v ++ ")"
  | .array k l => "A(" ++ tyStr k ++ "," ++ toString l ++ ")"

def defKindStr : DefKind → String
  | .none => "-" | .int => "int" | .float => "float" | .str => "str" | .true => "true"
  | .false => "false" | .name => "name"

def join (sep : String) (l : List String) : String := sep.intercalate l

def dump (f : TarsFile) : String :=
  let m := f.module
  let enums := m.enums.map fun e =>
    "E:" ++ raw e.name ++ "{" ++ join ";" (e.mb.map fun x =>
      raw x.key ++ ":" ++ toString x.type ++ ":" ++ toString x.value ++ ":" ++ raw x.name) ++ "}"
  let consts := m.consts.map fun c => "C:" ++ raw c.name ++ ":" ++ tyStr c.type ++ ":" ++ hexOut c.value
  let structs := m.structs.map fun st =>
    "S:" ++ raw st.name ++ "{" ++ join ";" (st.mb.map fun x =>
      toString x.tag ++ ":" ++ (if x.require then "r" else "o") ++ ":" ++ tyStr x.type ++ ":" ++ raw x.key
        ++ ":" ++ hexOut x.dflt ++ ":" ++ defKindStr x.defType) ++ "}"
  let keys := m.hashKeys.map fun k => "K:" ++ raw k.name ++ "[" ++ join "," (k.member.map raw) ++ "]"
  let ifs := m.interfaces.map fun i =>
    "I:" ++ raw i.name ++ "{" ++ join ";" (i.funcs.map fun fn =>
      raw fn.name ++ ":" ++ (match fn.retType with | none => "void" | some t => tyStr t) ++ "(" ++
        join "," (fn.args.map fun a => (if a.isOut then "o" else "i") ++ ":" ++ tyStr a.type ++ ":" ++ raw a.name)
        ++ ")") ++ "}"
  join "|" (["mod=" ++ raw m.name, "inc=" ++ join "," (f.includes.map hexOut)] ++ enums ++ consts ++ structs ++ keys ++ ifs)

def showRes : Res TarsFile → String
  | .ok f => "ok " ++ dump f
  | .diag s => "diag " ++ s
  | .hang => "hang"
  | .unsupported w => "unsupported " ++ w

/-- `a` = as found, `r` = all repairs, or five flags `01101` (enumEof, typeDefByte, enumRefCase,
defaultEnumCase, arrayDepend; `1` = repaired) -/
def variant? (s : String) : Option Variant :=
  match s.toList with
  | ['a'] => some .asFound
  | ['r'] => some .repaired
  | [a, b, c, d, e] =>
    let f := fun (x : Char) => x = '1'
    if [a, b, c, d, e].all (fun x => x = '0' || x = '1') then some ⟨f a, f b, f c, f d, f e⟩ else none
  | _ => none

def handle (ws : List String) : String :=
  match ws with
  | ["lex", hex] =>
    match fromHex hex with
    | some b => lexLine b
    | none => "bad-op"
  | ["parse", v, hex] =>
    match variant? v, fromHex hex with
    | some v, some b => showRes (parseFile v b)
    | _, _ => "bad-op"
  | ["tool", v, hex] =>
    match variant? v, fromHex hex with
    | some v, some b => showRes (tool v b)
    | _, _ => "bad-op"
  | _ => "bad-op"

end Tars.Driver.Idl
