/-
  Driver for the endpoint selectors (C13), stream `selector`:

    bswl <variant> <ep>*                      BuildStaticWeightList
    seq  <variant> <kind> <ew> <op-token>*    a whole history on a fresh selector

  <variant> = asfound | repaired          <kind> = rr | random | modhash        <ew> = 0 | 1
  <ep>      = <host-hex>:<port>:<timeout>:<proto-hex>:<weight>:<weightType>
  op tokens = R:<r1>:<r2>:<n> <ep>*n  |  A:<r1>:<r2> <ep>  |  D:<r1>:<r2> <ep>  |  S:<arg>

  Answers:  bswl → `panic:<class>` | `nil` | `ok <cap> <i,i,…|->`
            seq  → one token per op: `ok` | `err` | `panic:<class>` | `sel:<host-hex>:<port>:<weight>`;
                   a random selector answers a Select with `any:<sel>|<sel>|…` (all possible draws).
-/
import TarsModel.Driver.Common
import TarsModel.Model.Selector

namespace Tars.Driver.Selector
open Tars Tars.Driver Tars.Sel

def parseVariant : String → Option Variant
  | "asfound" => some .asFound
  | "repaired" => some .repaired
  | _ => none

def parseKind : String → Option Kind
  | "rr" => some .roundRobin
  | "random" => some .random
  | "modhash" => some .modHash
  | _ => none

def hexBytes (s : String) : Option (List Nat) := (fromHex s).map fun bs => bs.map (·.val)

def parseEp (tok : String) : Option Ep :=
  match tok.splitOn ":" with
  | [h, p, t, pr, w, wt] =>
    match hexBytes h, parseInt? p, parseInt? t, hexBytes pr, parseInt? w, parseInt? wt with
    | some h, some p, some t, some pr, some w, some wt => some ⟨h, p, t, pr, w, wt⟩
    | _, _, _, _, _, _ => none
  | _ => none

def parseEps : List String → Option (List Ep)
  | [] => some []
  | t :: ts => match parseEp t, parseEps ts with
    | some e, some es => some (e :: es)
    | _, _ => none

def panicClass (site : String) : String :=
  if site = "integer divide by zero" then "div"
  else if site = "makeslice: cap out of range" then "makeslice"
  else if site = "index out of range" then "index"
  else "other"

def joinNat (l : List Nat) : String :=
  if l.isEmpty then "-" else ",".intercalate (l.map toString)

def showOut : Out → String
  | .panic site => "panic:" ++ panicClass site
  | .nil => "nil"
  | .ok cap l => s!"ok {cap} {joinNat l}"

def bytesHex (l : List Nat) : String := hexOut (l.map byte)

def showSel (e : Ep) : String := s!"sel:{bytesHex e.host}:{e.port}:{e.weight}"

def showRes : Res → String
  | .done => "ok"
  | .err => "err"
  | .panic site => "panic:" ++ panicClass site
  | .selected e => showSel e

def dedup (l : List String) : List String :=
  l.foldl (fun acc x => if acc.contains x then acc else acc ++ [x]) []

/-- all outcomes of `random.Select` in state `s` (every value `rand.Intn` can return) -/
def randomOutcomes (s : State) : String :=
  if s.endpoints.length = 0 then "err"
  else
    let n := if s.cache.length ≠ 0 then s.cache.length else s.endpoints.length
    "any:" ++ "|".intercalate (dedup ((List.range n).map fun c => showRes (select s c).2))

def parseOpHead (tok : String) : Option (String × List Nat) :=
  match tok.splitOn ":" with
  | k :: rest =>
    let ns := rest.map parseNat?
    if ns.all Option.isSome then some (k, ns.filterMap id) else none
  | [] => none

/-- run the op tokens; `fuel` bounds the recursion (one unit per token) -/
def runToks (v : Variant) : Nat → State → List String → List String → Option (List String)
  | 0, _, [], acc => some acc.reverse
  | 0, _, _ :: _, _ => none
  | _ + 1, _, [], acc => some acc.reverse
  | fuel + 1, s, tok :: rest, acc =>
    match parseOpHead tok with
    | some ("R", [r1, r2, n]) =>
      match parseEps (rest.take n) with
      | some eps =>
        if (rest.take n).length = n then
          let (s', r) := step v s (.refresh eps r1 r2)
          runToks v fuel s' (rest.drop n) (showRes r :: acc)
        else none
      | none => none
    | some ("A", [r1, r2]) =>
      match rest with
      | e :: rest' =>
        match parseEp e with
        | some ep =>
          let (s', r) := step v s (.add ep r1 r2)
          runToks v fuel s' rest' (showRes r :: acc)
        | none => none
      | [] => none
    | some ("D", [r1, r2]) =>
      match rest with
      | e :: rest' =>
        match parseEp e with
        | some ep =>
          let (s', r) := step v s (.remove ep r1 r2)
          runToks v fuel s' rest' (showRes r :: acc)
        | none => none
      | [] => none
    | some ("S", [arg]) =>
      if s.kind = .random then runToks v fuel s rest (randomOutcomes s :: acc)
      else
        let (s', r) := step v s (.select arg)
        runToks v fuel s' rest (showRes r :: acc)
    | _ => none

def handle (ws : List String) : String :=
  match ws with
  | "bswl" :: v :: eps =>
    match parseVariant v, parseEps eps with
    | some v, some eps => showOut (buildStaticWeightList v eps)
    | _, _ => "bad-op"
  | "seq" :: v :: k :: ew :: toks =>
    match parseVariant v, parseKind k, parseBool? ew with
    | some v, some k, some ew =>
      match runToks v (toks.length + 1) (State.new k ew) toks [] with
      | some rs => if rs.isEmpty then "-" else " ".intercalate rs
      | none => "bad-op"
    | _, _, _ => "bad-op"
  | _ => "bad-op"

end Tars.Driver.Selector
