/-
  Driver for the log-queue LTS (C20), stream `logger`:

    variant                                   → asFound | repaired        (what the extractor saw in the tree)
    admits <asFound|repaired|tree> <cap> <event>…
        → ok <guided|full> states=<n> max=<m> pcs=<…>   the LTS has a run with exactly this visible history
        → reject <i> <event>                  no run performs the first i events and then event i
        → toobig <i> <n>                      state set exceeded the limit (nothing decided)
    run <asFound|repaired|tree> <cap> <action>…
        → ok flush=<…> pc=<…> written=<n> queue=<n> lost=<k>   |   stuck <i> <action>

  events:  C.<g>.<w>.<hex> log call entered · R.<g>.<w>.<hex> it returned · W.<w>.<hex> Write call ·
           F FlushLogger entered · D returned via asyncDone · T returned via timeout
  actions: the events' actions (W = fWrite, checked against the entry in hand) and
           E.<g> enq · fOR fOD fIR fIS fDR fDD fA flusher steps · FS syncCancel
-/
import TarsModel.Driver.Common
import TarsModel.Model.Logger
import TarsModel.Model.PanicExit

namespace Tars.Driver.Logger
open Tars Tars.Driver Tars.Logger

def splitDots (s : String) : List String :=
  (s.toList.foldr (fun c (acc : List (List Char)) =>
      if c = '.' then [] :: acc
      else match acc with
        | [] => [[c]]
        | x :: xs => (c :: x) :: xs) [[]]).map String.ofList

def parseData (s : String) : Option (List Nat) :=
  (fromHex s).map (fun bs => bs.map (fun b => b.val))

def parseVariant : String → Option Variant
  | "asFound" => some .asFound
  | "repaired" => some .repaired
  | "tree" => some treeVariant
  | _ => none

def variantName : Variant → String
  | .asFound => "asFound"
  | .repaired => "repaired"

def parseEvent (tok : String) : Option Event :=
  match splitDots tok with
  | ["C", g, w, d] =>
    match parseNat? g, parseNat? w, parseData d with
    | some g, some w, some d => some (.logCall ⟨g, w, d⟩)
    | _, _, _ => none
  | ["R", g, w, d] =>
    match parseNat? g, parseNat? w, parseData d with
    | some g, some w, some d => some (.logRet ⟨g, w, d⟩)
    | _, _, _ => none
  | ["W", w, d] =>
    match parseNat? w, parseData d with
    | some w, some d => some (.write ⟨w, d⟩)
    | _, _ => none
  | ["F"] => some .flushCall
  | ["D"] => some (.flushRet true)
  | ["T"] => some (.flushRet false)
  | _ => none

def parseAll {α : Type} (f : String → Option α) : List String → Option (List α)
  | [] => some []
  | t :: ts =>
    match f t, parseAll f ts with
    | some a, some as => some (a :: as)
    | _, _ => none

def pcName : FPc → String
  | .outer => "outer"
  | .inner => "inner"
  | .writing _ .loop => "writing"
  | .writing _ .drain => "drainWriting"
  | .drain => "drain"
  | .ack => "ack"
  | .exited => "exited"

def flushName : FlushPc → String
  | .idle => "idle"
  | .called => "called"
  | .waiting => "waiting"
  | .returned true => "done"
  | .returned false => "timeout"

def dedupStr (l : List String) : List String :=
  l.foldl (fun acc s => if acc.contains s then acc else acc ++ [s]) []

def showAdmit (v : Variant) (cap : Nat) (guide : Guide) (how : String) (toks : List String)
    (r : Except (Nat × Nat) (List State × Nat)) : String :=
  match r with
  | .ok (ss, mx) =>
    let fin := closureOf v cap guide ss
    let pcs := dedupStr (fin.map (fun s => pcName s.fpc))
    s!"ok {how} states={ss.length} max={mx} pcs={String.intercalate "," pcs}"
  | .error (i, 0) => s!"reject {i} {toks.getD i "?"}"
  | .error (i, n) => s!"toobig {i} {n}"

/-- `Tars.Logger.admitsSearch` with a state-set limit of 600 (`ok` iff `admits v cap evs 600`) -/
def doAdmits (v : Variant) (cap : Nat) (toks : List String) : String :=
  match parseAll parseEvent toks with
  | none => "bad-op"
  | some evs =>
    match admitsSearch v cap evs 600 with
    | (true, r) => showAdmit v cap (some (guideOf evs)) "guided" toks r
    | (false, r) => showAdmit v cap none "full" toks r

inductive Act
  | a (x : Action)
  | w (c : WriteCall)

def parseAct (tok : String) : Option Act :=
  match tok with
  | "fOR" => some (.a .fOuterRecv)
  | "fOD" => some (.a .fOuterDefault)
  | "fIR" => some (.a .fInnerRecv)
  | "fIS" => some (.a .fInnerSync)
  | "fDR" => some (.a .fDrainRecv)
  | "fDD" => some (.a .fDrainDefault)
  | "fA" => some (.a .fAck)
  | "FS" => some (.a .flushSync)
  | "F" => some (.a .flushCall)
  | "D" => some (.a .flushDone)
  | "T" => some (.a .flushTimeout)
  | _ =>
    match splitDots tok with
    | ["E", g] => (parseNat? g).map (fun g => Act.a (.enq g))
    | _ =>
      match parseEvent tok with
      | some (.logCall e) => some (.a (.logCall e))
      | some (.logRet e) => some (.a (.logRet e.g))
      | some (.write c) => some (.w c)
      | _ => none

def doRun (v : Variant) (cap : Nat) (toks : List String) : String :=
  match parseAll parseAct toks with
  | none => "bad-op"
  | some acts =>
    let rec go (s : State) (as : List Act) (i : Nat) : Except Nat State :=
      match as with
      | [] => .ok s
      | .a x :: rest =>
        match step v cap s x with
        | some s' => go s' rest (i + 1)
        | none => .error i
      | .w c :: rest =>
        match fire v cap s (.write c) with
        | some s' => go s' rest (i + 1)
        | none => .error i
    match go init acts 0 with
    | .ok s =>
      let lost := (s.cutReturned.filter (fun e => !s.written.contains e)).length
      s!"ok flush={flushName s.flush} pc={pcName s.fpc} written={s.written.length} queue={s.queue.length} lost={lost}"
    | .error i => s!"stuck {i} {toks.getD i "?"}"

def handle (ws : List String) : String :=
  match ws with
  | ["variant"] => variantName treeVariant
  | ["paniceffects"] =>
    -- what the recover branch of CheckPanic of this tree does, in order (Model/PanicExit.lean)
    String.intercalate "," ((Tars.PanicExit.effects Tars.PanicExit.treeBody).map fun
      | .dump => "dump" | .flush => "flush" | .exit => "exit")
  | "admits" :: v :: cap :: toks =>
    match parseVariant v, parseNat? cap with
    | some v, some cap => doAdmits v cap toks
    | _, _ => "bad-op"
  | "run" :: v :: cap :: toks =>
    match parseVariant v, parseNat? cap with
    | some v, some cap => doRun v cap toks
    | _, _ => "bad-op"
  | _ => "bad-op"

end Tars.Driver.Logger
