import TarsModel.Proofs.PoolTrace

/-!
# C19 — Worker pool runs every job exactly once with bounded parallelism

Property theorems only.  The model is the labelled transition system of `Model/Pool.lean`
(one action = one channel operation or call/return boundary of one goroutine of
`tars/util/gpool/gpool.go`).  Every statement is for **all** pool sizes `cfg.n`, **all** queue
capacities `cfg.q ≥ 0` (`q = 0`: unbuffered job queue), any number of submitters and jobs, and
**all** interleavings: `Reach cfg s` = "`s` is reachable from `NewPool(n, q)` by some action
sequence", `run cfg s as` = "execute schedule `as` from `s`".  `cfg.n ≥ 1` is assumed exactly where
it is needed (progress); `NewPool(0, q)` deadlocks on the first job (`C19_counterexample_no_workers`).

Environment actions (`Action.isEnv`): a client begins a submission (`subCall`), a submission's
channel send completes (`subSend`), `Release` is called (`relCall`).  All other actions are steps of
the pool's goroutines, of job bodies, or returns to clients.

Liveness: what is proved is (a) *progress* — in the situations the property speaks about, some
non-environment action is enabled (`C19_no_deadlock`, `C19_release_progress`), and (b) *a variant* —
every non-environment step strictly decreases the measure `mu` (`C19_progress_bounded`).  Together:
every maximal run of the pool without new work is finite and ends with all submitted jobs done /
`Release` returned.  That the Go scheduler actually keeps running runnable goroutines (and that
`select` does not starve the stop case while clients keep submitting) is assumed, not proved.

What the property does **not** promise, and the model says precisely: jobs still in `JobQueue` when
the dispatcher takes the stop request are never executed and stay in the queue
(`C19_queued_jobs_never_run`); submitters blocked at that time stay blocked (Q = 0) or their jobs
are buffered and never run.
-/
namespace Tars.Pool

/-- The synchronous hand-off actions of the model are only adequate while `JobChannel`,
    `Worker.Stop` and `Pool.stop` are unbuffered in the source (capacities re-extracted on every run). -/
theorem C19_model_applicable : unbufferedOk = true := by decide

/-! ## every job exactly once -/

/-- **Conservation.** In every reachable state — released or not — every submitted job is in
    exactly one of {job queue, dispatcher, a worker, done}: none is lost, none is duplicated;
    a job that was not submitted is nowhere; no job is submitted twice. -/
theorem C19_conservation {cfg : Cfg} {s : State} (h : Reach cfg s) (j : Job) :
    (j ∈ s.submitted → places s j = 1) ∧ (j ∉ s.submitted → places s j = 0) ∧ s.submitted.Nodup := by
  have hi := inv_reach h
  have hc := hi.cons j
  have hn := hi.subNodup
  rw [← workerJobs_count] at hc
  refine ⟨fun hj => ?_, fun hj => ?_, hn⟩
  · have : s.submitted.count j = 1 := by rw [hn.count]; simp [hj]
    simp [places]; omega
  · have : s.submitted.count j = 0 := List.count_eq_zero.mpr hj
    simp [places]; omega

example : ∃ s, Reach ⟨1, 1⟩ s ∧ 7 ∈ s.submitted ∧ places s 7 = 1 ∧ s.d = .hold 7 :=
  ⟨_, reach_run [.subCall 7, .subSend 7, .dTake] Reach.init rfl, by decide⟩

/-- **Exactly once.** Along every schedule from `NewPool`, the body of job `j` is entered
    (`start _ j`) at most once; the number of times it was entered equals "it is running now or has
    returned"; in particular a job that is done was started exactly once and is done once. -/
theorem C19_exactly_once {cfg : Cfg} {s : State} (as : List Action)
    (h : run cfg (init cfg) as = some s) (j : Job) :
    startsOf j as ≤ 1 ∧
    startsOf j as = (runningJobs s).count j + s.done.count j ∧
    (j ∈ s.done → startsOf j as = 1 ∧ s.done.count j = 1) := by
  have hi : Inv cfg s := inv_run as (inv_init cfg) h
  have h1 := startedN_run j as h
  have h2 := startedN_le_one hi j
  rw [startedN_init] at h1
  simp only [startedN, ← runningJobs_count] at h1 h2
  refine ⟨by omega, by omega, fun hj => ?_⟩
  have : 0 < s.done.count j := List.count_pos_iff.mpr hj
  omega

example : (run ⟨1, 1⟩ (init ⟨1, 1⟩)
    [.subCall 7, .subSend 7, .dTake, .wReg 0, .dPick, .dGive, .start 0 7, .fin 0 7]).map (·.done)
    = some [7] := by decide

/-- **At least once (under progress).** From any reachable state in which `Release` was not called,
    the pool's own steps (no further submission needed) lead to a state where every submitted job
    is done; the schedule is no longer than `mu`. -/
theorem C19_all_jobs_done {cfg : Cfg} {s : State} (h : Reach cfg s) (hn : 1 ≤ cfg.n)
    (hr : s.rel = .idle) :
    ∃ (as : List Action) (s' : State), (∀ a ∈ as, a.isEnv = false) ∧ run cfg s as = some s' ∧
      as.length ≤ mu cfg s ∧ s'.submitted = s.submitted ∧ ∀ j ∈ s'.submitted, j ∈ s'.done := by
  obtain ⟨as, s', hne, hrun, hsub, _, hall⟩ := drain_aux hn (mu cfg s) s (Nat.le_refl _) (inv_reach h) hr
  have := run_bounded as (inv_reach h) hrun hne
  exact ⟨as, s', hne, hrun, by omega, hsub, hall⟩

/-- hypotheses satisfiable, and the bound is meaningful: two jobs submitted to `NewPool(1, 1)`, none
    done yet, `mu` = 6 (queued) + 5 (held) + 1 (worker registering) + 2 (returns to clients) -/
example : ∃ s, Reach ⟨1, 1⟩ s ∧ s.rel = .idle ∧ s.submitted = [2, 1] ∧ s.done = [] ∧ mu ⟨1, 1⟩ s = 14 :=
  ⟨_, reach_run [.subCall 1, .subSend 1, .dTake, .subCall 2, .subSend 2] Reach.init rfl, by decide⟩

/-! ## bounded parallelism -/

/-- **Bounded.** At most `n` job bodies execute at the same time (indeed at most `n` jobs are
    inside workers, received or running). -/
theorem C19_bounded {cfg : Cfg} {s : State} (h : Reach cfg s) :
    (runningJobs s).length ≤ cfg.n ∧ (workerJobs s).length ≤ cfg.n := by
  have hl := (inv_reach h).len
  constructor
  · have := length_flatMap_le WPc.running (fun x => by cases x <;> simp [WPc.running]) s.ws
    simp only [runningJobs]; omega
  · have := length_flatMap_le WPc.jobs (fun x => by cases x <;> simp [WPc.jobs]) s.ws
    simp only [workerJobs]; omega

/-- the bound is attained: two workers, both running -/
example : (run ⟨2, 0⟩ (init ⟨2, 0⟩)
    [.wReg 0, .wReg 1, .subCall 1, .subSend 1, .dPick, .dGive, .start 0 1,
     .subCall 2, .subSend 2, .dPick, .dGive, .start 1 2]).map runningJobs = some [1, 2] := by decide

/-! ## a submitter blocks only while the queue is full -/

/-- **Submit enabledness.** The send of a pending submission can complete iff the job queue has
    room, or — for an unbuffered queue — the dispatcher is waiting in its `select`. (Any state.) -/
theorem C19_submit_block (cfg : Cfg) (s : State) (j : Job) (hj : j ∈ s.calling) :
    (step cfg s (.subSend j)).isSome ↔ (s.jobQ.length < cfg.q ∨ (cfg.q = 0 ∧ s.d = .sel)) := by
  simp only [step, stepSubSend, hj, if_true]
  by_cases h1 : s.jobQ.length < cfg.q
  · simp [h1]
  · by_cases h2 : cfg.q = 0 ∧ s.d = .sel
    · simp [h2]
    · simp [h1, h2]

/-- **Blocks only while full.** In a reachable state a submission that cannot complete finds the
    job queue holding exactly `q` jobs. -/
theorem C19_submit_blocked_only_when_full {cfg : Cfg} {s : State} (h : Reach cfg s) (j : Job)
    (hj : j ∈ s.calling) (hb : step cfg s (.subSend j) = none) : s.jobQ.length = cfg.q := by
  have hq := (inv_reach h).qcap
  have hiff := C19_submit_block cfg s j hj
  rw [hb] at hiff
  have : ¬ s.jobQ.length < cfg.q := fun hlt => by simpa using hiff.mpr (Or.inl hlt)
  omega

/-- non-vacuity: N = 1, Q = 1, three submissions: the third is blocked with a full queue -/
example : ((run ⟨1, 1⟩ (init ⟨1, 1⟩)
    [.subCall 1, .subSend 1, .dTake, .subCall 2, .subSend 2, .subCall 3]).bind
      (fun s => step ⟨1, 1⟩ s (.subSend 3))) = none := by decide

/-- the pool never blocks itself on its own worker queue: `w.WorkerQueue <- w` always has room -/
theorem C19_register_never_blocks {cfg : Cfg} {s : State} (h : Reach cfg s) (w : Wid)
    (hw : s.ws[w]? = some .reg) : (step cfg s (.wReg w)).isSome := by
  have := reg_has_room (inv_reach h) hw
  simp [step, stepWReg, hw, this]

example : Reach ⟨2, 0⟩ (init ⟨2, 0⟩) ∧ (init ⟨2, 0⟩).ws[1]? = some .reg := ⟨Reach.init, by decide⟩

/-! ## no deadlock -/

/-- **No deadlock.** While `Release` has not been called and some submitted job is not done, some
    action of the pool (not of its clients) is enabled. -/
theorem C19_no_deadlock {cfg : Cfg} {s : State} (h : Reach cfg s) (hn : 1 ≤ cfg.n)
    (hr : s.rel = .idle) (hj : ∃ j, j ∈ s.submitted ∧ j ∉ s.done) :
    ∃ a : Action, a.isEnv = false ∧ (step cfg s a).isSome :=
  progress (inv_reach h) hn (fun _ => hj) (by simp [hr])

/-- hypotheses satisfiable: one job submitted and queued, not done -/
example : ∃ s, run ⟨1, 1⟩ (init ⟨1, 1⟩) [.subCall 7, .subSend 7] = some s ∧ s.rel = .idle ∧
    7 ∈ s.submitted ∧ 7 ∉ s.done := ⟨_, rfl, by decide⟩

/-- `n ≥ 1` is necessary: `NewPool(0, 1)` with one submitted job is stuck for ever
    (the dispatcher waits on an empty `WorkerQueue` nobody will ever fill). -/
theorem C19_counterexample_no_workers :
    ∃ s, run ⟨0, 1⟩ (init ⟨0, 1⟩) [.subCall 7, .subSend 7, .subRet 7, .dTake] = some s ∧
      s.rel = .idle ∧ 7 ∈ s.submitted ∧ 7 ∉ s.done ∧
      step ⟨0, 1⟩ s .dPick = none ∧ step ⟨0, 1⟩ s .dTake = none ∧ step ⟨0, 1⟩ s .dGive = none ∧
      s.ws = [] :=
  ⟨_, rfl, by decide⟩

/-- **Bounded progress (variant).** From a reachable state, any sequence of non-environment steps
    has length at most `mu cfg s`: without new work the pool cannot run for ever. -/
theorem C19_progress_bounded {cfg : Cfg} {s s' : State} (h : Reach cfg s) (as : List Action)
    (hrun : run cfg s as = some s') (hne : ∀ a ∈ as, a.isEnv = false) :
    as.length + mu cfg s' ≤ mu cfg s :=
  run_bounded as (inv_reach h) hrun hne

example : ∃ s', run ⟨1, 1⟩ (init ⟨1, 1⟩) [.wReg 0] = some s' ∧ (∀ a ∈ [Action.wReg 0], a.isEnv = false) ∧
    mu ⟨1, 1⟩ (init ⟨1, 1⟩) = 1 ∧ mu ⟨1, 1⟩ s' = 0 := ⟨_, rfl, by decide⟩

/-! ## Release -/

/-- **Release returned ⇒ everything stopped.** When `Release` has returned (even: when the
    dispatcher has acknowledged), the dispatcher has returned, every worker goroutine has returned,
    no job body is executing and no job is inside a worker. -/
theorem C19_release_safe {cfg : Cfg} {s : State} (h : Reach cfg s) (hr : s.rel = .returned) :
    s.d = .done ∧ (∀ x ∈ s.ws, x = .dead) ∧ runningJobs s = [] ∧ workerJobs s = [] := by
  obtain ⟨hd, hdead⟩ := all_dead_of_returned (inv_reach h) hr
  have hall : ∀ x ∈ s.ws, x = .dead := by
    intro x hx
    obtain ⟨i, hi, hget⟩ := List.getElem_of_mem hx
    exact hdead i x (by simp [hget, hi])
  refine ⟨hd, hall, ?_, ?_⟩
  · simp only [runningJobs, List.flatMap_eq_nil_iff]
    intro x hx; rw [hall x hx]; rfl
  · simp only [workerJobs, List.flatMap_eq_nil_iff]
    intro x hx; rw [hall x hx]; rfl

/-- **No job starts afterwards.** After `Release` has returned, no continuation of the execution
    contains a job start (or changes the set of finished jobs), `Release` stays returned. -/
theorem C19_release_no_start_after {cfg : Cfg} {s s' : State} (h : Reach cfg s)
    (hr : s.rel = .returned) (as : List Action) (hrun : run cfg s as = some s') :
    (∀ a ∈ as, a.isStart = false) ∧ s'.done = s.done ∧ s'.rel = .returned := by
  obtain ⟨h1, h2, _, h4⟩ := after_returned_run as (inv_reach h) hr hrun
  exact ⟨h2, h4, h1⟩

/-- **Release waits for running jobs.** `Release` cannot return while a job is inside a worker:
    in every reachable state with a received or running job, `Release` has not returned. -/
theorem C19_release_waits {cfg : Cfg} {s : State} (h : Reach cfg s) (hw : workerJobs s ≠ []) :
    s.rel ≠ .returned ∧ s.rel ≠ .acked := by
  have hi := inv_reach h
  constructor
  · intro hr; exact hw (C19_release_safe h hr).2.2.2
  · intro hr
    -- acked: the dispatcher is done, all N workers are dead
    have hph := hi.phase
    have hd : s.d = .done := by cases hd : s.d <;> simp [hr, hd, phaseOk] at hph ⊢
    have hD := hi.deadCnt
    simp [hd, DPc.stopIdx] at hD
    apply hw
    simp only [workerJobs, List.flatMap_eq_nil_iff]
    intro x hx
    obtain ⟨i, hi', hget⟩ := List.getElem_of_mem hx
    have := sumBy_eq_length WPc.isDead WPc.isDead_le s.ws (by rw [hD, hi.len]) i x (by simp [hget, hi'])
    cases x <;> simp [WPc.isDead] at this ⊢ <;> rfl

/-- hypotheses satisfiable: `Release` called while job 1 runs — it has not returned -/
example : ∃ s, Reach ⟨1, 1⟩ s ∧ workerJobs s = [1] ∧ s.rel = .sent :=
  ⟨_, reach_run [.wReg 0, .subCall 1, .subSend 1, .dTake, .dPick, .dGive, .start 0 1, .relCall, .relSend]
    Reach.init rfl, by decide⟩

/-- **Release progress.** Once `Release` has been called and until it has returned, some action of
    the pool or the return of `Release` is enabled — whatever the jobs in flight. -/
theorem C19_release_progress {cfg : Cfg} {s : State} (h : Reach cfg s) (hn : 1 ≤ cfg.n)
    (hc : s.rel ≠ .idle) (hr : s.rel ≠ .returned) :
    ∃ a : Action, a.isEnv = false ∧ (step cfg s a).isSome :=
  progress (inv_reach h) hn (fun h => absurd h hc) hr

/-- **Release completes.** From every reachable state in which `Release` has not been called
    (idle pool or not), calling it and then letting the pool run — no further submission needed —
    leads to `Release` returned, within `mu` steps. In particular releasing an idle pool stops all
    workers (`C19_release_safe`) and returns. -/
theorem C19_release_completes {cfg : Cfg} {s : State} (h : Reach cfg s) (hn : 1 ≤ cfg.n)
    (hr : s.rel = .idle) :
    ∃ (s1 : State) (as : List Action) (s' : State), step cfg s .relCall = some s1 ∧
      (∀ a ∈ as, a.isEnv = false) ∧ run cfg s1 as = some s' ∧ as.length ≤ mu cfg s1 ∧
      s'.rel = .returned := by
  have hs1 : step cfg s .relCall = some { s with rel := .called } := by simp [step, stepRelCall, hr]
  have hi1 := inv_step _ (inv_reach h) hs1
  obtain ⟨as, s', hne, hrun, hfin⟩ :=
    release_completes_aux hn (mu cfg { s with rel := .called }) _ (Nat.le_refl _) hi1 (by simp)
  have := run_bounded as hi1 hrun hne
  exact ⟨_, as, s', hs1, hne, hrun, by omega, hfin⟩

/-- the shortest case: a fresh pool with one registered worker is released in 3·1 + 3 steps after the call -/
example : (run ⟨1, 0⟩ (init ⟨1, 0⟩)
    [.wReg 0, .relCall, .relSend, .sTake, .sSend, .sAck, .dAck, .relRet]).map
      (fun s => (s.rel, s.ws, s.d)) = some (.returned, [.dead], .done) := by decide

/-- hypotheses of `C19_release_safe` / `C19_release_no_start_after` satisfiable: a reachable state
    with `Release` returned (after a job ran) -/
example : ∃ s, Reach ⟨1, 0⟩ s ∧ s.rel = .returned ∧ s.done = [1] :=
  ⟨_, reach_run [.wReg 0, .subCall 1, .subSend 1, .dPick, .dGive, .start 0 1, .fin 0 1, .subRet 1, .wReg 0,
      .relCall, .relSend, .sTake, .sSend, .sAck, .dAck, .relRet] Reach.init rfl, by decide⟩

/-- **Not promised: jobs still queued at the stop.** A job that is in `JobQueue` when `Release`
    has returned stays there for ever: it is never handed to a worker. -/
theorem C19_queued_jobs_never_run {cfg : Cfg} {s s' : State} (h : Reach cfg s)
    (hr : s.rel = .returned) (j : Job) (hj : j ∈ s.jobQ) (as : List Action)
    (hrun : run cfg s as = some s') : j ∈ s'.jobQ ∧ j ∉ s'.done := by
  obtain ⟨_, _, h3, h4⟩ := after_returned_run as (inv_reach h) hr hrun
  refine ⟨h3 j hj, ?_⟩
  rw [h4]
  intro hd
  have hi := inv_reach h
  have hc := hi.cons j
  have h1 : 0 < s.jobQ.count j := List.count_pos_iff.mpr hj
  have h2 : 0 < s.done.count j := List.count_pos_iff.mpr hd
  have h3 : s.submitted.count j ≤ 1 := List.nodup_iff_count.mp hi.subNodup j
  omega

/-- **Release before drain loses exactly the queued jobs.** When `Release` has returned, a submitted
    job that has not been executed is in `JobQueue` (nowhere else), and it will never be executed.
    This is why a handler must release its pool only after its outstanding invocations have
    drained (`C19_handlers_release_after_drain_current_tree`). -/
theorem C19_release_loses_exactly_the_queued_jobs {cfg : Cfg} {s s' : State} (h : Reach cfg s)
    (hr : s.rel = .returned) (j : Job) (hj : j ∈ s.submitted) (hd : j ∉ s.done)
    (as : List Action) (hrun : run cfg s as = some s') :
    j ∈ s.jobQ ∧ j ∈ s'.jobQ ∧ j ∉ s'.done := by
  have hi := inv_reach h
  obtain ⟨hdone, _, _, hw⟩ := C19_release_safe h hr
  have hc := hi.cons j
  have h1 : 0 < s.submitted.count j := List.count_pos_iff.mpr hj
  have h2 : s.done.count j = 0 := List.count_eq_zero.mpr hd
  have h3 : wcount j s.ws = 0 := by rw [← workerJobs_count, hw]; simp
  simp [hdone, DPc.jobs, h2, h3] at hc
  have hq : j ∈ s.jobQ := List.count_pos_iff.mp (by omega)
  exact ⟨hq, C19_queued_jobs_never_run h hr j hq as hrun⟩

/-- hypotheses satisfiable: the witness below — job 2 submitted, not done, `Release` returned -/
example : ∃ s, Reach ⟨1, 1⟩ s ∧ s.rel = .returned ∧ 2 ∈ s.submitted ∧ 2 ∉ s.done :=
  ⟨_, reach_run [.wReg 0, .subCall 1, .subSend 1, .dTake, .dPick, .dGive, .start 0 1,
       .subCall 2, .subSend 2, .subRet 2, .relCall, .relSend, .fin 0 1, .wReg 0,
       .sTake, .sSend, .sAck, .dAck, .relRet] Reach.init rfl, by decide⟩

/-- In the current tree both handlers release their pool only after the wait for their outstanding
    invocations (statement order, deferred calls last-registered-first), so no submitted handler is
    in the queue when the stop is taken. Regenerated from tcphandler.go / udphandler.go. -/
theorem C19_handlers_release_after_drain_current_tree : handlersReleaseAfterDrain = true := by decide

/-- such a state is reachable: N = 1, Q = 1; job 1 runs, job 2 is still queued when the dispatcher
    takes the stop request; `Release` returns with job 2 in the queue -/
theorem C19_witness_queued_job_dropped :
    ∃ s, run ⟨1, 1⟩ (init ⟨1, 1⟩)
      [.wReg 0, .subCall 1, .subSend 1, .dTake, .dPick, .dGive, .start 0 1,
       .subCall 2, .subSend 2, .subRet 2, .relCall, .relSend, .fin 0 1, .wReg 0,
       .sTake, .sSend, .sAck, .dAck, .relRet] = some s ∧
      s.rel = .returned ∧ s.jobQ = [2] ∧ s.done = [1] :=
  ⟨_, rfl, by decide⟩

/-! ## NewPool -/

/-- `NewPool` panics exactly on a negative size, otherwise starts `n` workers and the dispatcher -/
theorem C19_newPool (n q : Int) :
    newPool n q = (if n < 0 ∨ q < 0 then .error .panicMakechan
                   else .ok (⟨n.toNat, q.toNat⟩, init ⟨n.toNat, q.toNat⟩)) := by
  unfold newPool
  by_cases hq : q < 0
  · simp [hq]
  · by_cases hn : n < 0 <;> simp [hq, hn]

end Tars.Pool
