import TarsModel.Proofs.CallPathCall
import TarsModel.Proofs.CallPathExample

/-!
# C01 — End-to-end call transparency

"A call made through a tars2go-generated client proxy to a server running the generated dispatcher
for the same IDL returns exactly what the server-side implementation produced: the return value,
every out parameter, the response context/status it set, and on failure its error code and
message; and the implementation receives exactly the arguments, request context and request
status the caller passed. […] a one-way call delivers its arguments exactly once and produces no
reply. Registered client and server filters […] that pass a call through see it exactly once, in
registration order, and do not change its outcome."

Property theorems only.  The model is `Model/Filter.lean` (filter selection and composition of
`TarsInvoke` / `Protocol.Invoke`) and `Model/CallPath.lean` (`callWith`: generated proxy →
`TarsInvoke` → `RequestPack` → `TarsRequest` → `Protocol.Invoke` → generated `Dispatch` →
implementation → `rsp2Byte` → `TarsRequest` → `ResponseUnpack` / `Recv` → `doInvoke`'s error
mapping → the proxy's decoding and context copy-back) over the codec model of C02/C03
(`encMembers` / `decMembers` / `encStruct` / `decStruct`).  Vocabulary: `Proofs/CallPathSpec.lean`
(`CallOK`, `ImplOK`, `replyPacket`, `copiedMaps`, `normRet/normOuts/normIns`,
`arrives`, `PassReg`, `Transparent`) and `Proofs/Filter.lean` (`PassFlt`, `PassMw`, `PassSide`).

What the theorems had to assume (each is an explicit hypothesis, see `CallOK` / `ImplOK`):
* TARS request version (TUP and JSON are an explicit `notModelled` outcome of the model: out of
  scope here); a servant registered with context; the function is not called `tars_ping`;
  no deadline fires (C09); no dyeing / tracing keys; one call on a fresh connection
  (request routing among concurrent calls is C08, stream reassembly C07);
* frames within the package limit, and the limit below 2^31 (this also bounds every length prefix
  and makes `skipFieldMap`'s int32 arithmetic exact);
* values are Go values of their IDL types (C03 `WT`), at most 255 parameters, schema `EnvWF`;
* results are equal **up to C03's normal form** `normVar`: an optional float member of a nested
  struct that is Go-`==` to its default (e.g. −0.0) reads back as the default; nil and empty maps /
  slices are identified (on the server a nil request context arrives as an empty map);

No hypothesis is needed any more about what the caller's out variables hold before the call
(D13 fixed: `ResetDefault` resets every member; non-struct out parameters are read with
`require = true` and overwritten), nor about nil `opts` maps (D20 fixed: a nil map is left alone;
`C01_nil_map_counterexample` shows the as-found panic, `C01_nil_map_ignored` the current behaviour).
-/
namespace Tars
open Consts CallPath Filter

/-! ## The tree is the repaired variant at all four sites (regenerated constants) -/

/-- the current tree has the four `fix:` commits (D3, D19a, D19b, D20): the theorems below about the
    `repaired` variants are about the current code.  Fails to build when a fix is reverted. -/
theorem C01_current_tree_repaired :
    currentVariants.postFilter = .repaired ∧ currentVariants.emptyDesc = .repaired ∧
    currentVariants.zeroCode = .repaired ∧ currentVariants.nilMapGuard = .repaired := by decide

/-! ## Filters -/

/-- **C01_filters_trace (client).**  For every registration state of pass-through client filters
    (`PassReg`: a legacy single filter that calls `invoke` exactly once and returns its result; or
    a non-empty list of middlewares each calling `next` exactly once; or pre / post filters that
    return nil without invoking) and every call (any computation, any state): the trace is the
    filters' `before` events, the call's own trace — once —, the filters' `after` events; result
    and resulting state are the call's.  The three shapes of `b` / `a` are spelled out in
    `C01_filters_single`, `C01_filters_middleware`, `C01_filters_prepost`. -/
theorem C01_filters_trace_client {ε σ α : Type} (nil : α) (reg : Reg ε σ α) (b a : List ε)
    (h : PassReg nil reg b a) (call : Comp ε σ α) (s : σ) :
    runClient nil reg call s = (b ++ (call s).1 ++ a, (call s).2.1, (call s).2.2) :=
  transparent_client nil reg b a h call s

/-- **C01_filters_trace (server, repaired = current tree).** -/
theorem C01_filters_trace_server {ε σ α : Type} (nil : α) (reg : Reg ε σ α) (b a : List ε)
    (h : PassReg nil reg b a) (call : Comp ε σ α) (s : σ) :
    runServer .repaired nil reg call s = (b ++ (call s).1 ++ a, (call s).2.1, (call s).2.2) :=
  transparent_server nil reg b a h call s

/-- a legacy single filter wins over everything else registered: only it sees the call -/
theorem C01_filters_single {ε σ α : Type} (v : Variant) (nil : α) (reg : Reg ε σ α)
    (f : Flt ε σ α) (b a : List ε) (hreg : reg.single = some f) (hf : PassFlt f b a)
    (call : Comp ε σ α) (s : σ) :
    runServer v nil reg call s = (b ++ (call s).1 ++ a, (call s).2.1, (call s).2.2) ∧
    runClient nil reg call s = (b ++ (call s).1 ++ a, (call s).2.1, (call s).2.2) :=
  ⟨runServer_single v nil reg f b a hreg hf call s,
   by rw [runClient_eq_runServer]; exact runServer_single _ nil reg f b a hreg hf call s⟩

/-- middlewares (no single filter): `before` events in registration order, the call once, `after`
    events in reverse registration order; either variant, either side -/
theorem C01_filters_middleware {ε σ α : Type} (v : Variant) (nil : α) (reg : Reg ε σ α)
    (ms : List (Mw ε σ α × List ε × List ε)) (hs : reg.single = none)
    (hm : reg.mws = ms.map (·.1)) (hne : ms ≠ []) (hp : ∀ x ∈ ms, PassMw x.1 x.2.1 x.2.2)
    (call : Comp ε σ α) (s : σ) :
    runServer v nil reg call s
      = ((ms.map (·.2.1)).flatten ++ (call s).1 ++ (ms.reverse.map (·.2.2)).flatten,
          (call s).2.1, (call s).2.2) ∧
    runClient nil reg call s
      = ((ms.map (·.2.1)).flatten ++ (call s).1 ++ (ms.reverse.map (·.2.2)).flatten,
          (call s).2.1, (call s).2.2) :=
  ⟨runServer_mws v nil reg ms hs hm hne hp call s,
   by rw [runClient_eq_runServer]; exact runServer_mws _ nil reg ms hs hm hne hp call s⟩

/-- pre and post filters (neither single filter nor middleware): pre filters in registration
    order, the call once, post filters in registration order; the outcome is the call's — on the
    client, and on the server in the repaired variant -/
theorem C01_filters_prepost {ε σ α : Type} (nil : α) (reg : Reg ε σ α)
    (pre post : List (Flt ε σ α × List ε)) (hs : reg.single = none) (hm : reg.mws = [])
    (hpre : reg.pre = pre.map (·.1)) (hpost : reg.post = post.map (·.1))
    (h1 : ∀ x ∈ pre, PassSide nil x.1 x.2) (h2 : ∀ x ∈ post, PassSide nil x.1 x.2)
    (call : Comp ε σ α) (s : σ) :
    runServer .repaired nil reg call s
      = ((pre.map (·.2)).flatten ++ (call s).1 ++ (post.map (·.2)).flatten,
          (call s).2.1, (call s).2.2) ∧
    runClient nil reg call s
      = ((pre.map (·.2)).flatten ++ (call s).1 ++ (post.map (·.2)).flatten,
          (call s).2.1, (call s).2.2) :=
  ⟨runServer_sides_repaired nil reg pre post hs hm hpre hpost h1 h2 call s,
   by rw [runClient_eq_runServer]
      exact runServer_sides_repaired nil reg pre post hs hm hpre hpost h1 h2 call s⟩

/-- **C01_filters_outcome, as found (D3).**  With the as-found `err = v(…)` in the post-filter
    loop, the server's outcome is the call's only when no post filter is registered; otherwise it
    is nil whatever the call returned. -/
theorem C01_filters_prepost_asFound {ε σ α : Type} (nil : α) (reg : Reg ε σ α)
    (pre post : List (Flt ε σ α × List ε)) (hs : reg.single = none) (hm : reg.mws = [])
    (hpre : reg.pre = pre.map (·.1)) (hpost : reg.post = post.map (·.1))
    (h1 : ∀ x ∈ pre, PassSide nil x.1 x.2) (h2 : ∀ x ∈ post, PassSide nil x.1 x.2)
    (call : Comp ε σ α) (s : σ) :
    runServer .asFound nil reg call s
      = ((pre.map (·.2)).flatten ++ (call s).1 ++ (post.map (·.2)).flatten,
          (if post.isEmpty then (call s).2.1 else nil), (call s).2.2) :=
  runServer_sides_asFound nil reg pre post hs hm hpre hpost h1 h2 call s

/-- **C01_postfilter_counterexample (D3, as found only).**  One pass-through post filter turns an
    implementation error (here: code 77) into success on the server; in the repaired variant the
    same registration leaves the error alone. -/
theorem C01_postfilter_counterexample :
    let reg : Reg String Unit (Option Int) := { post := [recSide none ["post0"]] }
    let call : Comp String Unit (Option Int) := fun s => (["call"], some 77, s)
    PassReg none reg [] ["post0"] ∧
    runServer .asFound none reg call () = (["call", "post0"], none, ()) ∧
    runServer .repaired none reg call () = (["call", "post0"], some 77, ()) := by
  refine ⟨?_, rfl, rfl⟩
  exact PassReg.sides _ [] [(recSide none ["post0"], ["post0"])] rfl rfl rfl rfl
    (fun x hx => by cases hx)
    (fun x hx => by simp at hx; subst hx; exact recSide_pass none ["post0"])

/-- **C01_filters_follow_registration.**  The registration state a call sees is the fold of the
    registration calls made before it (`Reg.after`, mirroring the `register…` / `Use…Middleware`
    methods of tars/filter.go: pre, post and middleware registrations append, the legacy single
    slot is replaced), for EVERY history `ops` starting from the empty registration: the lists are
    the registered filters in registration order, the single slot holds the last one registered.
    And the chain a call goes through when no single filter is registered and at least one
    middleware is, is the composition of exactly the middlewares registered so far, first
    registered outermost (`chainOf`) — on the client (`runClient`) and on the server
    (`runServer`, both variants).  In particular a middleware registered after earlier calls is
    part of the chain of the next call (second statement: the history extended by one
    `useMw [m]`).  The code corresponds to `getMiddlewareFilter` being a function of the list only
    because the getters keep no state: `C01_middleware_getters_stateless`. -/
theorem C01_filters_follow_registration {ε σ α : Type} (v : Variant) (nil : α)
    (ops : List (RegOp ε σ α)) (call : Comp ε σ α) :
    let reg : Reg ε σ α := Reg.after {} ops
    (reg.mws = ops.flatMap RegOp.mwsOf ∧ reg.pre = ops.flatMap RegOp.preOf ∧
      reg.post = ops.flatMap RegOp.postOf ∧ reg.single = (ops.flatMap RegOp.singleOf).getLast?) ∧
    (reg.single = none → ops.flatMap RegOp.mwsOf ≠ [] →
      runClient nil reg call = chainOf (ops.flatMap RegOp.mwsOf) call ∧
      runServer v nil reg call = chainOf (ops.flatMap RegOp.mwsOf) call) ∧
    (∀ m : Mw ε σ α, (Reg.after {} (ops ++ [.useMw [m]])).single = none →
      runClient nil (Reg.after {} (ops ++ [.useMw [m]])) call
        = chainOf (ops.flatMap RegOp.mwsOf ++ [m]) call ∧
      runServer v nil (Reg.after {} (ops ++ [.useMw [m]])) call
        = chainOf (ops.flatMap RegOp.mwsOf ++ [m]) call) := by
  intro reg
  have hf := after_fields ops ({} : Reg ε σ α)
  have h1 : reg.mws = ops.flatMap RegOp.mwsOf := by simpa using hf.1
  refine ⟨⟨h1, by simpa using hf.2.1, by simpa using hf.2.2.1, by simpa using hf.2.2.2⟩, ?_, ?_⟩
  · intro hs hm
    have hm' : reg.mws ≠ [] := by rw [h1]; exact hm
    exact ⟨by rw [runClient_chain nil reg call hs hm', h1], by rw [runServer_chain v nil reg call hs hm', h1]⟩
  · intro m hs
    have hf2 := after_fields (ops ++ [.useMw [m]]) ({} : Reg ε σ α)
    have h2 : (Reg.after {} (ops ++ [RegOp.useMw [m]]) : Reg ε σ α).mws = ops.flatMap RegOp.mwsOf ++ [m] := by
      simpa [RegOp.mwsOf] using hf2.1
    have hm' : (Reg.after {} (ops ++ [RegOp.useMw [m]]) : Reg ε σ α).mws ≠ [] := by rw [h2]; simp
    exact ⟨by rw [runClient_chain nil _ call hs hm', h2], by rw [runServer_chain v nil _ call hs hm', h2]⟩

/-- three recording middlewares registered one after the other with calls in between: the call
    after the k-th registration is seen by exactly the first k, first registered outermost -/
example :
    let A : Mw String Unit Nat := recMw ["A.before"] ["A.after"]
    let B : Mw String Unit Nat := recMw ["B.before"] ["B.after"]
    let C : Mw String Unit Nat := recMw ["C.before"] ["C.after"]
    let call : Comp String Unit Nat := fun s => (["call"], 0, s)
    (runClient 0 (Reg.after {} [.useMw [A]]) call ()).1 = ["A.before", "call", "A.after"] ∧
    (runClient 0 (Reg.after {} [.useMw [A], .useMw [B]]) call ()).1
      = ["A.before", "B.before", "call", "B.after", "A.after"] ∧
    (runServer .repaired 0 (Reg.after {} [.pre (recSide 0 ["p"]), .useMw [A], .useMw [B], .useMw [C]]) call ()).1
      = ["A.before", "B.before", "C.before", "call", "C.after", "B.after", "A.after"] := by decide

/-- the middleware getters of tars/filter.go compose the chain from the registered list on every
    call and keep no state of their own (no `sync.Once`, no cached chain member, nothing but the
    eight registration members in `filters`; regenerated constant of the go/ast extractor,
    extract/c01.go).  Fails to build when a cache is introduced. -/
theorem C01_middleware_getters_stateless : cpMwGetterStateless = 1 := by decide

/-- the recording filters the harness registers (`recReg`, used by the driver's `cfilters` /
    `sfilters`) are pass-through registrations; so the theorems above apply to them: the trace is
    `single.before call single.after`, or `mw0.before … call … mw0.after`, or
    `pre0 … call post0 …`, and the outcome is the call's. -/
theorem C01_recording_filters {σ α : Type} (nil : α) (single : Bool) (nmw npre npost : Nat) :
    ∃ b a, PassReg nil (recReg nil single nmw npre npost : Reg String σ α) b a ∧
      b = (if single then ["single.before"]
           else if nmw ≠ 0 then (List.range nmw).map (fun i => s!"mw{i}.before")
           else (List.range npre).map (fun i => s!"pre{i}")) ∧
      a = (if single then ["single.after"]
           else if nmw ≠ 0 then (List.range nmw).reverse.map (fun i => s!"mw{i}.after")
           else (List.range npost).map (fun i => s!"post{i}")) := by
  cases single with
  | true =>
    exact ⟨_, _, PassReg.single _ _ ["single.before"] ["single.after"] rfl (recFlt_pass _ _), rfl, rfl⟩
  | false =>
    by_cases hm : nmw = 0
    · subst hm
      refine ⟨_, _, PassReg.sides _
        ((List.range npre).map fun i => (recSide nil [s!"pre{i}"], [s!"pre{i}"]))
        ((List.range npost).map fun i => (recSide nil [s!"post{i}"], [s!"post{i}"]))
        rfl rfl (by simp [recReg, Function.comp_def]) (by simp [recReg, Function.comp_def]) ?_ ?_, ?_, ?_⟩
      · intro x hx
        simp only [List.mem_map, List.mem_range] at hx
        obtain ⟨i, _, rfl⟩ := hx
        exact recSide_pass nil _
      · intro x hx
        simp only [List.mem_map, List.mem_range] at hx
        obtain ⟨i, _, rfl⟩ := hx
        exact recSide_pass nil _
      · simp [Function.comp_def, flatten_singletons]
      · simp [Function.comp_def, flatten_singletons]
    · refine ⟨_, _, PassReg.mws _
        ((List.range nmw).map fun i =>
          (recMw [s!"mw{i}.before"] [s!"mw{i}.after"], [s!"mw{i}.before"], [s!"mw{i}.after"]))
        rfl (by simp [recReg, Function.comp_def]) ?_ ?_, ?_, ?_⟩
      · intro h
        have := congrArg List.length h
        simp at this
        exact hm this
      · intro x hx
        simp only [List.mem_map, List.mem_range] at hx
        obtain ⟨i, _, rfl⟩ := hx
        exact recMw_pass _ _
      · simp [hm, Function.comp_def, flatten_singletons]
      · simp [hm, Function.comp_def, ← List.map_reverse, flatten_singletons]

/-! ## Error mapping -/

/-- **C01_error_map.**  An implementation error `tars.Errorf(code, msg)` with `code ∉ {0,1}` and a
    non-empty message arrives at the caller as exactly that `*tars.Error`. -/
theorem C01_error_map (code : Int) (msg : Bytes) (h0 : code ≠ 0) (h1 : code ≠ 1) (hm : msg ≠ []) :
    clientErr .repaired (serverErr .repaired (.tars code msg)).1 (serverErr .repaired (.tars code msg)).2
      = some (.tars code msg) := by
  rw [clientErr_serverErr]
  simp [arrives, descOr, cpCodeLo, cpCodeHi, h0, h1, hm]

/-- the code survives also when the message is empty (current code; D19a repaired): the caller
    gets a `*tars.Error` with that code and the synthetic text -/
theorem C01_error_map_code (code : Int) (msg : Bytes) (h0 : code ≠ 0) (h1 : code ≠ 1) :
    ∃ m', clientErr .repaired (serverErr .repaired (.tars code msg)).1
        (serverErr .repaired (.tars code msg)).2 = some (.tars code m') ∧
      getErrorCode (some (.tars code m')) = code ∧ (msg ≠ [] → m' = msg) := by
  refine ⟨descOr code msg, ?_, rfl, fun hm => by simp [descOr, hm]⟩
  rw [clientErr_serverErr]
  simp [arrives, cpCodeLo, cpCodeHi, h0, h1]

/-- plain errors, and `*tars.Error`s with code 0 or 1, arrive as a plain error with the same
    (non-empty) message; `GetErrorCode` gives 1 -/
theorem C01_error_map_plain (e : GoErr) (hm : e.msg ≠ [])
    (hp : (∃ m, e = .plain m) ∨ (∃ m, e = .tars 0 m) ∨ (∃ m, e = .tars 1 m)) :
    clientErr .repaired (serverErr .repaired e).1 (serverErr .repaired e).2 = some (.plain e.msg) ∧
    getErrorCode (some (.plain e.msg)) = 1 := by
  refine ⟨?_, rfl⟩
  rw [clientErr_serverErr]
  rcases hp with ⟨m, rfl⟩ | ⟨m, rfl⟩ | ⟨m, rfl⟩ <;>
    simp_all [arrives, descOr, GoErr.msg, cpCodeLo, cpCodeHi]

/-- in general (current code): what arrives is `arrives e` — never nil -/
theorem C01_error_map_total (e : GoErr) :
    clientErr .repaired (serverErr .repaired e).1 (serverErr .repaired e).2 = some (arrives e) :=
  clientErr_serverErr e

/-- **counterexample D19a (as found only)**: `tars.Errorf(77, "")` arrives as a plain error
    (`GetErrorCode` 1): the empty description made `doInvoke` drop the code -/
theorem C01_error_map_counterexample_empty_msg :
    clientErr .asFound (serverErr .repaired (.tars 77 [])).1 (serverErr .repaired (.tars 77 [])).2
      = some (.plain (synthDesc 77)) ∧
    getErrorCode (some (.plain (synthDesc 77))) ≠ 77 ∧
    clientErr .repaired (serverErr .repaired (.tars 77 [])).1 (serverErr .repaired (.tars 77 [])).2
      = some (.tars 77 (synthDesc 77)) := by
  refine ⟨by decide, by decide, by decide⟩

/-- **counterexample D19b (as found only)**: `tars.Errorf(0, "zero")` is answered with `IRet = 0`
    and arrives as success; the repaired `Invoke` answers it with the generic code 1 -/
theorem C01_error_map_counterexample_code_zero :
    clientErr .repaired (serverErr .asFound (.tars 0 (ascii "zero"))).1
        (serverErr .asFound (.tars 0 (ascii "zero"))).2 = none ∧
    clientErr .repaired (serverErr .repaired (.tars 0 (ascii "zero"))).1
        (serverErr .repaired (.tars 0 (ascii "zero"))).2 = some (.plain (ascii "zero")) := by
  refine ⟨by decide, by decide⟩

/-- remaining boundary of the current code: an empty message is replaced by the synthetic text
    "basef error code N", and the Go type `*tars.Error` is lost for codes 0 and 1 -/
theorem C01_error_map_boundary :
    arrives (.tars 77 []) = .tars 77 (ascii "basef error code 77") ∧
    arrives (.plain []) = .plain (ascii "basef error code 1") ∧
    arrives (.tars 1 (ascii "x")) = .plain (ascii "x") ∧
    arrives (.tars 0 (ascii "x")) = .plain (ascii "x") := by
  refine ⟨by decide, by decide, by decide, by decide⟩

example : clientErr .repaired (serverErr .repaired (.tars 77 (ascii "boom"))).1
    (serverErr .repaired (.tars 77 (ascii "boom"))).2 = some (.tars 77 (ascii "boom")) :=
  C01_error_map 77 (ascii "boom") (by decide) (by decide) (by decide)
example : clientErr .repaired (serverErr .repaired (.tars (-5) (ascii "x"))).1
    (serverErr .repaired (.tars (-5) (ascii "x"))).2 = some (.tars (-5) (ascii "x")) :=
  C01_error_map (-5) (ascii "x") (by decide) (by decide) (by decide)
example : clientErr .repaired (serverErr .repaired (.plain (ascii "boom"))).1
    (serverErr .repaired (.plain (ascii "boom"))).2 = some (.plain (ascii "boom")) :=
  (C01_error_map_plain (.plain (ascii "boom")) (by decide) (.inl ⟨_, rfl⟩)).1

/-! ## Transparency -/

/-- **C01_transparent** (with pass-through filters on both sides; TARS version).  For a
    well-formed call (`CallOK`) of an interface function the server knows — whatever the caller's
    out variables hold, nil or non-nil `opts` maps — and an implementation result
    `out = impl (in values) ctx status` that is well-typed (`ImplOK`) and nil-error:

    * the trace is: the client filters' `before` events, the server filters' `before` events, **one**
      run of the implementation **on exactly the in values, the request context and the request
      status the caller passed** (`implEv`), the server filters' `after` events, the response frame
      being written, the client filters' `after` events;
    * the proxy returns nil, and the caller holds exactly `out.ret`, `out.outs` (up to `normVar`),
      and — copied into its `opts` maps — the response context and status the implementation set. -/
theorem C01_transparent_filters (env : Env) (rk : String → Nat) (cfg : Cfg)
    (creg : ClientReg) (sreg : ServerReg) (cb ca sb sa : List Ev)
    (iface : Iface) (f : Func) (args : List Val) (opts : List (Option StrMap))
    (hc : PassReg DoRes.nil creg cb ca) (hs : PassReg none sreg sb sa)
    (hcall : CallOK env rk cfg f.name f.sig false args opts)
    (hfind : iface.find f.name = some f)
    (himpl : ImplOK .repaired env cfg (proxyRequest env cfg f.name f.sig false args opts) f.sig
      (implOut env f args opts))
    (hok : (implOut env f args opts).err = none) :
    callWith {} env cfg creg sreg iface f.name f.sig false args opts =
      (cb ++ (sb ++ [implEv env f args opts] ++ sa ++
          [Ev.reply (rsp2Byte (replyPacket .repaired env
            (proxyRequest env cfg f.name f.sig false args opts) f.sig (implOut env f args opts)))]) ++ ca,
       .returned none
        ⟨normRet env f.sig (implOut env f args opts).ret,
         normOuts env f.sig (implOut env f args opts).outs,
         (copiedMaps opts ((implOut env f args opts).rspCtx.getD [])
            ((implOut env f args opts).rspStatus.getD [])).1,
         (copiedMaps opts ((implOut env f args opts).rspCtx.getD [])
            ((implOut env f args opts).rspStatus.getD [])).2⟩) := by
  rw [callWith_normal {} env rk cfg creg sreg cb ca sb sa iface f args opts
    (transparent_client _ creg cb ca hc) (transparent_server _ sreg sb sa hs) hcall hfind himpl]
  have hpk : replyPacket .repaired env (proxyRequest env cfg f.name f.sig false args opts) f.sig
        (implOut env f args opts)
      = { dispatchRsp env (proxyRequest env cfg f.name f.sig false args opts) f.sig
            (implOut env f args opts) with
          cPacketType := (proxyRequest env cfg f.name f.sig false args opts).cPacketType } := by
    simp only [replyPacket, hok]
  have hfin := proxyFinish_ok .repaired env rk hcall.envWF f.sig args opts
    (replyPacket .repaired env (proxyRequest env cfg f.name f.sig false args opts) f.sig
      (implOut env f args opts))
    (implOut env f args opts).ret (implOut env f args opts).outs
    (by rw [hpk]; rfl) (himpl.vals hok) (himpl.shape hok) hcall.nparams hcall.tys hcall.retTy
    (WTm_in_out env f.sig.params 0 args hcall.argsWT).2
  rw [hfin, hpk]
  simp only [dispatchRsp, clientErr_ok, copyBackAll_repaired]

/-- **C01_transparent** (no filters registered): `call` returns exactly what the implementation
    produced, and the implementation ran once on exactly what the caller passed. -/
theorem C01_transparent (env : Env) (rk : String → Nat) (cfg : Cfg) (iface : Iface) (f : Func)
    (args : List Val) (opts : List (Option StrMap))
    (hcall : CallOK env rk cfg f.name f.sig false args opts)
    (hfind : iface.find f.name = some f)
    (himpl : ImplOK .repaired env cfg (proxyRequest env cfg f.name f.sig false args opts) f.sig
      (implOut env f args opts))
    (hok : (implOut env f args opts).err = none) :
    call env cfg iface f.name f.sig false args opts =
      ([implEv env f args opts,
        Ev.reply (rsp2Byte (replyPacket .repaired env
          (proxyRequest env cfg f.name f.sig false args opts) f.sig (implOut env f args opts)))],
       .returned none
        ⟨normRet env f.sig (implOut env f args opts).ret,
         normOuts env f.sig (implOut env f args opts).outs,
         (copiedMaps opts ((implOut env f args opts).rspCtx.getD [])
            ((implOut env f args opts).rspStatus.getD [])).1,
         (copiedMaps opts ((implOut env f args opts).rspCtx.getD [])
            ((implOut env f args opts).rspStatus.getD [])).2⟩) := by
  have h := C01_transparent_filters env rk cfg {} {} [] [] [] [] iface f args opts
    (PassReg.sides _ [] [] rfl rfl rfl rfl (fun _ h => by cases h) (fun _ h => by cases h))
    (PassReg.sides _ [] [] rfl rfl rfl rfl (fun _ h => by cases h) (fun _ h => by cases h))
    hcall hfind himpl hok
  simpa [call] using h

/-- **C01_args_exact**: what the implementation observed — the event it leaves — is the function
    name, the (normal forms of the) values of the in parameters in order, and the caller's
    context and status maps (nil = empty) -/
theorem C01_args_exact (env : Env) (f : Func) (args : List Val) (opts : List (Option StrMap)) :
    implEv env f args opts =
      Ev.impl f.name (normMembers env (inFields f.sig) (inVals f.sig.params args))
        ((optsMaps opts).1.getD []) ((optsMaps opts).2.getD []) := rfl

/-- **C01_transparent, exact form**: where the normal form is the identity on the values involved
    (no optional float member equal-but-not-identical to its default), the caller holds exactly
    the implementation's values, and the implementation was applied to exactly the in values -/
theorem C01_transparent_exact (env : Env) (rk : String → Nat) (cfg : Cfg) (iface : Iface) (f : Func)
    (args : List Val) (opts : List (Option StrMap))
    (hcall : CallOK env rk cfg f.name f.sig false args opts)
    (hfind : iface.find f.name = some f)
    (hin : normIns env f.sig args = inVals f.sig.params args)
    (out : ImplOut)
    (hout : out = f.impl (inVals f.sig.params args) ((optsMaps opts).1.getD []) ((optsMaps opts).2.getD []))
    (himpl : ImplOK .repaired env cfg (proxyRequest env cfg f.name f.sig false args opts) f.sig out)
    (hok : out.err = none)
    (hret : normRet env f.sig out.ret = out.ret) (houts : normOuts env f.sig out.outs = out.outs) :
    (call env cfg iface f.name f.sig false args opts).2 =
      .returned none ⟨out.ret, out.outs,
        (copiedMaps opts (out.rspCtx.getD []) (out.rspStatus.getD [])).1,
        (copiedMaps opts (out.rspCtx.getD []) (out.rspStatus.getD [])).2⟩ := by
  have e : implOut env f args opts = out := by rw [hout, implOut, hin]
  rw [C01_transparent env rk cfg iface f args opts hcall hfind (by rw [e]; exact himpl)
    (by rw [e]; exact hok)]
  simp only [e, hret, houts]

/-- **C01_failure**: when the implementation returns an error `e`, the proxy returns `arrives e`
    (see `C01_error_map*`), the caller's out variables and maps are untouched, the return value is
    the zero value; the implementation ran once on exactly what the caller passed.  -/
theorem C01_failure (env : Env) (rk : String → Nat) (cfg : Cfg) (iface : Iface) (f : Func)
    (args : List Val) (opts : List (Option StrMap)) (e : GoErr)
    (hcall : CallOK env rk cfg f.name f.sig false args opts)
    (hfind : iface.find f.name = some f)
    (himpl : ImplOK .repaired env cfg (proxyRequest env cfg f.name f.sig false args opts) f.sig
      (implOut env f args opts))
    (herr : (implOut env f args opts).err = some e) :
    call env cfg iface f.name f.sig false args opts =
      ([implEv env f args opts,
        Ev.reply (rsp2Byte (replyPacket .repaired env
          (proxyRequest env cfg f.name f.sig false args opts) f.sig (implOut env f args opts)))],
       .returned (some (arrives e)) (view0 env f.sig args opts)) := by
  unfold call
  rw [callWith_normal {} env rk cfg {} {} [] [] [] [] iface f args opts
    (transparent_empty_client _ _ _ _) (transparent_empty_server _ _ _ _ _) hcall hfind himpl]
  have hpk : (replyPacket .repaired env (proxyRequest env cfg f.name f.sig false args opts) f.sig
        (implOut env f args opts)).iRet = (serverErr .repaired e).1 ∧
      (replyPacket .repaired env (proxyRequest env cfg f.name f.sig false args opts) f.sig
        (implOut env f args opts)).sResultDesc = (serverErr .repaired e).2 := by
    simp only [replyPacket, herr, and_self]
  rw [hpk.1, hpk.2, clientErr_serverErr]
  simp

/-! ## One-way calls -/

/-- **C01_oneway**: a one-way call (`<fn>OneWayWithContext`) of a function the server knows runs the
    implementation exactly once — on exactly the in values, context and status passed — and nothing
    else happens: no response frame is written (the trace has no `reply` event), the proxy returns
    nil at once, the caller's variables and maps are untouched.  Whatever the implementation
    returns (also an error) is dropped. -/
theorem C01_oneway (env : Env) (rk : String → Nat) (cfg : Cfg) (iface : Iface) (f : Func)
    (args : List Val) (opts : List (Option StrMap))
    (hcall : CallOK env rk cfg f.name f.sig true args opts)
    (hfind : iface.find f.name = some f) :
    call env cfg iface f.name f.sig true args opts =
      ([implEv env f args opts], .returned none (view0 env f.sig args opts)) := by
  unfold call
  rw [callWith_oneway {} env rk cfg {} {} [] [] [] [] iface f args opts
    (transparent_empty_client _ _ _ _) (transparent_empty_server _ _ _ _ _) hcall hfind]
  simp

/-- the same through pass-through filters on both sides -/
theorem C01_oneway_filters (env : Env) (rk : String → Nat) (cfg : Cfg)
    (creg : ClientReg) (sreg : ServerReg) (cb ca sb sa : List Ev)
    (iface : Iface) (f : Func) (args : List Val) (opts : List (Option StrMap))
    (hc : PassReg DoRes.nil creg cb ca) (hs : PassReg none sreg sb sa)
    (hcall : CallOK env rk cfg f.name f.sig true args opts)
    (hfind : iface.find f.name = some f) :
    callWith {} env cfg creg sreg iface f.name f.sig true args opts =
      (cb ++ (sb ++ [implEv env f args opts] ++ sa) ++ ca,
       .returned none (view0 env f.sig args opts)) :=
  callWith_oneway {} env rk cfg creg sreg cb ca sb sa iface f args opts
    (transparent_client _ creg cb ca hc) (transparent_server _ sreg sb sa hs) hcall hfind

/-! ## Concurrency (what this model can say) -/

/-- what a caller gets does not depend on the request id its call was given: the result is a
    function of the call alone.  (That concurrent callers sharing a proxy each get *their*
    response is request routing by id — C08; interleavings are not modelled here.) -/
theorem C01_result_independent_of_request_id (env : Env) (rk : String → Nat) (cfg : Cfg) (id' : Int)
    (iface : Iface) (f : Func) (args : List Val) (opts : List (Option StrMap))
    (hcall : CallOK env rk cfg f.name f.sig false args opts)
    (hcall' : CallOK env rk { cfg with reqId := id' } f.name f.sig false args opts)
    (hfind : iface.find f.name = some f)
    (himpl : ImplOK .repaired env cfg (proxyRequest env cfg f.name f.sig false args opts) f.sig
      (implOut env f args opts))
    (himpl' : ImplOK .repaired env { cfg with reqId := id' }
      (proxyRequest env { cfg with reqId := id' } f.name f.sig false args opts) f.sig
      (implOut env f args opts))
    (hok : (implOut env f args opts).err = none) :
    (call env { cfg with reqId := id' } iface f.name f.sig false args opts).2
      = (call env cfg iface f.name f.sig false args opts).2 := by
  rw [C01_transparent env rk cfg iface f args opts hcall hfind himpl hok,
    C01_transparent env rk _ iface f args opts hcall' hfind himpl' hok]

/-! ## nil `opts` maps (D20) -/

/-- **C01_nil_map_ignored (current code).**  A nil map passed in `opts` is left alone: the call is
    served and returns exactly as `C01_transparent` says, the nil map stays nil (the response
    context / status cannot be handed back through it), a non-nil one receives its copy. -/
theorem C01_nil_map_ignored (env : Env) (rk : String → Nat) (cfg : Cfg) (iface : Iface)
    (f : Func) (args : List Val) (st : Option StrMap)
    (hcall : CallOK env rk cfg f.name f.sig false args [none, st])
    (hfind : iface.find f.name = some f)
    (himpl : ImplOK .repaired env cfg (proxyRequest env cfg f.name f.sig false args [none, st]) f.sig
      (implOut env f args [none, st]))
    (hok : (implOut env f args [none, st]).err = none) :
    (call env cfg iface f.name f.sig false args [none, st]).2 =
      .returned none
        ⟨normRet env f.sig (implOut env f args [none, st]).ret,
         normOuts env f.sig (implOut env f args [none, st]).outs,
         none, st.map fun _ => (implOut env f args [none, st]).rspStatus.getD []⟩ := by
  rw [C01_transparent env rk cfg iface f args [none, st] hcall hfind himpl hok]
  simp [copiedMaps]

/-- **C01_nil_map_counterexample (D20, as found only).**  With the as-found copy-back
    (`Variants.nilMapGuard = asFound`), everything else as in `C01_transparent`: the caller passes a
    nil context map (`opts = [nil]`) and the implementation set a non-empty response context — the
    generated proxy panics ("assignment to entry in nil map") after the call was served. -/
theorem C01_nil_map_counterexample (env : Env) (rk : String → Nat) (cfg : Cfg) (iface : Iface)
    (f : Func) (args : List Val)
    (hcall : CallOK env rk cfg f.name f.sig false args [none])
    (hfind : iface.find f.name = some f)
    (himpl : ImplOK .repaired env cfg (proxyRequest env cfg f.name f.sig false args [none]) f.sig
      (implOut env f args [none]))
    (hok : (implOut env f args [none]).err = none)
    (hctx : (implOut env f args [none]).rspCtx.getD [] ≠ []) :
    (callWith { nilMapGuard := .asFound } env cfg {} {} iface f.name f.sig false args [none]).2
      = .panicked "assignment to entry in nil map" := by
  rw [callWith_normal { nilMapGuard := .asFound } env rk cfg {} {} [] [] [] [] iface f args [none]
    (transparent_empty_client _ _ _ _) (transparent_empty_server _ _ _ _ _) hcall hfind himpl]
  have hpk : replyPacket .repaired env (proxyRequest env cfg f.name f.sig false args [none]) f.sig
        (implOut env f args [none])
      = { dispatchRsp env (proxyRequest env cfg f.name f.sig false args [none]) f.sig
            (implOut env f args [none]) with
          cPacketType := (proxyRequest env cfg f.name f.sig false args [none]).cPacketType } := by
    simp only [replyPacket, hok]
  have hfin := proxyFinish_ok .asFound env rk hcall.envWF f.sig args [none]
    (replyPacket .repaired env (proxyRequest env cfg f.name f.sig false args [none]) f.sig
      (implOut env f args [none]))
    (implOut env f args [none]).ret (implOut env f args [none]).outs
    (by rw [hpk]; rfl) (himpl.vals hok) (himpl.shape hok) hcall.nparams hcall.tys hcall.retTy
    (WTm_in_out env f.sig.params 0 args hcall.argsWT).2
  simp only
  rw [hfin, hpk]
  have hne : ((implOut env f args [none]).rspCtx.getD []).isEmpty = false := by
    cases h : (implOut env f args [none]).rspCtx.getD [] with
    | nil => exact absurd h hctx
    | cons _ _ => rfl
  simp [dispatchRsp, clientErr_ok', copyBackAll, copyBack, hne]

/-- as found, a nil map was harmless only as long as the implementation set no (or an empty)
    response context: copy-back then had nothing to assign -/
theorem C01_nil_map_harmless (rctx rst : StrMap) (h : rctx = []) :
    copyBackAll .asFound [none] rctx rst = .ok (none, none) := by
  subst h; rfl

/-! ## The clause at full strength -/

/-- the transparency clause of the property at full strength: **every** well-formed call — whatever
    the caller's out variables hold before, nil or non-nil `opts` maps — returns what the
    implementation produced.  (Refuted for the as-found generator by D13 and D20; it holds for the
    current tree: `C01_transparent_full_holds`.) -/
def C01_transparent_full : Prop :=
  ∀ (env : Env) (rk : String → Nat) (cfg : Cfg) (iface : Iface) (f : Func) (args : List Val)
    (opts : List (Option StrMap)),
    CallOK env rk cfg f.name f.sig false args opts → iface.find f.name = some f →
    ImplOK .repaired env cfg (proxyRequest env cfg f.name f.sig false args opts) f.sig
      (implOut env f args opts) →
    (implOut env f args opts).err = none →
    (call env cfg iface f.name f.sig false args opts).2 =
      .returned none
        ⟨normRet env f.sig (implOut env f args opts).ret,
         normOuts env f.sig (implOut env f args opts).outs,
         (copiedMaps opts ((implOut env f args opts).rspCtx.getD [])
            ((implOut env f args opts).rspStatus.getD [])).1,
         (copiedMaps opts ((implOut env f args opts).rspCtx.getD [])
            ((implOut env f args opts).rspStatus.getD [])).2⟩

theorem C01_transparent_full_holds : C01_transparent_full := by
  intro env rk cfg iface f args opts hcall hfind himpl hok
  rw [C01_transparent env rk cfg iface f args opts hcall hfind himpl hok]

/-! ## Non-vacuity

    IDL: `struct S { 0 require int a; 1 optional string b; };`
    `interface I { long f(int x, out S s); void get(out S s); };` -/


open C01Example in
/-- the hypotheses of `C01_transparent` hold together for a non-trivial instance: an int in
    parameter needing four bytes, an out struct, a return value, a response context -/
example : ∃ res, call env cfg iface F.name F.sig false [.int 70000, zeroS] [some []] = res ∧
    res.2 = .returned none ⟨some (.int 70001), [.struct [.int 5, .str []]],
      some [(ascii "k", ascii "v")], none⟩ := by
  have hcall := callOK_F false 70000 (by decide) zeroS wt_zeroS (some []) rfl (by decide +kernel)
  have hout : implOut env F [.int 70000, zeroS] [some []]
      = ⟨some (.int 70001), [.struct [.int 5, .str []]], some [(ascii "k", ascii "v")], none, none⟩ := by
    simp [implOut, normIns, F, sigF, inFields, inFieldsFrom, inVals, argField, normMembers, normVar, implF,
      newS]
  have himpl : ImplOK .repaired env cfg (proxyRequest env cfg F.name F.sig false [.int 70000, zeroS] [some []])
      F.sig (implOut env F [.int 70000, zeroS] [some []]) := by
    rw [hout]
    refine ⟨fun _ => rfl, fun _ => ?_, ?_, mapOK_nil, (fun c m h => by cases h), (fun e h => by cases h), ?_⟩
    · simp [F, sigF, rspFields, retFields, outFields, outFieldsFrom, argField, WTm, WT, ScalarOK, find_S,
        sFields]
    · exact ⟨by decide, by simp, by decide⟩
    · decide +kernel
  refine ⟨_, rfl, ?_⟩
  rw [C01_transparent env rk cfg iface F [.int 70000, zeroS] [some []] hcall find_F himpl
    (by rw [hout])]
  simp only [hout]
  simp [normRet, normOuts, F, sigF, outFields, outFieldsFrom, argField, normMembers, normVar,
    find_S, sFields, copiedMaps]

open C01Example in
/-- … and of `C01_failure`: `x = 13` makes the implementation fail with `tars.Errorf(77, "boom")`,
    which is exactly what the caller gets -/
example : (call env cfg iface F.name F.sig false [.int 13, zeroS] [some []]).2
    = .returned (some (.tars 77 (ascii "boom"))) (view0 env F.sig [.int 13, zeroS] [some []]) := by
  have hcall := callOK_F false 13 (by decide) zeroS wt_zeroS (some []) rfl (by decide +kernel)
  have hout : implOut env F [.int 13, zeroS] [some []]
      = ⟨none, [], none, none, some (.tars 77 (ascii "boom"))⟩ := by
    simp [implOut, normIns, F, sigF, inFields, inFieldsFrom, inVals, argField, normMembers, normVar, implF]
  have himpl : ImplOK .repaired env cfg (proxyRequest env cfg F.name F.sig false [.int 13, zeroS] [some []])
      F.sig (implOut env F [.int 13, zeroS] [some []]) := by
    rw [hout]
    refine ⟨(fun h => by cases h), (fun h => by cases h), mapOK_nil, mapOK_nil, ?_, ?_, ?_⟩
    · intro c m h; cases h; decide
    · intro e h; cases h; decide
    · decide +kernel
  rw [C01_failure env rk cfg iface F [.int 13, zeroS] [some []] _ hcall find_F himpl (by rw [hout])]
  rw [show arrives (GoErr.tars 77 (ascii "boom")) = .tars 77 (ascii "boom") from by decide]

open C01Example in
/-- … and of `C01_nil_map_counterexample` / the current behaviour: the same call with a nil context
    map panicked in the as-found proxy (because `f` sets the response context `{"k": "v"}`); the
    current proxy returns normally and leaves the nil map alone -/
example :
    (callWith { nilMapGuard := .asFound } env cfg {} {} iface F.name F.sig false [.int 70000, zeroS] [none]).2
      = .panicked "assignment to entry in nil map" ∧
    (call env cfg iface F.name F.sig false [.int 70000, zeroS] [none]).2
      = .returned none ⟨some (.int 70001), [.struct [.int 5, .str []]], none, none⟩ := by
  have hcall := callOK_F false 70000 (by decide) zeroS wt_zeroS none rfl (by decide +kernel)
  have hout : implOut env F [.int 70000, zeroS] [none]
      = ⟨some (.int 70001), [.struct [.int 5, .str []]], some [(ascii "k", ascii "v")], none, none⟩ := by
    simp [implOut, normIns, F, sigF, inFields, inFieldsFrom, inVals, argField, normMembers, normVar, implF,
      newS]
  have himpl : ImplOK .repaired env cfg (proxyRequest env cfg F.name F.sig false [.int 70000, zeroS] [none])
      F.sig (implOut env F [.int 70000, zeroS] [none]) := by
    rw [hout]
    refine ⟨fun _ => rfl, fun _ => ?_, ?_, mapOK_nil, (fun c m h => by cases h), (fun e h => by cases h), ?_⟩
    · simp [F, sigF, rspFields, retFields, outFields, outFieldsFrom, argField, WTm, WT, ScalarOK, find_S,
        sFields]
    · exact ⟨by decide, by simp, by decide⟩
    · decide +kernel
  refine ⟨C01_nil_map_counterexample env rk cfg iface F [.int 70000, zeroS] hcall find_F himpl
    (by rw [hout]) (by rw [hout]; decide), ?_⟩
  rw [C01_transparent env rk cfg iface F [.int 70000, zeroS] [none] hcall find_F himpl (by rw [hout])]
  simp only [hout]
  simp [normRet, normOuts, F, sigF, outFields, outFieldsFrom, argField, normMembers, normVar,
    find_S, sFields, copiedMaps]

open C01Example in
/-- … and of `C01_oneway` -/
example : ∃ _ : CallOK env rk cfg F.name F.sig true [.int 70000, zeroS] [some []],
    call env cfg iface F.name F.sig true [.int 70000, zeroS] [some []]
      = ([implEv env F [.int 70000, zeroS] [some []]],
         .returned none (view0 env F.sig [.int 70000, zeroS] [some []])) := by
  have hc : CallOK env rk cfg F.name F.sig true [.int 70000, zeroS] [some []] :=
    callOK_F true 70000 (by decide) zeroS wt_zeroS (some []) rfl (by decide +kernel)
  exact ⟨hc, C01_oneway env rk cfg iface F _ _ hc find_F⟩

open C01Example in
/-- … and with a **reused out variable** (the D13 situation at call level): `void get(out S s)` with
    `struct S { 0 require int a; 1 optional string b; }`, the server sets `s = {a: 5, b: ""}`, the
    caller's variable holds `{a: 1, b: "old"}` before the call.  After the call it holds `{5, ""}`:
    nothing stale survives (as found, `b` kept "old": `ResetDefault` did not reset a member without
    an explicit default, and `b` at its default is not transmitted). -/
example : (call env cfg iface G.name G.sig false [oldS] []).2
    = .returned none ⟨none, [.struct [.int 5, .str []]], none, none⟩ := by
  have hcall := callOK_G oldS wt_oldS (by decide +kernel)
  have himpl : ImplOK .repaired env cfg (proxyRequest env cfg G.name G.sig false [oldS] []) G.sig
      (implOut env G [oldS] []) := by
    refine ⟨fun _ => rfl, fun _ => ?_, mapOK_nil, mapOK_nil, (fun c m h => by cases h),
      (fun e h => by cases h), by decide +kernel⟩
    simp only [implOut, G, implG, sigG, rspFields, retFields, outFields, outFieldsFrom, argField,
      Option.toList_none, List.nil_append, WTm, and_true, if_true]
    exact wt_newS
  rw [C01_transparent env rk cfg iface G [oldS] [] hcall find_G himpl rfl]
  simp [normRet, normOuts, implOut, G, implG, sigG, outFields, outFieldsFrom, argField, normMembers,
    normVar, newS, find_S, sFields, copiedMaps, optsMaps]

end Tars
