import TarsModel.Proofs.LoggerAdmits
import TarsModel.Proofs.LogWriter
import TarsModel.Proofs.PanicExit

/-!
# C20 — Flush writes every log entry logged before it, once and in order

Property theorems only (helper lemmas: `Proofs/Logger.lean`; model: `Model/Logger.lean`, an LTS of
`rogger.flushLog`, `rogger.FlushLogger` and the enqueue in `Writef`/`WriteLog`).

"For all interleavings of logging goroutines, the background flusher and the flush request, all
queue occupancies at the time of the flush" is: for every queue capacity `cap`, every schedule
`acts : List Action` and every state `s` with `run v cap acts = some s` (any number of goroutines,
any entries, any writers; nothing is bounded).

Vocabulary of the statements (history fields of the state, see the model):
`called` / `logged` / `returned` — entries in the order their logging calls were entered / their
channel sends completed / their calls returned; `written` — the entry behind each `Write` call, in
call order; `writes` — the `Write` calls themselves (writer, bytes); `cutReturned`, `cutLogged` —
`returned` and `logged` at the moment `FlushLogger` executed `syncCancel()` (the flush request);
`flush = .returned true` — `FlushLogger` has returned through `<-asyncDone.Done()`, i.e. within
the flush timeout (`.returned false` = through the timer; nothing is promised then).
-/
namespace Tars.Logger

/-- C20 at full strength for the variant `v` of `flushLog`: whenever `FlushLogger` has returned
within its timeout,
 1. every entry whose logging call returned before the flush request has been handed to its
    writer — and more: everything whose send completed before the request, in queue order;
 2. exactly once: the `Write` calls are, position by position, an initial segment of the completed
    sends (so no entry is written more often than it was logged, and not twice if entries are
    distinct), and an entry logged before the request is written as often as it was logged before;
 3. the entries of each goroutine reach the writers in the order of that goroutine's calls;
 4. each as one undivided write: the `Write` calls are exactly the entries' whole values, each to
    its own writer, one call per entry. -/
def C20_full (v : Variant) : Prop :=
  ∀ (cap : Nat) (acts : List Action) (s : State), run v cap acts = some s →
    s.flush = .returned true →
      (∀ e ∈ s.cutReturned, e ∈ s.written) ∧
      (∃ c, s.cutLogged = some c ∧ c <+: s.written ∧ ∀ e, c.count e ≤ s.written.count e) ∧
      (s.written <+: s.logged ∧ (∀ e, s.written.count e ≤ s.called.count e) ∧
        (s.called.Nodup → ∀ e ∈ s.cutReturned, s.written.count e = 1)) ∧
      (∀ g, s.written.filter (fun x => x.g == g) <+: s.called.filter (fun x => x.g == g)) ∧
      s.writes = s.written.map Entry.call

/-! ## The defect (D4): the code as found loses entries -/

/-- goroutine 7's last words -/
def lastWords : Entry := ⟨7, 0, [112, 97, 110, 105, 99]⟩

/-- The losing interleaving: the flusher polls the empty queue and takes `default`; goroutine 7
logs `lastWords` (the call returns); `FlushLogger` is called and requests the flush; the inner
`select` now has both cases ready and takes `<-syncDone.Done()`; `asyncCancel()`; `FlushLogger`
returns. -/
def d4Schedule : List Action :=
  [.fOuterDefault, .logCall lastWords, .enq 7, .logRet 7, .flushCall, .flushSync,
   .fInnerSync, .fAck, .flushDone]

/-- As found, `d4Schedule` is a run of the model for every queue capacity ≥ 1; at its end
`FlushLogger` has returned within its timeout, the logging call of `lastWords` had returned
before the flush request, and `lastWords` has never been handed to its writer (it is still in
the queue, which nobody reads any more). -/
theorem C20_counterexample (cap : Nat) (hcap : 1 ≤ cap) :
    ∃ s, run .asFound cap d4Schedule = some s ∧ s.flush = .returned true ∧
      lastWords ∈ s.cutReturned ∧ lastWords ∉ s.written ∧ s.writes = [] ∧
      s.queue = [lastWords] ∧ s.fpc = .exited := by
  have h0 : (0 : Nat) < cap := hcap
  simp [run, runFrom, d4Schedule, step, init, busy, lastWords, h0]

/-- hence the code as found does not have the property -/
theorem C20_counterexample_not_full : ¬ C20_full .asFound := by
  intro h
  obtain ⟨s, hrun, hfl, hin, hout, _⟩ := C20_counterexample 1 (Nat.le_refl 1)
  exact hout ((h 1 d4Schedule s hrun hfl).1 lastWords hin)

/-- the same loss with three queued entries of two goroutines and two writers (occupancy 3) -/
theorem C20_counterexample_occupancy3 :
    ∃ s, run .asFound 10000
        [.fOuterDefault, .logCall ⟨1, 0, [1]⟩, .logCall ⟨2, 1, [2]⟩, .enq 2, .enq 1, .logRet 1,
         .logCall ⟨1, 0, [3]⟩, .enq 1, .logRet 1, .logRet 2, .flushCall, .flushSync,
         .fInnerSync, .fAck, .flushDone] = some s ∧
      s.flush = .returned true ∧ s.cutReturned.length = 3 ∧ s.written = [] := by
  simp [run, runFrom, step, init, busy]

/-! ## The repaired code (drain on flush request) has the property, for all interleavings -/

/-- C20 for the repaired `flushLog`, every capacity, every schedule. -/
theorem C20_fixed : C20_full .repaired := by
  intro cap acts s hrun hfl
  have hr := run_reachable hrun
  have hi := reachable_inv hr
  obtain ⟨c, hc, hcw⟩ := completed_cut hr hfl
  have hwl := written_prefix_logged hi
  have hmem : ∀ e ∈ s.cutReturned, e ∈ s.written :=
    fun e he => prefix_mem hcw (hi.cutRet c hc e he)
  have hcnt : ∀ e, s.written.count e ≤ s.called.count e :=
    fun e => Nat.le_trans (prefix_count_le e hwl) (count_logged_le_called hi e)
  refine ⟨hmem, ⟨c, hc, hcw, fun e => prefix_count_le e hcw⟩, ⟨hwl, hcnt, ?_⟩, ?_, hi.writesEq⟩
  · intro hnd e he
    have h1 : 1 ≤ s.written.count e := List.count_pos_iff.mpr (hmem e he)
    have h2 : s.called.count e ≤ 1 := List.nodup_iff_count.mp hnd e
    have h3 := hcnt e
    omega
  · intro g
    exact (prefix_filter _ hwl).trans (logged_filter_prefix_called hi g)

/-- non-vacuity of `C20_fixed`: under the repaired code the schedule prefix of the D4 witness
continues to a completed flush (taking the flush request first, then draining), and the entry is
written -/
example : ∃ s, run .repaired 1
    [.fOuterDefault, .logCall lastWords, .enq 7, .logRet 7, .flushCall, .flushSync,
     .fInnerSync, .fDrainRecv, .fWrite, .fDrainDefault, .fAck, .flushDone] = some s ∧
    s.flush = .returned true ∧ s.cutReturned = [lastWords] ∧ s.written = [lastWords] ∧
    s.writes = [⟨0, [112, 97, 110, 105, 99]⟩] := by
  simp [run, runFrom, step, init, busy, lastWords, Entry.call]

/-- "In particular the entries logged immediately before a panic-triggered exit are not lost"
(`CheckPanic`: log, `rogger.FlushLogger()`, `os.Exit`): any entry whose logging call has returned
when the flush is requested has been written when `FlushLogger` returns within its timeout —
whatever else is in the queue, whatever the other goroutines and the flusher were doing. -/
theorem C20_fixed_last_words (cap : Nat) (acts : List Action) (s : State) (e : Entry)
    (hrun : run .repaired cap acts = some s) (hfl : s.flush = .returned true)
    (he : e ∈ s.cutReturned) : e.call ∈ s.writes := by
  obtain ⟨hmem, _, _, _, hw⟩ := C20_fixed cap acts s hrun hfl
  rw [hw]
  exact List.mem_map_of_mem (hmem e he)

/-- The extractor records in `Consts.loggerFlushLogRecvs` how many receives from `logQueue`
`flushLog` contains; when it sees the drain loop (`treeVariant = .repaired`) the theorem above is
about the variant of the current tree. -/
theorem C20_current_tree (h : treeVariant = .repaired) : C20_full treeVariant := h ▸ C20_fixed

/-! ## Order, once, undivided: hold for the code as found and repaired alike, in every reachable
state (FIFO channel, single consumer) -/

/-- the `Write` calls follow the queue order, and each goroutine's entries reach the writers in
the order of that goroutine's logging calls -/
theorem C20_order (v : Variant) (cap : Nat) (acts : List Action) (s : State)
    (hrun : run v cap acts = some s) :
    s.written <+: s.logged ∧
    ∀ g, s.written.filter (fun x => x.g == g) <+: s.called.filter (fun x => x.g == g) := by
  have hi := reachable_inv (run_reachable hrun)
  have hwl := written_prefix_logged hi
  exact ⟨hwl, fun g => (prefix_filter _ hwl).trans (logged_filter_prefix_called hi g)⟩

/-- no entry is handed to a writer more often than it was logged; with distinct entries no entry
is written twice -/
theorem C20_once (v : Variant) (cap : Nat) (acts : List Action) (s : State)
    (hrun : run v cap acts = some s) :
    (∀ e, s.written.count e ≤ s.logged.count e) ∧ (∀ e, s.written.count e ≤ s.called.count e) ∧
    (s.logged.Nodup → s.written.Nodup) := by
  have hi := reachable_inv (run_reachable hrun)
  have hwl := written_prefix_logged hi
  exact ⟨fun e => prefix_count_le e hwl,
    fun e => Nat.le_trans (prefix_count_le e hwl) (count_logged_le_called hi e),
    fun hn => prefix_nodup hwl hn⟩

/-- every `Write` call carries the whole value of exactly one entry to that entry's own writer:
the sequence of `Write` calls is the image of the sequence of written entries -/
theorem C20_undivided (v : Variant) (cap : Nat) (acts : List Action) (s : State)
    (hrun : run v cap acts = some s) :
    s.writes = s.written.map Entry.call ∧ s.writes.length = s.written.length := by
  have hi := reachable_inv (run_reachable hrun)
  exact ⟨hi.writesEq, by rw [hi.writesEq, List.length_map]⟩

/-- nothing is lost or invented on the way: every completed send is written, in the flusher's
hand, or still queued, in this order (the inductive invariant) -/
theorem C20_conservation (v : Variant) (cap : Nat) (acts : List Action) (s : State)
    (hrun : run v cap acts = some s) :
    s.logged = s.written ++ s.fpc.hand ++ s.queue :=
  (reachable_inv (run_reachable hrun)).conserve

/-- Liveness part that the model can exhibit: while `FlushLogger` waits for completion the flusher
is never stuck — one of the statements of `flushLog` is enabled. (That completion arrives within
`waitFlushTimeout` additionally needs a fair scheduler, writers that return and loggers that do
not outrun the flusher for ever; that is assumed, not proved.) -/
theorem C20_progress (v : Variant) (cap : Nat) (acts : List Action) (s : State)
    (hrun : run v cap acts = some s) (hw : s.flush = .waiting) (hd : s.asyncDone = false) :
    ∃ a ∈ flusherActions, (step v cap s a).isSome = true :=
  flusher_progress (reachable_inv (run_reachable hrun)) hw hd

/-- non-vacuity of the hypotheses of `C20_progress` -/
example : ∃ s, run .repaired 4 [.flushCall, .flushSync] = some s ∧ s.flush = .waiting ∧
    s.asyncDone = false := by
  simp [run, runFrom, step, init]

/-! ## Observed histories: what the replay of a run of the real code through the model means -/

/-- `admits` (the check the harness applies to every observed history, guided or unrestricted
search, any state limit) is sound: an admitted history is the visible history of a run of the LTS. -/
theorem C20_admits_sound (v : Variant) (cap limit : Nat) (h : List Event)
    (ha : admits v cap h limit = true) : ∃ s, Trace v cap init h s ∧ Reachable v cap s := by
  obtain ⟨s, t⟩ := admits_sound ha
  exact ⟨s, t, trace_reachable t Reachable.init⟩

/-- the completeness clause of C20 as a predicate on observed histories (this is what the harness
oracle evaluates on the implementation): whenever `FlushLogger` returns through its completion
signal, every entry whose logging call returned before `FlushLogger` was entered has been the
argument of a `Write` call before that return -/
def HistoryComplete (h : List Event) : Prop :=
  ∀ pre mid post, h = pre ++ [.flushCall] ++ mid ++ [.flushRet true] ++ post →
    ∀ e ∈ retsOf pre, e.call ∈ writesOf (pre ++ mid)

/-- every history the repaired model admits is complete: an observed history of the real code
that loses an entry cannot be replayed through the repaired model -/
theorem C20_histories (cap limit : Nat) (h : List Event)
    (ha : admits .repaired cap h limit = true) : HistoryComplete h := by
  intro pre mid post hh
  obtain ⟨s, t⟩ := admits_sound ha
  exact history_complete (hh ▸ t)

/-- the history observed on the unrepaired code under the forced D4 schedule (log, return,
FlushLogger, return — no `Write`) is admitted by the as-found model, is not complete, and is
rejected by the repaired model; with the `Write` it is admitted by both -/
theorem C20_counterexample_history :
    admits .asFound 1 [.logCall lastWords, .logRet lastWords, .flushCall, .flushRet true] = true ∧
    ¬ HistoryComplete [.logCall lastWords, .logRet lastWords, .flushCall, .flushRet true] ∧
    admits .repaired 1 [.logCall lastWords, .logRet lastWords, .flushCall, .flushRet true] = false ∧
    admits .repaired 1 [.logCall lastWords, .logRet lastWords, .flushCall, .write lastWords.call,
      .flushRet true] = true := by
  refine ⟨by decide, ?_, by decide, by decide⟩
  intro h
  have := h [.logCall lastWords, .logRet lastWords] [] [] rfl lastWords (by simp [retsOf])
  simp [writesOf] at this

/-! ## The writer end: the size-rolling file writer keeps what it is handed

`flushLog` hands every entry to `v.writer.Write`; for the property's point ("the entries logged
immediately before a panic-triggered exit are not lost") the writer `SetFileRoller` installs must
put them into the files. Model: `Model/LogWriter.lean` (`RollFileWriter.Write`, `reOpenFile`,
literally, over a small file system with inodes, a directory and handles). `ws` is any sequence
of `Write` calls, each with the clock value it sees and whether its `os.OpenFile` calls succeed. -/

/-- Reading the files back in roll order (`<name>(num-1).log … <name>1.log <name>.log`) gives
exactly the sequence of all `Write` arguments, each once, whole and in order, after what the
rotation has discarded on purpose (files renamed over in the last slot) — for every `num`, every
size limit, every length function, every clock history, provided `os.OpenFile` succeeds. -/
theorem C20_roll_concat {β : Type} (len : β → Nat) (num size : Nat) (ws : List (LogWriter.Env × β))
    (hok : ∀ e ∈ ws, e.1.openOk = true) :
    (LogWriter.writes len true num size LogWriter.init ws).dropped ++
      LogWriter.concatRoll (LogWriter.writes len true num size LogWriter.init ws) (LogWriter.slots num)
      = ws.map (·.2) := by
  obtain ⟨fs, hinv, _⟩ :=
    LogWriter.writes_inv ws LogWriter.init [] [] (LogWriter.inv_init len num size) hok
  simpa using LogWriter.concatRoll_inv hinv

/-- … and nothing is discarded as long as the total volume stays below `num × size`: then the
files are exactly the writes. -/
theorem C20_roll_complete {β : Type} (len : β → Nat) (num size : Nat) (ws : List (LogWriter.Env × β))
    (hok : ∀ e ∈ ws, e.1.openOk = true)
    (hvol : LogWriter.sumLen len (ws.map (·.2)) < num * size) :
    LogWriter.concatRoll (LogWriter.writes len true num size LogWriter.init ws) (LogWriter.slots num)
      = ws.map (·.2) := by
  obtain ⟨fs, hinv, _⟩ :=
    LogWriter.writes_inv ws LogWriter.init [] [] (LogWriter.inv_init len num size) hok
  have hd : (LogWriter.writes len true num size LogWriter.init ws).dropped = [] := by
    rcases hinv.dropBound with h | h
    · exact h
    · simp only [List.nil_append] at h; omega
  have := LogWriter.concatRoll_inv hinv
  rw [hd] at this
  simpa using this

/-- non-vacuity: three files of limit 2, five one-byte writes, two rotations, nothing discarded -/
example :
    LogWriter.concatRoll (LogWriter.writes (fun _ : Nat => 1) true 3 2 LogWriter.init
      [(⟨0, true⟩, 10), (⟨0, true⟩, 11), (⟨5, true⟩, 12), (⟨20, true⟩, 13), (⟨21, true⟩, 14)]) 3
      = [10, 11, 12, 13, 14] ∧
    LogWriter.fileAt (LogWriter.writes (fun _ : Nat => 1) true 3 2 LogWriter.init
      [(⟨0, true⟩, 10), (⟨0, true⟩, 11), (⟨5, true⟩, 12), (⟨20, true⟩, 13), (⟨21, true⟩, 14)]) 2
      = [10, 11] := by decide

/-- Without the reopen at the end of the rotation branch the handle stays closed: every write
until the periodic reopen (`openTime + 10 < now`) is lost, although nothing was discarded. -/
theorem C20_roll_counterexample_no_reopen :
    LogWriter.concatRoll (LogWriter.writes (fun _ : Nat => 1) false 3 2 LogWriter.init
      [(⟨0, true⟩, 10), (⟨0, true⟩, 11), (⟨5, true⟩, 12), (⟨9, true⟩, 13), (⟨20, true⟩, 14)]) 3
      = [10, 11, 14] ∧
    (LogWriter.writes (fun _ : Nat => 1) false 3 2 LogWriter.init
      [(⟨0, true⟩, 10), (⟨0, true⟩, 11), (⟨5, true⟩, 12), (⟨9, true⟩, 13), (⟨20, true⟩, 14)]).dropped
      = [] := by decide

/-- The extractor saw the reopen at the end of the rotation branch of `RollFileWriter.Write`
(`Consts.loggerRollReopenAfterRotate`): the theorems above are about the writer of this tree. -/
theorem C20_roll_tree_reopens : LogWriter.treeReopens = true := by decide

/-! ## The panic exit: `CheckPanic` flushes before it exits

"In particular the entries logged immediately before a panic-triggered exit are not lost": on
that path the flush of `C20_fixed_last_words` has to actually run, and run before `os.Exit`.
Model: `Model/PanicExit.lean` (the recover branch of `tars.CheckPanic` as a statement sequence;
`os.Exit` skips deferred calls). -/

/-- the code as found: stack dump, flush, exit — in this order -/
theorem C20_panic_as_found :
    PanicExit.effects PanicExit.asFound = [.dump, .flush, .exit] ∧
    PanicExit.flushedBeforeExit (PanicExit.effects PanicExit.asFound) = true := by decide

/-- For every statement order of the branch: the process flushes the logs before it ends through
`os.Exit` iff a plain `rogger.FlushLogger()` call statement stands before the first `os.Exit`
(what the extractor anchor checks in the source). A deferred flush never counts. -/
theorem C20_panic_flush_iff (body : List PanicExit.PStmt) :
    PanicExit.flushedBeforeExit (PanicExit.effects body) = PanicExit.plainFlushBeforeExit body :=
  PanicExit.flushed_iff_plain body 0

/-- `defer rogger.FlushLogger()` in a branch that ends in `os.Exit`: the flush never runs -/
theorem C20_panic_counterexample_deferred :
    PanicExit.effects [.deferFlush, .dumpStack, .exit] = [.dump, .exit] ∧
    PanicExit.flushedBeforeExit (PanicExit.effects [.deferFlush, .dumpStack, .exit]) = false := by
  decide

/-- the recover branch of `CheckPanic` in the current tree (statement order read by the extractor,
`Consts.panicCheckPanicSeq`) flushes before it exits -/
theorem C20_panic_tree :
    PanicExit.flushedBeforeExit (PanicExit.effects PanicExit.treeBody) = true := by decide

end Tars.Logger
