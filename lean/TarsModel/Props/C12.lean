import TarsModel.Proofs.ServerConnNotify

/-!
# C12 — Graceful shutdown answers every request already received

Property theorems only (helper lemmas: `Proofs/ServerConn*.lean`; model: `Model/ServerConn.lean`, an
LTS of `tcpHandler.Handle / recv / handleConn / CloseIdles / sendCloseMsg / OnShutdown`,
`TarsServer.Shutdown` and the part of `gpool` the handlers go through).

"All numbers of in-flight and queued requests at the moment of shutdown, all handler durations, pool
sizes 0 and N>0, all interleavings of accept loop, receive loops, handlers and the shutdown poller" is:
every configuration `cfg`, every schedule `acts : List Action` and every state `s` with
`run cfg acts = some s` (any number of connections and requests; a handler's duration is the number
of other actions scheduled between its `start` and `fin`; nothing is bounded).

Vocabulary: `k.srvClosed` — the server has executed `conn.Close()` on connection `k`; `k.buf` — packages
`conn.Read` has returned and `handleConn` has not been called for; `k.reqs` — the requests
`handleConn` has counted (`numInvoke+1`), `q.st = .done true` — the handler of `q` ran, wrote its
response to the open connection and executed its deferred `numInvoke-1`; `q.dispOpen` — the connection
was open when `handleConn` counted `q`; `k.notified` — `sendCloseMsg` wrote the close message to the
open connection; `s.spc = .returned d` — `Shutdown` has returned (`d = true`: because `CloseIdles`
reported all connections closed, `false`: because its context expired).
-/
namespace Tars.ServerConn

/-- the steps of the handler of request `i` of connection `c` -/
def handlerActions (c i : Nat) : List Action :=
  [.start c i, .fin c i, .finEarly c i, .write c i, .skip c i, .dec c i]

/-- a connection whose goroutine exists and has not finished: `Accept` returned it, its deferred close
has not run -/
def Conn.live (k : Conn) : Prop := k.rpc ≠ .backlog ∧ k.rpc ≠ .closed

/-- C12 at full strength for the variant `cfg`, over all schedules:
 1. answered before close: when the server has closed a connection, nothing it had read from it is
    left — no package waits in the receive buffer and every dispatched request is `done true`;
 2. executed: a dispatched, unfinished request can always still be executed — without a pool its
    handler's next step is enabled, with a pool the dispatcher that must hand it to a worker is
    still taking jobs;
 3. notified: when `sendCloseMsg` runs, every connection the accept loop has handed to a goroutine
    and that is still open gets the close message (and keeps that fact);
 4. return: `Shutdown` returns through `CloseIdles` only when every accepted connection is closed. -/
def C12_full (cfg : Cfg) : Prop :=
  ∀ (acts : List Action) (s : State), run cfg acts = some s →
    (∀ (c : Nat) (k : Conn), s.conns[c]? = some k → k.srvClosed = true →
        k.buf = [] ∧ ∀ q ∈ k.reqs, q.st = .done true) ∧
    (∀ (c i : Nat) (k : Conn) (q : Req), s.conns[c]? = some k → k.reqs[i]? = some q → q.st.isDone = false →
        (cfg.pool = none → ∃ a ∈ handlerActions c i, (step cfg s a).isSome = true) ∧
        (cfg.pool ≠ none → s.pst = .live)) ∧
    (∀ (a : Action) (s1 : State) (post : List Action) (s2 : State),
        (a = .closeMsg ∨ (a = .ciBegin ∧ s.listenClosed = 1)) → step cfg s a = some s1 →
        runFrom cfg s1 post = some s2 →
        ∀ (c : Nat) (k : Conn), s.conns[c]? = some k → k.live → k.srvClosed = false →
          ∃ k2, s2.conns[c]? = some k2 ∧ k2.notified = true) ∧
    (s.spc = .returned true →
        ∀ (c : Nat) (k : Conn), s.conns[c]? = some k → k.rpc ≠ .backlog → k.srvClosed = true)

/-! ## The current code: the pool is released after the connections have drained, and `CloseIdles`
only wakes receivers (`pending/C12-fix-pool-release.patch`, `pending/C12-d16-closeidles-wake.patch`) -/

/-- clauses 1 and 2 of `C12_full`: every request the server has read from a connection is executed
and answered before the server closes that connection -/
def C12_safety (cfg : Cfg) : Prop :=
  ∀ (acts : List Action) (s : State), run cfg acts = some s →
    (∀ (c : Nat) (k : Conn), s.conns[c]? = some k → k.srvClosed = true →
        k.buf = [] ∧ ∀ q ∈ k.reqs, q.st = .done true) ∧
    (∀ (c i : Nat) (k : Conn) (q : Req), s.conns[c]? = some k → k.reqs[i]? = some q → q.st.isDone = false →
        (cfg.pool = none → ∃ a ∈ handlerActions c i, (step cfg s a).isSome = true) ∧
        (cfg.pool ≠ none → s.pst = .live))

/-- **Answered before close** (clause 1 of `C12_full`, at full strength): when `CloseIdles` leaves the
closing to the receive loops, then for every pool configuration and every interleaving of accept loop,
receive loops, handlers, pool and shutdown poller: once the server has closed a connection, no
package that `conn.Read` returned is left in its receive buffer, and EVERY request handed to
`handleConn` has been executed, its response written to the open connection and its handler
finished. No atomicity hypothesis, no restriction to requests dispatched before the close. (`decEarly =
false`: the handler decrements `numInvoke` after its write, as the code does; see
`C12_early_decrement_counterexample`.) -/
theorem C12_answered_before_close (cfg : Cfg) (hci : cfg.ci = .kickOnly) (hde : cfg.decEarly = false)
    (acts : List Action) (s : State) (hrun : run cfg acts = some s) (c : Nat) (k : Conn) (hk : s.conns[c]? = some k)
    (hcl : k.srvClosed = true) : k.buf = [] ∧ ∀ q ∈ k.reqs, q.st = .done true := by
  have hr := run_reachable hrun
  have hI := ginv_reachable hr
  have hK := kick_reachable hci hr c k hk
  have hpc := hK.closedPc hcl
  refine ⟨(hI.conns c k hk).bufNil (by simp [hpc]), ?_⟩
  intro q hq
  exact safeEnd_done (hI.safe (by rw [hci]; simp) c k hk hcl q hq (hK.allOpen q hq))
    (noearly_reachable hde hr c k hk q hq)

/-- **Executed, without a pool**: for every variant and every interleaving, the handler of a request
that `handleConn` has counted always has its next step enabled (goroutine per request: nothing can
block it), so under a fair scheduler it runs to its end — also on the early return for one-way requests and empty
responses, provided the decrement of `numInvoke` is deferred. -/
theorem C12_handler_enabled (cfg : Cfg) (hpool : cfg.pool = none) (hdec : cfg.decDeferred = true)
    (acts : List Action) (s : State)
    (hrun : run cfg acts = some s) (c i : Nat) (k : Conn) (q : Req) (hk : s.conns[c]? = some k)
    (hq : k.reqs[i]? = some q) (hnd : q.st.isDone = false) :
    ∃ a ∈ handlerActions c i, (step cfg s a).isSome = true := by
  cases hst : q.st with
  | queued =>
    exact ⟨.start c i, by simp [handlerActions], by simp [step, poolOn, hpool, updConn, hk, cStart, cSetSt, hq, hst]⟩
  | handed =>
    exfalso
    exact nopool_never_handed cfg hpool (run_reachable hrun) c k hk q (mem_of_getElem? hq) hst
  | running =>
    cases hde : cfg.decEarly with
    | false =>
      exact ⟨.fin c i, by simp [handlerActions], by simp [step, hde, updConn, hk, cFin, cSetSt, hq, hst]⟩
    | true =>
      exact ⟨.finEarly c i, by simp [handlerActions], by simp [step, hde, updConn, hk, cFinEarly, hq, hst]⟩
  | writePending => simp [hst, HSt.isDone] at hnd
  | doneLate ok => simp [hst, HSt.isDone] at hnd
  | finished =>
    cases hnr : q.noReply with
    | false =>
      exact ⟨.write c i, by simp [handlerActions], by simp [step, updConn, hk, cWrite, cSetSt, hq, hst, hnr]⟩
    | true =>
      exact ⟨.skip c i, by simp [handlerActions], by simp [step, updConn, hk, cSkip, cSetSt, hq, hst, hnr]⟩
  | wrote ok =>
    exact ⟨.dec c i, by simp [handlerActions], by simp [step, updConn, hk, cDec, hq, hst]⟩
  | done ok => simp [hst, HSt.isDone] at hnd
  | leaked =>
    exfalso
    exact deferred_never_leaked cfg hdec (run_reachable hrun) c k hk q (mem_of_getElem? hq) hst

/-- **Executed, with a pool**: when `Handle` waits for all connection goroutines before
`pool.Release()`, then for any pool size, any queue capacity, any behaviour of `CloseIdles` and every
interleaving: as long as some request has been counted by `handleConn` and its handler has not
finished, the pool's dispatcher is alive (`Release` has not even been called) — no queued handler is
ever dropped. Together with C19 (the live pool executes every submitted job) this is clause 2 of
`C12_full` for the pool. -/
theorem C12_fixed_pool (cfg : Cfg) (hfix : cfg.releaseAfterDrain = true) (acts : List Action) (s : State)
    (hrun : run cfg acts = some s) (c i : Nat) (k : Conn) (q : Req) (hk : s.conns[c]? = some k)
    (hq : k.reqs[i]? = some q) (hnd : q.st.isDone = false) : s.pst = .live := by
  have hI := ginv_reachable (run_reachable hrun)
  have hki := hI.conns c k hk
  have hpos : 0 < k.numInvoke := by
    rw [hki.count]
    exact List.countP_pos_iff.mpr ⟨q, mem_of_getElem? hq, by simp [notDone, hnd]⟩
  cases hp : s.pst with
  | live => rfl
  | stopReq | stopping | stopped =>
    exfalso
    obtain ⟨_, hgone⟩ := hI.poolInv hfix (by rw [hp]; simp)
    rcases hgone c k hk with h | h
    · have := (hki.closedPc h).2.1; omega
    · have := (hki.fresh (Or.inl h)).1
      rw [this] at hq; simp at hq

/-- **C12, safety part, for the repaired code**: clauses 1 and 2 of `C12_full` hold for every pool
configuration and every interleaving. (Clauses 3 and 4 — notification and return — are
`C12_notify` and `C12_returns`, which hold for connections in the connection table; see
`C12_notify_unregistered_counterexample` for what is missing there.) -/
theorem C12_repaired_safety (pool : Option (Nat × Nat)) : C12_safety (repaired pool) := by
  intro acts s hrun
  refine ⟨fun c k hk hcl => C12_answered_before_close _ rfl rfl acts s hrun c k hk hcl, ?_⟩
  intro c i k q hk hq hnd
  exact ⟨fun hp => C12_handler_enabled _ hp rfl acts s hrun c i k q hk hq hnd,
         fun _ => C12_fixed_pool _ rfl acts s hrun c i k q hk hq hnd⟩

/-- **The current tree is the repaired variant.** The extractor regenerates
`Consts.srvHandleWaitsBeforeRelease` (calls of `Wait()` in `tcpHandler.Handle`),
`Consts.srvCloseIdlesCloses` (calls of `conn.conn.Close()` in `tcpHandler.CloseIdles`) and
`Consts.srvInvokeDecDeferred` (`defer atomic.AddInt32(&connSt.numInvoke, -1)` in the handler closure
of `tcpHandler.handleConn`) from the source on every run; if either repair is reverted, or the
decrement is no longer deferred, this theorem no longer builds. -/
theorem C12_current_tree (pool : Option (Nat × Nat)) : treeCfg pool = repaired pool := by
  simp [treeCfg, repaired, Consts.srvHandleWaitsBeforeRelease, Consts.srvCloseIdlesCloses,
    Consts.srvInvokeDecDeferred, Consts.srvInvokeDecBeforeWrite, Consts.srvRecvDrainTickFirst]

/-- **The deferred close waits without bound.** In the model a connection's own close (`drainClose`)
has `numInvoke = 0` as its only guard, which is what `C12_answered_before_close` rests on: however long a
request that has been read waits — in the pool's job queue, behind other connections' work — its
connection stays open. Regenerated from the source on every run: this theorem no longer builds when the
drain loop of the deferred close gets another exit (a bound on the ticks, a timeout, a second `break`). -/
theorem C12_current_tree_drain_unbounded : treeDrainUnbounded = true := by
  simp [treeDrainUnbounded, Consts.srvRecvDrainUnbounded]

/-- hence the safety part of C12 holds for the model variant of the current tree -/
theorem C12_current_tree_safety (pool : Option (Nat × Nat)) : C12_safety (treeCfg pool) := by
  rw [C12_current_tree]; exact C12_repaired_safety pool

/-- non-vacuity, and the D16 schedule under the repaired `CloseIdles`: the same connection with a
stale idle stamp and a request just read; `CloseIdles` looks at it (it only wakes the receiver and
reports "not all closed"); the request is dispatched, executed and answered; the receiver sees the
wake-up, drains and closes; the client has the response, the close message and EOF; the next
`CloseIdles` call finds the table empty and `Shutdown` returns. -/
example : ∃ s, run (repaired none)
    [.connect, .accept 0, .register 0, .stamp 0, .age 0, .send 0 7, .read 0 1,
     .shutdownCall, .setClosed, .acceptExit, .onShutdownRet, .ciBegin, .ciVisit 0, .ciEnd,
     .dispatch 0, .start 0 0, .fin 0 0, .write 0 0, .dec 0 0, .stamp 0, .readErr 0 false, .drainTick 0, .drainClose 0,
     .recvRsp 0 0, .recvMsg 0, .recvEof 0, .ciBegin, .ciEnd] = some s ∧
    s.spc = .returned true ∧
    (s.conns.map fun k => (k.srvClosed, k.reqs.map (·.st), k.got, k.gotMsg, k.sawEof)) =
      [(true, [.done true], [7], true, true)] := by
  refine ⟨_, rfl, ?_, ?_⟩ <;> decide

/-! ## `numInvoke` accounting on the handler's early return (one-way requests, empty responses) -/

/-- the handler of the request is over (it will touch neither the connection nor `numInvoke` again) -/
def HSt.returned : HSt → Bool
  | .done _ | .leaked | .doneLate _ => true
  | _ => false

/-- the handler will still call `conn.Write` (or has not even decided that there is nothing to write) -/
def HSt.writeDue : HSt → Bool
  | .queued | .handed | .running | .finished | .writePending => true
  | _ => false

/-- **Drained connections can be closed**: with the deferred decrement, for every interleaving,
`numInvoke` of a connection is exactly the number of its requests whose handler has not returned —
whatever path the handler took (response written, write failed, one-way request, empty response).
So once the receive loop has returned and every handler of the connection has returned, the deferred
drain-then-close is enabled: the server closes the connection. -/
theorem C12_drain_enabled (cfg : Cfg) (hdec : cfg.decDeferred = true) (hde : cfg.decEarly = false)
    (acts : List Action) (s : State)
    (hrun : run cfg acts = some s) (c : Nat) (k : Conn) (hk : s.conns[c]? = some k) :
    k.numInvoke = k.reqs.countP (fun q => !q.st.returned) ∧
    (k.rpc = .draining → (∀ q ∈ k.reqs, q.st.returned = true) → (step cfg s (.drainClose c)).isSome = true) := by
  have hr := run_reachable hrun
  have hki := (ginv_reachable hr).conns c k hk
  have hnl := noleak_reachable hdec hr c k hk
  have hcount : k.numInvoke = k.reqs.countP (fun q => !q.st.returned) := by
    rw [hki.count]
    apply List.countP_congr
    intro q hq
    have := hnl q hq
    have he := noearly_reachable hde hr c k hk q hq
    cases hst : q.st <;> simp_all [notDone, HSt.isDone, HSt.returned, HSt.early]
  refine ⟨hcount, ?_⟩
  intro hpc hall
  have hz : k.numInvoke = 0 := by
    rw [hcount, List.countP_eq_zero]
    intro q hq; simp [hall q hq]
  simp [step, updConn, hk, cDrainClose, hpc, hz]

/-- **The drain condition implies that no write is pending.** The handler's order is invoke → write →
decrement: for every interleaving, `numInvoke == 0` — what the receive loop's deferred function
waits for before it closes the connection — means that no handler of the connection still has its
`conn.Write` before it (none is queued, running, or between `invoke` and `Write`), however long
those writes were blocked by a client that does not read. -/
theorem C12_drain_no_write_pending (cfg : Cfg) (hde : cfg.decEarly = false) (acts : List Action) (s : State)
    (hrun : run cfg acts = some s) (c : Nat) (k : Conn) (hk : s.conns[c]? = some k)
    (hz : k.numInvoke = 0) : ∀ q ∈ k.reqs, q.st.writeDue = false := by
  have hr := run_reachable hrun
  have hki := (ginv_reachable hr).conns c k hk
  intro q hq
  have hc : k.reqs.countP notDone = 0 := by rw [← hki.count]; exact hz
  have hnd := countP_zero_all notDone k.reqs hc q hq
  have he := noearly_reachable hde hr c k hk q hq
  cases hst : q.st <;> simp_all [notDone, HSt.isDone, HSt.writeDue, HSt.early]

/-- the current code with `numInvoke--` directly after `invoke`, before the write -/
def earlyCfg : Cfg := { repaired none with decDeferred := false, decEarly := true }

/-- **The early decrement.** One request: read, counted, invoked; the handler decrements `numInvoke`
and is then blocked in `conn.Write` (the client does not read). `Shutdown`: the close message is
queued behind it, the receive loop is woken and returns; its deferred function sees `numInvoke == 0`
and closes the connection; the handler's write fails. The request was read on the open connection and
is never answered (the client gets EOF without its response; in the model a `conn.Write` is one step, so
the close message written before the close is delivered — on the real socket it is stuck behind the
blocked response and lost as well). -/
theorem C12_early_decrement_counterexample :
    ∃ s, run earlyCfg
        [.connect, .accept 0, .register 0, .stamp 0, .send 0 5, .read 0 1, .dispatch 0, .start 0 0,
         .finEarly 0 0, .stamp 0, .shutdownCall, .setClosed, .acceptExit, .onShutdownRet, .ciBegin,
         .ciVisit 0, .ciEnd, .readErr 0 false, .drainTick 0, .drainClose 0, .lateWrite 0 0, .recvMsg 0, .recvEof 0] = some s ∧
      (s.conns.map fun k => (k.srvClosed, k.numInvoke, k.got, k.sawEof)) = [(true, 0, [], true)] ∧
      (s.conns.map fun k => k.reqs.map (fun q => (q.dispOpen, q.st))) = [[(true, .doneLate false)]] ∧
      ¬ C12_safety earlyCfg := by
  have hrun : ∃ s, run earlyCfg
        [.connect, .accept 0, .register 0, .stamp 0, .send 0 5, .read 0 1, .dispatch 0, .start 0 0,
         .finEarly 0 0, .stamp 0, .shutdownCall, .setClosed, .acceptExit, .onShutdownRet, .ciBegin,
         .ciVisit 0, .ciEnd, .readErr 0 false, .drainTick 0, .drainClose 0, .lateWrite 0 0, .recvMsg 0, .recvEof 0] = some s := ⟨_, rfl⟩
  obtain ⟨s, hs⟩ := hrun
  have e := hs
  simp only [run, earlyCfg, repaired] at e
  have hse : s = _ := (Option.some.inj e).symm
  refine ⟨s, hs, by subst hse; decide, by subst hse; decide, ?_⟩
  intro hsafe
  have h1 := (hsafe _ s hs).1
  subst hse
  have := (h1 0 _ rfl (by decide)).2 { id := 5, st := .doneLate false, dispOpen := true } (by decide)
  simp at this

/-- the current code with the decrement as the handler's last statement instead of a `defer` -/
def leakCfg (pool : Option (Nat × Nat)) : Cfg := { repaired pool with decDeferred := false }

/-- One connection, one one-way request (or one whose response is empty): it is read, counted,
executed; the handler takes the early return. Then `Shutdown`: the close message is sent, the receive
loop is woken and returns. -/
def leakSchedule : List Action :=
  [.connect, .accept 0, .register 0, .stamp 0, .sendNR 0 5, .read 0 1, .dispatch 0, .start 0 0, .fin 0 0,
   .skip 0 0, .stamp 0, .shutdownCall, .setClosed, .acceptExit, .onShutdownRet, .ciBegin, .ciVisit 0,
   .ciEnd, .readErr 0 false, .drainTick 0, .recvMsg 0]

/-- **The leak.** If the handler's `numInvoke--` is not deferred, `leakSchedule` is a run after which
nothing is in flight (the only handler has returned), the client has the close message and the receive
loop has returned — yet `numInvoke = 1`, and in EVERY continuation the server never closes the
connection and `Shutdown` never returns through `CloseIdles` (only its context's expiry ends it). -/
theorem C12_oneway_leak_counterexample :
    ∃ s, run (leakCfg none) leakSchedule = some s ∧
      (s.conns.map fun k => (k.rpc, k.numInvoke, k.reqs.map (·.st), k.gotMsg, k.srvClosed)) =
        [(.draining, 1, [.leaked], true, false)] ∧
      (∀ (acts : List Action) (s' : State), runFrom (leakCfg none) s acts = some s' →
        (∃ k, s'.conns[0]? = some k ∧ k.srvClosed = false ∧ 0 < k.numInvoke) ∧ s'.spc ≠ .returned true) ∧
      (∃ s', runFrom (leakCfg none) s [.ciBegin, .ciVisit 0, .ciEnd, .ctxExpire] = some s' ∧
        s'.spc = .returned false) := by
  have hrun : ∃ s, run (leakCfg none) leakSchedule = some s := ⟨_, rfl⟩
  obtain ⟨s, hs⟩ := hrun
  have e := hs
  simp only [run, leakSchedule, leakCfg, repaired] at e
  have hse : s = _ := (Option.some.inj e).symm
  have hl : Leaked s 0 0 := by
    subst hse
    refine ⟨⟨_, _, rfl, rfl, by decide, by decide, by decide⟩, ?_, by decide⟩
    intro p hp; simp at hp
  refine ⟨s, hs, ?_, ?_, ?_⟩
  · subst hse; decide
  · intro acts s' hrun'
    have hr : Reachable (leakCfg none) s := run_reachable hs
    have hl' := leaked_run hr hl hrun'
    obtain ⟨k, q, hk, hq, hqs, hcl, _⟩ := hl'.there
    have hki := (ginv_reachable (runFrom_reachable hr hrun')).conns 0 k hk
    exact ⟨⟨k, hk, hcl, numInvoke_pos_of_leaked hki hq hqs⟩, hl'.notRet⟩
  · subst hse
    exact ⟨_, rfl, by decide⟩

/-- with a worker pool the same leak also keeps the accept loop from ever releasing the pool: in every
continuation the connection's goroutine has not finished, so `Handle`'s wait before `Release()` never
ends (`relCall` is not enabled) -/
theorem C12_oneway_leak_pool_counterexample :
    ∃ s, run (leakCfg (some (1, 8)))
        [.connect, .accept 0, .register 0, .stamp 0, .sendNR 0 5, .read 0 1, .dispatch 0, .enqueue 0, .pTake,
         .pGive, .start 0 0, .fin 0 0, .skip 0 0, .stamp 0, .shutdownCall, .setClosed, .acceptExit,
         .onShutdownRet, .ciBegin, .ciVisit 0, .ciEnd, .readErr 0 false, .drainTick 0, .recvMsg 0] = some s ∧
      s.apc = .afterLoop ∧ busy s = 0 ∧ s.jobQ = [] ∧
      (∀ (acts : List Action) (s' : State), runFrom (leakCfg (some (1, 8))) s acts = some s' →
        step (leakCfg (some (1, 8))) s' .relCall = none ∧ s'.spc ≠ .returned true) := by
  have hrun : ∃ s, run (leakCfg (some (1, 8)))
        [.connect, .accept 0, .register 0, .stamp 0, .sendNR 0 5, .read 0 1, .dispatch 0, .enqueue 0, .pTake,
         .pGive, .start 0 0, .fin 0 0, .skip 0 0, .stamp 0, .shutdownCall, .setClosed, .acceptExit,
         .onShutdownRet, .ciBegin, .ciVisit 0, .ciEnd, .readErr 0 false, .drainTick 0, .recvMsg 0] = some s := ⟨_, rfl⟩
  obtain ⟨s, hs⟩ := hrun
  have e := hs
  simp only [run, leakCfg, repaired] at e
  have hse : s = _ := (Option.some.inj e).symm
  have hl : Leaked s 0 0 := by
    subst hse
    refine ⟨⟨_, _, rfl, rfl, by decide, by decide, by decide⟩, ?_, by decide⟩
    intro p hp; simp at hp
  refine ⟨s, hs, ?_, ?_, ?_, ?_⟩
  · subst hse; decide
  · subst hse; decide
  · subst hse; decide
  · intro acts s' hrun'
    have hr : Reachable (leakCfg (some (1, 8))) s := run_reachable hs
    have hl' := leaked_run hr hl hrun'
    refine ⟨?_, hl'.notRet⟩
    obtain ⟨k, q, hk, hq, hqs, hcl, hreg⟩ := hl'.there
    have hki := (ginv_reachable (runFrom_reachable hr hrun')).conns 0 k hk
    have hst := started_of_registered hki hreg
    have hnc : k.rpc ≠ .closed := fun hc => by
      have := (hki.closedPc hc).1; rw [hcl] at this; contradiction
    have hnot : allConnGoroutinesDone s' = false := by
      unfold allConnGoroutinesDone
      rw [Bool.eq_false_iff]
      intro hall
      rw [List.all_eq_true] at hall
      have := hall k (mem_of_getElem? hk)
      simp at this
      rcases this with h1 | h1
      · exact hnc h1
      · exact hst.1 h1
    simp [step, leakCfg, repaired, hnot]

/-! ## The application: `graceShutdown` calls `Shutdown` on every adapter's server -/

section App
open Tars.AppShutdown

/-- **Every adapter is shut down.** The application is a list of independent server LTSs (one
`transport.TarsServer` per tars adapter) plus the loop of `application.graceShutdown` that spawns one
goroutine per adapter. When the server is handed to the goroutine as an argument (the code), then for
every number of adapters, every interleaving of the loop, the goroutines and all the steps of all the
adapters: (a) every adapter's component is a reachable state of the server LTS, so every per-server
theorem of this file applies to every adapter; (b) goroutine j calls `Shutdown` on adapter j and on
no other; (c) once the loop is over and every goroutine has made its call, `Shutdown` has been called
on EVERY adapter. -/
theorem C12_app_all_adapters (cfg : Cfg) (n : Nat) (acts : List AAction) (s : AState)
    (hrun : arun .argument cfg n acts = some s) :
    (∀ (k : Nat) (st : State), s.servers[k]? = some st → Reachable cfg st) ∧
    (∀ (j : Nat) (g : GoR), s.gos[j]? = some g → g.target = none ∨ g.target = some j) ∧
    (s.i = n → (∀ g ∈ s.gos, g.target ≠ none) → ∀ k, k < n → k ∈ s.shutdownOn) := by
  obtain ⟨hA, hI⟩ := arun_inv (ainv_init cfg n) (arginv_init n) hrun
  refine ⟨hA.reach, fun j g hg => (hI.bound j g hg).2.1, ?_⟩
  intro hi hall k hk
  have hlt : k < s.gos.length := by rw [hA.len, hi]; exact hk
  have hg : s.gos[k]? = some s.gos[k] := List.getElem?_eq_getElem hlt
  obtain ⟨_, h2, h3⟩ := hI.bound k _ hg
  rcases h2 with h2 | h2
  · exact absurd h2 (hall _ (List.getElem_mem hlt))
  · exact h3 h2

/-- non-vacuity: three adapters, the goroutines run in reverse order after the loop -/
example : ∃ s, arun .argument (repaired none) 3 [.iter, .iter, .iter, .call 2, .call 0, .call 1] = some s ∧
    s.i = 3 ∧ s.shutdownOn = [2, 0, 1] ∧ (s.servers.map (·.spc)) = [.called, .called, .called] := by
  refine ⟨_, rfl, ?_, ?_, ?_⟩ <;> decide

/-- hence the safety part of C12 holds for every adapter of an application (current code) -/
theorem C12_app_adapter_answered (pool : Option (Nat × Nat)) (n : Nat) (acts : List AAction) (s : AState)
    (hrun : arun .argument (repaired pool) n acts = some s) (a : Nat) (st : State)
    (hst : s.servers[a]? = some st) (c : Nat) (k : Conn) (hk : st.conns[c]? = some k)
    (hcl : k.srvClosed = true) : k.buf = [] ∧ ∀ q ∈ k.reqs, q.st = .done true := by
  have hr := (C12_app_all_adapters _ n acts s hrun).1 a st hst
  have hI := ginv_reachable hr
  have hK := kick_reachable (cfg := repaired pool) rfl hr c k hk
  have hpc := hK.closedPc hcl
  refine ⟨(hI.conns c k hk).bufNil (by simp [hpc]), ?_⟩
  intro q hq
  exact safeEnd_done (hI.safe (by simp [repaired]) c k hk hcl q hq (hK.allOpen q hq))
    (noearly_reachable (cfg := repaired pool) rfl hr c k hk q hq)

/-- **The captured range variable.** If the goroutine's function literal captures the loop variable
(one variable per loop with `go < 1.22` in go.mod), then with two adapters: both iterations run, then
both goroutines: both call `Shutdown` on the LAST adapter. `Shutdown` is never called on adapter 0 —
in every continuation its server stays in the state "Shutdown not called" (no close message, no wake-up,
no drain), whatever its clients and handlers do. -/
theorem C12_app_captured_counterexample :
    ∃ s, arun .loopVariable (repaired none) 2 [.iter, .iter, .call 0, .call 1] = some s ∧
      s.shutdownOn = [1, 1] ∧
      (∀ (acts : List AAction) (s' : AState), arunFrom .loopVariable (repaired none) s acts = some s' →
        ∃ st, s'.servers[0]? = some st ∧ st.spc = .idle) := by
  have hrun : ∃ s, arun .loopVariable (repaired none) 2 [.iter, .iter, .call 0, .call 1] = some s := ⟨_, rfl⟩
  obtain ⟨s, hs⟩ := hrun
  have e := hs
  simp only [arun, AppShutdown.init] at e
  have hse : s = _ := (Option.some.inj e).symm
  have hI : AInv (repaired none) s := arun_ainv (ainv_init _ 2) hs
  have hsk : Skipped s 0 := by
    subst hse
    refine ⟨by decide, by decide, ⟨_, rfl, by decide⟩⟩
  refine ⟨s, hs, by subst hse; decide, ?_⟩
  intro acts s' hrun'
  exact (skipped_run hI hsk hrun').idle

/-- **The current tree passes the server as an argument.** Regenerated on every run from
`application.graceShutdown` (goroutines whose `Shutdown` receiver is the captured range variable) and
go.mod; fails to build when a goroutine captures the loop variable. -/
theorem C12_app_current_tree : treeCapture = .argument := by
  simp [treeCapture, Consts.appShutdownServerCaptured]

end App

/-! ## The close message comes before the deferred close -/

/-- **Notified before closed.** In the current code a server connection is closed only by the deferred
function of its own receive loop, and that function tests `numInvoke` only after a tick of a 500 ms
ticker it creates when the receive loop returns (`for range tk.C { if … == 0 { break } }`). The LTS
serves timers in the order of their due times: a drain ticker created after `Shutdown` created its
poll ticker fires after the poller's first tick (`drainTick` needs `firstPoll`). Then, for every
interleaving: a connection
 * whose receive loop returned while `Shutdown` was already polling (`tickAfterPoll`: every connection
   still being served when `Shutdown` started to poll),
 * that was in the connection table when `sendCloseMsg` ran (not `lateReg`: the window between `Accept`
   returning and `t.conns.Store` is `C12_notify_unregistered_counterexample`),
 * in a run where the close message had been sent by the poller's first `CloseIdles` call
   (`fpNotified`: the accept loop had noticed `isClosed` by then; otherwise `sendCloseMsg` is postponed
   to a later poll)
has had the close message written to it before the server closes it — however late its last request
arrived and however quick its handlers were. -/
theorem C12_notified_before_close (cfg : Cfg) (hci : cfg.ci = .kickOnly) (hdt : cfg.drainFirstTick = true)
    (acts : List Action) (s : State) (hrun : run cfg acts = some s) (c : Nat) (k : Conn)
    (hk : s.conns[c]? = some k) (hcl : k.srvClosed = true) (htick : k.tickAfterPoll = true)
    (hreg : k.lateReg = false) (hfp : s.fpNotified = true) : k.notified = true := by
  have hr := run_reachable hrun
  have hN := ninv_reachable hci hdt hr
  have hn := hN.conns c k hk
  have hpc := (kick_reachable hci hr c k hk).closedPc hcl
  have hfirst := hn.p1 htick (Or.inr hpc)
  have hl := hN.g1 hfirst hfp
  have hsaw := hn.p5 hl (by rw [hpc]; simp)
  rcases hn.p2 hsaw with h | h | h
  · exact h
  · have := hn.p3 h htick; rw [hfp] at this; contradiction
  · rw [hreg] at h; contradiction

/-- for the model variant of the current tree -/
theorem C12_current_tree_notified (pool : Option (Nat × Nat)) (acts : List Action) (s : State)
    (hrun : run (treeCfg pool) acts = some s) (c : Nat) (k : Conn) (hk : s.conns[c]? = some k)
    (hcl : k.srvClosed = true) (htick : k.tickAfterPoll = true) (hreg : k.lateReg = false)
    (hfp : s.fpNotified = true) : k.notified = true := by
  rw [C12_current_tree] at hrun
  exact C12_notified_before_close _ rfl rfl acts s hrun c k hk hcl htick hreg hfp

/-- A client that is connected when `Shutdown` is called and writes a request after the call and before
the poller's first tick; the handler is quick; then silence: the receive loop returns on its 100 ms
closing-state deadline. -/
def lateRequestSchedule : List Action :=
  [.connect, .accept 0, .register 0, .stamp 0, .shutdownCall, .setClosed, .acceptExit, .onShutdownRet,
   .send 0 5, .read 0 1, .dispatch 0, .start 0 0, .fin 0 0, .write 0 0, .dec 0 0, .stamp 0, .readErr 0 false]

/-- non-vacuity of `C12_notified_before_close`, and what the first tick is for: after
`lateRequestSchedule` the deferred drain may not test `numInvoke` yet (`drainTick` is not enabled); the
poller's first call comes first, notifies the connection, and only then the connection is closed. -/
example : ∃ s, run (repaired none) lateRequestSchedule = some s ∧ step (repaired none) s (.drainTick 0) = none ∧
    ∃ s', runFrom (repaired none) s [.ciBegin, .ciVisit 0, .ciEnd, .drainTick 0, .drainClose 0, .recvRsp 0 0,
        .recvMsg 0, .recvEof 0, .ciBegin, .ciEnd] = some s' ∧
      s'.spc = .returned true ∧ s'.fpNotified = true ∧
      (s'.conns.map fun k => (k.srvClosed, k.tickAfterPoll, k.lateReg, k.notified)) = [(true, true, false, true)] ∧
      (s'.conns.map fun k => (k.got, k.gotMsg, k.sawEof)) = [([5], true, true)] := by
  refine ⟨_, rfl, by decide, _, rfl, ?_, ?_, ?_, ?_⟩ <;> decide

/-- the current code with the drain loop that tests before it waits (`for numInvoke > 0 { <-tk.C }`) -/
def noTickCfg : Cfg := { repaired none with drainFirstTick := false }

/-- **Without the first tick.** Same schedule; the deferred drain tests at once, sees `numInvoke == 0`
and closes the connection — before the poller's first call. That call then sends the close message to
the connections that are left, finds the table empty and `Shutdown` returns "all closed": the client got
its response and EOF and never the reconnect notification, although all three conditions of
`C12_notified_before_close` hold. -/
theorem C12_no_first_tick_counterexample :
    ∃ s, run noTickCfg (lateRequestSchedule ++
        [.drainTick 0, .drainClose 0, .ciBegin, .ciEnd, .recvRsp 0 0, .recvEof 0]) = some s ∧
      s.spc = .returned true ∧ s.fpNotified = true ∧
      (s.conns.map fun k => (k.srvClosed, k.tickAfterPoll, k.lateReg, k.notified)) = [(true, true, false, false)] ∧
      (s.conns.map fun k => (k.got, k.gotMsg, k.sawEof)) = [([5], false, true)] := by
  refine ⟨_, rfl, ?_, ?_, ?_, ?_⟩ <;> decide

/-! ## The code as found, and what an atomic `CloseIdles` would have given -/

/-- **Answered before close, for every request dispatched before the close** — for any pool
configuration, provided `CloseIdles` loads `numInvoke` and closes in one atomic step (`ci = .atomic`;
the statement also covers the kick-only repair, for which `C12_answered_before_close` says more). For every interleaving: once the server has closed a connection,
every request that `handleConn` counted while the connection was open has been executed, its
response has been written to the open connection, and its handler has finished.
What is missing for clause 1 of `C12_full`: requests that were read but not yet counted when an
(atomic) `CloseIdles` closed the connection (`C12_undispatched_counterexample`), and the real,
non-atomic `CloseIdles` (`C12_toctou_counterexample`). -/
theorem C12_safety_atomic_partial (cfg : Cfg) (hci : cfg.ci ≠ .asFound) (hde : cfg.decEarly = false)
    (acts : List Action) (s : State)
    (hrun : run cfg acts = some s) (c : Nat) (k : Conn) (hk : s.conns[c]? = some k)
    (hcl : k.srvClosed = true) : ∀ q ∈ k.reqs, q.dispOpen = true → q.st = .done true :=
  fun q hq hd => safeEnd_done ((ginv_reachable (run_reachable hrun)).safe hci c k hk hcl q hq hd)
    (noearly_reachable hde (run_reachable hrun) c k hk q hq)

/-- **C12 without a worker pool, if the as-found `CloseIdles` were atomic** (the partial theorem of
DESIGN §6, about the code before the D16 repair; for the current code it is superseded by
`C12_answered_before_close`, which needs neither hypothesis): for every interleaving, every request
handed to `handleConn` (a) can always take its next handler step and (b) if it was handed over
before the server closed the connection, it is `done true` once the connection is closed. Missing
with respect to `C12_full` for that code: requests read but not yet counted
(`C12_undispatched_counterexample`), the real non-atomic `CloseIdles` (`C12_toctou_counterexample`),
the worker pool (`C12_pool_counterexample`). -/
theorem C12_nopool_partial (cfg : Cfg) (hpool : cfg.pool = none) (hci : cfg.ci = .atomic)
    (hdec : cfg.decDeferred = true) (hde : cfg.decEarly = false)
    (acts : List Action) (s : State) (hrun : run cfg acts = some s)
    (c : Nat) (k : Conn) (hk : s.conns[c]? = some k) :
    (∀ (i : Nat) (q : Req), k.reqs[i]? = some q → q.st.isDone = false →
        ∃ a ∈ handlerActions c i, (step cfg s a).isSome = true) ∧
    (k.srvClosed = true → ∀ q ∈ k.reqs, q.dispOpen = true → q.st = .done true) :=
  ⟨fun i q hq hnd => C12_handler_enabled cfg hpool hdec acts s hrun c i k q hk hq hnd,
   fun hcl => C12_safety_atomic_partial cfg (by rw [hci]; simp) hde acts s hrun c k hk hcl⟩

/-- non-vacuity of `C12_nopool_partial`: two pipelined requests, shutdown while both handlers run, an
atomic `CloseIdles` pass that finds the connection busy, the receiver's drain-then-close: the
connection ends closed with both requests `done true`, the client has both responses, the close
message and then EOF, and `Shutdown` returns through `CloseIdles`. -/
example : ∃ s, run { pool := none, releaseAfterDrain := false, ci := .atomic }
    [.connect, .accept 0, .register 0, .stamp 0, .send 0 11, .send 0 12, .read 0 2, .dispatch 0,
     .dispatch 0, .start 0 0, .start 0 1, .stamp 0, .shutdownCall, .setClosed, .acceptExit, .onShutdownRet,
     .ciBegin, .ciVisit 0, .ciEnd, .readErr 0 false, .fin 0 1, .write 0 1, .dec 0 1, .fin 0 0, .write 0 0,
     .dec 0 0, .drainTick 0, .drainClose 0, .recvRsp 0 1, .recvRsp 0 0, .recvMsg 0, .recvEof 0, .ciBegin, .ciEnd] = some s ∧
    s.spc = .returned true ∧
    (s.conns.map fun k => (k.srvClosed, k.reqs.map (·.st), k.got, k.gotMsg, k.sawEof)) =
      [(true, [.done true, .done true], [12, 11], true, true)] := by
  refine ⟨_, rfl, ?_, ?_⟩ <;> decide

/-- **Notification**: whenever `sendCloseMsg` runs (from `OnShutdown`, action `closeMsg`, or at the
start of a `CloseIdles` call that finds `isListenClosed == 1`, action `ciBegin`), every connection
that is in the connection table and open at that moment has the close message written to it, and
that stays so in every continuation. (Missing for clause 3 of `C12_full`: a connection that `Accept`
has returned but whose goroutine has not yet executed `t.conns.Store` —
`C12_notify_unregistered_counterexample`.) -/
theorem C12_notify (cfg : Cfg) (s s1 s2 : State) (a : Action) (post : List Action)
    (ha : a = .closeMsg ∨ (a = .ciBegin ∧ s.listenClosed = 1)) (hstep : step cfg s a = some s1)
    (hpost : runFrom cfg s1 post = some s2)
    (c : Nat) (k : Conn) (hk : s.conns[c]? = some k) (hreg : k.registered = true)
    (hopen : k.srvClosed = false) : ∃ k2, s2.conns[c]? = some k2 ∧ k2.notified = true := by
  have h1 : ∃ k1, s1.conns[c]? = some k1 ∧ k1.notified = true := by
    rcases ha with rfl | ⟨rfl, hl⟩
    · simp only [step] at hstep
      split at hstep <;> try contradiction
      split at hstep <;> try contradiction
      simp only [Option.some.injEq] at hstep; subst hstep
      exact notifyAll_notified hk hreg hopen
    · simp only [step] at hstep
      split at hstep <;> try contradiction
      simp only [Option.some.injEq] at hstep; subst hstep
      simp only [hl, if_true]
      exact notifyAll_notified hk hreg hopen
  obtain ⟨k1, hk1, hn1⟩ := h1
  obtain ⟨k2, hk2, m⟩ := runFrom_mono hpost c k1 hk1
  exact ⟨k2, hk2, m.notifiedM hn1⟩

/-- non-vacuity of `C12_notify` (both triggers) -/
example : ∃ s s1, run (asFound none) [.connect, .accept 0, .register 0, .shutdownCall, .setClosed, .acceptExit] = some s ∧
    step (asFound none) s .closeMsg = some s1 ∧
    (s.conns.map fun k => (k.registered, k.srvClosed)) = [(true, false)] ∧
    (s1.conns.map (·.notified)) = [true] ∧ s1.listenClosed = 2 := by
  refine ⟨_, _, rfl, rfl, ?_, ?_, ?_⟩ <;> decide

example : ∃ s s1, run (asFound none)
      [.connect, .accept 0, .register 0, .shutdownCall, .setClosed, .onShutdownRet, .acceptExit] = some s ∧
    s.listenClosed = 1 ∧ step (asFound none) s .ciBegin = some s1 ∧ (s1.conns.map (·.notified)) = [true] := by
  refine ⟨_, _, rfl, ?_, rfl, ?_⟩ <;> decide

/-- **Return**: (a) if `Shutdown` has returned because `CloseIdles` reported all connections closed,
every connection that was in the table when that last `CloseIdles` call began has been closed by the
server; (b) while `Shutdown` waits in its `select`, the context's expiry makes it return, and (c) once
the connection table is empty the next `CloseIdles` call makes it return. (Missing for clause 4 of
`C12_full`: connections stored in the table after the last call began.) -/
theorem C12_returns (cfg : Cfg) (acts : List Action) (s : State) (hrun : run cfg acts = some s) :
    (s.spc = .returned true → ∀ c ∈ s.lastPass, ∃ k, s.conns[c]? = some k ∧ k.srvClosed = true) ∧
    (s.spc = .polling → s.pass = none →
      (∃ s', step cfg s .ctxExpire = some s' ∧ s'.spc = .returned false) ∧
      (registeredIds s = [] → ∃ s', runFrom cfg s [.ciBegin, .ciEnd] = some s' ∧ s'.spc = .returned true)) := by
  refine ⟨(ginv_reachable (run_reachable hrun)).retInv, ?_⟩
  intro hs hp
  refine ⟨⟨{ s with spc := .returned false }, by simp [step, hs, hp], rfl⟩, ?_⟩
  intro hreg
  by_cases hl : s.listenClosed = 1
  · have hreg' : registeredIds (notifyAll s) = [] := by rw [registeredIds_notifyAll]; exact hreg
    have hs' : (notifyAll s).spc = .polling := hs
    simp [runFrom, step, hs, hp, hl, hreg', hs']
  · simp [runFrom, step, hs, hp, hl, hreg]

/-- non-vacuity of `C12_returns` (c): an idle server -/
example : ∃ s, run (asFound none) [.shutdownCall, .setClosed, .onShutdownRet] = some s ∧
    s.spc = .polling ∧ s.pass = none ∧ registeredIds s = [] := by
  refine ⟨_, rfl, ?_, ?_, ?_⟩ <;> decide

/-! ## D15 — with a worker pool, `pool.Release()` at the end of the accept loop drops queued handlers -/

/-- the code as found with one worker and a job queue of 8 -/
def poolCfg : Cfg := asFound (some (1, 8))

/-- Three pipelined requests on one connection, one worker: request 0 is running, request 1 is held
by the dispatcher (waiting for the worker), request 2 is in the job queue; `Shutdown` is called; the
accept loop ends and calls `Release`; the dispatcher finishes the hand-over of request 1 and then, with
both the job queue and the stop request ready, takes the stop request; `Release` returns when the
worker is idle. -/
def d15Schedule : List Action :=
  [.connect, .accept 0, .register 0, .stamp 0, .send 0 1, .send 0 2, .send 0 3, .read 0 3,
   .dispatch 0, .enqueue 0, .pTake, .pGive, .start 0 0, .dispatch 0, .enqueue 0, .pTake, .dispatch 0, .enqueue 0,
   .stamp 0, .shutdownCall, .setClosed, .acceptExit, .relCall,
   .fin 0 0, .write 0 0, .dec 0 0, .pGive, .start 0 1, .pStop, .fin 0 1, .write 0 1, .dec 0 1, .relRet]

/-- what the poller and the receiver do afterwards, until the context expires -/
def d15Rest : List Action :=
  [.onShutdownRet, .ciBegin, .ciVisit 0, .ciEnd, .readErr 0 false, .recvRsp 0 0, .recvRsp 0 1, .recvMsg 0,
   .ciBegin, .ciVisit 0, .ciEnd, .ctxExpire]

/-- **D15.** `d15Schedule` is a run of the model of the code as found. At its end request 3 (index 2)
has been read and counted but is still queued in a pool whose dispatcher has stopped, and in EVERY
continuation it stays queued — it is never executed —, `numInvoke` of its connection stays positive,
the server never closes the connection (the drain never completes, `CloseIdles` always finds it busy)
and `Shutdown` never returns through `CloseIdles`; `d15Rest` is such a continuation, in which the
client has received responses 1 and 2 and the close message and `Shutdown` returns when its context
expires. -/
theorem C12_pool_counterexample :
    ∃ s, run poolCfg d15Schedule = some s ∧ s.pst = .stopped ∧ s.jobQ = [(0, 2)] ∧
      (∀ (acts : List Action) (s' : State), runFrom poolCfg s acts = some s' →
        (∃ k q, s'.conns[0]? = some k ∧ k.reqs[2]? = some q ∧ q.st = .queued ∧
          0 < k.numInvoke ∧ k.srvClosed = false) ∧ s'.spc ≠ .returned true) ∧
      (∃ s', runFrom poolCfg s d15Rest = some s' ∧ s'.spc = .returned false ∧
        (s'.conns.map fun k => (k.srvClosed, k.got, k.gotMsg, k.sawEof, k.reqs.map (·.st))) =
          [(false, [1, 2], true, false, [.done true, .done true, .queued])]) := by
  have hrun : ∃ s, run poolCfg d15Schedule = some s := ⟨_, rfl⟩
  obtain ⟨s, hs⟩ := hrun
  have hd : Dropped s 0 2 := by
    have e : run poolCfg d15Schedule = some s := hs
    simp only [run, d15Schedule, poolCfg, asFound] at e
    have : s = _ := (Option.some.inj e).symm
    subst this
    refine ⟨by decide, by decide, ⟨_, _, rfl, rfl, by decide, by decide, by decide⟩, ?_, by decide, by decide⟩
    intro p hp; simp [init] at hp
  refine ⟨s, hs, ?_, ?_, ?_, ?_⟩
  · have e := hs; simp only [run, d15Schedule, poolCfg, asFound] at e
    have : s = _ := (Option.some.inj e).symm
    subst this; decide
  · have e := hs; simp only [run, d15Schedule, poolCfg, asFound] at e
    have : s = _ := (Option.some.inj e).symm
    subst this; decide
  · intro acts s' hrun'
    have hr : Reachable poolCfg s := run_reachable hs
    have hd' := dropped_run (cfg := poolCfg) (n := 1) (qc := 8) rfl hr hd hrun'
    obtain ⟨k, q, hk, hq, hqs, hcl, _⟩ := hd'.there
    have hki := (ginv_reachable (runFrom_reachable hr hrun')).conns 0 k hk
    exact ⟨⟨k, q, hk, hq, hqs, numInvoke_pos_of_queued hki hq hqs, hcl⟩, hd'.notRet⟩
  · have e := hs; simp only [run, d15Schedule, poolCfg, asFound] at e
    have : s = _ := (Option.some.inj e).symm
    subst this
    refine ⟨_, rfl, ?_, ?_⟩ <;> decide

/-- hence the code as found, with a worker pool, does not have the property (clause 2: a counted,
unfinished request sits in a pool whose dispatcher has stopped) -/
theorem C12_pool_not_full : ¬ C12_full poolCfg := by
  intro h
  obtain ⟨s, hs, hst, _, hall, _⟩ := C12_pool_counterexample
  obtain ⟨⟨k, q, hk, hq, hqs, _, _⟩, _⟩ := hall [] s rfl
  have := ((h d15Schedule s hs).2.1 0 2 k q hk hq (by simp [hqs, HSt.isDone])).2 (by simp [poolCfg, asFound])
  rw [hst] at this
  contradiction

/-! ### the repair of D15: release the pool only after every connection goroutine has returned
(theorem `C12_fixed_pool` above) -/

/-- the repaired variant with the same pool -/
def poolFixedCfg : Cfg := { poolCfg with releaseAfterDrain := true }

/-- non-vacuity of `C12_fixed_pool`, and the D15 schedule is no longer a run: in the repaired model
the prefix of `d15Schedule` up to `acceptExit` leaves request 3 queued with the pool alive, and
`relCall` is not enabled there (it is only after the connection has drained and closed). -/
example : ∃ s, run poolFixedCfg (d15Schedule.take 22) = some s ∧ s.pst = .live ∧ s.jobQ = [(0, 2)] ∧
    step poolFixedCfg s .relCall = none ∧ run poolFixedCfg d15Schedule = none := by
  refine ⟨_, rfl, ?_, ?_, ?_, ?_⟩ <;> decide

/-- in the repaired model the same three requests are all answered before the connection is closed,
then the pool is released and `Shutdown` returns through `CloseIdles` -/
example : ∃ s, run poolFixedCfg
    ((d15Schedule.take 22) ++
     [.fin 0 0, .write 0 0, .dec 0 0, .pGive, .start 0 1, .pTake, .fin 0 1, .write 0 1, .dec 0 1, .pGive, .start 0 2,
      .onShutdownRet, .ciBegin, .ciVisit 0, .ciEnd, .readErr 0 false, .fin 0 2, .write 0 2, .dec 0 2,
      .drainTick 0, .drainClose 0, .relCall, .pStop, .relRet, .recvRsp 0 0, .recvRsp 0 1, .recvRsp 0 2, .recvMsg 0,
      .recvEof 0, .ciBegin, .ciEnd]) = some s ∧
    s.spc = .returned true ∧ s.pst = .stopped ∧
    (s.conns.map fun k => (k.srvClosed, k.got, k.gotMsg, k.sawEof, k.reqs.map (·.st))) =
      [(true, [1, 2, 3], true, true, [.done true, .done true, .done true])] := by
  refine ⟨_, rfl, ?_, ?_, ?_⟩ <;> decide

/-- `C12_fixed_pool` for the model variant of the current tree (no hypothesis: it rests on
`C12_current_tree`, which fails to build if `Handle` no longer waits before `Release()`). -/
theorem C12_current_tree_pool (pool : Option (Nat × Nat))
    (acts : List Action) (s : State) (hrun : run (treeCfg pool) acts = some s) (c i : Nat) (k : Conn)
    (q : Req) (hk : s.conns[c]? = some k) (hq : k.reqs[i]? = some q) (hnd : q.st.isDone = false) :
    s.pst = .live :=
  C12_fixed_pool (treeCfg pool) (by rw [C12_current_tree]; rfl) acts s hrun c i k q hk hq hnd

/-! ## D16 — before the repair `CloseIdles` checked `numInvoke` and the idle stamp, then closed: not
atomic, and the stamp is taken before the blocking `Read` (theorems about the `asFound` variant) -/

/-- A connection that has been idle for two seconds (its receiver is blocked in `Read`, the stamp is
old); a request arrives and `Read` returns it; `Shutdown` is called; `CloseIdles` loads
`numInvoke == 0` and sees the stale stamp; the receiver calls `handleConn` (`numInvoke = 1`, handler
spawned); `CloseIdles` executes `Close()`; `CloseIdles` reports "all closed" and `Shutdown` returns;
the handler runs, its `Write` fails. -/
def d16Schedule : List Action :=
  [.connect, .accept 0, .register 0, .stamp 0, .age 0, .send 0 7, .read 0 1,
   .shutdownCall, .setClosed, .acceptExit, .onShutdownRet, .ciBegin, .ciVisit 0,
   .dispatch 0, .ciClose, .ciEnd, .start 0 0, .fin 0 0, .write 0 0, .dec 0 0, .recvMsg 0, .recvEof 0]

/-- **D16.** `d16Schedule` is a run of the model of the code as found (no pool). At its end the
server has closed the connection and `Shutdown` has returned "drained", although request 7 was read
and handed to `handleConn` while the connection was open: its response was never written (the write
failed), the client got the close message and EOF and no response. -/
theorem C12_toctou_counterexample :
    ∃ s, run (asFound none) d16Schedule = some s ∧ s.spc = .returned true ∧
      (s.conns.map (·.byIdles)) = [true] ∧
      (s.conns.map fun k => k.reqs.map (fun q => (q.id, q.st, q.dispOpen))) = [[(7, .done false, true)]] ∧
      (s.conns.map fun k => (k.srvClosed, k.got, k.gotMsg, k.sawEof)) =
        [(true, [], true, true)] := by
  refine ⟨_, rfl, ?_, ?_, ?_, ?_⟩ <;> decide

/-- hence the code as found, without a pool, does not have the property either (clause 1) -/
theorem C12_toctou_not_full : ¬ C12_full (asFound none) := by
  intro h
  obtain ⟨s, hs, _, _, _, _⟩ := C12_toctou_counterexample
  have e := hs; simp only [run, d16Schedule, asFound] at e
  have : s = _ := (Option.some.inj e).symm
  subst this
  have := ((h d16Schedule _ hs).1 0 _ rfl (by decide)).2 { id := 7, st := .done false, dispOpen := true } (by decide)
  simp at this

/-- with the repaired `CloseIdles` the D16 schedule is not a run: `ciClose` is never enabled -/
example : run (repaired none) d16Schedule = none := by rfl

/-- **The atomicity hypothesis alone is not enough**: even if `CloseIdles` loaded and closed in one
step, a request that `Read` has returned and `handleConn` has not yet counted is lost, because the
idle stamp it relies on is taken BEFORE the blocking `Read`: same schedule, atomic close. The request
had been read when the server closed the connection; it is executed afterwards and its write fails.
(This is why `C12_nopool_partial` speaks of requests dispatched before the close.) -/
theorem C12_undispatched_counterexample :
    ∃ s, run { pool := none, releaseAfterDrain := false, ci := .atomic }
        [.connect, .accept 0, .register 0, .stamp 0, .age 0, .send 0 7, .read 0 1,
         .shutdownCall, .setClosed, .acceptExit, .onShutdownRet, .ciBegin, .ciVisit 0, .ciEnd,
         .dispatch 0, .start 0 0, .fin 0 0, .write 0 0, .dec 0 0, .recvMsg 0, .recvEof 0] = some s ∧
      s.spc = .returned true ∧
      (s.conns.map (·.byIdles)) = [true] ∧
      (s.conns.map fun k => k.reqs.map (fun q => (q.id, q.st, q.dispOpen))) = [[(7, .done false, false)]] ∧
      (s.conns.map fun k => (k.srvClosed, k.got, k.gotMsg, k.sawEof)) =
        [(true, [], true, true)] := by
  refine ⟨_, rfl, ?_, ?_, ?_, ?_⟩ <;> decide

/-! ## Boundaries of the notification clause -/

/-- A connection that `Accept` has returned but whose goroutine has not yet stored it in the
connection table when `sendCloseMsg` ranges over the table is not notified: it is served, drained and
closed without ever receiving the close message. (The window is the few instructions between
`Accept` returning and `t.conns.Store`; not reproduced on the real code.) -/
theorem C12_notify_unregistered_counterexample :
    ∃ s, run (asFound none)
        [.connect, .accept 0, .shutdownCall, .setClosed, .acceptExit, .closeMsg, .register 0, .stamp 0,
         .readErr 0 false, .drainTick 0, .drainClose 0, .recvEof 0] = some s ∧
      s.listenClosed = 2 ∧ (s.conns.map fun k => (k.srvClosed, k.notified, k.sawEof)) = [(true, false, true)] := by
  refine ⟨_, rfl, ?_, ?_⟩ <;> decide

/-- `Shutdown` sends the close message from its poll loop (first tick), not before: if the context
expires before the first tick, `Shutdown` returns with the connection open and not notified. -/
theorem C12_notify_ctx_counterexample :
    ∃ s, run (asFound none)
        [.connect, .accept 0, .register 0, .stamp 0, .shutdownCall, .setClosed, .onShutdownRet, .acceptExit,
         .ctxExpire] = some s ∧
      s.spc = .returned false ∧ (s.conns.map fun k => (k.srvClosed, k.notified)) = [(false, false)] := by
  refine ⟨_, rfl, ?_, ?_⟩ <;> decide

end Tars.ServerConn
