/-
  C04 — Schema evolution.

  "A reader ignores fields it does not know: inserting any well-formed fields (any wire type, any
   nesting, any length) whose tags are not in the reader's schema, anywhere tag order allows,
   changes neither the decoded values of the known fields nor the success of decoding, and the
   reader consumes each skipped field exactly. An absent optional field decodes to its IDL default
   (also when the target struct is reused), and an absent required field is reported as an error,
   so old readers and new writers, and vice versa, interoperate."

  Objects: `WFField` (Model/WireField.lean) is the grammar of well-formed wire fields, `render` /
  `body` its bytes; `skipField`, `skipToNoCheck` (Model/Wire.lean) mirror codec.go; `decVar`,
  `decMembers`, `decStruct`, `resetDefault` (Model/Schema.lean) mirror what tars2go emits.
  Helper lemmas: Proofs/Skip.lean, SkipTo.lean, Evolve.lean, EvolveReset.lean, EvolveStruct.lean,
  EvolveFresh.lean, EvolveEnc.lean, EvolveAsFound.lean (as-found `ResetDefault`, Model/SchemaAsFound.lean).
  Props/C04RT.lean (separate, because it imports the C03 development) discharges the per-member
  assumptions of section 3 with the C03 member round trip: `C04_unknown_ignored`.
-/
import TarsModel.Proofs.EvolveEnc
import TarsModel.Proofs.EvolveAsFound

namespace Tars
open Consts WFField Evolve

/-! ## 1. Every well-formed field is skipped exactly -/

/-- **C04_skip_exact**: for every well-formed field `f` (every wire type, any nesting, any length,
    tags 0..255 in either head encoding) and every reader whose unread input starts with the body
    of `f`, `skipField(f.ty)` succeeds and advances the reader by exactly the length of the body,
    for every fuel `≥ f.cost`. -/
theorem C04_skip_exact (f : WFField) (hf : f.WF) (fuel : Nat) (hfuel : f.cost ≤ fuel)
    (r : Reader) (t : Bytes) (h : r.rest = f.body ++ t) :
    skipField fuel f.ty r = (.ok (), r.adv f.body.length) ∧ (r.adv f.body.length).rest = t :=
  ⟨Skip.skipField_exact f hf fuel hfuel r t h, r.rest_adv _ _ h⟩

/-- a sufficient fuel in terms of the size of the field: twice its length plus one -/
theorem C04_skip_fuel_bound (f : WFField) : f.cost ≤ 2 * f.body.length + 1 := Skip.cost_le f

/-- the fuel the model gives `skipField` inside `SkipToNoCheck` (`Reader.fuel`, a function of the
    size of the whole input) is always sufficient: the field lies inside the reader's data -/
theorem C04_skip_exact_default_fuel (f : WFField) (hf : f.WF) (r : Reader) (t : Bytes)
    (h : r.rest = f.body ++ t) :
    skipField r.fuel f.ty r = (.ok (), r.adv f.body.length) :=
  Skip.skipField_exact f hf r.fuel (Skip.cost_le_fuel f r t h) r t h

/-- non-vacuity: a nested field using every container, an extended tag and both string forms -/
def C04_exField : WFField :=
  .struct 20 [
    .map 1 [(.string1 0 [byte 107], .list 1 [.zero 0, .int 0 70000, .long 0 5]),
            (.string4 0 [byte 1, byte 2], .list 1 [])],
    .simpleList 200 [byte 7, byte 8],
    .struct 201 [.float 0 1, .short 15 300],
    .double 255 0,
    .byte 3 (byte 9)]

example : C04_exField.WF := by decide
example : C04_exField.cost = 36 := by decide
example : C04_exField.render.length = 67 := by decide
/-- the model evaluated on that field (with one trailing byte): all 65 body bytes consumed, ok -/
example : (skipField (Reader.mk0 (C04_exField.body ++ [Tars.byte 9])).fuel C04_exField.ty
    (Reader.mk0 (C04_exField.body ++ [Tars.byte 9]))).1.toBool = true ∧
    (skipField (Reader.mk0 (C04_exField.body ++ [Tars.byte 9])).fuel C04_exField.ty
    (Reader.mk0 (C04_exField.body ++ [Tars.byte 9]))).2.pos = 65 := by
  decide +kernel

/-! ## 2. `SkipToNoCheck` passes over unknown fields with a lower tag -/

/-- **C04_skipTo_passes**: `SkipToNoCheck(tag, require)` on input that starts with a well-formed
    field whose tag is lower behaves exactly as on the reader positioned right after that field
    (whatever follows): the unknown field is consumed exactly, head included. -/
theorem C04_skipTo_passes (f : WFField) (hf : f.WF) (tag : Nat) (req : Bool) (r : Reader) (t : Bytes)
    (h : r.rest = f.render ++ t) (hlt : f.tag < tag) :
    skipToNoCheck tag req r = skipToNoCheck tag req (r.adv f.render.length) ∧
    (r.adv f.render.length).rest = t :=
  ⟨Skip.skipToNoCheck_passes f hf tag req r t h hlt, r.rest_adv _ _ h⟩

example : C04_exField.tag < 21 := by decide
/-- the model evaluated: looking for tag 21 behind `C04_exField` finds it -/
example : (skipToNoCheck 21 true (Reader.mk0 (C04_exField.render ++ writeInt32 5 21))).2.pos = 69 ∧
    (skipToNoCheck 21 true (Reader.mk0 (C04_exField.render ++ writeInt32 5 21))).1.toBool = true := by
  decide +kernel

/-! ## 3. Unknown fields do not change what the known members decode to -/

/-- the message a new writer produces, as seen by an old reader: for each member of the reader's
    schema a `Slot` (the member, the previous value of its target, the bytes present for it — `[]`
    if the writer left it out), in front of each slot a list of unknown fields, and unknown fields
    behind the last slot.  `merged items tail` are the bytes, `merged (strip items) []` the bytes
    without the unknown fields (`= plain` of the slots). -/
example (items : List (List WFField × Slot)) :
    merged (strip items) [] = plain (items.map (·.2)) := merged_strip items

/-- **C04_unknown_ignored_members** (the member sequence of a generated `ReadFrom`, any fuel):
    for every interleaving (`items`, `tail`: which unknown fields stand in front of which member,
    `Admissible`: at positions the ascending tag order allows, tags outside the schema), the
    decoded values and the success/error are the same with and without the unknown fields; on
    success the unknown fields in front of and between the members have been consumed exactly
    (the reader stands in front of the trailing ones).

    Assumed of the known members' bytes (`hsl`): each is empty or starts with a canonical head
    carrying the member's tag (`HeadOk`), and the member's read is self-delimiting on them
    (`SelfDelimiting`: the outcome does not depend on what follows, and a success leaves exactly
    what followed). Nothing is assumed about the outcome: members may fail. -/
theorem C04_unknown_ignored_members (env : Env) (N : Nat) (items : List (List WFField × Slot))
    (tail : List WFField) (lo : Nat) (hadm : Admissible lo items tail)
    (hsl : ∀ p ∈ items, p.2.HeadOk ∧ p.2.SelfDelimiting env N)
    (t t' : Bytes) (ht : Terminated t) (ht' : Terminated t')
    (fuel fuel' : Nat) (hf : N + items.length < fuel) (hf' : N + items.length < fuel')
    (r r' : Reader) (h : r.rest = merged items tail ++ t)
    (h' : r'.rest = merged (strip items) [] ++ t') :
    (decMembers env fuel (fieldsOf items) (oldsOf items) r).1
      = (decMembers env fuel' (fieldsOf items) (oldsOf items) r').1 ∧
    ∀ vs, (decMembers env fuel (fieldsOf items) (oldsOf items) r).1 = .ok vs →
      (decMembers env fuel (fieldsOf items) (oldsOf items) r).2.rest = renderList tail ++ t ∧
      (decMembers env fuel' (fieldsOf items) (oldsOf items) r').2.rest = t' :=
  decMembers_unknown_ignored env N items tail lo hadm hsl t t' ht ht' fuel fuel' hf hf' r r' h h'

/-- **C04_unknown_ignored_block** (a nested struct member, generated `ReadBlock`): unknown fields
    anywhere inside the block, including behind its last known member, change neither value nor
    success, and on success the whole block (StructBegin … StructEnd) is consumed exactly. -/
theorem C04_unknown_ignored_block (env : Env) (N : Nat) (name : String) (fs : List Field)
    (ovs : List Val) (items : List (List WFField × Slot)) (tail : List WFField)
    (tag : Nat) (req : Bool) (F : Nat)
    (hfind : env.find name = some fs) (hfs : fieldsOf items = fs)
    (holds : oldsOf items = resetDefault env F fs (resetDefault env F fs ovs))
    (hadm : Admissible 0 items tail) (hsl : ∀ p ∈ items, p.2.HeadOk ∧ p.2.SelfDelimiting env N)
    (htag : tag < 256) (hF : N + items.length < F) (r r' : Reader) (t t' : Bytes)
    (h : r.rest = writeHead tyStructBegin tag ++ merged items tail ++ writeHead tyStructEnd 0 ++ t)
    (h' : r'.rest = writeHead tyStructBegin tag ++ merged (strip items) [] ++ writeHead tyStructEnd 0 ++ t') :
    (decVar env (F+1) tag req (.struct name) (.struct ovs) r).1
      = (decVar env (F+1) tag req (.struct name) (.struct ovs) r').1 ∧
    ∀ v, (decVar env (F+1) tag req (.struct name) (.struct ovs) r).1 = .ok v →
      (decVar env (F+1) tag req (.struct name) (.struct ovs) r).2.rest = t ∧
      (decVar env (F+1) tag req (.struct name) (.struct ovs) r').2.rest = t' :=
  decVar_block_unknown_ignored env N name fs ovs items tail tag req F hfind hfs holds hadm hsl htag hF
    r r' t t' h h'

/-- **C04_unknown_ignored_of_stable** (`st.ReadFrom(readBuf)`, most general form): the same outcome
    — decoded struct or error — with and without the unknown fields, for any schema, provided the
    two amounts of model fuel give the same `ResetDefault` of the target (`hstable`).
    `C04_resetDefault_stable_acyclic` / `C04_resetDefault_stable` discharge `hstable`. -/
theorem C04_unknown_ignored_of_stable (env : Env) (N : Nat) (S : String) (fs : List Field)
    (ovs : List Val) (items : List (List WFField × Slot)) (tail : List WFField)
    (r r' : Reader) (t t' : Bytes)
    (hfind : env.find S = some fs) (hfs : fieldsOf items = fs)
    (holds : oldsOf items = resetDefault env (decFuel env r) fs ovs)
    (hstable : resetDefault env (decFuel env r') fs ovs = resetDefault env (decFuel env r) fs ovs)
    (hadm : Admissible 0 items tail) (hsl : ∀ p ∈ items, p.2.HeadOk ∧ p.2.SelfDelimiting env N)
    (hF : N + items.length < decFuel env r) (hF' : N + items.length < decFuel env r')
    (ht : Terminated t) (ht' : Terminated t')
    (h : r.rest = merged items tail ++ t) (h' : r'.rest = merged (strip items) [] ++ t') :
    (decStruct env S (.struct ovs) r).1 = (decStruct env S (.struct ovs) r').1 :=
  decStruct_unknown_ignored env N S fs ovs items tail r r' t t' hfind hfs holds hstable hadm hsl
    hF hF' ht ht' h h'

/-- **C04_resetDefault_stable_acyclic**: for every schema whose by-value struct nesting (members
    and elements of fixed-size arrays) is acyclic (`EnvAcyclic`; Go rejects the other schemas at
    compile time: `invalid recursive type`), `ResetDefault` of any struct on ANY target gives the
    same result for any two amounts of model fuel above the rank `rk S` of the struct (its by-value
    nesting depth; `rk S ≤ env.length`). -/
theorem C04_resetDefault_stable_acyclic (env : Env) (rk : String → Nat) (hac : EnvAcyclic env rk)
    (S : String) (fs : List Field) (ovs : List Val) (F F' : Nat) (hfind : env.find S = some fs)
    (hF : rk S < F) (hF' : rk S < F') :
    resetDefault env F' fs ovs = resetDefault env F fs ovs :=
  resetDefault_stable_acyclic env rk hac S fs hfind ovs F' F hF' hF

/-- **C04_resetDefault_stable**: the same for schemas without fixed-size arrays of structs (acyclic
    or not), for fuels above the struct-nesting depth of the target (`listDepth ovs`; 0 for a
    target without nested struct members, and `decFuel ≥ 6`). -/
theorem C04_resetDefault_stable (env : Env) (hna : NoStructArrays env) (S : String) (fs : List Field)
    (ovs : List Val) (F F' : Nat) (hfind : env.find S = some fs)
    (hdep : listDepth ovs < F) (hdep' : listDepth ovs < F') :
    resetDefault env F' fs ovs = resetDefault env F fs ovs :=
  resetDefault_fuel env hna _ _ fs ovs (hna S fs hfind) hdep' hdep

/-- **C04_unknown_ignored_partial** (`st.ReadFrom(readBuf)`, acyclic schemas): the same outcome with
    and without the unknown fields, for ANY target.

    Partial w.r.t. `C04_unknown_ignored_full` in that (a) the known members' bytes are
    characterised by `HeadOk`/`SelfDelimiting` instead of being `encVar` of a well-typed value
    (the C03 round trip per member yields both: Props/C04RT.lean), and (b) the model fuel `decFuel`
    of either run is assumed to exceed `N + #members`, where `N` is the fuel from which the
    members' reads are self-delimiting (Props/C04RT.lean discharges this too).  `ResetDefault`
    needs no fuel hypothesis: `decFuel` exceeds the rank of every struct (`C04_resetDefault_decFuel`). -/
theorem C04_unknown_ignored_partial (env : Env) (rk : String → Nat) (hac : EnvAcyclic env rk)
    (N : Nat) (S : String) (fs : List Field)
    (ovs : List Val) (items : List (List WFField × Slot)) (tail : List WFField)
    (r r' : Reader) (t t' : Bytes)
    (hfind : env.find S = some fs) (hfs : fieldsOf items = fs)
    (holds : oldsOf items = resetDefault env (decFuel env r) fs ovs)
    (hadm : Admissible 0 items tail) (hsl : ∀ p ∈ items, p.2.HeadOk ∧ p.2.SelfDelimiting env N)
    (hF : N + items.length < decFuel env r) (hF' : N + items.length < decFuel env r')
    (ht : Terminated t) (ht' : Terminated t')
    (h : r.rest = merged items tail ++ t) (h' : r'.rest = merged (strip items) [] ++ t') :
    (decStruct env S (.struct ovs) r).1 = (decStruct env S (.struct ovs) r').1 :=
  decStruct_unknown_ignored env N S fs ovs items tail r r' t t' hfind hfs holds
    (resetDefault_decFuel env rk hac S fs hfind ovs r r') hadm hsl hF hF' ht ht' h h'

/-- **C04_resetDefault_decFuel**: for an acyclic schema the `ResetDefault` that `ReadFrom` performs
    on ANY target does not depend on the size of the input (the model fuel `decFuel` always exceeds
    the rank of the struct, `rk S ≤ env.length < decFuel`) -/
theorem C04_resetDefault_decFuel (env : Env) (rk : String → Nat) (hac : EnvAcyclic env rk)
    (S : String) (fs : List Field) (hfind : env.find S = some fs) (ovs : List Val) (r r' : Reader) :
    resetDefault env (decFuel env r') fs ovs = resetDefault env (decFuel env r) fs ovs :=
  resetDefault_decFuel env rk hac S fs hfind ovs r r'

/-- **C04_unknown_ignored_enc_partial**: the same with the known members given as `encVar` of the
    members of a value (`encSlots`), compared against `encStruct` of that value: merging unknown
    fields into the encoding of a value does not change what `ReadFrom` returns.  The per-member
    assumptions remain (`hsl`); they are exactly what the C03 round trip has to deliver. -/
theorem C04_unknown_ignored_enc_partial (env : Env) (rk : String → Nat) (hac : EnvAcyclic env rk)
    (N : Nat) (S : String) (fs : List Field)
    (vals ovs : List Val) (gaps : List (List WFField)) (tail : List WFField)
    (r r' : Reader) (t t' : Bytes)
    (hfind : env.find S = some fs) (hlo : ovs.length = fs.length) (hlv : vals.length = fs.length)
    (hlg : gaps.length = fs.length)
    (hadm : Admissible 0
      (gaps.zip (encSlots env fs (resetDefault env (decFuel env r) fs ovs) vals)) tail)
    (hsl : ∀ s ∈ encSlots env fs (resetDefault env (decFuel env r) fs ovs) vals,
      s.HeadOk ∧ s.SelfDelimiting env N)
    (hF : N + fs.length < decFuel env r) (hF' : N + fs.length < decFuel env r')
    (ht : Terminated t) (ht' : Terminated t')
    (h : r.rest = merged
      (gaps.zip (encSlots env fs (resetDefault env (decFuel env r) fs ovs) vals)) tail ++ t)
    (h' : r'.rest = encStruct env S (.struct vals) ++ t') :
    (decStruct env S (.struct ovs) r).1 = (decStruct env S (.struct ovs) r').1 :=
  decStruct_unknown_ignored_enc env N S fs vals ovs gaps tail r r' t t' hfind hlo hlv hlg
    (resetDefault_decFuel env rk hac S fs hfind ovs r r') hadm hsl hF hF' ht ht' h h'

/-- full strength (stated, not proved here): for every schema, every well-typed value `vals`, every
    target `ovs`, every admissible interleaving with unknown well-formed fields, decoding the
    merged message gives the same outcome as decoding `encStruct` of the value.
    `WellTyped` is the typing predicate of C03. -/
def C04_unknown_ignored_full (WellTyped : Env → List Field → List Val → Prop) : Prop :=
  ∀ (env : Env) (S : String) (fs : List Field) (vals ovs : List Val)
    (gaps : List (List WFField)) (tail : List WFField) (t : Bytes),
    env.find S = some fs → WellTyped env fs vals → WellTyped env fs ovs → gaps.length = fs.length →
    Admissible 0 (gaps.zip (encSlots env fs ovs vals)) tail → Terminated t →
    (decStruct env S (.struct ovs)
        (Reader.mk0 (merged (gaps.zip (encSlots env fs ovs vals)) tail ++ t))).1
      = (decStruct env S (.struct ovs) (Reader.mk0 (encStruct env S (.struct vals) ++ t))).1

/-! ### instances of the assumptions (non-vacuity) -/

/-- an absent member of non-struct type is self-delimiting -/
theorem C04_selfDelimiting_absent (env : Env) (s : Slot) (henc : s.enc = [])
    (hty : isStructTy s.f.ty = false) (hok : targetOk env s.f.ty s.old = true) :
    s.SelfDelimiting env 1 := selfDelimiting_absent env s henc hty hok

/-- a present `int` member as written by `WriteInt32` is self-delimiting (C02 round trip) -/
theorem C04_selfDelimiting_int (env : Env) (s : Slot) (v o : Int) (hty : s.f.ty = .i32)
    (hold : s.old = .int o) (htag : s.f.tag < 256) (hv : -(2:Int)^31 ≤ v ∧ v < (2:Int)^31)
    (henc : s.enc = writeInt32 v s.f.tag) : s.SelfDelimiting env 1 :=
  selfDelimiting_i32 env s v o hty hold htag hv henc

/-- a reader's schema: `struct S { 2 require int a; 5 optional string b; }` -/
def C04_exFs : List Field := [⟨2, true, .i32, none⟩, ⟨5, false, .str, none⟩]
def C04_exEnv : Env := [("S", C04_exFs)]
/-- a new writer's message: `a = 5`, `b` left out, unknown members with tags 0, 1, 3, 200 -/
def C04_exItems : List (List WFField × Slot) :=
  [ ([.zero 0, .string1 1 [byte 65]], ⟨⟨2, true, .i32, none⟩, .int 0, writeInt32 5 2⟩),
    ([.list 3 [.zero 0, .zero 0]],    ⟨⟨5, false, .str, none⟩, .str [], []⟩) ]
def C04_exTail : List WFField := [.struct 200 [.byte 1 (byte 1)]]

example : Admissible 0 C04_exItems C04_exTail := by
  simp +decide [Admissible, C04_exItems, C04_exTail]
example : ∀ p ∈ C04_exItems, p.2.HeadOk ∧ p.2.SelfDelimiting C04_exEnv 1 := by
  intro p hp
  simp only [C04_exItems, List.mem_cons, List.mem_nil_iff, or_false] at hp
  rcases hp with rfl | rfl
  · exact ⟨.inr ⟨tyBYTE, [byte 5], by decide, by decide⟩,
      selfDelimiting_i32 _ _ 5 0 rfl rfl (by decide) (by decide) rfl⟩
  · exact ⟨.inl rfl, selfDelimiting_absent _ _ rfl rfl rfl⟩
example : merged C04_exItems C04_exTail
    = [byte 0x0C, 0x16, 0x01, 0x41, 0x20, 0x05, 0x39, 0x00, 0x02, 0x0C, 0x0C, 0xFA, 0xC8, 0x10, 0x01, 0x0B] := by
  decide
example : merged (strip C04_exItems) [] = [byte 0x20, 0x05] := by decide

/-- all hypotheses of `C04_unknown_ignored_partial` hold together on that message: the old reader
    decodes it to the same outcome as the message without the unknown members -/
example :
    (decStruct C04_exEnv "S" (.struct [.int 0, .str []]) (Reader.mk0 (merged C04_exItems C04_exTail))).1
      = (decStruct C04_exEnv "S" (.struct [.int 0, .str []])
          (Reader.mk0 (merged (strip C04_exItems) []))).1 := by
  have hfind : C04_exEnv.find "S" = some C04_exFs := by simp [C04_exEnv, Env.find]
  have hf1 : decFuel C04_exEnv (Reader.mk0 (merged C04_exItems C04_exTail)) = 90 + 1 := by decide
  have hf2 : decFuel C04_exEnv (Reader.mk0 (merged (strip C04_exItems) [])) = 20 + 1 := by decide
  have hr : ∀ x : Bytes, (Reader.mk0 x).rest = x ++ [] := by intro x; simp [Reader.rest, Reader.mk0]
  have hac : EnvAcyclic C04_exEnv (fun _ => 0) := by
    intro s ifs hs
    refine ⟨Nat.zero_le _, fun g hg s' ifs' href _ => ?_⟩
    simp only [C04_exEnv, Env.find] at hs
    split at hs
    · cases hs
      simp only [C04_exFs, List.mem_cons, List.mem_nil_iff, or_false] at hg
      rcases hg with rfl | rfl <;> rcases href with h | ⟨n, h⟩ <;> cases h
    · cases hs
  refine C04_unknown_ignored_partial C04_exEnv (fun _ => 0) hac 1 "S" C04_exFs _ C04_exItems
    C04_exTail _ _ [] [] hfind rfl ?_ ?_ ?_ ?_ ?_ (.inl rfl) (.inl rfl) (hr _) (hr _)
  · rw [hf1]
    simp [C04_exFs, resetDefault_cons, resetDefault_nil_left, resetMember, oldsOf, C04_exItems,
      zeroOf, zeroVal, scalarZero]
  · simp +decide [Admissible, C04_exItems, C04_exTail]
  · intro p hp
    simp only [C04_exItems, List.mem_cons, List.mem_nil_iff, or_false] at hp
    rcases hp with rfl | rfl
    · exact ⟨.inr ⟨tyBYTE, [Tars.byte 5], by decide, by decide⟩,
        selfDelimiting_i32 _ _ 5 0 rfl rfl (by decide) (by decide) rfl⟩
    · exact ⟨.inl rfl, selfDelimiting_absent _ _ rfl rfl rfl⟩
  · rw [hf1]; decide
  · rw [hf2]; decide

/-- the rank bound is tight: below the rank of the struct the model's `ResetDefault` is cut short
    (fuel 1 leaves the stale string of the nested struct, fuel 2 resets it) -/
example :
    resetDefault [("A", [⟨0, false, .struct "B", none⟩]), ("B", [⟨0, false, .str, none⟩])] 1
        [⟨0, false, .struct "B", none⟩] [.struct [.str [Tars.byte 1]]] = [.struct [.str [Tars.byte 1]]] ∧
    resetDefault [("A", [⟨0, false, .struct "B", none⟩]), ("B", [⟨0, false, .str, none⟩])] 2
        [⟨0, false, .struct "B", none⟩] [.struct [.str [Tars.byte 1]]] = [.struct [.str []]] := by
  constructor
  · simp [resetDefault_cons, resetDefault_nil_left, resetMember, Env.find, resetDefault_zero]
  · simp [resetDefault_cons, resetDefault_nil_left, resetMember, Env.find, zeroOf, zeroVal, scalarZero]
/-- non-vacuity of `C04_resetDefault_stable`: the example schema has no arrays of structs -/
example : NoStructArrays C04_exEnv := by
  intro s ifs hs g hg
  simp only [C04_exEnv, Env.find] at hs
  split at hs
  · cases hs
    simp only [C04_exFs, List.mem_cons, List.mem_nil_iff, or_false] at hg
    rcases hg with rfl | rfl <;> rfl
  · cases hs

/-! ## 4. Absent members -/

/-- **C04_absent_optional_member** (one generated member read, every member kind, any target): when
    the member's tag is not there (`After`: end of input, a StructEnd, or a head with a higher
    tag), the read succeeds, leaves the reader where it was, and the target keeps the value
    `ResetDefault` gave it (a nested struct: its value after its own `ResetDefault`). -/
theorem C04_absent_optional_member (env : Env) (F tag : Nat) (ty : Ty) (old : Val) (r : Reader)
    (hok : targetOk env ty old = true) (h : After tag r.rest) :
    decVar env (F+1) tag false ty old r = (.ok (absentVal env F ty old), r) :=
  decVar_absent_opt env F tag ty old r hok h

/-- the value an absent optional member that is not a struct decodes to (`defaultOf`,
    Proofs/EvolveReset.lean), spelled out: the explicit IDL default; else, for a fixed-size array
    of structs `S x[n]`, `n` copies of `S` after its own `ResetDefault`; else the Go zero value -/
theorem C04_defaultOf (env : Env) (F : Nat) (f : Field) :
    (∀ d, f.dflt = some d → defaultOf env F f = d) ∧
    (f.dflt = none → isArrStructTy f.ty = false → defaultOf env F f = zeroOf env f.ty) ∧
    (∀ n s ifs, f.dflt = none → f.ty = .arr n (.struct s) → env.find s = some ifs →
      defaultOf env F f = .list (List.replicate n
        (.struct (resetDefault env F ifs (ifs.map fun g => zeroOf env g.ty))))) :=
  ⟨fun d h => defaultOf_dflt env F f d h, fun h h' => defaultOf_plain env F f h h',
   fun n s ifs h h' h'' => defaultOf_arr env F f n s ifs h h' h''⟩

/-- the reuse clause of the property at full strength: decoding (`ReadFrom`) into ANY target
    `ovs` — fresh or holding the values of an earlier packet — an optional member (not a struct)
    that is absent when its turn comes decodes to `defaultOf` (`C04_defaultOf`: its explicit IDL
    default, else `n` reset structs for an array of structs, else the Go zero value of its type);
    the previous content `o` of the member is irrelevant.  (`decFuel env r - 1` is the model fuel
    of the nested `ResetDefault` of array elements, immaterial otherwise.)
    (`hd`: an explicit default is a value of the member's type — schema well-formedness.) -/
def C04_reuse_full : Prop :=
  ∀ (env : Env) (S : String) (fs : List Field) (ovs vs : List Val) (r r' : Reader) (i : Nat)
    (f : Field) (o : Val), env.find S = some fs →
    decStruct env S (.struct ovs) r = (.ok (.struct vs), r') →
    fs[i]? = some f → ovs[i]? = some o → f.req = false → isStructTy f.ty = false →
    (∀ d, f.dflt = some d → targetOk env f.ty d = true) →
    After f.tag (readerBefore env S (.struct ovs) r i).rest →
    vs[i]? = some (defaultOf env (decFuel env r - 1) f)

/-- **C04_reuse**: the reuse clause holds (since the repairs "ResetDefault resets every member" and
    "… also the elements of arrays of structs"; before them, `C04_asFound_reuse_stale` below). -/
theorem C04_reuse : C04_reuse_full := by
  intro env S fs ovs vs r r' i f o hS h hf ho hopt hty hd habs
  have hrm := resetMember_nonstruct env (decFuel env r - 1) f o hty
  have := decStruct_absent_opt env S fs ovs vs r r' hS h i f o hf ho hopt
    (by rw [hrm]; exact targetOk_defaultOf env _ f hty hd) habs
  rw [this, hrm, absentVal_plain env _ _ _ hty]

/-- **C04_reuse_plain**: for a member that is not an array of structs: the explicit IDL default, or
    the Go zero value of its type -/
theorem C04_reuse_plain (env : Env) (S : String) (fs : List Field) (ovs vs : List Val)
    (r r' : Reader) (i : Nat) (f : Field) (o : Val) (hS : env.find S = some fs)
    (h : decStruct env S (.struct ovs) r = (.ok (.struct vs), r'))
    (hf : fs[i]? = some f) (ho : ovs[i]? = some o) (hopt : f.req = false)
    (hty : isStructTy f.ty = false) (harr : isArrStructTy f.ty = false)
    (hd : ∀ d, f.dflt = some d → targetOk env f.ty d = true)
    (habs : After f.tag (readerBefore env S (.struct ovs) r i).rest) :
    vs[i]? = some (f.dflt.getD (zeroOf env f.ty)) := by
  rw [C04_reuse env S fs ovs vs r r' i f o hS h hf ho hopt hty hd habs]
  cases hdf : f.dflt with
  | some d => rw [defaultOf_dflt env _ f d hdf]; rfl
  | none => rw [defaultOf_plain env _ f hdf harr]; rfl

/-- **C04_absent_optional** (`ReadFrom` into a fresh target): the instance of `C04_reuse` for the Go
    zero value of the struct — the same result as for any reused target. -/
theorem C04_absent_optional (env : Env) (S : String) (fs : List Field) (vs : List Val)
    (r r' : Reader) (i : Nat) (f : Field) (hS : env.find S = some fs)
    (h : decStruct env S (freshStruct env S) r = (.ok (.struct vs), r'))
    (hf : fs[i]? = some f) (hopt : f.req = false) (hty : isStructTy f.ty = false)
    (hd : ∀ d, f.dflt = some d → targetOk env f.ty d = true)
    (habs : After f.tag (readerBefore env S (freshStruct env S) r i).rest) :
    vs[i]? = some (defaultOf env (decFuel env r - 1) f) := by
  rw [freshStruct_eq env S fs hS] at h habs
  have ho : (fs.map fun f => zeroVal env env.length f.ty)[i]? = some (zeroVal env env.length f.ty) := by
    simp [hf]
  exact C04_reuse env S fs _ vs r r' i f _ hS h hf ho hopt hty hd habs

/-- **C04_reuse_struct**: decoding into ANY target, an absent optional nested-struct member decodes
    to a struct in which every member with an explicit default holds that default and every other
    member that is neither a struct nor an array of structs holds the Go zero value of its type,
    whatever the nested target held. -/
theorem C04_reuse_struct (env : Env) (S : String) (fs : List Field) (ovs vs : List Val)
    (r r' : Reader) (i : Nat) (f : Field) (name : String) (inner : List Val) (ifs : List Field)
    (hS : env.find S = some fs)
    (h : decStruct env S (.struct ovs) r = (.ok (.struct vs), r'))
    (hf : fs[i]? = some f) (ho : ovs[i]? = some (.struct inner)) (hopt : f.req = false)
    (hdf : f.dflt = none) (hty : f.ty = .struct name) (hfind : env.find name = some ifs)
    (habs : After f.tag (readerBefore env S (.struct ovs) r i).rest) :
    ∃ res, vs[i]? = some (.struct res) ∧
      ∀ (j : Nat) (g : Field) (w : Val), ifs[j]? = some g → inner[j]? = some w →
        (isStructTy g.ty = false ∧ isArrStructTy g.ty = false) ∨ g.dflt.isSome →
        res[j]? = some (g.dflt.getD (zeroOf env g.ty)) := by
  have hrm := resetMember_struct env (decFuel env r - 1) f name inner ifs hdf hty hfind
  have := decStruct_absent_opt env S fs ovs vs r r' hS h i f _ hf ho hopt
    (by rw [hrm, hty]; simp [targetOk, hfind]) habs
  rw [hrm, hty, absentVal_struct env _ name _ ifs hfind] at this
  refine ⟨_, this, fun j g w hg hw hcase => ?_⟩
  obtain ⟨G, hG⟩ : ∃ G, decFuel env r - 1 = G + 1 := ⟨decFuel env r - 2, by
    have : 6 ≤ decFuel env r := decFuel_ge_six env r
    omega⟩
  -- what one application of `ResetDefault` leaves in member `j`, whatever it held
  have hval : ∀ (F : Nat) (x : Val), resetMember env F g x = g.dflt.getD (zeroOf env g.ty) := by
    intro F x
    cases hgd : g.dflt with
    | some d => rw [resetMember_dflt env F g x d hgd]; rfl
    | none =>
      rcases hcase with hns | hsome
      · rw [resetMember_nonstruct env F g x hns.1, defaultOf_plain env F g hgd hns.2]; rfl
      · rw [hgd] at hsome; cases hsome
  have h1 : (resetDefault env (decFuel env r - 1) ifs inner)[j]?
      = some (g.dflt.getD (zeroOf env g.ty)) := by
    rw [hG, resetDefault_getElem? env G ifs inner j g w hg hw, hval]
  rcases hF2 : decFuel env r - 1 - i - 1 with _ | G2
  · rw [resetDefault_zero]; exact h1
  · rw [resetDefault_getElem? env G2 ifs _ j g _ hg h1, hval]

/-- **C04_missing_required_member** (one generated member read, every member kind): when a required
    member's tag is not there, the read reports "can not find Tag … But require" -/
theorem C04_missing_required_member (env : Env) (F tag : Nat) (ty : Ty) (old : Val) (r : Reader)
    (hok : targetOk env ty old = true) (h : After tag r.rest) :
    (decVar env (F+1) tag true ty old r).1 = .error .require :=
  decVar_missing_req env F tag ty old r hok h

/-- **C04_missing_required** (`ReadFrom`): if a required member (any kind) is absent when its turn
    comes, decoding the struct is an error -/
theorem C04_missing_required (env : Env) (S : String) (fs : List Field) (ovs : List Val)
    (r : Reader) (hS : env.find S = some fs)
    (i : Nat) (f : Field) (o : Val) (hf : fs[i]? = some f) (ho : ovs[i]? = some o)
    (hreq : f.req = true)
    (hok : targetOk env f.ty (resetMember env (decFuel env r - 1) f o) = true)
    (habs : After f.tag (readerBefore env S (.struct ovs) r i).rest) :
    ∃ e r', decStruct env S (.struct ovs) r = (.error e, r') :=
  decStruct_missing_req env S fs ovs r hS i f o hf ho hreq hok habs

/-! ## 5. The reuse example, now and as found (D13) -/

/-- `struct S { 0 require int a; 1 optional string b; }` (no default on `b`) -/
def C04_cexFs : List Field := [⟨0, true, .i32, none⟩, ⟨1, false, .str, none⟩]
def C04_cexEnv : Env := [("S", C04_cexFs)]
/-- the bytes of "old" -/
def C04_cexOldStr : Bytes := [byte 111, byte 108, byte 100]
/-- the reused target: `{a: 1, b: "old"}` -/
def C04_cexOld : Val := .struct [.int 1, .str C04_cexOldStr]
/-- a packet with `a = 5` and `b` omitted -/
def C04_cexPkt : Bytes := writeInt32 5 0

example : C04_cexPkt = [byte 0x00, byte 0x05] := by decide

/-- **C04_reuse_example** (current code): decoding a packet that omits the optional string `b` into
    a target that previously held `b = "old"` yields `b = ""` -/
theorem C04_reuse_example :
    (decStruct C04_cexEnv "S" C04_cexOld (Reader.mk0 C04_cexPkt)).1
      = .ok (.struct [.int 5, .str []]) := by
  have hfuel : decFuel C04_cexEnv (Reader.mk0 C04_cexPkt) = 20 + 1 := by decide
  have hrest : (Reader.mk0 C04_cexPkt).rest = writeInt32 5 0 ++ [] := by decide
  have hfind : C04_cexEnv.find "S" = some C04_cexFs := by simp [C04_cexEnv, Env.find]
  unfold decStruct
  simp only [hfind, C04_cexOld, hfuel]
  simp only [C04_cexFs, resetDefault_cons, resetDefault_nil_left, resetMember]
  have hz1 : zeroOf C04_cexEnv .i32 = .int 0 := by simp [zeroOf, zeroVal, scalarZero]
  have hz2 : zeroOf C04_cexEnv .str = .str [] := by simp [zeroOf, zeroVal, scalarZero]
  rw [hz1, hz2]
  have h0 := C02_rt_int32 (Reader.mk0 C04_cexPkt) 5 0 0 true [] (by decide) (by decide) hrest
  have hd0 : decVar C04_cexEnv 20 0 true .i32 (.int 0) (Reader.mk0 C04_cexPkt)
      = (.ok (.int 5), (Reader.mk0 C04_cexPkt).adv (writeInt32 5 0).length) := by
    unfold decVar; simp [readScalar, h0, mapRes]
  have hr1 := (Reader.mk0 C04_cexPkt).rest_adv _ _ hrest
  have hd1 := decVar_absent_opt C04_cexEnv 18 1 .str (.str []) _ (by decide) (.inl hr1)
  rw [decMembers_cons_ok _ 20 ⟨0, true, .i32, none⟩ _ _ _ _ _ _ hd0,
    decMembers_cons_ok _ 19 ⟨1, false, .str, none⟩ _ _ _ _ _ _ hd1, decMembers_nil]
  simp [Except.map, absentVal]

/-- non-vacuity of `C04_reuse`: on that packet and reused target all its hypotheses hold for member
    `b` (index 1), and it yields `b = ""` -/
example : ∃ vs r', decStruct C04_cexEnv "S" C04_cexOld (Reader.mk0 C04_cexPkt) = (.ok (.struct vs), r') ∧
    After 1 (readerBefore C04_cexEnv "S" C04_cexOld (Reader.mk0 C04_cexPkt) 1).rest ∧
    vs[1]? = some (.str []) := by
  have hfuel : decFuel C04_cexEnv (Reader.mk0 C04_cexPkt) = 20 + 1 := by decide
  have hrest : (Reader.mk0 C04_cexPkt).rest = writeInt32 5 0 ++ [] := by decide
  have hfind : C04_cexEnv.find "S" = some C04_cexFs := by simp [C04_cexEnv, Env.find]
  have hz1 : zeroOf C04_cexEnv .i32 = .int 0 := by simp [zeroOf, zeroVal, scalarZero]
  have hz2 : zeroOf C04_cexEnv .str = .str [] := by simp [zeroOf, zeroVal, scalarZero]
  have h0 := C02_rt_int32 (Reader.mk0 C04_cexPkt) 5 0 0 true [] (by decide) (by decide) hrest
  have hd0 : decVar C04_cexEnv 20 0 true .i32 (.int 0) (Reader.mk0 C04_cexPkt)
      = (.ok (.int 5), (Reader.mk0 C04_cexPkt).adv (writeInt32 5 0).length) := by
    unfold decVar; simp [readScalar, h0, mapRes]
  have hr1 := (Reader.mk0 C04_cexPkt).rest_adv _ _ hrest
  have hd1 := decVar_absent_opt C04_cexEnv 18 1 .str (.str []) _ (by decide) (.inl hr1)
  have hdec : decStruct C04_cexEnv "S" C04_cexOld (Reader.mk0 C04_cexPkt)
      = (.ok (.struct [.int 5, .str []]), (Reader.mk0 C04_cexPkt).adv (writeInt32 5 0).length) := by
    unfold decStruct
    simp only [hfind, C04_cexOld, hfuel]
    simp only [C04_cexFs, resetDefault_cons, resetDefault_nil_left, resetMember]
    rw [hz1, hz2, decMembers_cons_ok _ 20 ⟨0, true, .i32, none⟩ _ _ _ _ _ _ hd0,
      decMembers_cons_ok _ 19 ⟨1, false, .str, none⟩ _ _ _ _ _ _ hd1, decMembers_nil]
    simp [Except.map, absentVal]
  have hbefore : readerBefore C04_cexEnv "S" C04_cexOld (Reader.mk0 C04_cexPkt) 1
      = (Reader.mk0 C04_cexPkt).adv (writeInt32 5 0).length := by
    simp only [readerBefore, hfind, C04_cexOld, hfuel, readerAt]
    simp only [C04_cexFs, resetDefault_cons, resetDefault_nil_left, resetMember, List.take]
    rw [hz1, decMembers_cons_ok _ 20 ⟨0, true, .i32, none⟩ _ _ _ _ _ _ hd0, decMembers_nil]
  have haft : After 1 (readerBefore C04_cexEnv "S" C04_cexOld (Reader.mk0 C04_cexPkt) 1).rest := by
    rw [hbefore]; exact .inl hr1
  refine ⟨_, _, hdec, haft, ?_⟩
  have := C04_reuse C04_cexEnv "S" C04_cexFs [.int 1, .str C04_cexOldStr] _ _ _ 1
    ⟨1, false, .str, none⟩ (.str C04_cexOldStr) hfind hdec rfl rfl rfl rfl (fun d hd => by cases hd) haft
  rw [this, defaultOf_plain _ _ _ rfl rfl, hz2]

/-- **C04_asFound_reuse_stale** (defect D13, general form; about the as-found `ResetDefault` of
    Model/SchemaAsFound.lean only): decoding into a reused target, an absent optional member
    *without* explicit default (and not a struct) kept whatever the target held before, because
    the as-found `ResetDefault` only assigned members that have an explicit default. -/
theorem C04_asFound_reuse_stale (env : Env) (S : String) (fs : List Field) (ovs vs : List Val)
    (r r' : Reader) (i : Nat) (f : Field) (o : Val) (hS : env.find S = some fs)
    (h : AsFound.decStruct env S (.struct ovs) r = (.ok (.struct vs), r'))
    (hf : fs[i]? = some f) (ho : ovs[i]? = some o) (hopt : f.req = false)
    (hdf : f.dflt = none) (hty : isStructTy f.ty = false) (hok : targetOk env f.ty o = true)
    (habs : After f.tag (asFoundReaderBefore env S (.struct ovs) r i).rest) :
    vs[i]? = some o := by
  have hrm := asFoundResetMember_plain env (decFuel env r - 1) f o hdf hty
  have := asFound_decStruct_absent_opt env S fs ovs vs r r' hS h i f o hf ho hopt
    (by rw [hrm]; exact hok) habs
  rw [this, hrm, absentVal_plain env _ _ _ hty]

/-- **C04_asFound_reuse_counterexample** (D13, as found): with the as-found `ResetDefault`, the same
    packet decoded into the target that held `b = "old"` yielded `b = "old"`, not `""`. -/
theorem C04_asFound_reuse_counterexample :
    (AsFound.decStruct C04_cexEnv "S" C04_cexOld (Reader.mk0 C04_cexPkt)).1
      = .ok (.struct [.int 5, .str C04_cexOldStr]) := by
  have hfuel : decFuel C04_cexEnv (Reader.mk0 C04_cexPkt) = 20 + 1 := by decide
  have hrest : (Reader.mk0 C04_cexPkt).rest = writeInt32 5 0 ++ [] := by decide
  have hfind : C04_cexEnv.find "S" = some C04_cexFs := by simp [C04_cexEnv, Env.find]
  unfold AsFound.decStruct
  simp only [hfind, C04_cexOld, hfuel]
  simp only [C04_cexFs, asFound_resetDefault_cons, asFound_resetDefault_nil_left, asFoundResetMember]
  have h0 := C02_rt_int32 (Reader.mk0 C04_cexPkt) 5 0 1 true [] (by decide) (by decide) hrest
  have hd0 : decVar C04_cexEnv 20 0 true .i32 (.int 1) (Reader.mk0 C04_cexPkt)
      = (.ok (.int 5), (Reader.mk0 C04_cexPkt).adv (writeInt32 5 0).length) := by
    unfold decVar; simp [readScalar, h0, mapRes]
  have hr1 := (Reader.mk0 C04_cexPkt).rest_adv _ _ hrest
  have hd1 := decVar_absent_opt C04_cexEnv 18 1 .str (.str C04_cexOldStr) _ (by decide) (.inl hr1)
  rw [decMembers_cons_ok _ 20 ⟨0, true, .i32, none⟩ _ _ _ _ _ _ hd0,
    decMembers_cons_ok _ 19 ⟨1, false, .str, none⟩ _ _ _ _ _ _ hd1, decMembers_nil]
  simp [Except.map, absentVal]

end Tars
