/-
  C04 for the code as it is: since the repair "skipping nested fields no longer recurses once per
  nesting level" (D12), `Reader.skipField` and `Reader.SkipToStructEnd` of codec.go are a loop over
  an explicit stack (`skipFields`, literal model in Model/SkipIter.lean).  The recursive family of
  Model/Wire.lean stays the specification all other theorems are stated over; the theorems here
  say that the loop computes exactly the same function on EVERY input (well-formed or not), never
  exhausts the model's loop fuel, and keeps its stack no longer than the unread input (+1), and
  they restate the C04 skip results for the loop.
  Helper lemmas: Proofs/SkipIterSpec.lean, Proofs/SkipIterSim.lean.
-/
import TarsModel.Props.C04
import TarsModel.Proofs.SkipIterSim

namespace Tars
open Consts WFField

/-- **skipFieldIter_eq**: for every wire type (also invalid ones) and every reader state (any
    input: malformed fields, errors swallowed inside LIST/MAP elements, zero and negative counts,
    the int32 wrap of `len*2`, extended tags, seeks past the end), the iterative `skipField`
    returns exactly the result — outcome and reader position — of the recursive `skipField`. -/
theorem skipFieldIter_eq (ty : Nat) (r : Reader) : skipFieldIter ty r = skipField r.fuel ty r :=
  SkipIter.skipFieldIter_eq ty r

/-- **skipToStructEndIter_eq**: the same for `SkipToStructEnd` (`skipFields(StructBegin, nil)`) -/
theorem skipToStructEndIter_eq (r : Reader) : skipToStructEndIter r = skipToStructEnd r.fuel r :=
  SkipIter.skipToStructEndIter_eq r

/-- **skipIter_never_fuel**: with `Reader.iterFuel` the loop never returns the model artefact
    `.error .fuel` (nor a panic): its outcome is a value or a plain Go error -/
theorem skipIter_never_fuel (ty : Nat) (r : Reader) :
    PlainRes (skipFieldIter ty r).1 ∧ (skipFieldIter ty r).1 ≠ .error .fuel ∧
    PlainRes (skipToStructEndIter r).1 ∧ (skipToStructEndIter r).1 ≠ .error .fuel := by
  rw [skipFieldIter_eq, skipToStructEndIter_eq]
  exact ⟨skipField_fuel_nofuel ty r, (skipField_fuel_nofuel ty r).ne_fuel,
    skipToStructEnd_fuel_plain r, (skipToStructEnd_fuel_plain r).ne_fuel⟩

/-- the loop fuel is immaterial from `4·remaining + 4` on (each loop step either consumes a byte,
    pops the stack, or is one of a bounded number of bookkeeping steps per byte/entry);
    `Reader.iterFuel = 6·size + 16` exceeds that for every reader -/
theorem skipIter_fuel_sufficient (F ty : Nat) (r : Reader) (hF : 4 * r.remaining + 4 ≤ F) :
    skipFieldsF F ty [] r = skipField r.fuel ty r ∧ 4 * r.remaining + 4 ≤ r.iterFuel := by
  refine ⟨SkipIter.skipFieldsF_eq F ty r hF, ?_⟩
  have := SkipIter.remaining_le_size r
  unfold Reader.iterFuel; omega

/-- **skipIter_stack_bound**: during the whole run the explicit stack never holds more entries than
    there are unread bytes, plus one: every push but the first follows the consumption of at least
    one byte of head.  Nesting costs heap proportional to the input, and no call stack.
    (Holds for every amount of loop fuel.) -/
theorem skipIter_stack_bound (ty : Nat) (r : Reader) :
    maxStackFields r.iterFuel ty [] r ≤ r.remaining + 1 ∧
    ∀ F, maxStackFields F ty [] r ≤ r.remaining + 1 := by
  have h := fun F => (SkipIter.stack_bound F).1 ty [] r
  simp only [List.length_nil, Nat.zero_add] at h
  exact ⟨h _, h⟩

/-- **C04_skip_exact_iter**: the code as it is skips every well-formed field exactly -/
theorem C04_skip_exact_iter (f : WFField) (hf : f.WF) (r : Reader) (t : Bytes)
    (h : r.rest = f.body ++ t) :
    skipFieldIter f.ty r = (.ok (), r.adv f.body.length) ∧ (r.adv f.body.length).rest = t := by
  rw [skipFieldIter_eq]
  exact ⟨C04_skip_exact_default_fuel f hf r t h, r.rest_adv _ _ h⟩

/-- **C04_skipToStructEnd_exact_iter**: `SkipToStructEnd` as it is consumes the remaining (unknown)
    members of a struct and its StructEnd exactly — what the generated `ReadBlock` relies on -/
theorem C04_skipToStructEnd_exact_iter (ms : List WFField) (hw : ∀ m ∈ ms, m.WF) (r : Reader)
    (t : Bytes) (h : r.rest = renderList ms ++ writeHead tyStructEnd 0 ++ t) :
    ∃ r2, skipToStructEndIter r = (.ok (), r2) ∧ r2.rest = t := by
  rw [skipToStructEndIter_eq]
  exact Evolve.skipToStructEnd_tail ms hw r t h

/-! ### non-vacuity: the loop evaluated -/

/-- the nested field of Props/C04.lean (all containers, extended tags): 65 body bytes consumed -/
example : (skipFieldIter C04_exField.ty (Reader.mk0 (C04_exField.body ++ [Tars.byte 9]))).1.toBool = true ∧
    (skipFieldIter C04_exField.ty (Reader.mk0 (C04_exField.body ++ [Tars.byte 9]))).2.pos = 65 := by
  decide +kernel

/-- a malformed input: a LIST of 2 whose first element is a struct containing a field of the invalid
    wire type 14 (the error ends the struct and is swallowed by the element loop), the second
    element a BYTE; loop and recursion agree: ok, all 6 bytes consumed -/
example :
    (skipFieldIter tyLIST (Reader.mk0 [Tars.byte 0x00, 0x02, 0x0A, 0x0E, 0x00, 0x07])).2.pos = 6 ∧
    (skipFieldIter tyLIST (Reader.mk0 [Tars.byte 0x00, 0x02, 0x0A, 0x0E, 0x00, 0x07])).1.toBool = true ∧
    (skipField (Reader.mk0 [Tars.byte 0x00, 0x02, 0x0A, 0x0E, 0x00, 0x07]).fuel tyLIST
      (Reader.mk0 [Tars.byte 0x00, 0x02, 0x0A, 0x0E, 0x00, 0x07])).2.pos = 6 := by
  decide +kernel

/-- a truncated struct (StructBegin ×3, then the input ends): error `.eof` from both, and the stack
    held 3 entries for 2 unread bytes -/
example :
    SkipIter.errOf (skipToStructEndIter (Reader.mk0 [Tars.byte 0x0A, 0x0A])).1 = some .eof ∧
    SkipIter.errOf (skipToStructEnd (Reader.mk0 [Tars.byte 0x0A, 0x0A]).fuel
      (Reader.mk0 [Tars.byte 0x0A, 0x0A])).1 = some .eof ∧
    maxStackFields (Reader.mk0 [Tars.byte 0x0A, 0x0A]).iterFuel tyStructBegin [] (Reader.mk0 [Tars.byte 0x0A, 0x0A]) = 3 := by
  decide +kernel

end Tars
