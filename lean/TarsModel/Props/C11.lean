import TarsModel.Proofs.ClientConnHealthy
import TarsModel.Proofs.AdapterPush

/-!
# C11 — Calls keep succeeding across server-initiated connection closes

Property theorems only (helper lemmas: `Proofs/ClientConn*.lean`; model: `Model/ClientConn.lean`, an
LTS of `TarsClient.Send`, `connection.ReConnect / send / recv / close` of
`tars/transport/tarsclient.go`, one action per shared-memory / channel / socket operation).

"All points at which the server closes a connection, all delays between the close and the next
call, all interleavings of the client's sender/receiver goroutines" is: every schedule
`acts : List Action` (peer closes `pClose k`, ticks and calls are actions like any other; time is
abstract, so every delay is some interleaving) and every state `s` with `run v cap acts = some s`;
any number of calls, connections and queue capacity; nothing is bounded.

Vocabulary. Connection `k` is the `k`-th `net.Conn` dialled; the *current* one is the last
(`k + 1 = s.conns.length`). `c.known`: the client has run `close(conn_k)` — it knows the connection
is dead. `c.alive`: the server still reads it. `m.dead`: the connections already `known` when the
call of request `m` was issued. `s.attempts`: every `conn.Write(m)` with the connection it was
attempted on.

What is proved and what is assumed. The property's main clause is a liveness statement ("the call
succeeds without waiting for its timeout"). The model has no clock and no scheduler: what is proved
is the safety core that liveness needs — the healthy current connection is never treated as closed,
its sender never exits, is never blocked and always has an enabled step, so every queued request is
one fair scheduling away from being written to it; and no request is written to a connection that
was known dead when its call was issued. That a fair Go scheduler and timers that fire then
deliver the request and the answer in time is ASSUMED, not proved. The response path
(`recv` → `Recv`) is outside this model.
-/
namespace Tars.ClientConn

/-- "A connection loss never makes a later healthy connection be treated as closed": whenever the
shared `isClosed` flag is set, the client has really closed the CURRENT connection. -/
def NoFalseClose (s : State) : Prop :=
  s.isClosed = true → ∀ (k : Nat) (c : Conn), s.conns[k]? = some c → k + 1 = s.conns.length →
    c.known = true

/-- "A request is never written to a connection already known to be dead", for the calls the
property speaks about (those issued after the close): no `conn.Write(m)` is attempted on a
connection the client had already closed when the call of `m` was issued. -/
def NoDeadWrite (s : State) : Prop := ∀ (m : Msg) (k : Nat), (m, k) ∈ s.attempts → k ∉ m.dead

/-- The safety core of "the call succeeds without waiting for its timeout": as long as the client
has not lost the current connection, the flag says "open" (so `Send` enqueues without dialling
again), that connection's sender goroutine has not exited, and — if the server still reads the
connection — it is not parked in a hand-back to the failure queue. Together with
`C11_sender_progress` (it always has an enabled step) every request in `sendQueue` /
`sendFailQueue` is then written to that connection by a fair scheduler. -/
def Served (s : State) : Prop :=
  ∀ (k : Nat) (c : Conn), s.conns[k]? = some c → k + 1 = s.conns.length → c.known = false →
    s.isClosed = false ∧ c.spc ≠ .exited ∧
      (c.alive = true → ∀ m, c.spc ≠ .failed m ∧ c.spc ≠ .handback m)

/-- C11 at full strength for the variant `v` of `tarsclient.go`, over all schedules. (Liveness
proper — delivery within the timeout — additionally needs a fair scheduler; see the header.) -/
def C11_full (v : Variant) : Prop :=
  ∀ (cap : Nat) (acts : List Action) (s : State), run v cap acts = some s →
    NoFalseClose s ∧ NoDeadWrite s ∧ Served s

/-! ## The defect (D14): the code as found -/

/-- The losing schedule, derived from the code. Call 1 dials connection 0 and is written to it; the
old sender goes back to its inner `select`. The server closes connection 0 after the response; the
receiver reads EOF, runs `close` (flag set) and signals `connDone`. Call 2 is issued AFTER that:
`ReConnect` dials connection 1 (flag cleared) and starts its goroutines; the new sender polls the
(empty) failure queue and enters its inner `select`. `Send` enqueues request 2. The OLD sender —
still in its inner `select`, it only polls `connDone` at the loop top — wins the receive, writes to
the closed connection 0, fails, parks the request in `sendFailQueue` and runs `close(conn 0)`, which
sets the SHARED flag although connection 1 is healthy. The new sender's tick finds the flag set
and returns. -/
def d14Schedule : List Action :=
  [.callBegin 1, .callReconnect 1, .markReconnected 1, .callEnq 1, .callRet 1,
   .mark .top 0, .sTopGo 0, .sNoFail 0, .mark .inner 0, .sTakeQ 0, .mark .got 0, .sWriteOk 0,
   .mark .top 0, .sTopGo 0, .sNoFail 0, .mark .inner 0,
   .pClose 0, .rEof 0, .mark .closing 0, .rClose 0, .rSignal 0,
   .callBegin 2, .callReconnect 2, .markReconnected 2,
   .mark .top 1, .sTopGo 1, .sNoFail 1, .mark .inner 1,
   .callEnq 2, .callRet 2,
   .sTakeQ 0, .mark .got 0, .sWriteFail 0, .sRequeue 0, .sFailClose 0,
   .sTickClosed 1]

/-- As found, `d14Schedule` is a run of the model (any queue capacity ≥ 1). At its end: request 2,
issued when connection 0 was already known dead, has been written to connection 0 and to nothing
else; it sits in `sendFailQueue`; `Send` has returned; the flag says "closed" although connection 1
is alive and was never closed by the client; both senders have exited. No goroutine is left that
would ever take the request: it stays parked until ANOTHER call dials a third connection — or its
own timeout expires. -/
theorem C11_counterexample (cap : Nat) (hcap : 1 ≤ cap) :
    ∃ s, run .asFound cap d14Schedule = some s ∧
      s.failQ = some ⟨2, [0]⟩ ∧ s.sendQ = [] ∧ s.calls = [] ∧ s.isClosed = true ∧
      s.conns = [⟨false, false, true, true, .done, .exited⟩, ⟨true, false, false, false, .reading, .exited⟩] ∧
      s.attempts = [(⟨1, []⟩, 0), (⟨2, [0]⟩, 0)] ∧ s.arrived = [(1, 0)] ∧
      ¬ NoFalseClose s ∧ ¬ NoDeadWrite s ∧ ¬ Served s := by
  have h0 : (0 : Nat) < cap := hcap
  refine ⟨_, by simp [run, runFrom, d14Schedule, step, init, findCall, setCall, dropCall, setConn,
    closeConn, knownList, knownAt, afterDequeue, h0]; rfl, rfl, rfl, rfl, rfl, rfl, rfl, rfl, ?_, ?_, ?_⟩
  · intro h
    have := h rfl 1 _ rfl rfl
    cases this
  · intro h
    exact h ⟨2, [0]⟩ 0 (by simp) (by simp)
  · intro h
    exact (h 1 _ rfl rfl rfl).2.1 rfl

/-- The same schedule with an ABORTIVE close by the server (RST: restart, kill, close with unread
input; the receiver's `Read` fails with a `*net.OpError` and takes the first error branch of `recv`)
instead of the orderly one: the run and its end are the same. -/
theorem C11_counterexample_reset :
    ∃ s, run .asFound 100 (d14Schedule.map (fun a => match a with
        | .pClose k => Action.pReset k
        | .rEof k => Action.rErr k
        | a => a)) = some s ∧
      s.failQ = some ⟨2, [0]⟩ ∧ s.isClosed = true ∧ tauSucc .asFound 100 s = [] ∧
      s.conns[1]? = some ⟨true, false, false, false, .reading, .exited⟩ := by
  refine ⟨_, by simp [run, runFrom, d14Schedule, step, init, findCall, setCall, dropCall, setConn,
    closeConn, knownList, knownAt, afterDequeue]; rfl, rfl, rfl, ?_, rfl⟩
  decide

/-- hence the code as found does not have the property -/
theorem C11_counterexample_not_full : ¬ C11_full .asFound := by
  intro h
  obtain ⟨s, hrun, _, _, _, _, _, _, _, hn, _, _⟩ := C11_counterexample 1 (Nat.le_refl 1)
  exact hn (h 1 d14Schedule s hrun).1

/-- The stuck state is really stuck: after `d14Schedule` no internal action of the client is
enabled — only a new call (or the server) can change anything. -/
theorem C11_counterexample_parked :
    ∃ s, run .asFound 100 d14Schedule = some s ∧ tauSucc .asFound 100 s = [] := by
  refine ⟨_, by simp [run, runFrom, d14Schedule, step, init, findCall, setCall, dropCall, setConn,
    closeConn, knownList, knownAt, afterDequeue]; rfl, ?_⟩
  decide

/-- Second way into the same defect, without any dequeue by an old sender: the late `close` of an
old RECEIVER. The client's own sender closes connection 0 on idle timeout; its receiver's `Read`
fails (`*net.OpError`, "use of closed network connection") and it is about to run `close(conn 0)`; call 2 dials connection 1; now the old receiver's
`close` sets the shared flag. Request 2 is still written to connection 1 and arrives, but at its
next tick the sender of the healthy connection 1 exits, and call 3 dials a third connection while
connection 1 was never lost (its receiver keeps reading it). -/
def lateReceiverSchedule : List Action :=
  [.callBegin 1, .callReconnect 1, .markReconnected 1, .callEnq 1, .callRet 1,
   .mark .top 0, .sTopGo 0, .sNoFail 0, .mark .inner 0, .sTakeQ 0, .mark .got 0, .sWriteOk 0,
   .mark .top 0, .sTopGo 0, .sNoFail 0, .mark .inner 0,
   .sTickIdle 0, .sIdleClose 0, .rErr 0, .mark .closing 0,
   .callBegin 2, .callReconnect 2, .markReconnected 2, .callEnq 2, .callRet 2,
   .rClose 0,
   .mark .top 1, .sTopGo 1, .sNoFail 1, .mark .inner 1, .sTakeQ 1, .mark .got 1, .sWriteOk 1,
   .mark .top 1, .sTopGo 1, .sNoFail 1, .mark .inner 1, .sTickClosed 1,
   .callBegin 3, .callReconnect 3]

theorem C11_counterexample_late_receiver :
    ∃ s, run .asFound 100 lateReceiverSchedule = some s ∧
      s.conns.length = 3 ∧ s.arrived = [(1, 0), (2, 1)] ∧ NoDeadWrite s ∧
      s.conns[1]? = some ⟨true, false, false, false, .reading, .exited⟩ := by
  refine ⟨_, by simp [run, runFrom, lateReceiverSchedule, step, init, findCall, setCall, dropCall,
    setConn, closeConn, knownList, knownAt, afterDequeue]; rfl, rfl, rfl, ?_, rfl⟩
  intro m k h
  simp only [List.mem_cons, Prod.mk.injEq, List.not_mem_nil, or_false] at h
  rcases h with ⟨rfl, rfl⟩ | ⟨rfl, rfl⟩ <;> simp

/-! ## What holds for the code as found -/

/-- A write to a connection that was already known dead when the call was issued can only come
from the sender goroutine of an OLD connection, one that a `ReConnect` has since replaced (both
variants, every schedule): the sender of the current connection never does it. In the model a sender
writes only to the `net.Conn` it was started with (`sWrite* k` is a step of sender `k` and records
`k`), as in the code (`conn` is a parameter of `send`); so "never written to a connection known
dead" reduces to excluding the old-sender case — which the code as found does not
(`C11_counterexample`). PARTIAL: says where a dead write can come from, not that there is none. -/
theorem C11_never_dead_write_partial (v : Variant) (cap : Nat) (acts : List Action) (s : State)
    (hrun : run v cap acts = some s) :
    ∀ (m : Msg) (k : Nat), (m, k) ∈ s.attempts → k ∈ m.dead → k + 1 < s.conns.length := by
  intro m k hm hk
  exact (reachable_inv0 (run_reachable acts init s Reachable.init hrun)).attemptsOld m k hm k hk

/-- non-vacuity: the D14 run contains such a write, by the sender of connection 0 while
connection 1 exists -/
example : ∃ s, run .asFound 100 d14Schedule = some s ∧ (⟨2, [0]⟩, 0) ∈ s.attempts ∧
    s.conns.length = 2 := by
  obtain ⟨s, h, _, _, _, _, hc, ha, _⟩ := C11_counterexample 100 (by decide)
  exact ⟨s, h, by simp [ha], by simp [hc]⟩

/-- C11 for the code as found on all TIMELY schedules (`Timely`, a predicate on the schedule,
`Model/ClientConn.lean`): no sender dequeues a request once the client has closed that sender's
connection ("no sender outlives its connection by a dequeue"), and no goroutine runs
`close(conn_k)` after a `ReConnect` has replaced connection `k`. PARTIAL: the excluded schedules
are exactly the D14 ones (`d14Schedule` breaks the first condition at `.sTakeQ 0`,
`lateReceiverSchedule` the second at `.rClose 0`); they do occur in the real code. -/
theorem C11_partial (cap : Nat) (acts : List Action) (s : State)
    (ht : Timely .asFound cap acts) (hrun : run .asFound cap acts = some s) :
    NoFalseClose s ∧ NoDeadWrite s ∧ Served s := by
  have hi := inv_run (Or.inr ht) hrun
  refine ⟨hi.closedKnown, fun m k h => hi.attemptsFresh m k h, ?_⟩
  intro k c hc hcur hk
  refine ⟨?_, ?_, ?_⟩
  · cases h : s.isClosed
    · rfl
    · have := hi.closedKnown h k c hc hcur; rw [hk] at this; cases this
  · intro h
    have := hi.doneKnown k c hc (Or.inr (Or.inr (Or.inr h))); rw [hk] at this; cases this
  · intro ha m
    refine ⟨fun h => ?_, fun h => ?_⟩
    · rcases hi.failedDead k c hc (Or.inl ⟨m, h⟩) with h' | h'
      · rw [ha] at h'; cases h'
      · rw [hk] at h'; cases h'
    · have := hi.handbackKnown k c m hc h; rw [hk] at this; cases this

/-- A timely schedule with a server close and a call after it: the old sender's tick comes before
the next call (the call is issued more than one poll period after the close). -/
def timelySchedule : List Action :=
  [.callBegin 1, .callReconnect 1, .markReconnected 1, .callEnq 1, .callRet 1,
   .mark .top 0, .sTopGo 0, .sNoFail 0, .mark .inner 0, .sTakeQ 0, .mark .got 0, .sWriteOk 0,
   .mark .top 0, .sTopGo 0, .sNoFail 0, .mark .inner 0,
   .pClose 0, .rEof 0, .mark .closing 0, .rClose 0, .rSignal 0, .sTickClosed 0,
   .callBegin 2, .callReconnect 2, .markReconnected 2, .callEnq 2, .callRet 2,
   .mark .top 1, .sTopGo 1, .sNoFail 1, .mark .inner 1, .sTakeQ 1, .mark .got 1, .sWriteOk 1]

/-- non-vacuity of `C11_partial`: `timelySchedule` is timely, is a run, contains a close and a call
issued after it, and that call's request arrives on the new connection -/
example : Timely .asFound 100 timelySchedule ∧
    ∃ s, run .asFound 100 timelySchedule = some s ∧ s.arrived = [(1, 0), (2, 1)] ∧
      s.attempts = [(⟨1, []⟩, 0), (⟨2, [0]⟩, 1)] := by
  refine ⟨?_, _, by simp [run, runFrom, timelySchedule, step, init, findCall, setCall, dropCall,
    setConn, closeConn, knownList, knownAt, afterDequeue]; rfl, rfl, rfl⟩
  simp [Timely, TimelyFrom, timelySchedule, timely, step, init, findCall, setCall, dropCall,
    setConn, closeConn, knownList, knownAt, afterDequeue, isCur]

/-- and the D14 schedule is not timely -/
example : ¬ Timely .asFound 100 d14Schedule := by
  simp [Timely, TimelyFrom, d14Schedule, timely, step, init, findCall, setCall, dropCall,
    setConn, closeConn, knownList, knownAt, afterDequeue, isCur]

/-! ## The repaired code (`pending/C11-fix.patch`) has the property, for all interleavings -/

/-- C11 for the repaired `tarsclient.go` (`close` marks the shared flag only for the current
connection; the sender re-checks `lost(conn)` after every dequeue and hands the request back; the
inner `select` also serves `sendFailQueue` and `connDone`): every capacity, every schedule. -/
theorem C11_repaired : C11_full .repaired := by
  intro cap acts s hrun
  have hi := inv_run (v := .repaired) (Or.inl rfl) hrun
  refine ⟨hi.closedKnown, fun m k h => hi.attemptsFresh m k h, ?_⟩
  intro k c hc hcur hk
  refine ⟨?_, ?_, ?_⟩
  · cases h : s.isClosed
    · rfl
    · have := hi.closedKnown h k c hc hcur; rw [hk] at this; cases this
  · intro h
    have := hi.doneKnown k c hc (Or.inr (Or.inr (Or.inr h))); rw [hk] at this; cases this
  · intro ha m
    refine ⟨fun h => ?_, fun h => ?_⟩
    · rcases hi.failedDead k c hc (Or.inl ⟨m, h⟩) with h' | h'
      · rw [ha] at h'; cases h'
      · rw [hk] at h'; cases h'
    · have := hi.handbackKnown k c m hc h; rw [hk] at this; cases this

/-- non-vacuity of `C11_repaired`: under the repaired code the D14 prefix continues differently —
the old sender takes request 2, finds its connection lost, hands the request back; the new sender
takes it from `sendFailQueue` in its inner `select` and writes it to connection 1, where it arrives;
the flag stays "open" -/
example : ∃ s, run .repaired 100
    [.callBegin 1, .callReconnect 1, .markReconnected 1, .callEnq 1, .callRet 1,
     .mark .top 0, .sTopGo 0, .sNoFail 0, .mark .inner 0, .sTakeQ 0, .sCheckOk 0, .mark .got 0,
     .sWriteOk 0, .mark .top 0, .sTopGo 0, .sNoFail 0, .mark .inner 0,
     .pClose 0, .rEof 0, .mark .closing 0, .rClose 0, .rSignal 0,
     .callBegin 2, .callReconnect 2, .markReconnected 2,
     .mark .top 1, .sTopGo 1, .sNoFail 1, .mark .inner 1,
     .callEnq 2, .callRet 2,
     .sTakeQ 0, .sCheckLost 0, .sHandback 0,
     .sInnerFail 1, .sCheckOk 1, .mark .got 1, .sWriteOk 1] = some s ∧
    s.isClosed = false ∧ s.arrived = [(1, 0), (2, 1)] ∧ s.failQ = none ∧
    s.attempts = [(⟨1, []⟩, 0), (⟨2, [0]⟩, 1)] := by
  refine ⟨_, by simp [run, runFrom, step, init, findCall, setCall, dropCall, setConn, closeConn,
    knownList, knownAt, afterDequeue, isCur]; rfl, rfl, rfl, rfl, rfl⟩

/-- The extractor records the shape of `close` and `send` in `Generated/Consts.lean`; when it sees
the repaired shape (`treeVariant = .repaired`) the theorem is about the variant of the current tree. -/
theorem C11_current_tree (h : treeVariant = .repaired) : C11_full treeVariant := h ▸ C11_repaired

/-- The liveness part the model can exhibit (repaired: every schedule; as found: the timely ones):
the sender of a current connection that the client has not closed and the server still reads has not
exited and always has an enabled statement. (That the scheduler runs it, and the ticker fires, is
assumed.) -/
theorem C11_sender_progress (v : Variant) (cap : Nat) (acts : List Action) (s : State)
    (hg : v = .repaired ∨ Timely v cap acts) (hrun : run v cap acts = some s)
    (k : Nat) (c : Conn) (hc : s.conns[k]? = some c) (hcur : k + 1 = s.conns.length)
    (hk : c.known = false) (ha : c.alive = true) :
    c.spc ≠ .exited ∧ ∃ a ∈ senderActions k, (step v cap s a).isSome = true :=
  sender_progress (inv_run hg hrun) hc hcur hk ha

/-- The loss of a connection is always noticed, whatever its kind: once the server has left
connection `k` — orderly (`pClose`, the `Read` returns `io.EOF`) or abortively (`pReset`, the `Read`
returns a `*net.OpError`) — or the client has closed the socket itself, the receiver of `k` has an
enabled statement until it is done (every schedule, both variants); and (repaired: every schedule;
as found: the timely ones) a receiver that is done has run `close(conn_k)`: both error branches of
`recv` end in `close`. (That the scheduler runs the receiver is assumed.) -/
theorem C11_loss_noticed (v : Variant) (cap : Nat) (acts : List Action) (s : State)
    (hrun : run v cap acts = some s) (k : Nat) (c : Conn) (hc : s.conns[k]? = some c)
    (hl : c.alive = false ∨ c.known = true) :
    (c.rpc ≠ .done → ∃ a ∈ receiverActions k, (step v cap s a).isSome = true) ∧
    ((v = .repaired ∨ Timely v cap acts) → c.rpc = .done → c.known = true) :=
  ⟨fun hd => receiver_progress hc hl hd,
   fun hg hd => (inv_run hg hrun).doneKnown k c hc (Or.inr (Or.inr (Or.inl hd)))⟩

/-- non-vacuity of `C11_loss_noticed`: after an abortive close the receiver's enabled statement is
the `*net.OpError` branch, after an orderly one the `io.EOF` branch -/
example : ∃ s c, run .repaired 100 [.callBegin 1, .callReconnect 1, .pReset 0] = some s ∧
    s.conns[0]? = some c ∧ c.alive = false ∧ c.rpc ≠ .done ∧
    (step .repaired 100 s (.rErr 0)).isSome = true ∧ (step .repaired 100 s (.rEof 0)).isSome = false := by
  refine ⟨_, _, by simp [run, runFrom, step, init, findCall, setCall, setConn, knownList]; rfl, rfl, rfl,
    by decide, by decide, by decide⟩

/-- the repaired code across an abortive close: the receiver takes the `*net.OpError` branch, runs
`close`, the old sender ends on `connDone`; the call issued afterwards dials connection 1 and its
request arrives there -/
example : ∃ s, run .repaired 100
    [.callBegin 1, .callReconnect 1, .markReconnected 1, .callEnq 1, .callRet 1,
     .mark .top 0, .sTopGo 0, .sNoFail 0, .mark .inner 0, .sTakeQ 0, .sCheckOk 0, .mark .got 0,
     .sWriteOk 0, .mark .top 0, .sTopGo 0, .sNoFail 0, .mark .inner 0,
     .pReset 0, .rErr 0, .mark .closing 0, .rClose 0, .rSignal 0, .sInnerDone 0,
     .callBegin 2, .callReconnect 2, .markReconnected 2, .callEnq 2, .callRet 2,
     .mark .top 1, .sTopGo 1, .sNoFail 1, .mark .inner 1, .sTakeQ 1, .sCheckOk 1, .mark .got 1,
     .sWriteOk 1] = some s ∧
    s.isClosed = false ∧ s.arrived = [(1, 0), (2, 1)] ∧ s.attempts = [(⟨1, []⟩, 0), (⟨2, [0]⟩, 1)] := by
  refine ⟨_, by simp [run, runFrom, step, init, findCall, setCall, dropCall, setConn, closeConn,
    knownList, knownAt, afterDequeue, isCur]; rfl, rfl, rfl, rfl⟩

/-- non-vacuity of the hypotheses of `C11_sender_progress` -/
example : ∃ s c, run .repaired 100 [.callBegin 1, .callReconnect 1] = some s ∧
    s.conns[0]? = some c ∧ 0 + 1 = s.conns.length ∧ c.known = false ∧ c.alive = true := by
  refine ⟨_, _, by simp [run, runFrom, step, init, findCall, setCall, knownList]; rfl, rfl, rfl, rfl, rfl⟩

/-- Boundary, stated honestly: a reading of "never written to a connection known to be dead" at the
instant of the `Write` itself is not attainable by a check-then-write sender, repaired or not — the
receiver may close the connection between the sender's check and its `Write`. (`NoDeadWrite` is
about what was known when the call was ISSUED; it still holds here, `m.dead = []`.) -/
theorem C11_strict_reading_boundary :
    ∃ s, run .repaired 100
      [.callBegin 1, .callReconnect 1, .markReconnected 1, .callEnq 1, .callRet 1,
       .mark .top 0, .sTopGo 0, .sNoFail 0, .mark .inner 0, .sTakeQ 0, .sCheckOk 0, .mark .got 0,
       .pClose 0, .rEof 0, .mark .closing 0, .rClose 0, .sWriteFail 0] = some s ∧
      knownAt s 0 = true ∧ s.attempts = [(⟨1, []⟩, 0)] ∧ NoDeadWrite s := by
  refine ⟨_, by simp [run, runFrom, step, init, findCall, setCall, dropCall, setConn, closeConn,
    knownList, afterDequeue, isCur]; rfl, rfl, rfl, ?_⟩
  intro m k h
  simp only [List.mem_singleton, Prod.mk.injEq] at h
  obtain ⟨rfl, rfl⟩ := h
  simp

/-! ## Observed histories: what the replay of a run of the real code through the model means -/

/-- `admits` (the check the harness applies to every observed history, any state limit) is sound:
an admitted history is the visible history of a run of the LTS. -/
theorem C11_admits_sound (v : Variant) (cap limit : Nat) (idle : Bool) (h : List Event)
    (ha : admits v cap idle h limit = true) :
    ∃ s, Trace v cap (if idle then init else initNoIdle) h s ∧ Reachable v cap s := by
  obtain ⟨s, t⟩ := admits_sound ha
  exact ⟨s, t, trace_reachable t (reachable_start idle)⟩

/-- Every history the REPAIRED model admits that ends with a probe of the client's state: if the
probe read "closed", the client had really closed the current connection — a history of the real
code in which a healthy connection is found marked closed cannot be replayed through the repaired
model. -/
theorem C11_histories (cap limit : Nat) (idle : Bool) (h : List Event) (q f n : Nat)
    (ha : admits .repaired cap idle (h ++ [.probe true q f n]) limit = true) :
    ∃ s, Trace .repaired cap (if idle then init else initNoIdle) h s ∧ s.conns.length = n ∧
      NoFalseClose s ∧ s.isClosed = true := by
  obtain ⟨s', t⟩ := admits_sound ha
  obtain ⟨s, t1, hc, hn, _, _, _⟩ := trace_probe_last t
  exact ⟨s, t1, hn, (reachable_inv_repaired (trace_reachable t1 (reachable_start idle))).closedKnown, hc⟩

/-! ## `ReConnect` holds the lock from the test of the flag to the installation -/

/-- With the idle close out of reach (runs from `initNoIdle`), for both variants and every
interleaving of any number of concurrent callers: the client only ever closes a connection the
server has left — `ReConnect` tests the flag, dials and installs the new connection in ONE step
under `connLock`, so two callers that both find the client closed cannot both dial, and nothing but
`close(conn)` (after a read or write error) closes a socket. -/
theorem C11_no_healthy_close (v : Variant) (cap : Nat) (acts : List Action) (s : State)
    (hrun : runFrom v cap initNoIdle acts = some s) :
    ∀ (k : Nat) (c : Conn), s.conns[k]? = some c → c.known = true → c.alive = false :=
  fun k c hc hk => ((inv2_runFrom acts initNoIdle s inv2_initNoIdle hrun).conn k c hc).1 hk

/-- non-vacuity: four concurrent callers on a closed client; one connection is dialled, all four
requests are queued, the first is written to it and arrives -/
example : ∃ s, runFrom .repaired 100 initNoIdle
    [.callBegin 1, .callBegin 2, .callBegin 3, .callBegin 4, .callReconnect 3, .callReconnect 1,
     .callReconnect 4, .callReconnect 2, .markReconnected 1, .markReconnected 2, .markReconnected 3,
     .markReconnected 4, .callEnq 2, .callEnq 1, .callEnq 4, .callEnq 3,
     .mark .top 0, .sTopGo 0, .sNoFail 0, .mark .inner 0, .sTakeQ 0, .sCheckOk 0, .mark .got 0,
     .sWriteOk 0] = some s ∧ s.conns.length = 1 ∧ s.arrived = [(2, 0)] ∧ s.sendQ.length = 3 := by
  refine ⟨_, by simp [runFrom, step, initNoIdle, findCall, setCall, dropCall, setConn, knownList,
    afterDequeue, isCur]; rfl, rfl, rfl, rfl⟩

/-- NOT the code as found — `ReConnect` with the dial outside the lock (flag read under the lock,
dial unlocked, lock re-taken, new connection installed without looking at the flag again, the socket
of the connection it replaces closed directly): two callers both find the client closed and both
dial; caller 1 installs connection 0, its request is written there and arrives at the server; caller
2 then installs connection 1 and closes connection 0 — a healthy connection the server still
serves, carrying a request whose answer can now never be read (its receiver's `Read` fails: `rErr`). -/
theorem C11_unlocked_dial_counterexample :
    ∃ s, runFrom .repaired 100 initUnlocked
      [.callBegin 1, .callBegin 2, .callCheckClosed 1, .callCheckClosed 2,
       .callInstall 1, .markReconnected 1, .callEnq 1, .callRet 1,
       .mark .top 0, .sTopGo 0, .sNoFail 0, .mark .inner 0, .sTakeQ 0, .sCheckOk 0, .mark .got 0,
       .sWriteOk 0, .callInstall 2] = some s ∧
      s.conns.length = 2 ∧ s.arrived = [(1, 0)] ∧ s.isClosed = false ∧
      (∃ c, s.conns[0]? = some c ∧ c.alive = true ∧ c.known = true ∧ c.reset = false) ∧
      (step .repaired 100 s (.rErr 0)).isSome = true ∧
      ¬ (∀ (k : Nat) (c : Conn), s.conns[k]? = some c → c.known = true → c.alive = false) := by
  refine ⟨_, by simp [runFrom, step, initUnlocked, findCall, setCall, dropCall, setConn, knownList,
    afterDequeue, isCur, closeLast]; rfl, rfl, rfl, rfl, ⟨_, rfl, rfl, rfl, rfl⟩, by decide, fun h => ?_⟩
  have := h 0 _ rfl rfl
  cases this

/-! ## The close notification (`AdapterProxy.Recv` → `onPush`, `Model/AdapterPush.lean`)

The server announces that it is closing (`"_reconnect_"` push, request id 0), stops reading the
connection and closes it only later. "A request is never written to a connection already known to
be dead" then means: once the client has processed the notification of a `TarsClient`, no later
`AdapterProxy.Send` hands a request to that `TarsClient` — it goes to a fresh one, whose first
`Send` dials a new connection. -/

/-- For `onPush` as it stands (the `reconnectMsg` test comes first), for every schedule of server
pushes, notifications, `Recv` goroutines (in any order), `SetPushCallback` and sends, with or
without a push callback: every request is handed to a `TarsClient` whose close notification had
not been processed when `Send` was entered, and every `TarsClient` whose notification has been
processed is older than the current one. -/
theorem C11_after_notification_fresh_conn (acts : List Tars.AdapterPush.Action)
    (s : Tars.AdapterPush.State) (hrun : Tars.AdapterPush.run .reconnectFirst acts = some s) :
    (∀ x ∈ s.sends, x.gen ∉ x.noticed) ∧ (∀ g ∈ s.noticed, g < s.gen) := by
  have hi := Tars.AdapterPush.inv_runFrom acts _ s Tars.AdapterPush.inv_init hrun
  exact ⟨hi.sendsFresh, hi.noticedOld⟩

/-- non-vacuity: two calls, the notification, its `Recv`, a third call — no push callback: the third
request goes to generation 1, the old client is handed to `GraceClose` -/
example : ∃ s, Tars.AdapterPush.run .reconnectFirst
    [.send 1, .send 2, .pNotify 0, .recv 0, .send 3] = some s ∧
    s.sends = [⟨1, 0, []⟩, ⟨2, 0, []⟩, ⟨3, 1, [0]⟩] ∧ s.graceClosing = [0] ∧ s.hasCallback = false :=
  ⟨_, rfl, rfl, rfl, rfl⟩

/-- The fresh `TarsClient` made by `onPush` is a transport LTS in its initial state: its first
`Send` finds the flag "closed" and dials a new connection (both transport variants). -/
theorem C11_fresh_client_dials (v : Variant) (cap id : Nat) :
    ∃ s, run v cap [.callBegin id, .callReconnect id] = some s ∧ s.conns = [{}] ∧
      s.isClosed = false := by
  refine ⟨_, by simp [run, runFrom, step, init, findCall, setCall, knownList]; rfl, rfl, rfl⟩

/-- With the `pushCallback == nil → return` guard in front of the `reconnectMsg` test, a client that
never registered a push callback processes the notification and keeps its `TarsClient`: the next
request is handed to the client whose connection the server has announced as closing and no longer
reads. With a callback registered the same schedule switches to a fresh client. -/
theorem C11_notification_counterexample_guard_first :
    (∃ s, Tars.AdapterPush.run .guardFirst [.send 1, .pNotify 0, .recv 0, .send 2] = some s ∧
      s.sends = [⟨1, 0, []⟩, ⟨2, 0, [0]⟩] ∧ s.stopped = [0] ∧ s.gen = 0 ∧
      ¬ (∀ x ∈ s.sends, x.gen ∉ x.noticed)) ∧
    (∃ s, Tars.AdapterPush.run .guardFirst [.setCallback, .send 1, .pNotify 0, .recv 0, .send 2] = some s ∧
      s.sends = [⟨1, 0, []⟩, ⟨2, 1, [0]⟩]) := by
  refine ⟨⟨_, rfl, rfl, rfl, rfl, fun h => ?_⟩, ⟨_, rfl, rfl⟩⟩
  exact h ⟨2, 0, [0]⟩ (by decide) (by decide)

/-- Every close notification is honoured, however long earlier ones are still being handled:
`GraceClose` of an old client can keep an `onPush` handler busy for up to `ClientIdleTimeout` (the
old client's one-way requests are never answered), and the server may restart again meanwhile. In
EVERY state — any number of handlers still inside `GraceClose` — a pending notification can be
processed, and processing it switches to a fresh `TarsClient`; hence (`C11_after_notification_fresh_conn`)
no later request goes to the client it was sent on. -/
theorem C11_every_notification_switches (s : Tars.AdapterPush.State) (i g : Nat)
    (h : s.inbox[i]? = some (g, .reconnect)) :
    ∃ s', Tars.AdapterPush.step .reconnectFirst s (.recv i) = some s' ∧ s'.gen = s.gen + 1 ∧
      g ∈ s'.noticed ∧ s'.handlers = s.handlers ++ [s.gen] :=
  let ⟨s', h1, h2, h3, h4, _⟩ := Tars.AdapterPush.recv_reconnect_switches h
  ⟨s', h1, h2, h3, h4⟩

/-- non-vacuity: two graceful restarts in a row, the handler of the first still waiting in
`GraceClose` (one-way requests 2 and 3 were never answered): the second notification switches
again, request 5 goes to generation 2 -/
example : ∃ s, Tars.AdapterPush.run .reconnectFirst
    [.send 1, .send 2, .send 3, .pNotify 0, .recv 0, .send 4, .pNotify 1, .recv 0, .send 5] = some s ∧
    s.handlers = [0, 1] ∧ s.sends.map (fun x => (x.id, x.gen)) = [(1, 0), (2, 0), (3, 0), (4, 1), (5, 2)] :=
  ⟨_, rfl, rfl, rfl⟩

/-- With a "handle one notification at a time" test-and-set around the reconnect branch, released
only when the handler returns from `GraceClose`, the notification of the next restart is dropped
while the first handler is still waiting: request 5 is handed to generation 1, whose connection the
server has announced as closing. Once the first handler has returned the same schedule is fine. -/
theorem C11_notification_counterexample_gated :
    (∃ s, Tars.AdapterPush.run .casGated
        [.send 1, .send 2, .send 3, .pNotify 0, .recv 0, .send 4, .pNotify 1, .recv 0, .send 5] = some s ∧
      s.gen = 1 ∧ s.stopped = [0, 1] ∧ s.noticed = [0, 1] ∧
      ¬ (∀ x ∈ s.sends, x.gen ∉ x.noticed)) ∧
    (∃ s, Tars.AdapterPush.run .casGated
        [.send 1, .pNotify 0, .recv 0, .graceDone 0, .send 4, .pNotify 1, .recv 0, .send 5] = some s ∧
      s.gen = 2 ∧ ∀ x ∈ s.sends, x.gen ∉ x.noticed) := by
  refine ⟨⟨_, rfl, rfl, rfl, rfl, fun h => ?_⟩, ⟨_, rfl, rfl, by decide⟩⟩
  exact h ⟨5, 1, [0, 1]⟩ (by decide) (by decide)

/-- The extractor records the order of the two tests in `onPush`
(`Consts.adapterOnPushReconnectFirst`), the number of `return`s in front of the switch and the
number of test-and-set gates; when the `reconnectMsg` test comes first and there is neither, the
theorem is about the function of the current tree. -/
theorem C11_notification_current_tree (h : Tars.AdapterPush.treeVariant = .reconnectFirst)
    (acts : List Tars.AdapterPush.Action) (s : Tars.AdapterPush.State)
    (hrun : Tars.AdapterPush.run Tars.AdapterPush.treeVariant acts = some s) :
    ∀ x ∈ s.sends, x.gen ∉ x.noticed :=
  (C11_after_notification_fresh_conn acts s (h ▸ hrun)).1

end Tars.ClientConn
