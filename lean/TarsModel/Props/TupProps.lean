import TarsModel.Proofs.TupTrunc

/-!
# TUP attribute set (`tars/protocol/tup/tup.go`) — the C05 and C06 clauses for `UniAttribute`

Property theorems only (helper lemmas: `Proofs/TupBasic.lean`, `Proofs/TupRT.lean`,
`Proofs/TupTrunc.lean`).  The model is `Model/Tup.lean` (literal model of `UniAttribute.Encode` /
`Decode` / `PutBuffer` / `GetBuffer` over the codec model `Model/Wire.lean`).

`decodeV chk` is `Decode` in the two shapes the extractor recognises: `chk = true` validates the
entry count with `Reader.CheckLength` before the loop (pending/C05-tup-count-spin.patch), `chk = false`
is the code as found.  Everything below is stated for BOTH shapes unless the statement itself
names the shape; which shape `/repo` has is `Consts.tupCountChecked` (`Props/TupTree.lean`).

* C05: `Tup_decode_total` (value or plain error, never a panic, for every input; with the count
  validated the loop runs at most as many iterations as bytes are left), `Tup_alloc_bounded`
  (bytes allocated ≤ bytes of input left behind), `Tup_asFound_spin` (the as-found loop: the
  6-byte input `08 02 7f ff ff ff` costs 2^31−1 iterations) and `Tup_count_validated`.
* C06: `Tup_no_short_read` (every stored key and value is a contiguous piece of the input — no
  partial strings, no zero-filled buffers), `Tup_truncated_entry` (an input cut inside an entry:
  the complete entries before the cut and nothing else are stored, and it is an error unless the cut
  falls on an entry boundary or right behind a key), `Tup_wrong_type_rejected`.
* round trip: `Tup_roundtrip`, `Tup_roundtrip_any_order`, `Tup_duplicates_last_wins`.
-/
namespace Tars.Tup
open Tars Consts

/-! ## C05: totality, iterations, allocation -/

/-- **Totality.**  For every input, every starting map and both shapes of the code, `Decode`
    returns `nil` or a plain Go error — never a panic, never the model's fuel artefact.  With the
    count validated, the loop starts at most as many iterations as bytes are left to read (so at
    most `|input|`). -/
theorem Tup_decode_total (chk : Bool) (m0 : TupMap) (r : Reader) :
    (∀ e, (decodeV chk m0 r).err = some e → e.isPlain = true) ∧
    (chk = true → (decodeV chk m0 r).iters ≤ r.remaining) := by
  have h := decodeV_spec chk m0 r
  exact ⟨h.2.1, h.2.2.2.2.2⟩

/-- the same for an input given as a byte string -/
theorem Tup_decode_total_input (m0 : TupMap) (input : Bytes) :
    (decodeV true m0 (Reader.mk0 input)).iters ≤ input.length := by
  have := (Tup_decode_total true m0 (Reader.mk0 input)).2 rfl
  simpa [← rest_length, rest_mk0] using this

/-- non-vacuity: an error outcome exists and is plain; a success exists -/
example : (decodeV true [] (Reader.mk0 [byte 8, byte 0, byte 1])).err = some .eof := by decide
example : (decodeV true [] (Reader.mk0 [byte 8, byte 12])).err = none := by decide

/-- **Allocation.**  The bytes `Decode` asks the allocator for (key strings and value buffers,
    including those of entries that are overwritten later and of the iteration that fails) are
    paid for by input left behind: `alloc + bytes still unread ≤ bytes unread at the start`.  The
    content of the map grows by at most that. -/
theorem Tup_alloc_bounded (chk : Bool) (m0 : TupMap) (r : Reader) :
    (decodeV chk m0 r).alloc + (decodeV chk m0 r).rd.remaining ≤ r.remaining ∧
    dataBytes (decodeV chk m0 r).data ≤ dataBytes m0 + (decodeV chk m0 r).alloc := by
  have h := decodeV_spec chk m0 r
  exact ⟨h.2.2.1, h.2.2.2.2.1⟩

/-- the same for an input given as a byte string: never more than the input length -/
theorem Tup_alloc_bounded_input (chk : Bool) (input : Bytes) :
    (decodeV chk [] (Reader.mk0 input)).alloc ≤ input.length ∧
    dataBytes (decodeV chk [] (Reader.mk0 input)).data ≤ input.length := by
  have h := Tup_alloc_bounded chk [] (Reader.mk0 input)
  have hr : (Reader.mk0 input).remaining = input.length := by rw [← rest_length, rest_mk0]
  rw [hr] at h
  simp only [dataBytes] at h
  omega

/-- **The as-found loop spins.**  Without the count validation, the input "MAP head, count `n`,
    nothing else" runs `n` iterations that read nothing, store nothing and report nothing, and
    `Decode` then returns `nil` with an empty map: the work is not bounded by the input length. -/
theorem Tup_asFound_spin (n : Nat) (hn : n < 2 ^ 31) :
    let input := writeHead tyMAP 0 ++ writeInt32 (wrapS 32 (n : Int)) 0
    (decodeV false [] (Reader.mk0 input)).iters = n ∧ (decodeV false [] (Reader.mk0 input)).err = none ∧
    (decodeV false [] (Reader.mk0 input)).data = [] ∧ input.length ≤ 6 := by
  simp only
  rw [decodeV_asFound_spin n hn]
  refine ⟨rfl, rfl, rfl, ?_⟩
  rw [wrapLen n hn]
  unfold writeInt32 writeInt16 writeInt8
  repeat' split
  all_goals simp [writeHead, extTagThreshold]

/-- the witness of the finding: six bytes, 2^31 − 1 iterations -/
example : writeHead tyMAP 0 ++ writeInt32 (wrapS 32 ((2 ^ 31 - 1 : Nat) : Int)) 0
    = [byte 0x08, byte 0x02, byte 0x7f, byte 0xff, byte 0xff, byte 0xff] := by decide
example : (decodeV false [] (Reader.mk0 [byte 0x08, byte 0x02, byte 0x7f, byte 0xff, byte 0xff, byte 0xff])).iters
    = 2 ^ 31 - 1 := by
  have h := (Tup_asFound_spin (2 ^ 31 - 1) (by decide)).1
  have e : writeHead tyMAP 0 ++ writeInt32 (wrapS 32 ((2 ^ 31 - 1 : Nat) : Int)) 0
    = [byte 0x08, byte 0x02, byte 0x7f, byte 0xff, byte 0xff, byte 0xff] := by decide
  simp only [e] at h
  exact h

/-- **The validated count.**  With `CheckLength`, a count that is negative or larger than the
    number of bytes left is an error before the first iteration; the map is untouched. -/
theorem Tup_count_validated (m0 : TupMap) (c : Int) (body : Bytes)
    (hc : -(2 : Int) ^ 31 ≤ c ∧ c < (2 : Int) ^ 31) (hbad : c < 0 ∨ (body.length : Int) < c) :
    let o := decodeV true m0 (Reader.mk0 (writeHead tyMAP 0 ++ writeInt32 c 0 ++ body))
    o.err = some .eof ∧ o.data = m0 ∧ o.iters = 0 :=
  decodeV_count_rejected m0 _ c body hc (rest_mk0 _) hbad

example : (decodeV true [] (Reader.mk0 [byte 0x08, byte 0x02, byte 0x7f, byte 0xff, byte 0xff, byte 0xff])).err
    = some .eof := by decide

/-! ## Round trip -/

/-- **Round trip.**  For every association list with distinct keys (keys shorter than 2^32, values
    shorter than 2^31, fewer than 2^31 entries), written in the order of the list and followed by
    arbitrary bytes `t`, `Decode` succeeds, stops exactly behind the encoding (for `t = []`: consumes
    everything), ran one iteration per entry, allocated exactly the bytes of the keys and values,
    and the map holds exactly the entries of the list. -/
theorem Tup_roundtrip (chk : Bool) (l : TupMap) (t : Bytes) (hnd : (l.map (·.1)).Nodup) (hs : Sized l)
    (hl : l.length < 2 ^ 31) :
    let o := decodeV chk [] (Reader.mk0 (encode l ++ t))
    o.err = none ∧ o.rd.pos = (encode l).length ∧ o.data = l.reverse ∧
    (∀ k v, get o.data k = some v ↔ (k, v) ∈ l) ∧ o.iters = l.length ∧ o.alloc = dataBytes l := by
  simp only
  have hrest : (Reader.mk0 (encode l ++ t)).rest
      = writeHead tyMAP 0 ++ writeInt32 (wrapS 32 (l.length : Int)) 0 ++ (encodeEntries l ++ t) := by
    rw [rest_mk0]; simp [encode, List.append_assoc]
  have h1 := decodeV_header chk [] _ l.length hl _ hrest
    (fun _ => by have := encodeEntries_length_ge l; simp only [List.length_append]; omega)
  have r1 := Reader.rest_adv _ (writeHead tyMAP 0 ++ writeInt32 (wrapS 32 (l.length : Int)) 0) _ hrest
  simp only [List.length_append] at r1
  have h2 := decodeLoop_entries l hs 0 [] 0 0 _ t r1
  simp only [Nat.add_zero, Nat.zero_add] at h2
  rw [h1, h2]
  simp only [decodeLoop]
  have hd : putAll [] l = l.reverse := by
    rw [putAll_nodup l [] hnd (by simp)]; simp
  refine ⟨by simp, ?_, hd, ?_, by simp, by simp⟩
  · simp [Reader.mk0, Reader.adv, encode, List.length_append, Nat.add_assoc]
  · intro k v
    rw [hd]
    have hnd' : (l.reverse.map (·.1)).Nodup := by
      rw [List.map_reverse]
      unfold List.Nodup at *
      rw [List.pairwise_reverse]
      exact hnd.imp (fun h => Ne.symm h)
    rw [get, lookup_nodup _ hnd']
    simp

/-- **Round trip in every order.**  Go visits the map in an unspecified order: whatever order `l'`
    of the entries `Encode` writes, `Decode` yields the same map. -/
theorem Tup_roundtrip_any_order (chk : Bool) (l l' : TupMap) (hp : l'.Perm l) (hnd : (l.map (·.1)).Nodup)
    (hs : Sized l) (hl : l.length < 2 ^ 31) :
    let o := decodeV chk [] (Reader.mk0 (encode l'))
    o.err = none ∧ o.rd.pos = (encode l').length ∧ (∀ k v, get o.data k = some v ↔ (k, v) ∈ l) ∧
    o.data.length = l.length := by
  have hnd' : (l'.map (·.1)).Nodup := (hp.map _).nodup_iff.mpr hnd
  have hs' : Sized l' := fun p hp' => hs p (hp.mem_iff.mp hp')
  have hl' : l'.length < 2 ^ 31 := by rw [hp.length_eq]; exact hl
  have h := Tup_roundtrip chk l' [] hnd' hs' hl'
  simp only [List.append_nil] at h
  obtain ⟨a, b, c, d, _, _⟩ := h
  refine ⟨a, b, fun k v => (d k v).trans hp.mem_iff, ?_⟩
  rw [c, List.length_reverse, hp.length_eq]

/-- non-vacuity: two entries (one with empty key and empty value), both orders -/
example :
    let l : TupMap := [([byte 97, byte 98], [byte 1, byte 2, byte 3]), ([], [])]
    (l.map (·.1)).Nodup ∧ Sized l ∧ l.length < 2 ^ 31 ∧ l.reverse.Perm l ∧
    (decodeV true [] (Reader.mk0 (encode l))).data = l.reverse ∧
    (decodeV true [] (Reader.mk0 (encode l.reverse))).data = l := by
  refine ⟨by decide, ?_, by decide, List.reverse_perm _, by decide, by decide⟩
  intro p hp
  simp only [List.mem_cons, List.not_mem_nil, or_false] at hp
  rcases hp with rfl | rfl <;> exact ⟨by decide, by decide⟩

/-- **Later duplicates win.**  An encoding that repeats a key (only a hostile or foreign writer
    produces one) decodes without error; a lookup sees the LAST entry written under that key. -/
theorem Tup_duplicates_last_wins (chk : Bool) (l : TupMap) (hs : Sized l) (hl : l.length < 2 ^ 31) :
    let o := decodeV chk [] (Reader.mk0 (encode l))
    o.err = none ∧ ∀ k, get o.data k = l.reverse.lookup k := by
  simp only
  have hrest : (Reader.mk0 (encode l)).rest
      = writeHead tyMAP 0 ++ writeInt32 (wrapS 32 (l.length : Int)) 0 ++ (encodeEntries l ++ []) := by
    rw [rest_mk0]; simp [encode, List.append_assoc]
  have h1 := decodeV_header chk [] _ l.length hl _ hrest
    (fun _ => by have := encodeEntries_length_ge l; simp only [List.length_append]; omega)
  have r1 := Reader.rest_adv _ (writeHead tyMAP 0 ++ writeInt32 (wrapS 32 (l.length : Int)) 0) _ hrest
  simp only [List.length_append] at r1
  have h2 := decodeLoop_entries l hs 0 [] 0 0 _ [] r1
  simp only [Nat.add_zero, Nat.zero_add] at h2
  rw [h1, h2]
  simp only [decodeLoop]
  refine ⟨by simp, fun k => ?_⟩
  rw [get_putAll]
  cases l.reverse.lookup k <;> simp [get]

example :
    let l : TupMap := [([byte 97], [byte 1]), ([byte 97], [byte 2])]
    get (decodeV true [] (Reader.mk0 (encode l))).data [byte 97] = some [byte 2] := by
  intro l
  have hs : Sized l := by
    intro p hp
    simp only [l, List.mem_cons, List.not_mem_nil, or_false] at hp
    rcases hp with rfl | rfl <;> exact ⟨by decide, by decide⟩
  rw [(Tup_duplicates_last_wins true l hs (by decide)).2]
  decide

/-! ## C06: no short reads, truncation, wrong wire types -/

/-- **No partial strings, no zero-filled buffers.**  Whatever the input and whatever the outcome
    (`nil` or an error — the generated dispatchers ignore the error of `reqTup.Decode`), every
    key and every value in the map occurs contiguously in the input. -/
theorem Tup_no_short_read (chk : Bool) (input : Bytes) :
    ∀ p ∈ (decodeV chk [] (Reader.mk0 input)).data, p.1 <:+: input ∧ p.2 <:+: input := by
  intro p hp
  have h := (decodeV_spec chk [] (Reader.mk0 input)).2.2.2.1 p hp
  rcases h with h | ⟨a, b⟩
  · cases h
  · have e : (Reader.mk0 input).data.toList = input := by simp [Reader.mk0]
    have ha := a.infix
    have hb := b.infix
    rw [e] at ha hb
    exact ⟨ha, hb⟩

/-- **An input cut inside an entry.**  The input is a header announcing more entries than follow,
    the complete entries `es`, and then a proper prefix `q` of the encoding of one more entry
    `(k, v)` (for the validated shape the announced count does not exceed the bytes that follow —
    otherwise `Tup_count_validated` applies).  Then the map holds exactly the complete entries,
    never a partial one, and `Decode` reports an error unless the cut falls on the entry boundary
    (`q = []`) or right behind the key (`q = writeString k 0`): in those two cases the remaining
    iterations find nothing to read and `Decode` returns `nil`. -/
theorem Tup_truncated_entry (chk : Bool) (es : TupMap) (k v q s : Bytes) (n' : Nat)
    (hs : Sized es) (hk : k.length < 2 ^ 32) (hv : v.length < 2 ^ 31)
    (hq : q ++ s = encodeEntry k v) (hsne : s ≠ []) (hn : es.length + (n' + 1) < 2 ^ 31)
    (hc : chk = true → es.length + (n' + 1) ≤ (encodeEntries es ++ q).length) :
    let input := writeHead tyMAP 0 ++ writeInt32 (wrapS 32 ((es.length + (n' + 1) : Nat) : Int)) 0
                  ++ (encodeEntries es ++ q)
    (decodeV chk [] (Reader.mk0 input)).data = putAll [] es ∧
    ((decodeV chk [] (Reader.mk0 input)).err = none ↔ (q = [] ∨ q = writeString k 0)) :=
  decodeV_truncated chk _ es k v q s n' hs hk hv hq hsne hn (rest_mk0 _) hc

/-- non-vacuity: one complete entry, the second cut in the middle of its value: an error, and
    exactly the complete entry is in the map -/
example :
    let e1 : Bytes × Bytes := ([byte 97], [byte 1])
    let k : Bytes := [byte 98]
    let v : Bytes := [byte 7, byte 8, byte 9]
    let q := (encodeEntry k v).take 7
    let input := writeHead tyMAP 0 ++ writeInt32 (wrapS 32 (((([e1] : TupMap).length + (0 + 1) : Nat)) : Int)) 0
      ++ (encodeEntries [e1] ++ q)
    (decodeV true [] (Reader.mk0 input)).err ≠ none ∧ (decodeV true [] (Reader.mk0 input)).data = [e1] := by
  intro e1 k v q input
  have hs : Sized [e1] := by
    intro p hp
    simp only [List.mem_cons, List.not_mem_nil, or_false] at hp
    subst hp; exact ⟨by decide, by decide⟩
  have h := Tup_truncated_entry true [e1] k v q ((encodeEntry k v).drop 7) 0 hs (by decide) (by decide)
    (List.take_append_drop 7 _) (by decide) (by decide) (fun _ => by decide)
  refine ⟨fun hn => ?_, ?_⟩
  · have := h.2.mp hn
    revert this; decide
  · rw [h.1]; decide

/-- **Wrong wire types are rejected.**  After the complete entries `es`:
    1. a value head (tag 1) of a wire type other than SimpleList (and other than StructEnd, which
       `SkipToNoCheck(1, false)` reports as "tag 1 is not there": nothing stored, no error) is
       the error "require vector, but not";
    2. a SimpleList whose element head is not `BYTE` at tag 0 is an error ("type not match", or
       "can not find Tag 0" for a StructEnd head / a tag greater than 0);
    3. a key head (tag 0) that is not a string is the error "need string".
    In each case the complete entries before it stay stored and nothing else is. -/
theorem Tup_wrong_type_rejected (chk : Bool) (es : TupMap) (k t : Bytes) (ty tg n' : Nat)
    (hs : Sized es) (hk : k.length < 2 ^ 32) (hty : ty < 16) (htg : tg < 256)
    (hn : es.length + (n' + 1) < 2 ^ 31) :
    let hdr := writeHead tyMAP 0 ++ writeInt32 (wrapS 32 ((es.length + (n' + 1) : Nat) : Int)) 0
    let bad1 := writeString k 0 ++ writeHead ty 1 ++ t
    let bad2 := writeString k 0 ++ writeHead tySimpleList 1 ++ writeHead ty tg ++ t
    let bad3 := writeHead ty 0 ++ t
    (ty ≠ tySimpleList → ty ≠ tyStructEnd →
      (chk = true → es.length + (n' + 1) ≤ (encodeEntries es ++ bad1).length) →
      (decodeV chk [] (Reader.mk0 (hdr ++ (encodeEntries es ++ bad1)))).err = some .mismatch ∧
      (decodeV chk [] (Reader.mk0 (hdr ++ (encodeEntries es ++ bad1)))).data = putAll [] es) ∧
    (¬ (ty = tyBYTE ∧ tg = 0) →
      (chk = true → es.length + (n' + 1) ≤ (encodeEntries es ++ bad2).length) →
      (decodeV chk [] (Reader.mk0 (hdr ++ (encodeEntries es ++ bad2)))).err
        = some (if ty = tyStructEnd ∨ tg > 0 then .require else .mismatch) ∧
      (decodeV chk [] (Reader.mk0 (hdr ++ (encodeEntries es ++ bad2)))).data = putAll [] es) ∧
    (ty ≠ tySTRING1 → ty ≠ tySTRING4 → ty ≠ tyStructEnd →
      (chk = true → es.length + (n' + 1) ≤ (encodeEntries es ++ bad3).length) →
      (decodeV chk [] (Reader.mk0 (hdr ++ (encodeEntries es ++ bad3)))).err = some .mismatch ∧
      (decodeV chk [] (Reader.mk0 (hdr ++ (encodeEntries es ++ bad3)))).data = putAll [] es) := by
  simp only
  refine ⟨fun h1 h2 hc => ?_, fun h1 hc => ?_, fun h1 h4 h2 hc => ?_⟩
  · exact decodeV_bad_entry chk _ es _ n' _ hs hn
      (fun r' hr' => decodeEntry_value_wrong_type r' k t ty hk hty h1 h2 hr') (rest_mk0 _) hc
  · exact decodeV_bad_entry chk _ es _ n' _ hs hn
      (fun r' hr' => decodeEntry_elem_wrong_type r' k t ty tg hk hty htg h1 hr') (rest_mk0 _) hc
  · exact decodeV_bad_entry chk _ es _ n' _ hs hn
      (fun r' hr' => decodeEntry_key_wrong_type r' t ty hty h1 h4 h2 hr') (rest_mk0 _) hc

/-- non-vacuity: a LIST where the byte vector is expected; a SimpleList of INT elements -/
example :
    (decodeV true [] (Reader.mk0 (writeHead tyMAP 0 ++ writeInt32 1 0 ++
      (writeString [byte 97] 0 ++ writeHead tyLIST 1 ++ [byte 12])))).err = some .mismatch := by decide
example :
    (decodeV true [] (Reader.mk0 (writeHead tyMAP 0 ++ writeInt32 1 0 ++
      (writeString [byte 97] 0 ++ writeHead tySimpleList 1 ++ writeHead tyINT 0 ++ [byte 0, byte 0, byte 0, byte 1])))).err
      = some .mismatch := by decide

/-- the StructEnd exception of clause 1, stated: nothing is stored and the loop goes on -/
theorem Tup_value_structEnd_skipped (r : Reader) (k t : Bytes) (hk : k.length < 2 ^ 32)
    (h : r.rest = writeString k 0 ++ writeHead tyStructEnd 1 ++ t) :
    (decodeEntry r).res = .ok none :=
  decodeEntry_value_structEnd r k t hk h

end Tars.Tup
