/-
  C10 — Server answers each well-formed request exactly once with matching identity.

  "For every well-formed request the server sends exactly one response if the request is two-way and
  none if it is one-way; the response carries the request's id, protocol version and packet type.  A
  ping is answered with success without invoking the implementation, an implementation error becomes
  a non-zero return code with the error's code and message, a request whose own timeout already
  elapsed while it was queued is answered with the queue-timeout code without being executed, and an
  over-long handler is answered with a timeout error when a handle timeout is configured; this holds
  for TARS-, TUP- and JSON-versioned requests and in every worker-pool/handle-timeout configuration."

  The theorems are about `Tars.ServerInvoke.serveOne` (Model/ServerInvoke.lean): the *list of
  admissible outcomes* of one request as a function of the decoded request, the configuration
  (pool size, handle timeout, transport), the time the request spent queued (`sub`) and the
  dispatcher (`Disp`: effect on `*tarsResp`, returned error, running time).  Quantifiers are
  unbounded: all versions (any `Int`, in particular TARS/TUP/JSON), ids (incl. 0 and negative),
  function names, timeouts, payloads, configurations and dispatchers.

  Two defects were found in the tree as it stood at round 0:
    D10  `InvokeTimeout` answers with version 0 and packet type 0, and the transport handler takes the
         packet type from a context `Invoke` has not written yet: a TUP request that runs into the
         handle timeout is answered in the wrong encoding, a ONE-WAY request that runs into it IS
         answered.  Repaired in /repo by commit 17261bf (pending/C10-invoke-timeout-identity.patch).
    D22  `req2Byte` (the TUP answer, a `RequestPacket`) drops `IRet`/`SResultDesc`: every error answer
         to a TUP request (implementation error, queue timeout, handle timeout) looks like a success
         with an empty payload.  Repaired in /repo by commit a260ec1 (pending/C10-tup-result-status.patch).
  `Variant` carries one flag per repaired function; `C10_full` is proved for the repaired variant and
  refuted for the as-found one; each `…_asFound_partial` theorem says what the as-found code does
  guarantee; the counterexamples are concrete requests evaluated on the model.
-/
import TarsModel.Proofs.ServerInvoke

namespace Tars.ServerInvoke

/-- two-way / one-way; a request is well-formed when it is one of the two -/
def TwoWay (req : RequestPacket) : Prop := req.cPacketType = TARSNORMAL
def OneWay (req : RequestPacket) : Prop := req.cPacketType = TARSONEWAY
def WellFormed (req : RequestPacket) : Prop := TwoWay req ∨ OneWay req

/-- both parts of the D10 repair (commit 17261bf, pending/C10-invoke-timeout-identity.patch) are in place -/
def Variant.D10Fixed (v : Variant) : Prop := v.timeoutIdentity = true ∧ v.skipEmpty = true

/-- `Invoke`'s answer is the one that is sent: no handle timeout, or the dispatcher is faster -/
def InTime (cfg : Config) (d : Disp) : Prop := cfg.handleTimeout = 0 ∨ d.dur < cfg.handleTimeout

/-- the handler is over-long for the configured handle timeout -/
def OverLong (cfg : Config) (d : Disp) : Prop := cfg.handleTimeout ≠ 0 ∧ d.dur > cfg.handleTimeout

/-- the request reaches the dispatcher: not expired in the queue, not a ping -/
def Dispatched (req : RequestPacket) (sub : Int) : Prop :=
  queueExpired req sub = false ∧ req.sFuncName ≠ pingName

/-! ## exactly once -/

/-- **C10_once.** Two-way ⇒ exactly one packet is written, one-way ⇒ nothing is written — for every
    admissible outcome, every configuration (pool 0/N, handle timeout 0/T incl. the race, TCP/UDP),
    every dispatcher, every queueing delay. -/
theorem C10_once (v : Variant) (hv : v.D10Fixed) (cfg : Config) (req : RequestPacket) (sub : Int) (d : Disp)
    (o : Outcome) (ho : o ∈ serveOne v cfg req sub d) :
    (TwoWay req → ∃ w, o.sent = [some w]) ∧ (OneWay req → o.sent = []) := by
  obtain ⟨b, _, rfl⟩ := mem_serveOne.mp ho
  exact ⟨fun h => outcome_sent_twoWay v req _ b (invoke_ctxType req sub d) h,
         fun h => outcome_sent_oneWay v hv req _ b (invoke_ctxType req sub d) h⟩

example : Variant.repaired.D10Fixed := ⟨rfl, rfl⟩

/-- as found: a two-way request is answered exactly once in every configuration; a one-way request
    is not answered **when `Invoke`'s answer is the one sent** (missing: the handle-timeout branch,
    see `C10_counterexample_D10_oneway_answered`). -/
theorem C10_once_asFound_partial (v : Variant) (cfg : Config) (req : RequestPacket) (sub : Int) (d : Disp)
    (o : Outcome) (ho : o ∈ serveOne v cfg req sub d) :
    (TwoWay req → ∃ w, o.sent = [some w]) ∧ (OneWay req → InTime cfg d → o.sent = []) := by
  refine ⟨fun h => ?_, fun h ht => ?_⟩
  · obtain ⟨b, _, rfl⟩ := mem_serveOne.mp ho
    exact outcome_sent_twoWay v req _ b (invoke_ctxType req sub d) h
  · rw [serveOne_invokeWon v cfg req sub d ht] at ho
    simp only [List.mem_singleton] at ho
    subst ho
    simp [outcomeOf, handlerWrite_some, show req.cPacketType = TARSONEWAY from h]

example : InTime ⟨4, 0, false⟩ ⟨genOk [] [] [], 1000⟩ := Or.inl rfl
example : InTime ⟨0, 500, true⟩ ⟨genOk [] [] [], 20⟩ := Or.inr (by decide)

/-- D10, second half: handle timeout 100 ms, a ONE-WAY TARS request (id 7) whose handler runs 500 ms:
    the as-found server writes an answer (`IRet = 1`, "server invoke timeout"). -/
theorem C10_counterexample_D10_oneway_answered :
    serveOne .asFound ⟨0, 100, false⟩
      { RequestPacket.zero with iVersion := 1, cPacketType := 1, iRequestId := 7, sFuncName := "sleep" }
      0 ⟨genOk [] [] [], 500⟩ =
    [⟨[some (.rsp { ResponsePacket.zero with iRequestId := 7, iRet := 1, sResultDesc := "server invoke timeout" })], true⟩] := by
  decide

/-! ## identity -/

/-- **C10_identity.** Every packet written for a request carries the request's id, protocol version
    and packet type — normal answer, error, ping, queue timeout and handle timeout alike, in every
    configuration — provided the dispatcher leaves id and version as `Invoke` preset them (what
    tars2go emits does: it assigns both from `tarsReq`, or returns an error without touching
    `*tarsResp`). -/
theorem C10_identity (v : Variant) (hv : v.D10Fixed) (cfg : Config) (req : RequestPacket) (sub : Int) (d : Disp)
    (he : Echoes d req) (o : Outcome) (ho : o ∈ serveOne v cfg req sub d) (w : Wire) (hw : w ∈ o.packets) :
    w.id = req.iRequestId ∧ w.version = req.iVersion ∧ w.packetType = req.cPacketType := by
  obtain ⟨b, _, rfl⟩ := mem_serveOne.mp ho
  have hid := invoke_rsp_identity req sub d he
  cases b with
  | invokeWon =>
    rw [mem_packets_invokeWon hw, rsp2Byte_id, rsp2Byte_version, rsp2Byte_packetType]
    exact ⟨hid.2, hid.1, rfl⟩
  | timeoutWon c =>
    rw [mem_packets_timeoutWon hv hw, rsp2Byte_id, rsp2Byte_version, rsp2Byte_packetType]
    exact ⟨rfl, rfl, rfl⟩

example : Echoes ⟨genOk [1, 2] [] [], 0⟩ { RequestPacket.zero with iVersion := 3, iRequestId := -5 } := ⟨rfl, rfl⟩
example : Echoes ⟨genErr (.tars 77 "boom"), 0⟩ { RequestPacket.zero with iVersion := 1, iRequestId := 9 } := ⟨rfl, rfl⟩

/-- as found: the id is always echoed; version and packet type are echoed **when `Invoke`'s answer is
    the one sent** (missing: the handle-timeout branch, see `C10_counterexample_D10_tup_wrong_encoding`). -/
theorem C10_identity_asFound_partial (v : Variant) (cfg : Config) (req : RequestPacket) (sub : Int) (d : Disp)
    (he : Echoes d req) (ht : InTime cfg d) (o : Outcome) (ho : o ∈ serveOne v cfg req sub d)
    (w : Wire) (hw : w ∈ o.packets) :
    w.id = req.iRequestId ∧ w.version = req.iVersion ∧ w.packetType = req.cPacketType := by
  rw [serveOne_invokeWon v cfg req sub d ht] at ho
  simp only [List.mem_singleton] at ho
  subst ho
  have hid := invoke_rsp_identity req sub d he
  rw [mem_packets_invokeWon hw, rsp2Byte_id, rsp2Byte_version, rsp2Byte_packetType]
  exact ⟨hid.2, hid.1, rfl⟩

/-- D10, first half: handle timeout 100 ms, a two-way TUP request (version 3, id 9) whose handler runs
    500 ms: the as-found answer is a `ResponsePacket` with version 0 — not the `RequestPacket` encoding a
    TUP peer decodes, and not the request's version. -/
theorem C10_counterexample_D10_tup_wrong_encoding :
    serveOne .asFound ⟨0, 100, false⟩
      { RequestPacket.zero with iVersion := 3, cPacketType := 0, iRequestId := 9, sFuncName := "sleep" }
      0 ⟨genOk [] [] [], 500⟩ =
    [⟨[some (.rsp { ResponsePacket.zero with iVersion := 0, iRequestId := 9, iRet := 1, sResultDesc := "server invoke timeout" })], true⟩] := by
  decide

/-! ## ping -/

/-- **C10_ping.** `tars_ping` (not expired in the queue): the dispatcher is not called, and a two-way
    ping is answered with success and an empty payload — every variant, every configuration (the
    handle timeout cannot fire: no model time passes). -/
theorem C10_ping (v : Variant) (cfg : Config) (req : RequestPacket) (sub : Int) (d : Disp)
    (hq : queueExpired req sub = false) (hp : req.sFuncName = pingName)
    (o : Outcome) (ho : o ∈ serveOne v cfg req sub d) :
    o.invoked = false ∧
    (TwoWay req → ∃ w, o.sent = [some w] ∧ w.Carries SUCCESS "" ∧ w.buffer = []) := by
  have hi := invoke_ping req sub d hq hp
  have hni : (invoke req sub d).invoked = false := by rw [hi]
  rw [serveOne_not_invoked v cfg req sub d hni] at ho
  simp only [List.mem_singleton] at ho
  subst ho
  refine ⟨by simp [outcomeOf, hni], fun h2 => ?_⟩
  have hne : req.cPacketType ≠ TARSONEWAY := by rw [show req.cPacketType = TARSNORMAL from h2]; exact normal_ne_oneway
  refine ⟨rsp2Byte v (invoke req sub d).rsp, by simp [outcomeOf, handlerWrite_some, hne], ?_, ?_⟩
  · have := rsp2Byte_carries v (invoke req sub d).rsp (fun _ => Or.inr ⟨by rw [hi]; rfl, by rw [hi]; rfl⟩)
    rw [hi] at this ⊢
    simpa [preset, ResponsePacket.zero, success_eq_zero] using this
  · rw [rsp2Byte_buffer, hi]; rfl

example : queueExpired { RequestPacket.zero with sFuncName := "tars_ping", iTimeout := 3000 } 12 = false := by decide

/-! ## implementation errors -/

/-- the shapes of `IRet`: the error's code for a `*tars.Error` with a non-zero code, 1 for any other
    error; the description is the error's message -/
theorem C10_error_codes (c : Int) (m : String) (hc : c ≠ 0) :
    (Err.tars c m).ret = c ∧ (Err.plain m).ret = 1 ∧ (Err.tars 0 m).ret = 1 ∧
    (Err.tars c m).msg = m ∧ (Err.plain m).msg = m := by
  refine ⟨?_, ?_, ?_, rfl, rfl⟩
  · simp [Err.ret, hc]
  · show plainErrRet = 1; decide
  · simp only [Err.ret]; decide

/-- an implementation error never maps to return code 0 (= success on the wire), whatever code the
    implementation put into its `*tars.Error` — provided the code is a non-zero one or the tree has the
    guard of the D19 fix (`Consts.srvErrCodeZeroGuard = 1`, re-extracted on every run) -/
theorem C10_error_nonzero (e : Err) : e.ret ≠ 0 := by
  cases e with
  | plain m => show plainErrRet ≠ 0; decide
  | tars c m =>
    by_cases hc : c = 0
    · subst hc; simp only [Err.ret]; decide
    · simp [Err.ret, hc]

/-- **C10_error.** TARS/JSON (any version but TUP): an error returned by the dispatcher is answered
    (two-way, `Invoke`'s answer sent) with `IRet` = the error's code (1 for plain errors) and
    `SResultDesc` = its message; the dispatcher was called. Every variant. -/
theorem C10_error (v : Variant) (cfg : Config) (req : RequestPacket) (sub : Int) (d : Disp)
    (hd : Dispatched req sub) (ht : InTime cfg d) (e : Err) (he : (d.run req (preset req)).err = some e)
    (hver : (d.run req (preset req)).rsp.iVersion ≠ TUPVERSION) (h2 : TwoWay req)
    (o : Outcome) (ho : o ∈ serveOne v cfg req sub d) :
    o.invoked = true ∧ ∃ p, o.sent = [some (.rsp p)] ∧ p.iRet = e.ret ∧ p.sResultDesc = e.msg := by
  have hi := invoke_err req sub d hd.1 hd.2 e he
  rw [serveOne_invokeWon v cfg req sub d ht] at ho
  simp only [List.mem_singleton] at ho
  subst ho
  have hne : req.cPacketType ≠ TARSONEWAY := by rw [show req.cPacketType = TARSNORMAL from h2]; exact normal_ne_oneway
  refine ⟨by simp [outcomeOf, hi], (invoke req sub d).rsp, ?_, by rw [hi], by rw [hi]⟩
  simp only [outcomeOf, handlerWrite_some, invoke_ctxType, hne, if_false]
  have : (invoke req sub d).rsp.iVersion ≠ TUPVERSION := by rw [hi]; exact hver
  simp [rsp2Byte, this]

example : Dispatched { RequestPacket.zero with sFuncName := "err:77:boom", iTimeout := 3000 } 2 := ⟨by decide, by decide⟩
example : (Disp.run ⟨genErr (.tars 77 "boom"), 0⟩ { RequestPacket.zero with iVersion := 1 } (preset { RequestPacket.zero with iVersion := 1 })).err
    = some (.tars 77 "boom") := rfl

/-- **C10_error_tup.** TUP with the status rewrite of the D22 repair (commit a260ec1): the answer
    is a `RequestPacket` whose status map carries the code (≠ 0) and the message. -/
theorem C10_error_tup (v : Variant) (hv : v.tupStatus = true) (cfg : Config) (req : RequestPacket) (sub : Int) (d : Disp)
    (hd : Dispatched req sub) (ht : InTime cfg d) (e : Err) (he : (d.run req (preset req)).err = some e)
    (hcode : e.ret ≠ 0) (h2 : TwoWay req)
    (o : Outcome) (ho : o ∈ serveOne v cfg req sub d) :
    o.invoked = true ∧ ∃ w, o.sent = [some w] ∧ w.Carries e.ret e.msg := by
  have hi := invoke_err req sub d hd.1 hd.2 e he
  rw [serveOne_invokeWon v cfg req sub d ht] at ho
  simp only [List.mem_singleton] at ho
  subst ho
  have hne : req.cPacketType ≠ TARSONEWAY := by rw [show req.cPacketType = TARSNORMAL from h2]; exact normal_ne_oneway
  refine ⟨by simp [outcomeOf, hi], rsp2Byte v (invoke req sub d).rsp, by simp [outcomeOf, handlerWrite_some, hne], ?_⟩
  have := rsp2Byte_carries v (invoke req sub d).rsp (fun _ => Or.inl ⟨hv, by rw [hi]; exact hcode⟩)
  rw [hi] at this ⊢
  exact this

/-- D22: a two-way TUP request (version 3, id 5) whose implementation returns `tars.Errorf(77, "boom")`:
    the as-found answer is a `RequestPacket` without any trace of the code or the message. -/
theorem C10_counterexample_D22_tup_error_dropped :
    serveOne .asFound ⟨0, 0, false⟩
      { RequestPacket.zero with iVersion := 3, cPacketType := 0, iRequestId := 5, sFuncName := "err:77:boom" }
      0 ⟨genErr (.tars 77 "boom"), 0⟩ =
    [⟨[some (.req { RequestPacket.zero with iVersion := 3, iRequestId := 5 })], true⟩] := by
  decide

/-! ## queue timeout -/

/-- when the request's own timeout has elapsed at dequeue: `ITimeout > 0` and at least `ITimeout` ms
    passed between receipt and `Invoke` -/
theorem C10_queue_expired_iff (req : RequestPacket) (sub : Int) :
    queueExpired req sub = true ↔ (req.iTimeout > 0 ∧ req.iTimeout ≤ sub) := queueExpired_iff req sub

/-- **C10_queue_to.** A request whose own timeout elapsed while it was queued is not executed; a
    two-way one is answered with `TARSSERVERQUEUETIMEOUT` (a `ResponsePacket` for every version but
    TUP; for TUP, with the status rewrite, in the status map), a one-way one is not answered.  Every
    configuration (no model time passes, the handle timeout cannot fire); also for `tars_ping`. -/
theorem C10_queue_to (v : Variant) (cfg : Config) (req : RequestPacket) (sub : Int) (d : Disp)
    (hq : queueExpired req sub = true) (htup : req.iVersion = TUPVERSION → v.tupStatus = true)
    (o : Outcome) (ho : o ∈ serveOne v cfg req sub d) :
    o.invoked = false ∧
    (TwoWay req → ∃ w, o.sent = [some w] ∧ w.Carries QUEUETIMEOUT timeoutDesc) ∧
    (OneWay req → o.sent = []) := by
  have hi := invoke_expired req sub d hq
  have hni : (invoke req sub d).invoked = false := by rw [hi]
  rw [serveOne_not_invoked v cfg req sub d hni] at ho
  simp only [List.mem_singleton] at ho
  subst ho
  refine ⟨by simp [outcomeOf, hni], fun h2 => ?_, fun h1 => ?_⟩
  · have hne : req.cPacketType ≠ TARSONEWAY := by rw [show req.cPacketType = TARSNORMAL from h2]; exact normal_ne_oneway
    refine ⟨rsp2Byte v (invoke req sub d).rsp, by simp [outcomeOf, handlerWrite_some, hne], ?_⟩
    have := rsp2Byte_carries v (invoke req sub d).rsp
      (fun hv => Or.inl ⟨htup (by rw [hi] at hv; exact hv), by rw [hi]; exact queueTimeout_ne_zero⟩)
    rw [hi] at this ⊢
    exact this
  · simp [outcomeOf, handlerWrite_some, show req.cPacketType = TARSONEWAY from h1]

example : queueExpired { RequestPacket.zero with iTimeout := 20 } 600 = true := by decide
example : QUEUETIMEOUT = -6 := by decide

/-! ## versions -/

/-- **C10_versions** (`rsp2Byte`). TUP ⇒ the answer is encoded as a `RequestPacket` with exactly these
    members (servant name, function name and timeout are zero values; the status map is the
    response's, extended by code and description when the status rewrite is in place and
    `IRet ≠ 0`); any other version (TARS, JSON, …) ⇒ the `ResponsePacket` itself. -/
theorem C10_versions (v : Variant) (r : ResponsePacket) :
    (r.iVersion = TUPVERSION →
      rsp2Byte v r = .req
        { iVersion := r.iVersion, cPacketType := r.cPacketType, iMessageType := r.iMessageType,
          iRequestId := r.iRequestId, sServantName := "", sFuncName := "", sBuffer := r.sBuffer, iTimeout := 0,
          context := r.context,
          status := if v.tupStatus && decide (r.iRet ≠ 0) then
              setKey statusResultDesc r.sResultDesc (setKey statusResultCode (toString r.iRet) r.status)
            else r.status }) ∧
    (r.iVersion ≠ TUPVERSION → rsp2Byte v r = .rsp r) := by
  refine ⟨fun h => ?_, fun h => ?_⟩
  · simp [rsp2Byte, h, req2Byte, RequestPacket.zero]
  · simp [rsp2Byte, h]

/-- the encoding follows the *request's* version on every path (incl. the handle timeout) -/
theorem C10_versions_served (v : Variant) (hv : v.D10Fixed) (cfg : Config) (req : RequestPacket) (sub : Int)
    (d : Disp) (he : Echoes d req) (o : Outcome) (ho : o ∈ serveOne v cfg req sub d) (w : Wire) (hw : w ∈ o.packets) :
    w.isTup = true ↔ req.iVersion = TUPVERSION := by
  obtain ⟨b, _, rfl⟩ := mem_serveOne.mp ho
  have hid := invoke_rsp_identity req sub d he
  cases b with
  | invokeWon => rw [mem_packets_invokeWon hw, rsp2Byte_isTup, hid.1]
  | timeoutWon c => rw [mem_packets_timeoutWon hv hw, rsp2Byte_isTup]; rfl

example : TARSVERSION = 1 ∧ TUPVERSION = 3 ∧ JSONVERSION = 5 ∧ TARSNORMAL = 0 ∧ TARSONEWAY = 1 := by decide

/-! ## normal answers -/

/-- **C10_answer.** A dispatched request whose dispatcher returns nil is answered (two-way,
    `Invoke`'s answer sent) with what the dispatcher left in `*tarsResp`, the packet type replaced by
    the request's. -/
theorem C10_answer (v : Variant) (cfg : Config) (req : RequestPacket) (sub : Int) (d : Disp)
    (hd : Dispatched req sub) (ht : InTime cfg d) (he : (d.run req (preset req)).err = none) (h2 : TwoWay req)
    (o : Outcome) (ho : o ∈ serveOne v cfg req sub d) :
    o = ⟨[some (rsp2Byte v { (d.run req (preset req)).rsp with cPacketType := req.cPacketType })], true⟩ := by
  have hi := invoke_ok req sub d hd.1 hd.2 he
  rw [serveOne_invokeWon v cfg req sub d ht] at ho
  simp only [List.mem_singleton] at ho
  subst ho
  have hne : req.cPacketType ≠ TARSONEWAY := by rw [show req.cPacketType = TARSNORMAL from h2]; exact normal_ne_oneway
  simp [outcomeOf, handlerWrite_some, hne, hi]

/-! ## handle timeout -/

/-- **C10_handle_timeout.** A handle timeout is configured and the dispatcher runs longer: a two-way
    request gets exactly one answer, with the request's id, version, packet type and encoding, a
    non-zero return code (`IRet = 1`) and the timeout description; a one-way request gets none. -/
theorem C10_handle_timeout (v : Variant) (hv : v.D10Fixed) (cfg : Config) (req : RequestPacket) (sub : Int) (d : Disp)
    (hd : Dispatched req sub) (hl : OverLong cfg d) (htup : req.iVersion = TUPVERSION → v.tupStatus = true)
    (o : Outcome) (ho : o ∈ serveOne v cfg req sub d) :
    (TwoWay req → ∃ w, o.sent = [some w] ∧ w.id = req.iRequestId ∧ w.version = req.iVersion ∧
        w.packetType = req.cPacketType ∧ (w.isTup = true ↔ req.iVersion = TUPVERSION) ∧
        invokeTimeoutRet ≠ 0 ∧ w.Carries invokeTimeoutRet timeoutDesc) ∧
    (OneWay req → o.sent = []) := by
  have hinv : (invoke req sub d).invoked = true := by
    rw [invoke_invoked]; simp [hd.1, hd.2]
  have hdur : (invoke req sub d).dur = d.dur := by rw [invoke_dur, hinv]; rfl
  obtain ⟨b, hb, rfl⟩ := mem_serveOne.mp ho
  rw [hdur, branches_slow cfg d.dur hl.1 hl.2] at hb
  simp only [List.mem_singleton] at hb
  subst hb
  refine ⟨fun h2 => ?_, fun h1 => outcome_sent_oneWay v hv req _ _ (invoke_ctxType req sub d) h1⟩
  have hne : req.cPacketType ≠ TARSONEWAY := by rw [show req.cPacketType = TARSNORMAL from h2]; exact normal_ne_oneway
  let r : ResponsePacket := { ResponsePacket.zero with
      iVersion := req.iVersion, cPacketType := req.cPacketType, iRequestId := req.iRequestId,
      iRet := invokeTimeoutRet, sResultDesc := timeoutDesc }
  have hto : invokeTimeout v req = some (rsp2Byte v r) := by simp [invokeTimeout, hv.1, hne, r]
  refine ⟨rsp2Byte v r, ?_, rsp2Byte_id v r, rsp2Byte_version v r, rsp2Byte_packetType v r,
    rsp2Byte_isTup v r, invokeTimeoutRet_ne_zero, ?_⟩
  · simp [outcomeOf, hto, handlerWrite_some, zero_ne_oneway]
  · exact rsp2Byte_carries v r (fun h => Or.inl ⟨htup h, invokeTimeoutRet_ne_zero⟩)

example : OverLong ⟨2, 300, true⟩ ⟨genOk [] [] [], 1500⟩ := ⟨by decide, by decide⟩

/-- as found: with an over-long handler **every** request — one-way included — gets exactly one
    answer, always a `ResponsePacket` with version 0 and packet type 0, the request's id, `IRet = 1`
    and the timeout description (missing w.r.t. the property: version, packet type, encoding, silence
    for one-way). -/
theorem C10_handle_timeout_asFound_partial (cfg : Config) (req : RequestPacket) (sub : Int) (d : Disp)
    (hd : Dispatched req sub) (hl : OverLong cfg d)
    (o : Outcome) (ho : o ∈ serveOne .asFound cfg req sub d) :
    o = ⟨[some (.rsp { ResponsePacket.zero with iRequestId := req.iRequestId, iRet := 1, sResultDesc := timeoutDesc })], true⟩ := by
  have hinv : (invoke req sub d).invoked = true := by
    rw [invoke_invoked]; simp [hd.1, hd.2]
  have hdur : (invoke req sub d).dur = d.dur := by rw [invoke_dur, hinv]; rfl
  obtain ⟨b, hb, rfl⟩ := mem_serveOne.mp ho
  rw [hdur, branches_slow cfg d.dur hl.1 hl.2] at hb
  simp only [List.mem_singleton] at hb
  subst hb
  have h0 : ¬ (0 : Int) = TUPVERSION := by decide
  have h1 : invokeTimeoutRet = 1 := by decide
  simp [outcomeOf, invokeTimeout, Variant.asFound, handlerWrite, zero_ne_oneway, rsp2Byte, ResponsePacket.zero, h0, h1, hinv]

/-! ## configurations, batches -/

/-- pool size and transport do not influence the answer (they influence only how long a request is
    queued, i.e. `sub`) -/
theorem C10_config_irrelevant (v : Variant) (p p' ht : Nat) (u u' : Bool) (req : RequestPacket) (sub : Int) (d : Disp) :
    serveOne v ⟨p, ht, u⟩ req sub d = serveOne v ⟨p', ht, u'⟩ req sub d := rfl

/-- **C10_pipeline.** Any batch of well-formed requests (pipelined on one or many connections, any
    pool / handle-timeout configuration, any admissible resolution of every race): for every id `i`
    the number of packets written that carry `i` equals the number of two-way requests with id `i`;
    in particular with pairwise distinct ids every two-way request gets exactly one answer and no
    one-way request gets any.  (The order in which the packets appear is not constrained; a count is
    invariant under permutation.) -/
theorem C10_pipeline (v : Variant) (hv : v.D10Fixed) (cfg : Config) (js : List Job) (os : List Outcome)
    (hrun : Run v cfg js os) (hwf : ∀ j ∈ js, WellFormed j.req ∧ Echoes j.disp j.req) (i : Int) :
    ((written os).filter (fun w => decide (w.id = i))).length =
      (js.filter (fun j => decide (j.req.iRequestId = i) && decide (j.req.cPacketType = TARSNORMAL))).length := by
  induction hrun with
  | nil => rfl
  | @cons j js o os ho _ ih =>
    have hj := hwf j (List.mem_cons_self)
    have ih' := ih (fun j' hj' => hwf j' (List.mem_cons_of_mem _ hj'))
    rw [written_cons, List.filter_append, List.length_append, ih', List.filter_cons]
    have honce := C10_once v hv cfg j.req j.sub j.disp o ho
    rcases hj.1 with h2 | h1
    · obtain ⟨w, hw⟩ := honce.1 h2
      have hid := (C10_identity v hv cfg j.req j.sub j.disp hj.2 o ho w (by simp [Outcome.packets, hw])).1
      have hp : o.packets = [w] := by simp [Outcome.packets, hw]
      rw [hp]
      by_cases hi : j.req.iRequestId = i
      · simp [hid, hi, show j.req.cPacketType = TARSNORMAL from h2]; omega
      · simp [hid, hi]
    · have hs := honce.2 h1
      have hp : o.packets = [] := by simp [Outcome.packets, hs]
      have hn : ¬ j.req.cPacketType = TARSNORMAL := by
        rw [show j.req.cPacketType = TARSONEWAY from h1]; exact fun h => normal_ne_oneway h.symm
      simp [hp, hn]

example : WellFormed { RequestPacket.zero with cPacketType := 1 } := Or.inr rfl

/-! ## the payload of a TUP answer built by the emitted dispatcher -/

/-- **C10_generated_tup_attrs.** With `buf.Reset()` before every out parameter the TUP answer holds
    exactly: the return value under "" and "tars_ret" (if the function has one) and one attribute per
    out parameter whose value is exactly that parameter's encoding — for every number of out
    parameters, every encoding, with and without return value. -/
theorem C10_generated_tup_attrs (ret : Option (List Nat)) (outs : List (String × List Nat)) :
    tupRspAttrs true true ret outs = tupRspSpec ret outs := by
  have loop : ∀ (outs : List (String × List Nat)) (buf : List Nat) (first : Bool),
      tupOutLoop true true buf first outs = outs := by
    intro outs
    induction outs with
    | nil => intros; rfl
    | cons e rest ih =>
      intro buf first
      obtain ⟨n, enc⟩ := e
      cases first <;> simp [tupOutLoop, ih]
  cases ret with
  | none => simp [tupRspAttrs, tupRspSpec, loop]
  | some r => simp [tupRspAttrs, tupRspSpec, loop]

/-- the emitted code of the current tree clears the buffer before every out parameter (re-read from
    gen_go.go on every run), hence builds exactly the specified attribute set -/
theorem C10_generated_tup_tree (ret : Option (List Nat)) (outs : List (String × List Nat)) :
    genTupRspAttrs ret outs = tupRspSpec ret outs := by
  have h1 : Consts.srvGenTupResetFirstOut = 1 := by decide
  have h2 : Consts.srvGenTupResetLaterOut = 1 := by decide
  have h : genTupRspAttrs = tupRspAttrs true true := by
    simp only [genTupRspAttrs, h1, h2, decide_true]
  rw [h]; exact C10_generated_tup_attrs ret outs

/-- without the `buf.Reset()` before the FIRST out parameter (it is redundant only for a void
    function) the first out attribute of a function with a return value starts with the return
    value's bytes: return value `[0x00, 0x07]`, out parameter `x` encoded `[0x0c]` -/
theorem C10_counterexample_generated_tup_first_reset :
    tupRspAttrs false true (some [0, 7]) [("x", [12]), ("y", [1, 2])] =
      [("", [0, 7]), ("tars_ret", [0, 7]), ("x", [0, 7, 12]), ("y", [1, 2])] ∧
    tupRspAttrs false true none [("x", [12])] = tupRspSpec none [("x", [12])] := by
  decide

/-! ## the property at full strength -/

/-- C10 for one variant of the code: for every configuration, well-formed request, queueing delay,
    dispatcher (that leaves id/version alone) and admissible outcome. -/
def C10_full (v : Variant) : Prop :=
  ∀ (cfg : Config) (req : RequestPacket) (sub : Int) (d : Disp) (o : Outcome),
    WellFormed req → Echoes d req → o ∈ serveOne v cfg req sub d →
    (TwoWay req → ∃ w, o.sent = [some w] ∧
        w.id = req.iRequestId ∧ w.version = req.iVersion ∧ w.packetType = req.cPacketType ∧
        (w.isTup = true ↔ req.iVersion = TUPVERSION) ∧
        (queueExpired req sub = true → w.Carries QUEUETIMEOUT timeoutDesc) ∧
        (queueExpired req sub = false → req.sFuncName = pingName → w.Carries SUCCESS "") ∧
        (Dispatched req sub → InTime cfg d → ∀ e, (d.run req (preset req)).err = some e →
            e.ret ≠ 0 ∧ w.Carries e.ret e.msg) ∧
        (Dispatched req sub → OverLong cfg d → ∃ c, c ≠ 0 ∧ w.Carries c timeoutDesc)) ∧
    (OneWay req → o.sent = []) ∧
    (o.invoked = true ↔ Dispatched req sub)

/-- **C10_full_repaired.** The property holds for the code with both repairs (the current tree: commits 17261bf, a260ec1). -/
theorem C10_full_repaired : C10_full .repaired := by
  intro cfg req sub d o _ he ho
  have hv : Variant.repaired.D10Fixed := ⟨rfl, rfl⟩
  have honce := C10_once .repaired hv cfg req sub d o ho
  refine ⟨fun h2 => ?_, honce.2, ?_⟩
  · obtain ⟨w, hw⟩ := honce.1 h2
    have hmem : w ∈ o.packets := by simp [Outcome.packets, hw]
    have hid := C10_identity .repaired hv cfg req sub d he o ho w hmem
    refine ⟨w, hw, hid.1, hid.2.1, hid.2.2, C10_versions_served .repaired hv cfg req sub d he o ho w hmem, ?_, ?_, ?_, ?_⟩
    · intro hq
      obtain ⟨w', hw', hc⟩ := (C10_queue_to .repaired cfg req sub d hq (fun _ => rfl) o ho).2.1 h2
      rw [hw] at hw'; cases hw'; exact hc
    · intro hq hp
      obtain ⟨w', hw', hc, _⟩ := (C10_ping .repaired cfg req sub d hq hp o ho).2 h2
      rw [hw] at hw'; cases hw'; exact hc
    · intro hd ht e hee
      obtain ⟨w', hw', hc⟩ := (C10_error_tup .repaired rfl cfg req sub d hd ht e hee (C10_error_nonzero e) h2 o ho).2
      rw [hw] at hw'; cases hw'; exact ⟨C10_error_nonzero e, hc⟩
    · intro hd hl
      obtain ⟨w', hw', _, _, _, _, hne, hc⟩ := (C10_handle_timeout .repaired hv cfg req sub d hd hl (fun _ => rfl) o ho).1 h2
      rw [hw] at hw'; cases hw'; exact ⟨_, hne, hc⟩
  · obtain ⟨b, _, rfl⟩ := mem_serveOne.mp ho
    have : (outcomeOf Variant.repaired req (invoke req sub d) b).invoked = (invoke req sub d).invoked := by
      cases b <;> rfl
    rw [this, invoke_invoked]
    simp [Dispatched]

/-- the as-found code does not have the property (the D10 one-way witness) -/
theorem C10_full_fails_asFound : ¬ C10_full .asFound := by
  intro h
  have := (h ⟨0, 100, false⟩
    { RequestPacket.zero with iVersion := 1, cPacketType := 1, iRequestId := 7, sFuncName := "sleep" }
    0 ⟨genOk [] [] [], 500⟩ _ (Or.inr rfl) ⟨rfl, rfl⟩
    (by rw [C10_counterexample_D10_oneway_answered]; exact List.mem_singleton.mpr rfl)).2.1 rfl
  simp at this

/-- the variant of the current tree, as read from the source by the extractor, is one of the two the
    theorems speak about (a half-applied patch makes the extractor fail instead) -/
theorem C10_tree_variant_known :
    (treeVariant.timeoutIdentity = treeVariant.skipEmpty) ∧
    (treeVariant = .repaired → C10_full treeVariant) := by
  refine ⟨by decide, fun h => ?_⟩
  rw [h]; exact C10_full_repaired

end Tars.ServerInvoke
