import TarsModel.Proofs.WireRead

/-!
# C02 — Primitive codec: exact round trip and wire-format conformance

Property theorems only.  All statements are for every tag `0..255`, every value in the range of
the Go type, an arbitrary reader position, arbitrary bytes `t` after the field, an arbitrary
previous value `old` of the target and both `require` settings.  "Positioned exactly at the
end of the field" is `r.adv (encoding length)` together with `Reader.rest_adv`.
-/
namespace Tars
open Consts

/-! ## Independent wire-format specification -/

/-- the head prescribed by the Tars wire format -/
def specHead (ty tag : Nat) : Bytes :=
  if tag < 15 then [byte (tag * 16 + ty)] else [byte (240 + ty), byte tag]

/-- narrowest width (in bytes) of a signed integer; 0 = the zero marker -/
def minWidth (v : Int) : Nat :=
  if v = 0 then 0
  else if -(2 : Int) ^ 7 ≤ v ∧ v < (2 : Int) ^ 7 then 1
  else if -(2 : Int) ^ 15 ≤ v ∧ v < (2 : Int) ^ 15 then 2
  else if -(2 : Int) ^ 31 ≤ v ∧ v < (2 : Int) ^ 31 then 4
  else 8

/-- wire type code for an integer of the given width -/
def intTy : Nat → Nat
  | 0 => 12 | 1 => 0 | 2 => 1 | 4 => 2 | _ => 3

/-- the integer encoding prescribed by the format: head, then `w` big-endian two's-complement bytes -/
def specInt (v : Int) (tag : Nat) : Bytes :=
  specHead (intTy (minWidth v)) tag ++ be (minWidth v) (toU (8 * minWidth v) v)

theorem C02_wire_head (ty tag : Nat) : writeHead ty tag = specHead ty tag := by
  unfold writeHead specHead; rfl

theorem C02_wire_int64 (v : Int) (tag : Nat) : writeInt64 v tag = specInt v tag := by
  unfold specInt writeInt64 writeInt32 writeInt16 writeInt8
  rw [C02_wire_head, C02_wire_head, C02_wire_head, C02_wire_head, C02_wire_head]
  by_cases h0 : v = 0
  · subst h0; simp [minWidth, intTy, be]
  · by_cases h8 : -(2 : Int) ^ 7 ≤ v ∧ v < (2 : Int) ^ 7
    · have hw : minWidth v = 1 := by unfold minWidth; rw [if_neg h0, if_pos h8]
      have a1 : -2147483648 ≤ v ∧ v ≤ 2147483647 := by omega
      have a2 : -32768 ≤ v ∧ v ≤ 32767 := by omega
      have a3 : -128 ≤ v ∧ v ≤ 127 := by omega
      rw [hw, if_pos a1, if_pos a2, if_pos a3, if_neg h0]
      simp [intTy, be]
    · by_cases h16 : -(2 : Int) ^ 15 ≤ v ∧ v < (2 : Int) ^ 15
      · have hw : minWidth v = 2 := by unfold minWidth; rw [if_neg h0, if_neg h8, if_pos h16]
        have a1 : -2147483648 ≤ v ∧ v ≤ 2147483647 := by omega
        have a2 : -32768 ≤ v ∧ v ≤ 32767 := by omega
        have a3 : ¬ (-128 ≤ v ∧ v ≤ 127) := by omega
        rw [hw, if_pos a1, if_pos a2, if_neg a3]
        simp [intTy]
      · by_cases h32 : -(2 : Int) ^ 31 ≤ v ∧ v < (2 : Int) ^ 31
        · have hw : minWidth v = 4 := by
            unfold minWidth; rw [if_neg h0, if_neg h8, if_neg h16, if_pos h32]
          have a1 : -2147483648 ≤ v ∧ v ≤ 2147483647 := by omega
          have a2 : ¬ (-32768 ≤ v ∧ v ≤ 32767) := by omega
          rw [hw, if_pos a1, if_neg a2]
          simp [intTy]
        · have hw : minWidth v = 8 := by
            unfold minWidth; rw [if_neg h0, if_neg h8, if_neg h16, if_neg h32]
          have a1 : ¬ (-2147483648 ≤ v ∧ v ≤ 2147483647) := by omega
          rw [hw, if_neg a1]
          simp [intTy]

/-- narrower writers produce the same bytes as the 64-bit writer on their range (the cascade) -/
theorem writeInt32_eq64 (v : Int) (tag : Nat) (h : -(2:Int)^31 ≤ v ∧ v < (2:Int)^31) :
    writeInt32 v tag = writeInt64 v tag := by
  have a1 : -2147483648 ≤ v ∧ v ≤ 2147483647 := by omega
  simp [writeInt64, a1]
theorem writeInt16_eq64 (v : Int) (tag : Nat) (h : -(2:Int)^15 ≤ v ∧ v < (2:Int)^15) :
    writeInt16 v tag = writeInt64 v tag := by
  have a2 : -32768 ≤ v ∧ v ≤ 32767 := by omega
  rw [← writeInt32_eq64 v tag (by omega)]
  simp [writeInt32, a2]
theorem writeInt8_eq64 (v : Int) (tag : Nat) (h : -(2:Int)^7 ≤ v ∧ v < (2:Int)^7) :
    writeInt8 v tag = writeInt64 v tag := by
  have a3 : -128 ≤ v ∧ v ≤ 127 := by omega
  rw [← writeInt16_eq64 v tag (by omega)]
  simp [writeInt16, a3]

theorem C02_wire_int32 (v : Int) (tag : Nat) (h : -(2:Int)^31 ≤ v ∧ v < (2:Int)^31) :
    writeInt32 v tag = specInt v tag := by rw [writeInt32_eq64 v tag h, C02_wire_int64]
theorem C02_wire_int16 (v : Int) (tag : Nat) (h : -(2:Int)^15 ≤ v ∧ v < (2:Int)^15) :
    writeInt16 v tag = specInt v tag := by rw [writeInt16_eq64 v tag h, C02_wire_int64]
theorem C02_wire_int8 (v : Int) (tag : Nat) (h : -(2:Int)^7 ≤ v ∧ v < (2:Int)^7) :
    writeInt8 v tag = specInt v tag := by rw [writeInt8_eq64 v tag h, C02_wire_int64]
/-- unsigned values travel as the next wider signed type, hence as their non-negative value -/
theorem C02_wire_uint8 (v tag : Nat) (h : v < 2^8) : writeUint8 v tag = specInt v tag := by
  unfold writeUint8; exact C02_wire_int16 _ _ (by omega)
theorem C02_wire_uint16 (v tag : Nat) (h : v < 2^16) : writeUint16 v tag = specInt v tag := by
  unfold writeUint16; exact C02_wire_int32 _ _ (by omega)
theorem C02_wire_uint32 (v tag : Nat) (_h : v < 2^32) : writeUint32 v tag = specInt v tag := by
  unfold writeUint32; exact C02_wire_int64 _ _

theorem C02_wire_bool (b : Bool) (tag : Nat) :
    writeBool b tag = if b then specHead 0 tag ++ [byte 1] else specHead 12 tag := by
  cases b <;> simp [writeBool, writeInt8, C02_wire_head, toU]

theorem C02_wire_float32 (bits tag : Nat) : writeFloat32 bits tag = specHead 4 tag ++ be 4 bits := by
  simp [writeFloat32, C02_wire_head]
theorem C02_wire_float64 (bits tag : Nat) : writeFloat64 bits tag = specHead 5 tag ++ be 8 bits := by
  simp [writeFloat64, C02_wire_head]

theorem C02_wire_string (s : Bytes) (tag : Nat) :
    writeString s tag =
      if s.length ≤ 255 then specHead 6 tag ++ [byte s.length] ++ s
      else specHead 7 tag ++ be 4 s.length ++ s := by
  unfold writeString
  by_cases h : s.length ≤ 255
  · have : ¬ (s.length > str1Max) := by simp only [str1Max]; omega
    simp [h, this, C02_wire_head]
  · have : s.length > str1Max := by simp only [str1Max]; omega
    simp [h, this, C02_wire_head]

/-! ## Round trips (reader of the widest type first; the others follow from the cascade) -/

private theorem pow_facts : (256:Nat)^2 = 2^16 ∧ (256:Nat)^4 = 2^32 ∧ (256:Nat)^8 = 2^64 := by decide

/-- reading a 64-bit integer written by `WriteInt64` -/
theorem C02_rt_int64 (r : Reader) (v : Int) (tag : Nat) (old : Int) (req : Bool) (t : Bytes)
    (htag : tag < 256) (hv : -(2:Int)^63 ≤ v ∧ v < (2:Int)^63)
    (h : r.rest = writeInt64 v tag ++ t) :
    readInt64 old tag req r = (.ok v, r.adv (writeInt64 v tag).length) := by
  unfold writeInt64 at h ⊢
  by_cases a1 : -2147483648 ≤ v ∧ v ≤ 2147483647
  · rw [if_pos a1] at h ⊢
    unfold writeInt32 at h ⊢
    by_cases a2 : -32768 ≤ v ∧ v ≤ 32767
    · rw [if_pos a2] at h ⊢
      unfold writeInt16 at h ⊢
      by_cases a3 : -128 ≤ v ∧ v ≤ 127
      · rw [if_pos a3] at h ⊢
        unfold writeInt8 at h ⊢
        by_cases a4 : v = 0
        · rw [if_pos a4] at h ⊢
          rw [a4]
          exact readInt64_zero r tag req t htag old h
        · rw [if_neg a4] at h ⊢
          rw [readInt64_byte r tag req t htag old (byte (toU 8 v)) (by simpa using h)]
          have hlt := toU_lt 8 v
          have : toS 8 ((byte (toU 8 v)).val) = v := by
            rw [byte_val, Nat.mod_eq_of_lt (by simpa using hlt)]
            exact toS_toU 8 (by decide) v (by simp; omega) (by simp; omega)
          rw [this]; simp
      · rw [if_neg a3] at h ⊢
        rw [readInt64_short r tag req t htag old (toU 16 v) h]
        have hlt := toU_lt 16 v
        have : toS 16 (toU 16 v % 256 ^ 2) = v := by
          rw [Nat.mod_eq_of_lt (by simpa using hlt)]
          exact toS_toU 16 (by decide) v (by simp; omega) (by simp; omega)
        rw [this]; simp
    · rw [if_neg a2] at h ⊢
      rw [readInt64_int r tag req t htag old (toU 32 v) h]
      have hlt := toU_lt 32 v
      have : toS 32 (toU 32 v % 256 ^ 4) = v := by
        rw [Nat.mod_eq_of_lt (by simpa using hlt)]
        exact toS_toU 32 (by decide) v (by simp; omega) (by simp; omega)
      rw [this]; simp
  · rw [if_neg a1] at h ⊢
    rw [readInt64_long r tag req t htag old (toU 64 v) h]
    have hlt := toU_lt 64 v
    have : toS 64 (toU 64 v % 256 ^ 8) = v := by
      rw [Nat.mod_eq_of_lt (by simpa using hlt)]
      exact toS_toU 64 (by decide) v (by simp; omega) (by simp; omega)
    rw [this]; simp


theorem C02_rt_int32 (r : Reader) (v : Int) (tag : Nat) (old : Int) (req : Bool) (t : Bytes)
    (htag : tag < 256) (hv : -(2:Int)^31 ≤ v ∧ v < (2:Int)^31)
    (h : r.rest = writeInt32 v tag ++ t) :
    readInt32 old tag req r = (.ok v, r.adv (writeInt32 v tag).length) := by
  unfold writeInt32 at h ⊢
  by_cases a2 : -32768 ≤ v ∧ v ≤ 32767
  · rw [if_pos a2] at h ⊢
    unfold writeInt16 at h ⊢
    by_cases a3 : -128 ≤ v ∧ v ≤ 127
    · rw [if_pos a3] at h ⊢
      unfold writeInt8 at h ⊢
      by_cases a4 : v = 0
      · rw [if_pos a4] at h ⊢
        rw [a4]
        exact readInt32_zero r tag req t htag old h
      · rw [if_neg a4] at h ⊢
        rw [readInt32_byte r tag req t htag old (byte (toU 8 v)) (by simpa using h)]
        have hlt := toU_lt 8 v
        have : toS 8 ((byte (toU 8 v)).val) = v := by
          rw [byte_val, Nat.mod_eq_of_lt (by simpa using hlt)]
          exact toS_toU 8 (by decide) v (by simp; omega) (by simp; omega)
        rw [this]; simp
    · rw [if_neg a3] at h ⊢
      rw [readInt32_short r tag req t htag old (toU 16 v) h]
      have hlt := toU_lt 16 v
      have : toS 16 (toU 16 v % 256 ^ 2) = v := by
        rw [Nat.mod_eq_of_lt (by simpa using hlt)]
        exact toS_toU 16 (by decide) v (by simp; omega) (by simp; omega)
      rw [this]; simp
  · rw [if_neg a2] at h ⊢
    rw [readInt32_int r tag req t htag old (toU 32 v) h]
    have hlt := toU_lt 32 v
    have : toS 32 (toU 32 v % 256 ^ 4) = v := by
      rw [Nat.mod_eq_of_lt (by simpa using hlt)]
      exact toS_toU 32 (by decide) v (by simp; omega) (by simp; omega)
    rw [this]; simp

theorem C02_rt_int16 (r : Reader) (v : Int) (tag : Nat) (old : Int) (req : Bool) (t : Bytes)
    (htag : tag < 256) (hv : -(2:Int)^15 ≤ v ∧ v < (2:Int)^15)
    (h : r.rest = writeInt16 v tag ++ t) :
    readInt16 old tag req r = (.ok v, r.adv (writeInt16 v tag).length) := by
  unfold writeInt16 at h ⊢
  by_cases a3 : -128 ≤ v ∧ v ≤ 127
  · rw [if_pos a3] at h ⊢
    unfold writeInt8 at h ⊢
    by_cases a4 : v = 0
    · rw [if_pos a4] at h ⊢
      rw [a4]
      exact readInt16_zero r tag req t htag old h
    · rw [if_neg a4] at h ⊢
      rw [readInt16_byte r tag req t htag old (byte (toU 8 v)) (by simpa using h)]
      have hlt := toU_lt 8 v
      have : toS 8 ((byte (toU 8 v)).val) = v := by
        rw [byte_val, Nat.mod_eq_of_lt (by simpa using hlt)]
        exact toS_toU 8 (by decide) v (by simp; omega) (by simp; omega)
      rw [this]; simp
  · rw [if_neg a3] at h ⊢
    rw [readInt16_short r tag req t htag old (toU 16 v) h]
    have hlt := toU_lt 16 v
    have : toS 16 (toU 16 v % 256 ^ 2) = v := by
      rw [Nat.mod_eq_of_lt (by simpa using hlt)]
      exact toS_toU 16 (by decide) v (by simp; omega) (by simp; omega)
    rw [this]; simp

theorem C02_rt_int8 (r : Reader) (v : Int) (tag : Nat) (old : Int) (req : Bool) (t : Bytes)
    (htag : tag < 256) (hv : -(2:Int)^7 ≤ v ∧ v < (2:Int)^7)
    (h : r.rest = writeInt8 v tag ++ t) :
    readInt8 old tag req r = (.ok v, r.adv (writeInt8 v tag).length) := by
  unfold writeInt8 at h ⊢
  by_cases a4 : v = 0
  · rw [if_pos a4] at h ⊢
    rw [a4]
    exact readInt8_zero r tag req t htag old h
  · rw [if_neg a4] at h ⊢
    rw [readInt8_byte r tag req t htag old (byte (toU 8 v)) (by simpa using h)]
    have hlt := toU_lt 8 v
    have : toS 8 ((byte (toU 8 v)).val) = v := by
      rw [byte_val, Nat.mod_eq_of_lt (by simpa using hlt)]
      exact toS_toU 8 (by decide) v (by simp; omega) (by simp; omega)
    rw [this]; simp

/-! ### unsigned types and bool -/

theorem C02_rt_uint8 (r : Reader) (v : Nat) (tag : Nat) (old : Nat) (req : Bool) (t : Bytes)
    (htag : tag < 256) (hv : v < 2^8) (h : r.rest = writeUint8 v tag ++ t) :
    readUint8 old tag req r = (.ok v, r.adv (writeUint8 v tag).length) := by
  unfold readUint8 writeUint8 at *
  rw [C02_rt_int16 r v tag old req t htag (by omega) h]
  simp [mapRes, toU_ofNat 8 v hv]

theorem C02_rt_uint16 (r : Reader) (v : Nat) (tag : Nat) (old : Nat) (req : Bool) (t : Bytes)
    (htag : tag < 256) (hv : v < 2^16) (h : r.rest = writeUint16 v tag ++ t) :
    readUint16 old tag req r = (.ok v, r.adv (writeUint16 v tag).length) := by
  unfold readUint16 writeUint16 at *
  rw [C02_rt_int32 r v tag old req t htag (by omega) h]
  simp [mapRes, toU_ofNat 16 v hv]

theorem C02_rt_uint32 (r : Reader) (v : Nat) (tag : Nat) (old : Nat) (req : Bool) (t : Bytes)
    (htag : tag < 256) (hv : v < 2^32) (h : r.rest = writeUint32 v tag ++ t) :
    readUint32 old tag req r = (.ok v, r.adv (writeUint32 v tag).length) := by
  unfold readUint32 writeUint32 at *
  rw [C02_rt_int64 r v tag old req t htag (by omega) h]
  simp [mapRes, toU_ofNat 32 v hv]

theorem C02_rt_bool (r : Reader) (v : Bool) (tag : Nat) (old : Bool) (req : Bool) (t : Bytes)
    (htag : tag < 256) (h : r.rest = writeBool v tag ++ t) :
    readBool old tag req r = (.ok v, r.adv (writeBool v tag).length) := by
  unfold readBool writeBool at *
  rw [C02_rt_int8 r _ tag _ req t htag (by cases v <;> simp) h]
  cases v <;> simp [mapRes]

/-! ### floats (bit patterns: NaN payloads, infinities and signed zeros are just bits) and strings -/

theorem C02_rt_float32 (r : Reader) (bits : Nat) (tag : Nat) (old : Nat) (req : Bool) (t : Bytes)
    (htag : tag < 256) (hv : bits < 2^32) (h : r.rest = writeFloat32 bits tag ++ t) :
    readFloat32 old tag req r = (.ok bits, r.adv (writeFloat32 bits tag).length) := by
  unfold writeFloat32 at *
  rw [readFloat32_float r tag req t htag old bits h, Nat.mod_eq_of_lt (by simpa using hv)]
  simp

theorem C02_rt_float64 (r : Reader) (bits : Nat) (tag : Nat) (old : Nat) (req : Bool) (t : Bytes)
    (htag : tag < 256) (hv : bits < 2^64) (h : r.rest = writeFloat64 bits tag ++ t) :
    readFloat64 old tag req r = (.ok bits, r.adv (writeFloat64 bits tag).length) := by
  unfold writeFloat64 at *
  rw [readFloat64_double r tag req t htag old bits h, Nat.mod_eq_of_lt (by simpa using hv)]
  simp

/-- strings of any byte content and any length below 2^32 (beyond that Go's `uint32(len)`
    truncates; such a string exceeds every admissible packet size) -/
theorem C02_rt_string (r : Reader) (s : Bytes) (tag : Nat) (old : Bytes) (req : Bool) (t : Bytes)
    (htag : tag < 256) (hs : s.length < 2^32) (h : r.rest = writeString s tag ++ t) :
    readString old tag req r = (.ok s, r.adv (writeString s tag).length) := by
  unfold writeString at *
  by_cases hl : s.length > str1Max
  · rw [if_pos hl] at h ⊢
    rw [readString_string4 r tag req old s t htag hs h]
    simp [Nat.add_assoc]
  · rw [if_neg hl] at h ⊢
    have hl' : s.length < 256 := by simp only [str1Max] at hl; omega
    rw [readString_string1 r tag req old s t htag hl' h]
    simp only [List.length_append, List.length_cons, List.length_nil]

/-! ## Widening: a reader of a wider type accepts every narrower encoding with the same value -/

theorem writeInt16_eq32 (v : Int) (tag : Nat) (h : -(2:Int)^15 ≤ v ∧ v < (2:Int)^15) :
    writeInt16 v tag = writeInt32 v tag := by
  rw [writeInt16_eq64 v tag h, writeInt32_eq64 v tag (by omega)]
theorem writeInt8_eq32 (v : Int) (tag : Nat) (h : -(2:Int)^7 ≤ v ∧ v < (2:Int)^7) :
    writeInt8 v tag = writeInt32 v tag := by
  rw [writeInt8_eq64 v tag h, writeInt32_eq64 v tag (by omega)]
theorem writeInt8_eq16 (v : Int) (tag : Nat) (h : -(2:Int)^7 ≤ v ∧ v < (2:Int)^7) :
    writeInt8 v tag = writeInt16 v tag := by
  rw [writeInt8_eq64 v tag h, writeInt16_eq64 v tag (by omega)]

theorem C02_widen_8_16 (r : Reader) (v : Int) (tag : Nat) (old : Int) (req : Bool) (t : Bytes)
    (htag : tag < 256) (hv : -(2:Int)^7 ≤ v ∧ v < (2:Int)^7) (h : r.rest = writeInt8 v tag ++ t) :
    readInt16 old tag req r = (.ok v, r.adv (writeInt8 v tag).length) := by
  rw [writeInt8_eq16 v tag hv] at h ⊢; exact C02_rt_int16 r v tag old req t htag (by omega) h
theorem C02_widen_8_32 (r : Reader) (v : Int) (tag : Nat) (old : Int) (req : Bool) (t : Bytes)
    (htag : tag < 256) (hv : -(2:Int)^7 ≤ v ∧ v < (2:Int)^7) (h : r.rest = writeInt8 v tag ++ t) :
    readInt32 old tag req r = (.ok v, r.adv (writeInt8 v tag).length) := by
  rw [writeInt8_eq32 v tag hv] at h ⊢; exact C02_rt_int32 r v tag old req t htag (by omega) h
theorem C02_widen_8_64 (r : Reader) (v : Int) (tag : Nat) (old : Int) (req : Bool) (t : Bytes)
    (htag : tag < 256) (hv : -(2:Int)^7 ≤ v ∧ v < (2:Int)^7) (h : r.rest = writeInt8 v tag ++ t) :
    readInt64 old tag req r = (.ok v, r.adv (writeInt8 v tag).length) := by
  rw [writeInt8_eq64 v tag hv] at h ⊢; exact C02_rt_int64 r v tag old req t htag (by omega) h
theorem C02_widen_16_32 (r : Reader) (v : Int) (tag : Nat) (old : Int) (req : Bool) (t : Bytes)
    (htag : tag < 256) (hv : -(2:Int)^15 ≤ v ∧ v < (2:Int)^15) (h : r.rest = writeInt16 v tag ++ t) :
    readInt32 old tag req r = (.ok v, r.adv (writeInt16 v tag).length) := by
  rw [writeInt16_eq32 v tag hv] at h ⊢; exact C02_rt_int32 r v tag old req t htag (by omega) h
theorem C02_widen_16_64 (r : Reader) (v : Int) (tag : Nat) (old : Int) (req : Bool) (t : Bytes)
    (htag : tag < 256) (hv : -(2:Int)^15 ≤ v ∧ v < (2:Int)^15) (h : r.rest = writeInt16 v tag ++ t) :
    readInt64 old tag req r = (.ok v, r.adv (writeInt16 v tag).length) := by
  rw [writeInt16_eq64 v tag hv] at h ⊢; exact C02_rt_int64 r v tag old req t htag (by omega) h
theorem C02_widen_32_64 (r : Reader) (v : Int) (tag : Nat) (old : Int) (req : Bool) (t : Bytes)
    (htag : tag < 256) (hv : -(2:Int)^31 ≤ v ∧ v < (2:Int)^31) (h : r.rest = writeInt32 v tag ++ t) :
    readInt64 old tag req r = (.ok v, r.adv (writeInt32 v tag).length) := by
  rw [writeInt32_eq64 v tag hv] at h ⊢; exact C02_rt_int64 r v tag old req t htag (by omega) h

/-- a `double` reader accepts a `float` field and returns its exact widening (`widenF32` is the
    model of Go's `float64(float32)`; its agreement with the compiler is checked by
    correspondence, see DESIGN §5) -/
theorem C02_widen_float (r : Reader) (bits : Nat) (tag : Nat) (old : Nat) (req : Bool) (t : Bytes)
    (htag : tag < 256) (hv : bits < 2^32) (h : r.rest = writeFloat32 bits tag ++ t) :
    readFloat64 old tag req r = (.ok (widenF32 bits), r.adv (writeFloat32 bits tag).length) := by
  unfold writeFloat32 at *
  rw [readFloat64_float r tag req t htag old bits h, Nat.mod_eq_of_lt (by simpa using hv)]
  simp

/-- position statement shared by all round trips: after the read the reader is exactly at the
    end of the field, i.e. what remains is what followed the field -/
theorem C02_position (r : Reader) (enc t : Bytes) (h : r.rest = enc ++ t) :
    (r.adv enc.length).rest = t := r.rest_adv enc t h

/-! ## Non-vacuity: concrete instances of the hypotheses -/

example : (Reader.mk0 (writeInt64 (-129) 200 ++ [byte 7])).rest = writeInt64 (-129) 200 ++ [byte 7] := rfl
example : readInt64 5 200 true (Reader.mk0 (writeInt64 (-129) 200 ++ [byte 7]))
    = (.ok (-129), ⟨(writeInt64 (-129) 200 ++ [byte 7]).toArray, 4⟩) := by rfl
example : writeInt64 (-129) 200 = [byte 0xF1, byte 200, byte 0xFF, byte 0x7F] := by decide

end Tars
