import TarsModel.Proofs.SchemaTop
import TarsModel.Proofs.RefStrict

/-!
# C03 — Generated struct codecs: round trip, block round trip, reference agreement

Property theorems only.  Vocabulary (all in `Proofs/SchemaSpec.lean`):

* `EnvWF env rk` — well-formed schema: every struct's members have tags ≤ 255 in strictly
  ascending order, member types only mention defined structs, of strictly smaller rank `rk`
  when contained by value (a Go struct cannot contain itself by value; below a vector or map
  any defined struct may appear, so recursive types are covered; ranks ≤ `env.length`), explicit
  defaults only on scalars/enums and in range, no fixed array of `byte`/`unsigned byte` (the code
  emitted for those does not compile).
* `WT env ty v` — `v` is a Go value of type `ty`: integers in the range of their Go type, float
  bit patterns < 2^32 / 2^64, strings < 2^32 bytes, container lengths < 2^31, array length = N,
  map keys pairwise distinct under Go `==`, struct values positionally matching the schema.
  `WellTyped env rk S v := EnvWF env rk ∧ WT env (.struct S) v`.
* `norm env S v` — `v` with every optional float member that is Go-`==` to its default replaced
  by the default (nil and empty containers are already identified in the model).
* `Terminated t` — `t = []` or `t` starts with a StructEnd head.
* `TargetOK env S old` — `old` is an admissible decode target: a struct value with one member per
  declared member whose struct-typed members are again admissible targets; all other members are
  arbitrary (stale data of a reused target).  The fresh zero struct and every well-typed value
  of the struct type are admissible (`freshStruct_targetOK`, `WT.targetOK`).

All statements are for every schema, every struct of it, every well-typed value, every reader
position; nested structs, vectors, byte vectors (SimpleList), maps, fixed arrays, enums and
optional members at and away from their defaults are all covered (no `_partial`).
-/
namespace Tars
open Consts

/-! ## Full-strength statements -/

/-- round trip through `WriteTo` / `ReadFrom` into ANY admissible target (fresh or reused): since
    `ResetDefault` resets every member, stale content of the target cannot survive -/
def C03_full_roundtrip_any_target : Prop :=
  ∀ (env : Env) (rk : String → Nat) (S : String) (v old : Val) (r : Reader) (t : Bytes),
    WellTyped env rk S v → TargetOK env S old → Terminated t → r.rest = encStruct env S v ++ t →
    decStruct env S old r = (.ok (norm env S v), r.adv (encStruct env S v).length)

/-- round trip through `WriteTo` / `ReadFrom` into a fresh struct -/
def C03_full_roundtrip : Prop :=
  ∀ (env : Env) (rk : String → Nat) (S : String) (v : Val) (r : Reader) (t : Bytes),
    WellTyped env rk S v → Terminated t → r.rest = encStruct env S v ++ t →
    decStruct env S (freshStruct env S) r = (.ok (norm env S v), r.adv (encStruct env S v).length)

/-- round trip through `WriteBlock` / `ReadBlock` at any tag, required or optional, into any
    admissible target, followed by arbitrary bytes -/
def C03_full_block_any_target : Prop :=
  ∀ (env : Env) (rk : String → Nat) (S : String) (v old : Val) (tag : Nat) (req : Bool) (r : Reader)
    (t : Bytes), WellTyped env rk S v → TargetOK env S old → tag < 256 →
    r.rest = encVar env tag req (.struct S) none v ++ t →
    decVar env (decFuel env r) tag req (.struct S) old r
      = (.ok (norm env S v), r.adv (encVar env tag req (.struct S) none v).length)

/-- round trip through `WriteBlock` / `ReadBlock` at any tag, required or optional, followed by
    arbitrary bytes -/
def C03_full_block : Prop :=
  ∀ (env : Env) (rk : String → Nat) (S : String) (v : Val) (tag : Nat) (req : Bool) (r : Reader)
    (t : Bytes), WellTyped env rk S v → tag < 256 →
    r.rest = encVar env tag req (.struct S) none v ++ t →
    decVar env (decFuel env r) tag req (.struct S) (freshStruct env S) r
      = (.ok (norm env S v), r.adv (encVar env tag req (.struct S) none v).length)

/-- the bytes are a well-formed Tars encoding: the independent strict reference decoder accepts
    them and maps them back to the same value -/
def C03_full_ref : Prop :=
  ∀ (env : Env) (rk : String → Nat) (S : String) (v : Val),
    WellTyped env rk S v → Ref.decRef env S (encStruct env S v) = some (norm env S v)

/-! ## Theorems -/

/-- **C03_roundtrip_any_target.** Encoding a well-typed value of any struct type of any
    well-formed schema and decoding the bytes into ANY admissible target — fresh, or reused and
    holding arbitrary stale data — yields the (normalised) value; the reader stops exactly behind
    the encoding.  Holds at any reader position and with any `Terminated` continuation. -/
theorem C03_roundtrip_any_target : C03_full_roundtrip_any_target :=
  fun env rk S v old r t hW ho ht h => decStruct_rt_target env rk S v old r t hW ho ht h

/-- in particular a target holding any previous well-typed value of the struct type -/
theorem C03_roundtrip_reused (env : Env) (rk : String → Nat) (S : String) (v prev : Val)
    (r : Reader) (t : Bytes) (hW : WellTyped env rk S v) (hp : WT env (.struct S) prev)
    (ht : Terminated t) (h : r.rest = encStruct env S v ++ t) :
    decStruct env S prev r = (.ok (norm env S v), r.adv (encStruct env S v).length) :=
  C03_roundtrip_any_target env rk S v prev r t hW (WT.targetOK env prev S hp) ht h

/-- **C03_roundtrip** (fresh target): corollary of `C03_roundtrip_any_target`. -/
theorem C03_roundtrip : C03_full_roundtrip := fun env rk S v r t hW ht h =>
  match WT_struct_inv hW.2 with
  | ⟨_, _, hfs, _, _⟩ =>
    C03_roundtrip_any_target env rk S v _ r t hW (freshStruct_targetOK hW.1 hfs) ht h

/-- what remains after the read is exactly what followed the encoding -/
theorem C03_roundtrip_position (env : Env) (S : String) (v : Val) (r : Reader) (t : Bytes)
    (h : r.rest = encStruct env S v ++ t) : (r.adv (encStruct env S v).length).rest = t :=
  r.rest_adv _ t h

/-- **C03_block_any_target.** The same through `WriteBlock`/`ReadBlock` (what the generator emits
    for a struct-typed member, element, map value, argument or return value) at any tag, into any
    admissible target. -/
theorem C03_block_any_target : C03_full_block_any_target :=
  fun env rk S v old tag req r t hW ho htag h => block_rt_target env rk S v old tag req r t hW ho htag h

/-- **C03_block** (fresh target): corollary of `C03_block_any_target`. -/
theorem C03_block : C03_full_block := fun env rk S v tag req r t hW htag h =>
  match WT_struct_inv hW.2 with
  | ⟨_, _, hfs, _, _⟩ =>
    C03_block_any_target env rk S v _ tag req r t hW (freshStruct_targetOK hW.1 hfs) htag h

/-- **C03_ref** (= C03_wf): the bytes produced by `WriteTo` are accepted by the strict reference
    decoder — every member under its declared tag and an admissible wire type, at most once, in
    strictly ascending tag order, required members present, integers in their narrowest width,
    lengths exact, nothing after the last field — and it maps them back to the same value. -/
theorem C03_ref : C03_full_ref :=
  fun env rk S v hW => Ref.decRef_enc env rk S v hW

/-- well-formedness alone: the strict reference decoder accepts the encoding -/
theorem C03_wf (env : Env) (rk : String → Nat) (S : String) (v : Val) (hW : WellTyped env rk S v) :
    (Ref.decRef env S (encStruct env S v)).isSome = true := by
  rw [C03_ref env rk S v hW]; rfl

/-- **C03_wf, spelled out.** What acceptance by the strict reference decoder means for the encoding
    of a well-typed value: the whole byte string parses (schema-free, lengths exact, nothing left
    over) as a sequence of fields `ms` with strictly ascending tags (so each member at most once),
    every field carries a declared tag, every required member is present, and the decoded struct has
    one value per declared member.  (`Ref.decRef_strict` is the general fact for arbitrary bytes;
    admissible wire types and narrowest integer widths are enforced per field by `Ref.interp`, see
    `Ref.interpInt_strict`.) -/
theorem C03_wf_structure (env : Env) (rk : String → Nat) (S : String) (fs : List Field) (v : Val)
    (hW : WellTyped env rk S v) (hfs : env.find S = some fs) :
    ∃ ms vs, Ref.parseTop (encStruct env S v).length ((encStruct env S v).length + 2)
        (encStruct env S v) = some ms ∧
      norm env S v = .struct vs ∧ vs.length = fs.length ∧
      ms.Pairwise (fun x y => x.tag < y.tag) ∧
      (∀ m ∈ ms, ∃ f ∈ fs, f.tag = m.tag) ∧
      (∀ f ∈ fs, f.req = true → ∃ m ∈ ms, m.tag = f.tag) :=
  Ref.decRef_strict env S fs (encStruct env S v) (norm env S v) hfs (C03_ref env rk S v hW)

/-- the decoder under test and the reference decoder agree on every encoding -/
theorem C03_agree (env : Env) (rk : String → Nat) (S : String) (v : Val)
    (hW : WellTyped env rk S v) :
    (decStruct env S (freshStruct env S) (Reader.mk0 (encStruct env S v))).1
      = match Ref.decRef env S (encStruct env S v) with
        | some w => .ok w
        | none => .error .mismatch := by
  have h : (Reader.mk0 (encStruct env S v)).rest = encStruct env S v ++ [] := by
    simp [Reader.mk0, Reader.rest]
  rw [C03_roundtrip env rk S v _ [] hW (Or.inl rfl) h, C03_ref env rk S v hW]

/-! ## Non-vacuity: a schema with nesting, defaults, a vector of structs, a map to byte vectors,
    a fixed array, an extended tag; a value with −0.0 in an optional float, empty and non-empty
    containers, members at and away from their defaults -/

namespace C03Example

def env : Env := [
  ("Inner", [⟨0, true, .i32, none⟩, ⟨3, false, .str, some (.str [byte 65])⟩, ⟨5, false, .f32, none⟩,
             ⟨6, false, .enum, some (.int 2)⟩]),
  ("Outer", [⟨1, true, .struct "Inner", none⟩, ⟨2, false, .vec (.struct "Inner"), none⟩,
             ⟨4, false, .map .str (.vec .i8), none⟩, ⟨20, true, .arr 2 .u16, none⟩,
             ⟨21, false, .i64, some (.int 7)⟩, ⟨22, false, .vec .i8, none⟩, ⟨200, false, .bool, none⟩]),
  -- a recursive type: a struct may contain itself below a vector or a map
  ("Tree", [⟨0, true, .i16, none⟩, ⟨1, false, .vec (.struct "Tree"), none⟩,
            ⟨2, false, .map .u8 (.struct "Tree"), none⟩])]

def rk (s : String) : Nat := if s = "Outer" then 1 else 0

def inner1 : Val := .struct [.int 70000, .str [byte 65], .f32 (2^31), .int 2]
def inner2 : Val := .struct [.int 0, .str [], .f32 5, .int (-1)]
def v : Val := .struct [inner1, .list [inner2, inner1],
  .map [(.str [byte 1], .list [.int (-3), .int 4]), (.str [], .list [])],
  .list [.int 65535, .int 0], .int 7, .list [.int 1], .bool true]

def leaf (i : Int) : Val := .struct [.int i, .list [], .map []]
def tree : Val := .struct [.int 1, .list [leaf 2, .struct [.int 3, .list [leaf 4], .map []]],
  .map [(.int 200, leaf (-5))]]

end C03Example

open C03Example in
theorem C03_example_env_wf : EnvWF env rk := by
  intro name fs h
  simp only [env, Env.find] at h
  split at h
  · cases h
    subst_vars
    refine ⟨by decide, by simp [TagsAsc], ?_⟩
    intro f hf
    simp only [List.mem_cons, List.not_mem_nil, or_false] at hf
    rcases hf with rfl | rfl | rfl | rfl <;> simp [FieldOK, TyOK, ScalarOK, Ty.isAtom, Ty.isScalar]
  · split at h
    · cases h
      subst_vars
      refine ⟨by decide, by simp [TagsAsc], ?_⟩
      intro f hf
      simp only [List.mem_cons, List.not_mem_nil, or_false] at hf
      rcases hf with rfl | rfl | rfl | rfl | rfl | rfl | rfl <;>
        simp [FieldOK, TyOK, ScalarOK, Ty.isAtom, Ty.isScalar, env, Env.find, rk]
    · split at h
      · cases h
        subst_vars
        refine ⟨by decide, by simp [TagsAsc], ?_⟩
        intro f hf
        simp only [List.mem_cons, List.not_mem_nil, or_false] at hf
        rcases hf with rfl | rfl | rfl <;> simp [FieldOK, TyOK, env, Env.find, rk]
      · cases h

open C03Example in
theorem C03_example_v_wt : WT env (.struct "Outer") v := by
  simp [v, inner1, inner2, WT, WTm, WTs, WTp, ScalarOK, env, Env.find, KeysDistinct, keyEq]

open C03Example in
theorem C03_example_tree_wt : WT env (.struct "Tree") tree := by
  simp [tree, leaf, WT, WTm, WTs, WTp, ScalarOK, env, Env.find, KeysDistinct]

open C03Example in
/-- the hypotheses of the C03 theorems are satisfiable by non-trivial instances -/
example : WellTyped env rk "Outer" v := ⟨C03_example_env_wf, C03_example_v_wt⟩
open C03Example in
example : WellTyped env rk "Tree" tree := ⟨C03_example_env_wf, C03_example_tree_wt⟩

open C03Example in
/-- a reused target full of stale data (members of the wrong Go type included) is admissible:
    only the by-value struct skeleton matters -/
example : TargetOK env "Outer" (.struct [.struct [.str [byte 9], .int 3, .list [], .map []],
    .list [.int 1, .int 2], .int 5, .list [], .str [], .list [.int 77], .int 42]) := by
  simp [TargetOK, Ready, ReadyMembers, env, Env.find]

open C03Example in
/-- decoding into that stale target gives the same result as into a fresh one -/
example : (decStruct env "Outer" (.struct [.struct [.str [byte 9], .int 3, .list [], .map []],
      .list [.int 1, .int 2], .int 5, .list [], .str [], .list [.int 77], .int 42])
    (Reader.mk0 (encStruct env "Outer" v))).1 = .ok (norm env "Outer" v) := by
  have h : (Reader.mk0 (encStruct env "Outer" v)).rest = encStruct env "Outer" v ++ [] := by
    simp [Reader.mk0, Reader.rest]
  rw [C03_roundtrip_any_target env rk "Outer" v _ _ [] ⟨C03_example_env_wf, C03_example_v_wt⟩
    (by simp [TargetOK, Ready, ReadyMembers, env, Env.find]) (Or.inl rfl) h]

example : Terminated [] := Or.inl rfl
example : Terminated (writeHead tyStructEnd 0 ++ [byte 1, byte 2]) :=
  Or.inr ⟨0, [byte 1, byte 2], by decide, rfl⟩

open C03Example in
/-- the normal form differs from the value exactly at the optional float holding −0.0 -/
example : norm env "Outer" v = .struct [
    .struct [.int 70000, .str [byte 65], .f32 0, .int 2],
    .list [inner2, .struct [.int 70000, .str [byte 65], .f32 0, .int 2]],
    .map [(.str [byte 1], .list [.int (-3), .int 4]), (.str [], .list [])],
    .list [.int 65535, .int 0], .int 7, .list [.int 1], .bool true] := by
  simp [norm, normVar, normMembers, normElems, normPairs, v, inner1, inner2, env, Env.find, f32Eq,
    f32IsNaN]

open C03Example in
/-- the instances through the theorems -/
example : Ref.decRef env "Outer" (encStruct env "Outer" v) = some (norm env "Outer" v) :=
  C03_ref env rk "Outer" v ⟨C03_example_env_wf, C03_example_v_wt⟩

open C03Example in
example : Ref.decRef env "Tree" (encStruct env "Tree" tree) = some (norm env "Tree" tree) :=
  C03_ref env rk "Tree" tree ⟨C03_example_env_wf, C03_example_tree_wt⟩

open C03Example in
example : (decStruct env "Outer" (freshStruct env "Outer") (Reader.mk0 (encStruct env "Outer" v))).1
    = .ok (norm env "Outer" v) := by
  have h : (Reader.mk0 (encStruct env "Outer" v)).rest = encStruct env "Outer" v ++ [] := by
    simp [Reader.mk0, Reader.rest]
  rw [C03_roundtrip env rk "Outer" v _ [] ⟨C03_example_env_wf, C03_example_v_wt⟩ (Or.inl rfl) h]

open C03Example in
/-- `ReadBlock` of the recursive instance at an extended tag, followed by arbitrary bytes -/
example (t : Bytes) (r : Reader)
    (h : r.rest = encVar env 77 false (.struct "Tree") none tree ++ t) :
    decVar env (decFuel env r) 77 false (.struct "Tree") (freshStruct env "Tree") r
      = (.ok (norm env "Tree" tree), r.adv (encVar env 77 false (.struct "Tree") none tree).length) :=
  C03_block env rk "Tree" tree 77 false r t ⟨C03_example_env_wf, C03_example_tree_wt⟩ (by decide) h

/-! ### the reference decoder is strict: concrete rejections
    (`Inner`: 0 require int; 3 optional string = "A"; 5 optional float; 6 optional enum = 2) -/

open C03Example in
example : (Ref.decRef env "Inner" [byte 0x00, byte 0x01]).isSome = true := by decide
open C03Example in  -- integer not in its narrowest width (SHORT 0x0001)
example : (Ref.decRef env "Inner" [byte 0x01, byte 0x00, byte 0x01]).isNone = true := by decide
open C03Example in  -- required member missing
example : (Ref.decRef env "Inner" []).isNone = true := by decide
open C03Example in  -- unknown member (tag 1)
example : (Ref.decRef env "Inner" [byte 0x00, byte 0x01, byte 0x1c]).isNone = true := by decide
open C03Example in  -- tags not ascending (5 before 0)
example : (Ref.decRef env "Inner"
    [byte 0x54, byte 0, byte 0, byte 0, byte 1, byte 0x00, byte 0x01]).isNone = true := by decide
open C03Example in  -- member twice
example : (Ref.decRef env "Inner" [byte 0x00, byte 0x01, byte 0x00, byte 0x01]).isNone = true := by
  decide
open C03Example in  -- truncated trailing field
example : (Ref.decRef env "Inner" [byte 0x00, byte 0x01, byte 0x36]).isNone = true := by decide
open C03Example in  -- inadmissible wire type (STRING1 for an int member)
example : (Ref.decRef env "Inner" [byte 0x06, byte 0x00]).isNone = true := by decide

end Tars
