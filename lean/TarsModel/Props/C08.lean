/-
  C08 — Responses are delivered to the caller of the matching request id.

  Property theorems only; the model is `TarsModel/Model/Route.lean` (one action = one atomic
  shared-memory / channel operation of one goroutine of `genRequestID`, `TarsInvoke`, `doInvoke`,
  `AdapterProxy.Recv`, plus peer actions that emit ANY response packet at ANY time), helper lemmas
  are in `Proofs/RouteGen.lean`, `Proofs/RouteInv.lean`, `Proofs/RouteLate.lean`.
  "All interleavings" = all action lists (`Reachable`); "all peer behaviours" = the actions `emit a p`
  (arbitrary id: duplicates, ids nobody waits for, id 0, one-way typed), `garbage`, `connClose`, `drain`
  are enabled in every state.
-/
import TarsModel.Proofs.RouteLate

namespace Tars.C08
open Tars.Route

/-- The property at full strength, as a statement about the model:
    (1) every id `genRequestID` returns is non-zero, under all interleavings of its atomic steps;
    (2) no two concurrently outstanding calls of a process share an id;
    (3) every delivery to a call carries that call's id (all schedules, all peer behaviours);
    (4) a call ends with a response of its own id or with a timeout / send error, nothing else.
    (1), (3), (4) are proved below without hypotheses.  (2) cannot hold unconditionally for a 32-bit
    counter: `C08_distinct` proves it for ids with fewer than `period = 2^31 - 2` ids issued in
    between, `C08_distinct_tight` shows that this window is exact (the sequential id sequence
    2, 3, …, maxInt32, 2, … has exactly that period). -/
def C08_full : Prop :=
  ∀ (cfg : Cfg) (ctr : Int) (s : State), InRange ctr → Reachable cfg ctr s →
    (∀ v ∈ s.gen.issued, v ≠ 0) ∧
    (∀ (i j : Nat) (ci cj : Call), s.calls[i]? = some ci → s.calls[j]? = some cj → i ≠ j →
      ci.pc.hasId = true → cj.pc.hasId = true → ci.id ≠ cj.id) ∧
    (∀ (r : Nat) (x : Rcv) (i : Nat), s.rcvs[r]? = some x → x.pc = .offer i →
      ∃ c, s.calls[i]? = some c ∧ c.id = x.pkt.id) ∧
    (∀ (i : Nat) (c : Call) (p : Pkt), s.calls[i]? = some c → c.pc = .done (.reply p) → p.id = c.id)

/-- the literals of the Go code the model is written over: the CAS compares with `maxInt32` and stores
    1, the increment is 1, the skipped value and the push id are 0, the reply channel is unbuffered,
    `maxInt32 = 2^31 - 1` (re-extracted from servant.go / adapter.go on every run) -/
theorem C08_model_applicable :
    Consts.callCasOldIsMax = 1 ∧ Consts.callCasNew = 1 ∧ Consts.callAddDelta = 1 ∧
    Consts.callZeroSkip = 0 ∧ Consts.callPushId = 0 ∧ Consts.callReplyChanCap = 0 ∧
    Consts.callMaxInt32 = 2 ^ 31 - 1 ∧ period = 2 ^ 31 - 2 := by decide

/-- **C08_nonzero.** Whatever the initial counter value and however the CAS and add steps of any
    number of concurrent `genRequestID` executions interleave, every id returned is non-zero. -/
theorem C08_nonzero (ctr : Int) (h : InRange ctr) (as : List GenAct) :
    ∀ v ∈ (Gen.run ⟨ctr, []⟩ as).issued, v ≠ 0 :=
  fun v hv => ((genInv_run (genInv_start h) as).vals v hv).1

example : (Gen.run ⟨-2, []⟩ [.cas, .cas, .add, .add, .add, .add]).issued = [2, 1, -1] := by decide

/-- … and in the call-path LTS: the request id of every call that got one is non-zero (0 is
    reserved for server push), in every reachable state. -/
theorem C08_nonzero_calls {cfg : Cfg} {ctr : Int} {s : State} (hr : Reachable cfg ctr s)
    {i : Nat} {c : Call} (hc : s.calls[i]? = some c) (hid : c.pc.hasId = true) : c.id ≠ 0 :=
  ((inv_reachable hr).idl i c hc hid).1

/-- **C08_distinct.** Two ids returned with fewer than `period = 2^31 - 2` returns in between
    (positions `i < j` in the log of returned ids, `j - i < period`) are different — for every
    initial counter value and every interleaving of the atomic steps. -/
theorem C08_distinct (ctr : Int) (h : InRange ctr) (as : List GenAct) (i j : Nat) (x y : Int)
    (hij : i < j) (hd : ((j - i : Nat) : Int) < period)
    (hx : (Gen.run ⟨ctr, []⟩ as).issued[i]? = some x) (hy : (Gen.run ⟨ctr, []⟩ as).issued[j]? = some y) :
    x ≠ y :=
  (genInv_run (genInv_start h) as).distinct i j x y hij hd hx hy

example : InRange 2147483646 ∧
    -- two goroutines pass the CAS before either adds: the counter overflows to minInt32
    (Gen.run ⟨2147483646, []⟩ [.cas, .cas, .add, .add, .cas, .add]).issued =
      [-2147483647, -2147483648, 2147483647] := ⟨by unfold InRange; decide, by decide⟩

/-- The wrap-around, stated honestly: the window of `C08_distinct` is exact.  `maxInt32`
    uninterrupted executions of `genRequestID` starting from counter 1 return 2, 3, …, maxInt32, 2:
    the first and the last id are equal and exactly `period` returns apart. -/
theorem C08_distinct_tight :
    ∃ (as : List GenAct) (i j : Nat) (x : Int), ((j - i : Nat) : Int) = period ∧ i < j ∧
      (Gen.run ⟨1, []⟩ as).issued[i]? = some x ∧ (Gen.run ⟨1, []⟩ as).issued[j]? = some x := by
  refine ⟨seqActs 2147483646 ++ [.cas, .add], 0, 2147483646, 2, by decide, by decide, ?_, ?_⟩
  all_goals (
    have hrun : ∀ (g : Gen) (a b : List GenAct), g.run (a ++ b) = (g.run a).run b := by
      intro g a b
      induction a generalizing g with
      | nil => rfl
      | cons x xs ih => simp only [List.cons_append, Gen.run]; exact ih _
    rw [hrun, seq_run 2147483646 1 [] (by decide) (by decide)]
    have h1 : casStep ((1 : Int) + (2147483646 : Nat)) = 1 := by decide
    have h2 : addStep 1 = 2 := by decide
    simp only [Gen.run, Gen.step, Gen.cas, Gen.add, h1, h2, List.append_nil])
  · rfl
  · have : issues 2 = true := by decide
    simp only [this, ↓reduceIte]
    rw [List.getElem?_cons_succ]
    have := descend_last 1 2147483645 []
    simpa using this

/-- **C08_distinct for calls.** Two calls whose ids were issued fewer than `period` issues apart
    (in particular: two concurrently outstanding calls, unless 2^31 - 2 further ids are issued while
    the older one is still outstanding) have different request ids. -/
theorem C08_distinct_calls {cfg : Cfg} {ctr : Int} {s : State} (hc : InRange ctr) (hr : Reachable cfg ctr s)
    {i j : Nat} {ci cj : Call} (hi : s.calls[i]? = some ci) (hj : s.calls[j]? = some cj) (hij : i ≠ j)
    (hidi : ci.pc.hasId = true) (hidj : cj.pc.hasId = true)
    (hw : ((ci.seq : Int) - cj.seq) < period ∧ ((cj.seq : Int) - ci.seq) < period) : ci.id ≠ cj.id := by
  have hI := inv_reachable hr
  have hG := genInv_reachable hc hr
  have h1 := (hI.idl i ci hi hidi).2
  have h2 := (hI.idl j cj hj hidj).2
  have hne := hI.sqd i j ci cj hi hj hij hidi hidj
  have l1 := lt_of_getElem? h1
  have l2 := lt_of_getElem? h2
  simp only [List.length_reverse] at l1 l2
  rw [List.getElem?_reverse l1] at h1
  rw [List.getElem?_reverse l2] at h2
  by_cases hlt : ci.seq < cj.seq
  · -- cj is the more recent one: smaller index in the most-recent-first log
    have := hG.distinct (s.gen.issued.length - 1 - cj.seq) (s.gen.issued.length - 1 - ci.seq) cj.id ci.id
      (by omega) (by omega) h2 h1
    exact fun h => this h.symm
  · exact hG.distinct (s.gen.issued.length - 1 - ci.seq) (s.gen.issued.length - 1 - cj.seq) ci.id cj.id
      (by omega) (by omega) h1 h2

/-- **C08_route** (inductive invariant, all schedules, all peer behaviours).
    (a) every entry of a pending-reply table maps an id to the channel of a call that carries this id,
        was sent through this adapter and is between `resp.Store` and `resp.Delete`;
    (b) a `Recv` goroutine offering a packet on the channel of call `i` holds a packet whose id is the
        id of call `i` (never 0, never one-way typed) received on the adapter call `i` uses;
    (c) every hand-over (`deliver`) gives a waiting call a packet carrying the call's own id, sent by
        the peer of the call's own adapter, and changes nothing else but the receiver's state. -/
theorem C08_route {cfg : Cfg} {ctr : Int} {s : State} (hr : Reachable cfg ctr s) :
    (∀ e ∈ s.table, ∃ c, s.calls[e.call]? = some c ∧ c.id = e.id ∧ c.adp = e.adp ∧ c.pc.registered = true) ∧
    (∀ (r : Nat) (x : Rcv) (i : Nat), s.rcvs[r]? = some x → x.pc = .offer i →
      (∃ c, s.calls[i]? = some c ∧ c.id = x.pkt.id ∧ c.adp = x.adp) ∧ x.pkt.id ≠ 0 ∧ x.pkt.oneway = false) ∧
    (∀ (r : Nat) (s' : State), step cfg s (.deliver r) = some s' →
      ∃ (x : Rcv) (i : Nat) (c : Call), s.rcvs[r]? = some x ∧ s.calls[i]? = some c ∧ c.pc = .wait ∧
        x.pkt.id = c.id ∧ x.adp = c.adp ∧ (c.adp, x.pkt) ∈ s.emitted ∧
        s' = (s.setCall i { c with pc := .decQ (.reply x.pkt) }).setRcv r { x with pc := .delivered }) := by
  have hI := inv_reachable hr
  refine ⟨hI.tbl, ?_, ?_⟩
  · intro r x i hx hpc
    obtain ⟨⟨c, h0, h1, h2, _⟩, h3⟩ := hI.off r x i hx hpc
    exact ⟨⟨c, h0, h1, h2⟩, h3⟩
  · intro r s' hs
    obtain ⟨x, i, c, hx, hpc, hc, hw, rfl⟩ := deliver_spec hs
    obtain ⟨⟨c0, h0, h1, h2, _⟩, _⟩ := hI.off r x i hx hpc
    rw [hc] at h0; injection h0 with h0; subst h0
    exact ⟨x, i, c, hx, hc, hw, h1.symm, h2.symm, by rw [h2]; exact hI.emi r x hx, rfl⟩

/-- **C08_outcome.** A call that has returned ended with a response carrying its own request id — a
    packet the peer of its own adapter really sent, with non-zero id and not one-way typed — or with a
    timeout, a send error, "no adapter", "queue full", or (one-way request) without waiting; never
    with a response addressed to another call. -/
theorem C08_outcome {cfg : Cfg} {ctr : Int} {s : State} (hr : Reachable cfg ctr s)
    {i : Nat} {c : Call} {o : Outcome} (hc : s.calls[i]? = some c) (hd : c.pc = .done o) :
    (∃ p, o = .reply p ∧ p.id = c.id ∧ (c.adp, p) ∈ s.emitted ∧ p.id ≠ 0 ∧ p.oneway = false) ∨
    o = .timeout ∨ o = .sendErr ∨ o = .noAdapter ∨ o = .queueFull ∨ o = .onewayOk := by
  cases o with
  | reply p =>
    left
    exact ⟨p, rfl, (inv_reachable hr).rep i c p hc (by simp [hd, Pc.outcome?])⟩
  | timeout => simp
  | sendErr => simp
  | noAdapter => simp
  | queueFull => simp
  | onewayOk => simp

/-- **C08_registered.** While a call is between `resp.Store` and `resp.Delete`, the table of its
    adapter maps its id to its own channel — unless another call of the same adapter carries the same id
    (excluded by `C08_distinct_calls` for calls issued fewer than 2^31 - 2 ids apart). -/
theorem C08_registered {cfg : Cfg} {ctr : Int} {s : State} (hr : Reachable cfg ctr s)
    {i : Nat} {c : Call} (hc : s.calls[i]? = some c) (hreg : c.pc.registered = true)
    (huniq : ∀ (j : Nat) (c' : Call), j ≠ i → s.calls[j]? = some c' → c'.pc.stored = true → c'.adp = c.adp →
      c'.id ≠ c.id) : tLoad s.table c.adp c.id = some i := by
  rcases (inv_reachable hr).own i c hc hreg with h | ⟨j, c', h1, h2, h3, h4, h5⟩
  · exact h
  · exact absurd h4 (huniq j c' h1 h2 h3 h5)

/-! ### non-vacuity: a concrete schedule with two concurrent calls and a hostile peer

  Two callers share one adapter; ids 1 and 2.  The peer answers id 2 first, then sends an id nobody
  waits for (7), id 0 (push), a one-way typed packet with id 1, the answer for id 1, and a duplicate
  of it.  Both calls end with the response of their own id; the duplicate is offered to a call that
  has stopped listening and is given up. -/

def demoCfg : Cfg := ⟨1, 100, 4, 3, 3, 5⟩
def demoPar (b : Nat) : Params := ⟨false, b, none, none, b / 20⟩  -- two ServantProxy objects sharing the adapter

def demoActs : List Action :=
  [ .spawn (demoPar 10), .spawn (demoPar 20),
    .call 0 .begin, .call 1 .begin, .call 0 .cas, .call 1 .cas, .call 1 .add, .call 0 .add,
    .call 0 .pre, .call 1 .pre, .call 0 (.selectAdp (some 0)), .call 1 (.selectAdp (some 0)),
    .call 0 .gate, .call 1 .gate, .call 0 .incQ, .call 1 .incQ, .call 0 .store, .call 1 .store,
    .call 0 .lockAcq, .call 0 .dialOk, .call 1 .lockAcq, .call 0 .enqueue, .call 1 .enqueue,
    .drain 0, .drain 0,
    .emit 0 ⟨1, false, 21⟩,    -- call 1 got id 1 (it added first): answered first
    .emit 0 ⟨7, false, 99⟩, .emit 0 ⟨0, false, 98⟩, .emit 0 ⟨2, true, 97⟩,
    .emit 0 ⟨2, false, 11⟩, .emit 0 ⟨2, false, 12⟩,
    .lookup 0, .lookup 1, .lookup 2, .lookup 3, .lookup 4, .lookup 5,
    .deliver 0, .deliver 4, .giveUp 5,
    .call 0 .decQ, .call 0 .del, .call 0 .post, .call 1 .decQ, .call 1 .del, .call 1 .post ]

example : (run demoCfg (init demoCfg 0) demoActs).map
      (fun s => (s.calls.map (fun c => (c.id, c.pc)), s.rcvs.map (·.pc), s.table, s.queueLens, s.invokeNum)) =
    some ([(2, .done (.reply ⟨2, false, 11⟩)), (1, .done (.reply ⟨1, false, 21⟩))],
          [.delivered, .dropped, .pushed, .dropped, .delivered, .dropped], [], [0, 0], 0) := by decide

end Tars.C08
