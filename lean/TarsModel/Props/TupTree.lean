import TarsModel.Props.TupProps

/-!
# TUP attribute set — which shape of `UniAttribute.Decode` the tree has (C05)

`Consts.tupCountChecked` is regenerated from `/repo` on every run (`extract/tup.go`): 1 when the
entry count is validated with `Reader.CheckLength` between `ReadInt32(&length, 0, true)` and the
loop, 0 for the code as found.  The C05 clause "the work of a decode is bounded by the input"
holds for the validated shape only (`Tup_decode_total` vs `Tup_asFound_spin` in
`Props/TupProps.lean`), so this file — registered for C05 only — FAILS TO BUILD on a tree without
the validation (or with the validation reverted), and the theorems below are the statements about
the decoder of the current tree, `Tup.decode`.
-/
namespace Tars.Tup
open Tars Consts

/-- the tree the constants were extracted from validates the entry count before the loop -/
theorem Tup_current_tree_validates_count : countChecked = true := by decide

/-- `Decode` of the current tree: value or plain error, and never more loop iterations than bytes
    are left to read -/
theorem Tup_current_tree_total (m0 : TupMap) (r : Reader) :
    (∀ e, (decode m0 r).err = some e → e.isPlain = true) ∧ (decode m0 r).iters ≤ r.remaining := by
  unfold decode
  rw [Tup_current_tree_validates_count]
  exact ⟨(Tup_decode_total true m0 r).1, (Tup_decode_total true m0 r).2 rfl⟩

/-- `Decode` of the current tree rejects the witness of the spin at once -/
theorem Tup_current_tree_rejects_spin :
    (decode [] (Reader.mk0 [byte 0x08, byte 0x02, byte 0x7f, byte 0xff, byte 0xff, byte 0xff])).err = some .eof ∧
    (decode [] (Reader.mk0 [byte 0x08, byte 0x02, byte 0x7f, byte 0xff, byte 0xff, byte 0xff])).iters = 0 := by
  unfold decode
  rw [Tup_current_tree_validates_count]
  decide

end Tars.Tup
