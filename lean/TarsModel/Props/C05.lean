import TarsModel.Proofs.TotalWitness

/-!
# C05 — Decoder totality

Property theorems only (helper lemmas: `Proofs/Total*.lean`; instrumented decoders:
`Model/Cost.lean`).  Subject: the reader of `codec.go` (`Model/Wire.lean`) and the generated
struct decoders (`Model/Schema.lean`): `skipField`, `SkipToStructEnd`, `SkipToNoCheck`, and
`ReadFrom` (`decStruct`) for every schema environment, every struct, every target, every input.

* **Termination** (`C05_skip_fuel_suffices`, `C05_skip_fuel_independent`, `C05_terminates`): the
  fuel of the model is never exhausted, i.e. the fuel-indexed model describes the unbounded Go
  recursion faithfully: every recursive call / loop iteration consumes an input byte or ends.
  No hypothesis on the schema is needed (entering a nested struct consumes its StructBegin head);
  Lean's totality gives "returns a value or an error".
* **Panics** (`C05_no_panic_partial`, `C05_panic_counterexamples`, `C05_makeslice_reachable`): the
  property is VIOLATED as found (D11).  Exactly two run-time panics are possible in the
  generated decoders, each with its trigger: `makeslice` (a LIST length prefix decoding to a
  negative number reaches `make([]T, length)`) and `index` (a LIST with more elements than the
  fixed array it is decoded into).  Both are reachable: witnesses by evaluation, and a general
  sufficient condition for `makeslice`.
* **Stack** (`C05_depth_le`, `C05_depth_linear_witness`): VIOLATED (D12): the Go call depth of the
  skip recursion is bounded by the input length and this is attained: `n` bytes `0x0A` give depth
  `n`, so stack use is unbounded in the input (10 MiB of `0x0A` ⇒ fatal stack overflow).
* **Allocation** (`C05_alloc_partial`, `C05_alloc_ok`, `C05_alloc_unbounded`,
  `C05_alloc_counterexample`): VIOLATED (D11): as soon as the length prefix of a vector is read the
  decoder requests that many elements, whatever remains of the input (6 bytes ⇒ 2^31 − 1
  elements).  Under the hypothesis that every length given to `make` is covered by the remaining
  input, a successful decode allocates at most the input length, and any decode at most
  `(nest + 1)` times the input length (`nest` = deepest nesting of unfilled slices).

Not in this file: the UDP handler's `req[4:]` on datagrams shorter than 4 bytes (D9) is transport
code outside `Model/Wire.lean`/`Model/Schema.lean`.
-/
namespace Tars
open Consts

/-! ## Full-strength statement -/

/-- The property at full strength, on the model: decoding into a well-shaped target of a
    well-formed schema never panics, allocates at most a fixed multiple `k` of the input length
    (plus a constant), and uses a call depth bounded independently of the input.
    FALSE for the code as found: `C05_full_violated`. -/
def C05_full : Prop :=
  (∀ (env : Env) (name : String) (old : Val) (r : Reader), EnvClosed env → Shape env (.struct name) old →
      PlainRes (decStruct env name old r).1) ∧
  (∃ k c, k ≤ 64 ∧ ∀ (env : Env) (name : String) (old : Val) (r : Reader), EnvClosed env →
      Shape env (.struct name) old → (decStructA env name old r).2.alloc ≤ k * r.data.size + c) ∧
  (∃ D, ∀ (r : Reader), structEndDepth r ≤ D)

/-! ## Termination: the fuel is never exhausted -/

/-- `skipField`, `SkipToStructEnd`, the element loop and `SkipToNoCheck`, started with the
    model's fuel `Reader.fuel r`, return a value or a plain Go error: never the artefact `.fuel`
    (and never a panic), for every reader state and every wire type code -/
theorem C05_skip_fuel_suffices (r : Reader) :
    (∀ ty, PlainRes (skipField r.fuel ty r).1) ∧
    (∀ n, PlainRes (skipElems r.fuel n r).1) ∧
    PlainRes (skipToStructEnd r.fuel r).1 ∧
    (∀ tag req, PlainRes (skipToNoCheck tag req r).1) :=
  ⟨fun ty => skipField_fuel_nofuel ty r, fun n => skipElems_fuel_plain n r,
   skipToStructEnd_fuel_plain r, fun tag req => skipToNoCheck_nofuel tag req r⟩

theorem C05_skip_never_fuel (r : Reader) (ty tag : Nat) (req : Bool) :
    (skipField r.fuel ty r).1 ≠ .error .fuel ∧ (skipToStructEnd r.fuel r).1 ≠ .error .fuel ∧
    (skipToNoCheck tag req r).1 ≠ .error .fuel :=
  ⟨(skipField_fuel_nofuel ty r).ne_fuel, (skipToStructEnd_fuel_plain r).ne_fuel,
   (skipToNoCheck_nofuel tag req r).ne_fuel⟩

/-- fuel independence: any two amounts of fuel of at least `2·remaining + 2` give the same
    result.  (This, not merely `≠ .fuel`, is what makes the model faithful: `skipFieldList` and
    `skipFieldMap` ignore the error of the inner `skipField`, so an inner `.fuel` would be
    swallowed.) -/
theorem C05_skip_fuel_independent (f f' ty : Nat) (n : Int) (r : Reader)
    (hf : 2 * r.remaining + 2 ≤ f) (hf' : 2 * r.remaining + 2 ≤ f') :
    skipField f ty r = skipField f' ty r ∧ skipElems f n r = skipElems f' n r ∧
    skipToStructEnd f r = skipToStructEnd f' r :=
  ⟨((skip_family_fuel f).1 ty r f' hf hf').1,
   ((skip_family_fuel f).2.1 n r f' (by omega) (by omega)).1,
   ((skip_family_fuel f).2.2 r f' (by omega) (by omega)).1⟩

/-- `ReadFrom` of every struct of every environment, into any target, on any input, never
    exhausts the model's fuel `decFuel` (no well-formedness hypothesis is needed) -/
theorem C05_terminates (env : Env) (name : String) (old : Val) (r : Reader) :
    (decStruct env name old r).1 ≠ .error .fuel := by
  intro h
  rcases decStruct_cls env name old r _ h with h1 | ⟨h1, _⟩ | ⟨h1, _⟩ | h1
  · simp at h1
  · cases h1
  · cases h1
  · simp [illTyped] at h1

/-- the same for the decoders at any sufficient fuel (`W` = largest member count of `env`) -/
theorem C05_terminates_decVar (env : Env) (f tag : Nat) (req : Bool) (ty : Ty) (old : Val) (r : Reader)
    (hf : (env.width + 3) * r.remaining + 1 ≤ f) :
    (decVar env f tag req ty old r).1 ≠ .error .fuel := by
  intro h
  rcases (dec_cls env f).1 tag req ty old r hf _ h with h1 | ⟨h1, _⟩ | ⟨h1, _⟩ | h1
  · simp at h1
  · cases h1
  · cases h1
  · simp [illTyped] at h1

/-! ## Panics: exact characterisation of the sites (D11) -/

/-- Every panic of `ReadFrom` (well-formed environment, well-shaped target) is one of two, with
    its trigger: "makeslice" directly after a length prefix that decoded to a negative number, or
    "index" after a length prefix exceeding the size `n` of a fixed array occurring in the struct's
    type.  Missing for the full property: these two cases are real (next theorems). -/
theorem C05_no_panic_partial {env : Env} (hwf : EnvClosed env) {name : String} {old : Val}
    (hsh : Shape env (.struct name) old) {r r' : Reader} {s : String}
    (h : decStruct env name old r = (.error (.panic s), r')) :
    (s = "makeslice" ∧ NegLenAt r r') ∨
    (s = "index" ∧ Overlong (HasArr env (.struct name)) r r') := by
  have hc := decStruct_cls env name old r (.panic s) (by rw [h])
  have hn := decStruct_notIll hwf hsh r
  rw [h] at hc hn
  rcases hc with h1 | ⟨h1, h2⟩ | ⟨h1, h2⟩ | h1
  · simp at h1
  · simp only [Err.panic.injEq] at h1; exact .inl ⟨h1, h2⟩
  · simp only [Err.panic.injEq] at h1; exact .inr ⟨h1, h2⟩
  · exact absurd (by rw [h1]) hn

/-- outside the two triggers the decoder returns a value or a plain Go error -/
theorem C05_no_panic_outside_triggers {env : Env} (hwf : EnvClosed env) {name : String} {old : Val}
    (hsh : Shape env (.struct name) old) (r : Reader)
    (h1 : ¬ NegLenAt r (decStruct env name old r).2)
    (h2 : ¬ Overlong (HasArr env (.struct name)) r (decStruct env name old r).2) :
    PlainRes (decStruct env name old r).1 := by
  intro e he
  have hn := decStruct_notIll hwf hsh r
  rcases decStruct_cls env name old r e he with h | ⟨_, h⟩ | ⟨_, h⟩ | h
  · exact h
  · exact absurd h h1
  · exact absurd h h2
  · exact absurd (by rw [he, h]) hn

/-- a fresh target is well-shaped -/
theorem C05_fresh_shape {env : Env} (hwf : EnvClosed env) {name : String} {fs : List Field}
    (h : env.find name = some fs) : Shape env (.struct name) (freshStruct env name) :=
  shape_fresh hwf h

open C05 in
/-- **Witnesses (D11), by evaluation of the model.**  `struct V { 0 require vector<int> v; }` on
    `09 00 FF` (LIST, length −1): panic "makeslice".  `struct A { 0 require int a[3]; }` on a LIST
    of 4 elements: panic "index" after the third element. -/
theorem C05_panic_counterexamples :
    decStruct envV "V" (freshStruct envV "V") (Reader.mk0 negLenInput)
      = (.error (.panic "makeslice"), ⟨negLenInput.toArray, 3⟩) ∧
    decStruct envA "A" (freshStruct envA "A") (Reader.mk0 overlongInput)
      = (.error (.panic "index"), ⟨overlongInput.toArray, 9⟩) :=
  ⟨witness_makeslice, witness_index⟩

/-- "makeslice" is reachable in EVERY generated `ReadFrom` whose first member is a vector: a LIST
    head under that member's tag followed by a negative length -/
theorem C05_makeslice_reachable (env : Env) (name : String) (fld : Field) (fs : List Field) (e : Ty)
    (o : Val) (os : List Val) {r r1 r2 : Reader} {len : Int}
    (hfind : env.find name = some (fld :: fs)) (hty : fld.ty = .vec e)
    (hs : skipToNoCheck fld.tag fld.req r = (.ok (true, tyLIST), r1))
    (hl : readLen r1 = (.ok len, r2)) (hneg : len < 0) :
    decStruct env name (.struct (o :: os)) r = (.error (.panic "makeslice"), r2) :=
  decStruct_makeslice env name fld fs e o os hfind hty hs hl hneg

/-- hence the full property fails for the code as found -/
theorem C05_full_violated : ¬ C05_full := by
  intro ⟨h, _, _⟩
  have hp := h C05.envV "V" (freshStruct C05.envV "V") (Reader.mk0 C05.negLenInput) C05.envV_wf
    (shape_fresh C05.envV_wf C05.findV)
  rw [witness_makeslice] at hp
  simp at hp

/-! ## Stack depth (D12) -/

/-- the depth-instrumented skip family computes the original results -/
theorem C05_depth_instrument_faithful (f ty : Nat) (n : Int) (r : Reader) :
    (skipFieldD f ty r).1 = skipField f ty r ∧ (skipElemsD f n r).1 = skipElems f n r ∧
    (skipToStructEndD f r).1 = skipToStructEnd f r :=
  ⟨(skipD_eq f).1 ty r, (skipD_eq f).2.1 n r, (skipD_eq f).2.2 r⟩

/-- Go call depth (in `skipField` frames) is at most the number of remaining input bytes
    (`+ 1` for the entry frame of `skipField` itself) -/
theorem C05_depth_le (ty : Nat) (r : Reader) :
    skipDepth ty r ≤ r.remaining + 1 ∧ structEndDepth r ≤ r.remaining :=
  ⟨(skipD_le r.fuel).1 ty r, (skipD_le r.fuel).2.2 r⟩

/-- … and this is attained: `n` bytes `0x0A` (nested StructBegin) give depth exactly `n` below
    `SkipToStructEnd` and `n + 1` for `skipField(StructBegin)`.  Stack use is therefore unbounded
    in the input: no depth `D` bounds all inputs. -/
theorem C05_depth_linear_witness (n : Nat) :
    structEndDepth (Reader.mk0 (nestBytes n)) = n ∧
    skipDepth tyStructBegin (Reader.mk0 (nestBytes n)) = n + 1 ∧
    (nestBytes n).length = n :=
  ⟨structEndDepth_nest n, skipDepth_nest n, by simp [nestBytes]⟩

theorem C05_depth_unbounded : ¬ ∃ D, ∀ r : Reader, structEndDepth r ≤ D := by
  intro ⟨D, h⟩
  have := h (Reader.mk0 (nestBytes (D + 1)))
  rw [structEndDepth_nest] at this
  omega

/-! ## Allocation (D11) -/

/-- the allocation-instrumented decoders compute the original results -/
theorem C05_alloc_instrument_faithful (env : Env) (name : String) (old : Val) (r : Reader)
    (f tag : Nat) (req : Bool) (ty : Ty) :
    (decStructA env name old r).1 = decStruct env name old r ∧
    (decVarA env f tag req ty old r).1 = decVar env f tag req ty old r :=
  ⟨decStructA_eq env name old r, (decA_eq env f).1 tag req ty old r⟩

/-- a successful decode in which every length given to `make` was covered by the remaining input
    allocated (elements + string/slice bytes + map entries) no more than the input it consumed -/
theorem C05_alloc_ok (env : Env) (name : String) (old : Val) (r : Reader) (v : Val)
    (hlen : (decStructA env name old r).2.lenOK = true)
    (hok : (decStructA env name old r).1.1 = .ok v) :
    (decStructA env name old r).2.alloc + (decStructA env name old r).1.2.remaining ≤ r.remaining ∧
    (decStructA env name old r).2.alloc ≤ r.data.size := by
  have := (decStructA_bound env name old r hlen).1 v hok
  refine ⟨by omega, ?_⟩
  have : r.remaining ≤ r.data.size := by unfold Reader.remaining; omega
  omega

/-- under the same hypothesis any decode (also a failing one) allocated at most `(nest + 1)` times
    the input length, `nest` being the deepest nesting of slices allocated and not yet filled.
    Missing for the full property: the hypothesis — the generated code never compares a length
    prefix with what remains (next theorems). -/
theorem C05_alloc_partial (env : Env) (name : String) (old : Val) (r : Reader)
    (hlen : (decStructA env name old r).2.lenOK = true) :
    (decStructA env name old r).2.alloc ≤ ((decStructA env name old r).2.nest + 1) * r.data.size := by
  have hb := decStructA_bound env name old r hlen
  have hr : r.remaining ≤ r.data.size := by unfold Reader.remaining; omega
  have hm := Nat.mul_le_mul (Nat.le_refl (decStructA env name old r).2.nest) hr
  rw [Nat.add_mul, Nat.one_mul]
  cases hx : (decStructA env name old r).1.1 with
  | ok v => have := hb.1 v hx; omega
  | error e => have := hb.2 e hx; omega

/-- **Unbounded allocation** is reachable in EVERY generated `ReadFrom` whose first member is a
    vector: after a LIST head and a length prefix `len ≥ 0` the decoder requests `len` elements,
    whatever remains of the input -/
theorem C05_alloc_unbounded (env : Env) (name : String) (fld : Field) (fs : List Field) (e : Ty)
    (o : Val) (os : List Val) {r r1 r2 : Reader} {len : Int}
    (hfind : env.find name = some (fld :: fs)) (hty : fld.ty = .vec e)
    (hs : skipToNoCheck fld.tag fld.req r = (.ok (true, tyLIST), r1))
    (hl : readLen r1 = (.ok len, r2)) (hpos : 0 ≤ len) :
    len.toNat ≤ (decStructA env name (.struct (o :: os)) r).2.alloc :=
  decStructA_vec_alloc env name fld fs e o os hfind hty hs hl hpos

open C05 in
/-- **Witness (D11)**: the 6-byte input `09 02 7F FF FF FF` makes `struct V { vector<int> v; }`
    request 2^31 − 1 elements (8 GiB for `[]int32`) -/
theorem C05_alloc_counterexample :
    hugeLenInput.length = 6 ∧
    2147483647 ≤ (decStructA envV "V" (freshStruct envV "V") (Reader.mk0 hugeLenInput)).2.alloc := by
  refine ⟨rfl, ?_⟩
  rw [freshV]
  exact decStructA_vec_alloc envV "V" ⟨0, true, .vec .i32, none⟩ [] .i32 (.list []) []
    (r1 := ⟨hugeLenInput.toArray, 1⟩) (r2 := ⟨hugeLenInput.toArray, 6⟩) (len := 2147483647)
    findV rfl (by rfl) hugeLen_readLen (by decide)

/-! ## Non-vacuity -/

-- well-formed environments and well-shaped (fresh) targets exist
example : EnvClosed C05.envV := C05.envV_wf
example : EnvClosed C05.envA := C05.envA_wf
example : Shape C05.envV (.struct "V") (freshStruct C05.envV "V") := shape_fresh C05.envV_wf C05.findV
example : Shape C05.envA (.struct "A") (freshStruct C05.envA "A") := shape_fresh C05.envA_wf C05.findA
-- the triggers of `C05_no_panic_partial` hold on the witnesses
example : NegLenAt (Reader.mk0 C05.negLenInput) ⟨C05.negLenInput.toArray, 3⟩ :=
  ⟨⟨C05.negLenInput.toArray, 1⟩, -1, ⟨rfl, by decide⟩, by rfl, by decide⟩
example : HasArr C05.envA (.struct "A") 3 :=
  HasArr.struct C05.findA List.mem_cons_self (HasArr.here 3 .i32)
-- hypotheses of `C05_alloc_ok` (lenOK, success) on a valid encoding: 2 elements allocated, 7 bytes
example : (decStructA C05.envV "V" (freshStruct C05.envV "V") (Reader.mk0 C05.twoInts)).2.lenOK = true := by
  rw [C05.twoInts_cost]
example : (decStructA C05.envV "V" (freshStruct C05.envV "V") (Reader.mk0 C05.twoInts)).1.1
    = .ok (.struct [.list [.int 1, .int 2]]) := by
  rw [C05.twoInts_cost]
example : (decStructA C05.envV "V" (freshStruct C05.envV "V") (Reader.mk0 C05.twoInts)).2.alloc = 2 := by
  rw [C05.twoInts_cost]
-- hypotheses of `C05_skip_fuel_independent`: the model's own fuel qualifies
example (r : Reader) : 2 * r.remaining + 2 ≤ r.fuel := by
  unfold Reader.fuel Reader.remaining; omega
-- hypotheses of `C05_makeslice_reachable` / `C05_alloc_unbounded` on the witnesses
example : skipToNoCheck 0 true (Reader.mk0 C05.hugeLenInput)
    = (.ok (true, tyLIST), ⟨C05.hugeLenInput.toArray, 1⟩) := by rfl
example : readLen ⟨C05.hugeLenInput.toArray, 1⟩ = (.ok 2147483647, ⟨C05.hugeLenInput.toArray, 6⟩) :=
  C05.hugeLen_readLen
-- depth witness, small instance by evaluation
example : structEndDepth (Reader.mk0 (nestBytes 5)) = 5 := by rfl

end Tars
