import TarsModel.Proofs.TotalWitness
import TarsModel.Model.SkipIter
import TarsModel.Proofs.SkipIterSim

/-!
# C05 — Decoder totality

Property theorems only (helper lemmas: `Proofs/Total*.lean`; instrumented decoders:
`Model/Cost.lean`).  Subject: the reader of `codec.go` (`Model/Wire.lean`) and the generated
struct decoders (`Model/Schema.lean`) as they are after the fixes for D8 and D11 (`CheckLength`
before every `make`, length guard before the array loop): `skipField`, `SkipToStructEnd`,
`SkipToNoCheck`, and `ReadFrom` (`decStruct`) for every schema environment, every struct, every
target, every input.

* **Termination** (`C05_skip_fuel_suffices`, `C05_skip_fuel_independent`, `C05_terminates`): the
  fuel of the model is never exhausted, i.e. the fuel-indexed model describes the unbounded Go
  recursion faithfully: every recursive call / loop iteration consumes an input byte or ends.
  No hypothesis on the schema is needed (entering a nested struct consumes its StructBegin head);
  Lean's totality gives "returns a value or an error".
* **Panics** (`C05_no_panic`, `C05_no_go_panic`): HOLDS at full strength: `ReadFrom` into a
  well-shaped target of a closed environment returns a value or a plain Go error, never a
  run-time panic.  The former D11 sites are kept as theorems about the as-found code
  (`C05_panic_counterexamples_asFound`), with the same inputs now rejected
  (`C05_former_witnesses_rejected`).
* **Allocation** (`C05_alloc_ok`, `C05_alloc`): HOLDS without hypothesis: every `make` follows a
  successful `CheckLength`, a successful decode allocates (elements + string/slice bytes + map
  entries) at most what it consumed, and any decode at most `(nest + 1)` times the input length
  (`nest` = deepest nesting of unfilled slices).  As found, 6 bytes requested 2^31 − 1 elements
  (`C05_alloc_counterexample_asFound`).
* **Stack** (D12 fixed, commit f252a72): `skipField`/`SkipToStructEnd` are now a loop over an
  explicit stack (`Model/SkipIter.lean`), whose recursive predecessor (`Model/Wire.lean`) remains
  the SPECIFICATION.  `C05_full` asks that the explicit stack never holds more than
  `remaining + 1` entries (heap, linear in the input); that bound (`SkipStackBounded`) is being
  proved with the equivalence `skipFieldIter = skipField` in `Proofs/SkipIter*.lean`, and
  `C05_full_of_stack_bound` derives `C05_full` from it.  The theorems `C05_depth_*_asFound` are
  about the recursion depth of the specification = the Go call depth of the code AS FOUND: bounded
  by the input length and attained (`n` bytes `0x0A` give depth `n`), which is the documented D12
  (10 MiB of `0x0A` ⇒ fatal stack overflow before the fix).

Not in this file: the UDP handler's `req[4:]` on datagrams shorter than 4 bytes (D9) is transport
code outside `Model/Wire.lean`/`Model/Schema.lean`.
-/
namespace Tars
open Consts

/-! ## Full-strength statement -/

/-- the part of the property about values: no panic, allocation linear in the input -/
def C05_decode_safe : Prop :=
  ∀ (env : Env) (name : String) (old : Val) (r : Reader), EnvClosed env → Shape env (.struct name) old →
    PlainRes (decStruct env name old r).1 ∧
    (decStructA env name old r).2.alloc ≤ ((decStructA env name old r).2.nest + 1) * r.data.size ∧
    (∀ v, (decStructA env name old r).1.1 = .ok v → (decStructA env name old r).2.alloc ≤ r.data.size)

/-- the explicit stack of the iterative `skipField` (heap, not goroutine stack) never holds more
    than one entry per remaining input byte, plus one -/
def SkipStackBounded : Prop :=
  ∀ (ty : Nat) (r : Reader), maxStackFields r.iterFuel ty [] r ≤ r.remaining + 1

/-- The property at full strength, on the model of the code as it is: `C05_decode_safe`
    (proved: `C05_decode_safe_holds`), and skipping uses no call stack but an explicit stack
    bounded linearly by the input (`C05_full_of_stack_bound`). -/
def C05_full : Prop :=
  C05_decode_safe ∧ SkipStackBounded

/-! ## Termination: the fuel is never exhausted -/

/-- `skipField`, `SkipToStructEnd`, the element loop and `SkipToNoCheck`, started with the
    model's fuel `Reader.fuel r`, return a value or a plain Go error: never the artefact `.fuel`
    (and never a panic), for every reader state and every wire type code -/
theorem C05_skip_fuel_suffices (r : Reader) :
    (∀ ty, PlainRes (skipField r.fuel ty r).1) ∧
    (∀ n, PlainRes (skipElems r.fuel n r).1) ∧
    PlainRes (skipToStructEnd r.fuel r).1 ∧
    (∀ tag req, PlainRes (skipToNoCheck tag req r).1) :=
  ⟨fun ty => skipField_fuel_nofuel ty r, fun n => skipElems_fuel_plain n r,
   skipToStructEnd_fuel_plain r, fun tag req => skipToNoCheck_nofuel tag req r⟩

theorem C05_skip_never_fuel (r : Reader) (ty tag : Nat) (req : Bool) :
    (skipField r.fuel ty r).1 ≠ .error .fuel ∧ (skipToStructEnd r.fuel r).1 ≠ .error .fuel ∧
    (skipToNoCheck tag req r).1 ≠ .error .fuel :=
  ⟨(skipField_fuel_nofuel ty r).ne_fuel, (skipToStructEnd_fuel_plain r).ne_fuel,
   (skipToNoCheck_nofuel tag req r).ne_fuel⟩

/-- fuel independence: any two amounts of fuel of at least `2·remaining + 2` give the same
    result.  (This, not merely `≠ .fuel`, is what makes the model faithful: `skipFieldList` and
    `skipFieldMap` ignore the error of the inner `skipField`, so an inner `.fuel` would be
    swallowed.) -/
theorem C05_skip_fuel_independent (f f' ty : Nat) (n : Int) (r : Reader)
    (hf : 2 * r.remaining + 2 ≤ f) (hf' : 2 * r.remaining + 2 ≤ f') :
    skipField f ty r = skipField f' ty r ∧ skipElems f n r = skipElems f' n r ∧
    skipToStructEnd f r = skipToStructEnd f' r :=
  ⟨((skip_family_fuel f).1 ty r f' hf hf').1,
   ((skip_family_fuel f).2.1 n r f' (by omega) (by omega)).1,
   ((skip_family_fuel f).2.2 r f' (by omega) (by omega)).1⟩

/-- `ReadFrom` of every struct of every environment, into any target, on any input, never
    exhausts the model's fuel `decFuel` (no well-formedness hypothesis is needed) -/
theorem C05_terminates (env : Env) (name : String) (old : Val) (r : Reader) :
    (decStruct env name old r).1 ≠ .error .fuel := by
  intro h
  rcases decStruct_cls env name old r _ h with h1 | h1
  · simp at h1
  · simp [illTyped] at h1

/-- the same for the decoders at any sufficient fuel (`W` = largest member count of `env`) -/
theorem C05_terminates_decVar (env : Env) (f tag : Nat) (req : Bool) (ty : Ty) (old : Val) (r : Reader)
    (hf : (env.width + 3) * r.remaining + 1 ≤ f) :
    (decVar env f tag req ty old r).1 ≠ .error .fuel := by
  intro h
  rcases (dec_cls env f).1 tag req ty old r hf _ h with h1 | h1
  · simp at h1
  · simp [illTyped] at h1

/-! ## Panics: none (D11 fixed) -/

/-- **No panic, full strength.**  `ReadFrom` of any struct of a closed environment into a
    well-shaped target (e.g. a fresh one, `C05_fresh_shape`), on any input, returns a value or a
    plain Go error: never a run-time panic (and never the model artefact `.fuel`). -/
theorem C05_no_panic {env : Env} (hwf : EnvClosed env) {name : String} {old : Val}
    (hsh : Shape env (.struct name) old) (r : Reader) :
    PlainRes (decStruct env name old r).1 := by
  intro e he
  rcases decStruct_cls env name old r e he with h | h
  · exact h
  · exact absurd (by rw [he, h]) (decStruct_notIll hwf hsh r)

theorem C05_no_panic' {env : Env} (hwf : EnvClosed env) {name : String} {old : Val}
    (hsh : Shape env (.struct name) old) (r : Reader) (s : String) :
    (decStruct env name old r).1 ≠ .error (.panic s) :=
  (C05_no_panic hwf hsh r).ne_panic s

/-- without any hypothesis on environment and target: the only panic-tagged outcome of the model
    is its own "ill-typed target" marker (which is not a behaviour of the Go code, whose targets
    are well-typed by construction) -/
theorem C05_no_go_panic (env : Env) (name : String) (old : Val) (r : Reader) (s : String)
    (h : (decStruct env name old r).1 = .error (.panic s)) : Err.panic s = illTyped := by
  rcases decStruct_cls env name old r _ h with h1 | h1
  · simp at h1
  · exact h1

/-- the same for every member/element decoder at sufficient fuel -/
theorem C05_no_go_panic_decVar (env : Env) (f tag : Nat) (req : Bool) (ty : Ty) (old : Val) (r : Reader)
    (hf : (env.width + 3) * r.remaining + 1 ≤ f) (s : String)
    (h : (decVar env f tag req ty old r).1 = .error (.panic s)) : Err.panic s = illTyped := by
  rcases (dec_cls env f).1 tag req ty old r hf _ h with h1 | h1
  · simp at h1
  · exact h1

/-- `ReadBytes` (TUP) no longer panics on a negative length -/
theorem C05_readBytes_no_panic (len : Int) (r : Reader) : PlainRes (readBytes len r).1 :=
  readBytes_plain len r

/-- a fresh target is well-shaped -/
theorem C05_fresh_shape {env : Env} (hwf : EnvClosed env) {name : String} {fs : List Field}
    (h : env.find name = some fs) : Shape env (.struct name) (freshStruct env name) :=
  shape_fresh hwf h

open C05 in
/-- **D11 as found** (before fix 040488e), by evaluation of the as-found vector head / array loop
    kept in `Model/Cost.lean`: `09 00 FF` (LIST, length −1) made `make([]T, -1)` panic; a LIST of
    4 elements decoded into `int a[3]` panicked with "index out of range" after the third. -/
theorem C05_panic_counterexamples_asFound :
    AsFound.vecMake 0 true (Reader.mk0 negLenInput)
      = (.error (.panic "makeslice"), ⟨negLenInput.toArray, 3⟩) ∧
    AsFound.arrLoop envA 50 .i32 3 [.int 0, .int 0, .int 0] ⟨overlongInput.toArray, 1⟩
      = (.error (.panic "index"), ⟨overlongInput.toArray, 9⟩) :=
  ⟨asFound_makeslice, asFound_index⟩

open C05 in
/-- the same inputs (and the former allocation witness) on the current model: plain errors,
    raised directly after the length prefix -/
theorem C05_former_witnesses_rejected :
    decStruct envV "V" (freshStruct envV "V") (Reader.mk0 negLenInput)
      = (.error .eof, ⟨negLenInput.toArray, 3⟩) ∧
    decStruct envA "A" (freshStruct envA "A") (Reader.mk0 overlongInput)
      = (.error .mismatch, ⟨overlongInput.toArray, 3⟩) ∧
    decStruct envV "V" (freshStruct envV "V") (Reader.mk0 hugeLenInput)
      = (.error .eof, ⟨hugeLenInput.toArray, 6⟩) :=
  ⟨repaired_negLen, repaired_overlong, repaired_hugeLen⟩

/-- general form: a vector member whose length prefix is negative or exceeds the bytes left is
    rejected before anything is allocated; an array member receiving too long a LIST likewise -/
theorem C05_bad_length_rejected (env : Env) (f tag : Nat) (req : Bool) (e : Ty) (old : Val) (n : Nat)
    {r r1 r2 : Reader} {len : Int}
    (hs : skipToNoCheck tag req r = (.ok (true, tyLIST), r1)) (hl : readLen r1 = (.ok len, r2)) :
    ((len < 0 ∨ (r2.remaining : Int) < len) →
      decVar env (f+1) tag req (.vec e) old r = (.error .eof, r2)) ∧
    (len > (n : Int) → decVar env (f+1) tag req (.arr n e) old r = (.error .mismatch, r2)) :=
  ⟨fun h => decVar_vec_checkfail env f tag req e old hs hl h,
   fun h => decVar_arr_toolong env f tag req n e old hs hl h⟩

/-! ## Recursion depth of the specification = call depth of the code as found (D12) -/

/-- the depth-instrumented skip family computes the original results -/
theorem C05_depth_instrument_faithful_asFound (f ty : Nat) (n : Int) (r : Reader) :
    (skipFieldD f ty r).1 = skipField f ty r ∧ (skipElemsD f n r).1 = skipElems f n r ∧
    (skipToStructEndD f r).1 = skipToStructEnd f r :=
  ⟨(skipD_eq f).1 ty r, (skipD_eq f).2.1 n r, (skipD_eq f).2.2 r⟩

/-- Go call depth (in `skipField` frames) is at most the number of remaining input bytes
    (`+ 1` for the entry frame of `skipField` itself) -/
theorem C05_depth_le_asFound (ty : Nat) (r : Reader) :
    skipDepth ty r ≤ r.remaining + 1 ∧ structEndDepth r ≤ r.remaining :=
  ⟨(skipD_le r.fuel).1 ty r, (skipD_le r.fuel).2.2 r⟩

/-- … and this is attained: `n` bytes `0x0A` (nested StructBegin) give depth exactly `n` below
    `SkipToStructEnd` and `n + 1` for `skipField(StructBegin)`.  Stack use of the code as found was therefore unbounded
    in the input: no depth `D` bounds all inputs. -/
theorem C05_depth_linear_witness_asFound (n : Nat) :
    structEndDepth (Reader.mk0 (nestBytes n)) = n ∧
    skipDepth tyStructBegin (Reader.mk0 (nestBytes n)) = n + 1 ∧
    (nestBytes n).length = n :=
  ⟨structEndDepth_nest n, skipDepth_nest n, by simp [nestBytes]⟩

theorem C05_depth_unbounded_asFound : ¬ ∃ D, ∀ r : Reader, structEndDepth r ≤ D := by
  intro ⟨D, h⟩
  have := h (Reader.mk0 (nestBytes (D + 1)))
  rw [structEndDepth_nest] at this
  omega


/-! ## Allocation (D11 fixed) -/

/-- the allocation-instrumented decoders compute the original results -/
theorem C05_alloc_instrument_faithful (env : Env) (name : String) (old : Val) (r : Reader)
    (f tag : Nat) (req : Bool) (ty : Ty) :
    (decStructA env name old r).1 = decStruct env name old r ∧
    (decVarA env f tag req ty old r).1 = decVar env f tag req ty old r :=
  ⟨decStructA_eq env name old r, (decA_eq env f).1 tag req ty old r⟩

/-- a successful decode allocated (elements + string/slice bytes + map entries) no more than the
    input it consumed — no hypothesis -/
theorem C05_alloc_ok (env : Env) (name : String) (old : Val) (r : Reader) (v : Val)
    (hok : (decStructA env name old r).1.1 = .ok v) :
    (decStructA env name old r).2.alloc + (decStructA env name old r).1.2.remaining ≤ r.remaining ∧
    (decStructA env name old r).2.alloc ≤ r.data.size := by
  have := (decStructA_bound env name old r).1 v hok
  refine ⟨by omega, ?_⟩
  have : r.remaining ≤ r.data.size := by unfold Reader.remaining; omega
  omega

/-- any decode (also a failing one) allocated at most `(nest + 1)` times the input length, `nest`
    being the deepest nesting of slices allocated and not yet filled — no hypothesis.
    (`nest` is at most the nesting depth of vector types for a non-recursive schema; for a schema
    that is recursive through vectors it can grow with the input, giving a quadratic bound.) -/
theorem C05_alloc (env : Env) (name : String) (old : Val) (r : Reader) :
    (decStructA env name old r).2.alloc ≤ ((decStructA env name old r).2.nest + 1) * r.data.size := by
  have hb := decStructA_bound env name old r
  have hr : r.remaining ≤ r.data.size := by unfold Reader.remaining; omega
  have hm := Nat.mul_le_mul (Nat.le_refl (decStructA env name old r).2.nest) hr
  rw [Nat.add_mul, Nat.one_mul]
  cases hx : (decStructA env name old r).1.1 with
  | ok v => have := hb.1 v hx; omega
  | error e => have := hb.2 e hx; omega

open C05 in
/-- **D11 as found**: on the 6-byte input `09 02 7F FF FF FF` the vector head handed
    2^31 − 1 to `make` (8 GiB for `[]int32`) without looking at what remains -/
theorem C05_alloc_counterexample_asFound :
    hugeLenInput.length = 6 ∧
    AsFound.vecMake 0 true (Reader.mk0 hugeLenInput) = (.ok 2147483647, ⟨hugeLenInput.toArray, 6⟩) :=
  ⟨rfl, asFound_hugeMake⟩

/-! ## The full property -/

theorem C05_decode_safe_holds : C05_decode_safe := by
  intro env name old r hwf hsh
  exact ⟨C05_no_panic hwf hsh r, C05_alloc env name old r,
    fun v hv => (C05_alloc_ok env name old r v hv).2⟩

/-- `C05_full` from the stack bound of the iterative skip (to be discharged by
    `skipIter_stack_bound` of `Proofs/SkipIter*.lean`: then `C05_full` is unconditional) -/
theorem C05_full_of_stack_bound (h : SkipStackBounded) : C05_full :=
  ⟨C05_decode_safe_holds, h⟩

/-- the stack bound of the iterative skip (`Proofs/SkipIterSim.lean`, invariant `SkipIter.stack_bound`) -/
theorem C05_skip_stack_bounded : SkipStackBounded := by
  intro ty r
  have h := (SkipIter.stack_bound r.iterFuel).1 ty [] r
  simpa using h

/-- **C05 in full, on the current tree** (D11 and D12 repaired): unconditional -/
theorem C05_full_holds : C05_full := C05_full_of_stack_bound C05_skip_stack_bounded

/-- the loop of the current code computes the recursive specification all other C05 theorems are
    stated over (proved in `Proofs/SkipIterSim.lean`), and never exhausts its fuel -/
theorem C05_skip_iter_is_spec (ty : Nat) (r : Reader) :
    skipFieldIter ty r = skipField r.fuel ty r ∧ skipToStructEndIter r = skipToStructEnd r.fuel r :=
  ⟨SkipIter.skipFieldIter_eq ty r, SkipIter.skipToStructEndIter_eq r⟩

/-! ## Non-vacuity -/

-- closed environments and well-shaped (fresh) targets exist
example : EnvClosed C05.envV := C05.envV_wf
example : EnvClosed C05.envA := C05.envA_wf
example : Shape C05.envV (.struct "V") (freshStruct C05.envV "V") := shape_fresh C05.envV_wf C05.findV
example : Shape C05.envA (.struct "A") (freshStruct C05.envA "A") := shape_fresh C05.envA_wf C05.findA
-- a successful decode with non-zero allocation (hypothesis of `C05_alloc_ok`): 2 elements, 7 bytes
example : (decStructA C05.envV "V" (freshStruct C05.envV "V") (Reader.mk0 C05.twoInts)).1.1
    = .ok (.struct [.list [.int 1, .int 2]]) := by
  rw [C05.twoInts_cost]
example : (decStructA C05.envV "V" (freshStruct C05.envV "V") (Reader.mk0 C05.twoInts)).2 = ⟨2, 1⟩ := by
  rw [C05.twoInts_cost]
-- hypotheses of `C05_skip_fuel_independent`: the model's own fuel qualifies
example (r : Reader) : 2 * r.remaining + 2 ≤ r.fuel := by
  unfold Reader.fuel Reader.remaining; omega
-- hypotheses of `C05_bad_length_rejected` on the former witnesses
example : skipToNoCheck 0 true (Reader.mk0 C05.hugeLenInput)
    = (.ok (true, tyLIST), ⟨C05.hugeLenInput.toArray, 1⟩) := by rfl
example : readLen ⟨C05.hugeLenInput.toArray, 1⟩ = (.ok 2147483647, ⟨C05.hugeLenInput.toArray, 6⟩) :=
  C05.hugeLen_readLen
-- the stack bound on the former D12 witness, small instance by evaluation: 5 nested StructBegin
example : maxStackFields (Reader.mk0 (nestBytes 5)).iterFuel tyStructBegin [] (Reader.mk0 (nestBytes 5))
    ≤ (Reader.mk0 (nestBytes 5)).remaining + 1 := by decide
-- depth witness, small instance by evaluation
example : structEndDepth (Reader.mk0 (nestBytes 5)) = 5 := by rfl

end Tars
