import TarsModel.Proofs.ShortDec
import TarsModel.Proofs.ShortCut
import TarsModel.Proofs.ShortTop
import TarsModel.Model.AsFoundRead

/-!
# C06 — Truncated or mistyped input

Property theorems only (helper lemmas: `Proofs/ShortRead.lean`, `Proofs/ShortDec.lean`,
`Proofs/Total*.lean`).

The model in `Model/Wire.lean` is the REPAIRED `codec.go` (fix of defect D8: `io.ReadFull` in
`bReadU16/32/64`, `ReadSliceInt8/Uint8`, `ReadBytes`; length check after `Next` in `ReadString`).
On it the reader-level clauses hold at full strength:

* `C06_no_overread_*`   a successful `ReadX` either did not find the (optional) field and kept the
  old value, or found a head of an admissible wire type followed by its COMPLETE payload inside the
  input, consumed exactly that, and returned the value those bytes determine.  In particular the
  position after a successful found read never exceeds the input length, and there are no partial
  strings, zero-padded numbers or zero-filled buffers.
* `C06_prim_*`          the same for the primitives (`bReadU n`, `nextExact`, `readSlice8`,
  `readBytes`): this is the specification the D8 fix had to meet.
* `C06_mistyped_*`      declared type × wire type matrix: a present field of an inadmissible wire
  type is rejected with `.mismatch` (for every tag, whatever follows), for the scalar readers and
  for vector / array / map / struct members of the generated decoders.
* `C06_shortread_counterexamples`  the three D8 witnesses, about the AS-FOUND primitives kept in
  `Model/WireAsFound.lean` / `Model/AsFoundRead.lean`; `C06_shortread_repaired` the same inputs on the
  current model; `C06_asFound_*` the exact relation (agree outside `0 < remaining < n`, differ
  inside).

Struct level (first sentence of the property: "when a valid encoding is cut short … decoding fails
with an error, or succeeds only with exactly the value determined by the complete fields that are
present (later optional fields at their defaults)"):

* `C06_prefix_full_holds : C06_prefix_full`   for every well-formed schema, every struct, every
  well-typed value and EVERY prefix `p` of its encoding, `ReadFrom` into a fresh struct returns an
  error, or: `k` members have their complete field inside `p`, `p` ends exactly there or one byte
  later with the first byte of a two-byte head (tag ≥ 15; a head that cannot be completely read is
  not a complete field and the generated code treats the member as absent), all members from `k`
  on are optional, and the result is exactly the (normalised) values of the first `k` members
  followed by what `ResetDefault` gives the others (`C06_prefix_absent_default`: `defaultOf`).
* `C06_member_cut`      the member-level statement behind it, for every member kind (scalars,
  strings, vectors, byte vectors, fixed arrays, maps, nested structs, arbitrarily nested): on a
  strict prefix of the member's field the generated read reports an error, or — only for an
  optional member whose head is not complete — treats the member as absent with the input used up.
* `C06_prefix_error_unless_boundary`  any prefix that does not end at (or one half-head byte
  after) a member boundary ⇒ error: no partial string, no zero-padded number, no short vector.
* `C06_prefix_struct` / `C06_prefix_atoms` / `C06_prefix_cut_error` / `C06_prefix_boundary_ok`
  (earlier layers, kept): admissible cuts `CutOK` with the sharper outcome `PrefixOutcome` (cut
  exactly at a boundary), error off the boundaries, success at a boundary.
-/
namespace Tars
open Consts

/-! ## Struct level: `ReadFrom` on a cut encoding -/

/-- what `ReadFrom` into a fresh struct may do on the cut encoding `p` of the struct value `vs`:
    report an error, or — the cut being exactly behind member `k`, all later members optional —
    return exactly the values of the members before `k` (in the round-trip normal form of C03) and,
    for the others, what `ResetDefault` gave them -/
def PrefixOutcome (env : Env) (S : String) (fs : List Field) (vs : List Val) (p : Bytes) : Prop :=
  (∃ e r', decStruct env S (freshStruct env S) (Reader.mk0 p) = (.error e, r')) ∨
  (∃ k r' os, freshStruct env S = .struct os ∧ k ≤ fs.length ∧
    p = encMembers env (fs.take k) (vs.take k) ∧ (∀ f ∈ fs.drop k, f.req = false) ∧
    decStruct env S (freshStruct env S) (Reader.mk0 p) =
      (.ok (.struct (normMembers env (fs.take k) (vs.take k) ++
        absentVals env (decFuel env (Reader.mk0 p) - k) (fs.drop k)
          ((resetDefault env (decFuel env (Reader.mk0 p)) fs os).drop k))), r'))

/-- the outcome for an arbitrary prefix: as `PrefixOutcome`, with `k` = number of members whose
    complete field lies inside `p`; `p` ends exactly behind them, or one byte later with the first
    byte of a two-byte head (`CutAt`), which is not a complete field -/
def PrefixOutcomeGen (env : Env) (S : String) (fs : List Field) (vs : List Val) (p : Bytes) : Prop :=
  (∃ e r', decStruct env S (freshStruct env S) (Reader.mk0 p) = (.error e, r')) ∨
  (∃ k r' os, freshStruct env S = .struct os ∧ k ≤ fs.length ∧
    CutAt p (encMembers env (fs.take k) (vs.take k)) ∧ (∀ f ∈ fs.drop k, f.req = false) ∧
    decStruct env S (freshStruct env S) (Reader.mk0 p) =
      (.ok (.struct (normMembers env (fs.take k) (vs.take k) ++
        absentVals env (decFuel env (Reader.mk0 p) - k) (fs.drop k)
          ((resetDefault env (decFuel env (Reader.mk0 p)) fs os).drop k))), r'))

/-- Prefix law at full strength: for EVERY prefix of the encoding of every well-typed value of
    every struct of every well-formed schema (`C06_prefix_full_holds`) -/
def C06_prefix_full : Prop :=
  ∀ (env : Env) (rk : String → Nat) (S : String) (fs : List Field) (vs : List Val) (p : Bytes),
    WellTyped env rk S (.struct vs) → env.find S = some fs →
    p <+: encStruct env S (.struct vs) → PrefixOutcomeGen env S fs vs p

/-- **C06_prefix_full_holds** -/
theorem C06_prefix_full_holds : C06_prefix_full := by
  intro env rk S fs vs p hW hfs hp
  simp only [encStruct, hfs] at hp
  exact decStruct_prefix env rk S fs vs p hW hfs hp

/-- **C06_member_cut** (every member kind, by induction over the value): the generated read of a
    member/element holding `v`, on a strict prefix `q` of its field with nothing behind it, reports
    an error — or, only if the member is optional and `q` does not even hold the complete head
    (`q` empty or the first byte of a two-byte head), treats the member as absent, the input
    being used up -/
theorem C06_member_cut (env : Env) (rk : String → Nat) (hE : EnvWF env rk) (v : Val)
    (fuel tag : Nat) (req : Bool) (ty : Ty) (dflt : Option Val) (old : Val) (r : Reader) (q : Bytes)
    (htag : tag < 256) (hty : TyOK env rk (env.length + 1) ty) (hd : DfltOK ty dflt)
    (hwt : WT env ty v) (ho : OldOK env ty dflt old)
    (hpre : q <+: encVar env tag req ty dflt v)
    (hlt : q.length < (encVar env tag req ty dflt v).length)
    (hfuel : (env.width + 3) * q.length + 1 ≤ fuel) (hr : r.rest = q) :
    (∃ e r', decVar env fuel tag req ty old r = (.error e, r')) ∨
    (req = false ∧ (q = [] ∨ HalfHead q) ∧
      ∃ r', decVar env fuel tag req ty old r = (.ok (Evolve.absentVal env (fuel - 1) ty old), r') ∧
        r'.rest = []) :=
  tr_all env rk hE v fuel tag req ty dflt old r q htag hty hd hwt ho hpre hlt hfuel hr

/-- a required member or an element (vector element, map key/value) on a strict prefix of its
    field: always an error -/
theorem C06_member_cut_required (env : Env) (rk : String → Nat) (hE : EnvWF env rk) (v : Val)
    (fuel tag : Nat) (ty : Ty) (dflt : Option Val) (old : Val) (r : Reader) (q : Bytes)
    (htag : tag < 256) (hty : TyOK env rk (env.length + 1) ty) (hd : DfltOK ty dflt)
    (hwt : WT env ty v) (ho : OldOK env ty dflt old)
    (hpre : q <+: encVar env tag true ty dflt v)
    (hlt : q.length < (encVar env tag true ty dflt v).length)
    (hfuel : (env.width + 3) * q.length + 1 ≤ fuel) (hr : r.rest = q) :
    ∃ e r', decVar env fuel tag true ty old r = (.error e, r') :=
  cutRes_req_error (tr_all env rk hE v fuel tag true ty dflt old r q htag hty hd hwt ho hpre hlt hfuel hr)

/-- a prefix that ends neither at a member boundary nor one half-head byte behind one: error -/
theorem C06_prefix_error_unless_boundary (env : Env) (rk : String → Nat) (S : String)
    (fs : List Field) (vs : List Val) (p : Bytes) (hW : WellTyped env rk S (.struct vs))
    (hfs : env.find S = some fs) (hp : p <+: encStruct env S (.struct vs))
    (hnb : ∀ k, k ≤ fs.length → ¬ CutAt p (encMembers env (fs.take k) (vs.take k))) :
    ∃ e r', decStruct env S (freshStruct env S) (Reader.mk0 p) = (.error e, r') := by
  rcases C06_prefix_full_holds env rk S fs vs p hW hfs hp with h | ⟨k, _, _, _, hk, hc, _⟩
  · exact h
  · exact absurd hc (hnb k hk)

/-- **C06_prefix_struct**: every admissible cut `CutOK`, with the sharper outcome (the cut is exactly
    at a member boundary) -/
theorem C06_prefix_struct (env : Env) (rk : String → Nat) (S : String) (fs : List Field)
    (vs : List Val) (p : Bytes) (hW : WellTyped env rk S (.struct vs)) (hfs : env.find S = some fs)
    (hcut : CutOK env fs vs p) : PrefixOutcome env S fs vs p :=
  decStruct_cut env rk S fs vs p hW hfs hcut

/-- an admissible cut that is not at a member boundary is an error -/
theorem C06_prefix_cut_error (env : Env) (rk : String → Nat) (S : String) (fs : List Field)
    (vs : List Val) (p : Bytes) (hW : WellTyped env rk S (.struct vs)) (hfs : env.find S = some fs)
    (hcut : CutOK env fs vs p)
    (hnb : ∀ k, k ≤ fs.length → p ≠ encMembers env (fs.take k) (vs.take k)) :
    ∃ e r', decStruct env S (freshStruct env S) (Reader.mk0 p) = (.error e, r') := by
  rcases decStruct_cut env rk S fs vs p hW hfs hcut with h | ⟨k, _, _, _, hk, hp, _⟩
  · exact h
  · exact absurd hp (hnb k hk)

/-- a cut exactly behind member `k` with only optional members left: success, with exactly the
    present members and the defaults of the others (members of any kind) -/
theorem C06_prefix_boundary_ok (env : Env) (rk : String → Nat) (S : String) (fs : List Field)
    (vs : List Val) (k : Nat) (hW : WellTyped env rk S (.struct vs)) (hfs : env.find S = some fs)
    (hk : k ≤ fs.length) (hopt : ∀ f ∈ fs.drop k, f.req = false) :
    ∃ os r', freshStruct env S = .struct os ∧
      decStruct env S (freshStruct env S) (Reader.mk0 (encMembers env (fs.take k) (vs.take k))) =
        (.ok (.struct (normMembers env (fs.take k) (vs.take k) ++
          absentVals env (decFuel env (Reader.mk0 (encMembers env (fs.take k) (vs.take k))) - k)
            (fs.drop k)
            ((resetDefault env (decFuel env (Reader.mk0 (encMembers env (fs.take k) (vs.take k)))) fs os).drop k))),
         r') :=
  decStruct_boundary env rk S fs vs k hW hfs hk hopt

/-- every member boundary is an admissible cut -/
theorem C06_cutOK_boundary (env : Env) (fs : List Field) (vs : List Val) (k : Nat) :
    CutOK env fs vs (encMembers env (fs.take k) (vs.take k)) := cutOK_boundary env fs vs k

/-- **C06_prefix_atoms**: for structs all of whose members are scalars or enums with tags below 15,
    every prefix, with the sharper outcome `PrefixOutcome` (no half heads can occur) -/
theorem C06_prefix_atoms (env : Env) (rk : String → Nat) (S : String) (fs : List Field)
    (vs : List Val) (p : Bytes) (hW : WellTyped env rk S (.struct vs)) (hfs : env.find S = some fs)
    (hat : ∀ f ∈ fs, f.ty.isAtom = true ∧ f.tag < 15)
    (hp : p <+: encStruct env S (.struct vs)) : PrefixOutcome env S fs vs p := by
  have hwm : WTm env fs vs := by simpa [WT, hfs] using hW.2
  simp only [encStruct, hfs] at hp
  exact decStruct_cut env rk S fs vs p hW hfs (cutOK_of_atoms env fs vs p hat hwm hp)

/-- the value of an absent member that is not a nested struct: `defaultOf` (C04: its explicit IDL
    default, else reset structs for an array of structs, else the Go zero value) — the entry of
    `absentVals` in `PrefixOutcome`, for member `k + i` of the schema -/
theorem C06_prefix_absent_default (env : Env) (G F k i : Nat) (fs : List Field) (os0 : List Val)
    (f : Field) (o0 : Val) (hf : fs[k + i]? = some f) (ho : os0[k + i]? = some o0)
    (hty : Evolve.isStructTy f.ty = false) :
    (absentVals env F (fs.drop k) ((resetDefault env (G+1) fs os0).drop k))[i]?
      = some (Evolve.defaultOf env G f) :=
  absentVals_reset_plain env G F k i fs os0 f o0 hf ho hty

/-! ## Primitives: a successful read is one complete payload inside the input -/

/-- `bReadU16/32/64`: success ⇒ exactly `n` existing bytes consumed, value = their big-endian value -/
theorem C06_prim_bReadU {n : Nat} {r r' : Reader} {v : Nat} (hn : 0 < n)
    (h : bReadU n r = (.ok v, r')) :
    r.pos + n ≤ r.data.size ∧ r' = ⟨r.data, r.pos + n⟩ ∧ v = beVal (takeFrom r.data r.pos n) ∧
    (takeFrom r.data r.pos n).length = n :=
  bReadU_ok hn h

/-- `bReadU16/32/64` fails exactly when fewer than `n` bytes remain -/
theorem C06_prim_bReadU_err {n : Nat} {r r' : Reader} {e : Err} (h : bReadU n r = (.error e, r')) :
    e = .eof ∧ r.remaining < n :=
  ⟨(bReadU_err h).1, (bReadU_err h).2.2⟩

/-- the string tail (`Next` + length check): success ⇒ exactly `l` existing bytes -/
theorem C06_prim_nextExact {l : Nat} {r r' : Reader} {s : Bytes} (hpos : r.pos ≤ r.data.size)
    (h : nextExact l r = (.ok s, r')) :
    r.pos + l ≤ r.data.size ∧ r' = ⟨r.data, r.pos + l⟩ ∧ s = takeFrom r.data r.pos l ∧ s.length = l :=
  nextExact_ok hpos h

/-- `ReadSliceInt8/Uint8` (`CheckLength`, then `io.ReadFull`): success ⇒ empty result (`len ≤ 0`)
    or exactly `len` existing bytes -/
theorem C06_prim_readSlice8 {old : Bytes} {len : Int} {r r' : Reader} {bs : Bytes}
    (h : readSlice8 old len r = (.ok bs, r')) :
    (len ≤ 0 ∧ bs = [] ∧ r' = r) ∨
    (0 < len ∧ r.pos + len.toNat ≤ r.data.size ∧ r' = ⟨r.data, r.pos + len.toNat⟩ ∧
      bs = takeFrom r.data r.pos len.toNat ∧ bs.length = len.toNat) :=
  readSlice8_exact h

/-- `ReadBytes` (TUP; `CheckLength`, then `io.ReadFull`): success ⇒ `len ≥ 0` and exactly `len`
    existing bytes; a negative length is an error, no longer a `make` panic
    (`C05_readBytes_no_panic`) -/
theorem C06_prim_readBytes {len : Int} {r r' : Reader} {bs : Bytes}
    (h : readBytes len r = (.ok bs, r')) :
    0 ≤ len ∧ bs.length = len.toNat ∧ r'.data = r.data ∧ r'.pos = r.pos + len.toNat ∧
    (0 < len → r'.pos ≤ r.data.size ∧ bs = takeFrom r.data r.pos len.toNat) :=
  readBytes_exact h

/-! ## Readers: no over-read, exact value (full strength on the repaired model) -/

/-- shape of the statement for the four signed integer readers (`maxw` = 1, 2, 4, 8 bytes) -/
def IntExact (maxw : Nat) (old : Int) (tag : Nat) (req : Bool) (r r' : Reader) (v : Int) : Prop :=
  (∃ ty, skipToNoCheck tag req r = (.ok (false, ty), r') ∧ v = old ∧ req = false) ∨
  (∃ ty r1 w, skipToNoCheck tag req r = (.ok (true, ty), r1) ∧ intWidth maxw ty = some w ∧
    r1.pos + w ≤ r.data.size ∧ r' = ⟨r.data, r1.pos + w⟩ ∧ v = fieldInt r.data r1.pos w)

theorem C06_no_overread_int8 {old : Int} {tag : Nat} {req : Bool} {r r' : Reader} {v : Int}
    (h : readInt8 old tag req r = (.ok v, r')) : IntExact 1 old tag req r r' v := by
  rw [readInt8_body] at h; exact readWith_int_exact h
theorem C06_no_overread_int16 {old : Int} {tag : Nat} {req : Bool} {r r' : Reader} {v : Int}
    (h : readInt16 old tag req r = (.ok v, r')) : IntExact 2 old tag req r r' v := by
  rw [readInt16_body] at h; exact readWith_int_exact h
theorem C06_no_overread_int32 {old : Int} {tag : Nat} {req : Bool} {r r' : Reader} {v : Int}
    (h : readInt32 old tag req r = (.ok v, r')) : IntExact 4 old tag req r r' v := by
  rw [readInt32_body] at h; exact readWith_int_exact h
theorem C06_no_overread_int64 {old : Int} {tag : Nat} {req : Bool} {r r' : Reader} {v : Int}
    (h : readInt64 old tag req r = (.ok v, r')) : IntExact 8 old tag req r r' v := by
  rw [readInt64_body] at h; exact readWith_int_exact h

/-- the unsigned readers and `ReadBool` are conversions of the next wider signed reader's result -/
theorem C06_no_overread_uint8 {old tag : Nat} {req : Bool} {r r' : Reader} {v : Nat}
    (h : readUint8 old tag req r = (.ok v, r')) :
    ∃ n, IntExact 2 (old : Int) tag req r r' n ∧ v = toU 8 n := by
  obtain ⟨n, hn, hv⟩ := mapRes_ok h
  exact ⟨n, C06_no_overread_int16 hn, hv⟩
theorem C06_no_overread_uint16 {old tag : Nat} {req : Bool} {r r' : Reader} {v : Nat}
    (h : readUint16 old tag req r = (.ok v, r')) :
    ∃ n, IntExact 4 (old : Int) tag req r r' n ∧ v = toU 16 n := by
  obtain ⟨n, hn, hv⟩ := mapRes_ok h
  exact ⟨n, C06_no_overread_int32 hn, hv⟩
theorem C06_no_overread_uint32 {old tag : Nat} {req : Bool} {r r' : Reader} {v : Nat}
    (h : readUint32 old tag req r = (.ok v, r')) :
    ∃ n, IntExact 8 (old : Int) tag req r r' n ∧ v = toU 32 n := by
  obtain ⟨n, hn, hv⟩ := mapRes_ok h
  exact ⟨n, C06_no_overread_int64 hn, hv⟩
theorem C06_no_overread_bool {old : Bool} {tag : Nat} {req : Bool} {r r' : Reader} {v : Bool}
    (h : readBool old tag req r = (.ok v, r')) :
    ∃ n, IntExact 1 (if old then 1 else 0) tag req r r' n ∧ v = !(n == 0) := by
  obtain ⟨n, hn, hv⟩ := mapRes_ok h
  exact ⟨n, C06_no_overread_int8 hn, hv⟩

theorem C06_no_overread_float32 {old : Nat} {tag : Nat} {req : Bool} {r r' : Reader} {v : Nat}
    (h : readFloat32 old tag req r = (.ok v, r')) :
    (∃ ty, skipToNoCheck tag req r = (.ok (false, ty), r') ∧ v = old ∧ req = false) ∨
    (∃ ty r1 w, skipToNoCheck tag req r = (.ok (true, ty), r1) ∧ f32Width ty = some w ∧
      r1.pos + w ≤ r.data.size ∧ r' = ⟨r.data, r1.pos + w⟩ ∧ v = fieldF32 r.data r1.pos w) :=
  readFloat32_exact h

theorem C06_no_overread_float64 {old : Nat} {tag : Nat} {req : Bool} {r r' : Reader} {v : Nat}
    (h : readFloat64 old tag req r = (.ok v, r')) :
    (∃ ty, skipToNoCheck tag req r = (.ok (false, ty), r') ∧ v = old ∧ req = false) ∨
    (∃ ty r1 w, skipToNoCheck tag req r = (.ok (true, ty), r1) ∧ f64Width ty = some w ∧
      r1.pos + w ≤ r.data.size ∧ r' = ⟨r.data, r1.pos + w⟩ ∧ v = fieldF64 r.data r1.pos w) :=
  readFloat64_exact h

/-- strings: a complete length prefix of `w` bytes announcing `l`, then exactly `l` bytes, all
    inside the input; the result is those `l` bytes (never a partial string) -/
theorem C06_no_overread_string {old : Bytes} {tag : Nat} {req : Bool} {r r' : Reader} {s : Bytes}
    (h : readString old tag req r = (.ok s, r')) :
    (∃ ty, skipToNoCheck tag req r = (.ok (false, ty), r') ∧ s = old ∧ req = false) ∨
    (∃ ty r1 w l, skipToNoCheck tag req r = (.ok (true, ty), r1) ∧ strLenWidth ty = some w ∧
      l = beVal (takeFrom r.data r1.pos w) ∧ r1.pos + w + l ≤ r.data.size ∧
      r' = ⟨r.data, r1.pos + w + l⟩ ∧ s = takeFrom r.data (r1.pos + w) l ∧ s.length = l) :=
  readString_exact h

/-- summary form of "never reads past the end": whenever one of the scalar readers succeeds after
    FINDING its field, the final position is inside the input -/
theorem C06_found_read_inside {old : Int} {tag : Nat} {req : Bool} {r r' r1 : Reader} {v : Int} {ty : Nat}
    (hs : skipToNoCheck tag req r = (.ok (true, ty), r1))
    (h : readInt64 old tag req r = (.ok v, r')) : r'.pos ≤ r'.data.size := by
  rcases C06_no_overread_int64 h with ⟨ty', h1, _⟩ | ⟨ty', r1', w, h1, _, h3, h4, _⟩
  · rw [hs] at h1; simp at h1
  · rw [h4]; rw [hs] at h1
    simp only [Prod.mk.injEq, Except.ok.injEq, true_and] at h1
    exact h3

/-! ## Mistyped fields: the declared-type × wire-type matrix -/

/-- general form (the field may be found after skipping earlier fields) -/
theorem C06_mistyped_int8 {old : Int} {tag : Nat} {req : Bool} {r r1 : Reader} {ty : Nat}
    (hs : skipToNoCheck tag req r = (.ok (true, ty), r1)) (hw : intWidth 1 ty = none) :
    readInt8 old tag req r = (.error .mismatch, r1) := by
  rw [readInt8_body]; exact readWith_int_mismatch hs hw
theorem C06_mistyped_int16 {old : Int} {tag : Nat} {req : Bool} {r r1 : Reader} {ty : Nat}
    (hs : skipToNoCheck tag req r = (.ok (true, ty), r1)) (hw : intWidth 2 ty = none) :
    readInt16 old tag req r = (.error .mismatch, r1) := by
  rw [readInt16_body]; exact readWith_int_mismatch hs hw
theorem C06_mistyped_int32 {old : Int} {tag : Nat} {req : Bool} {r r1 : Reader} {ty : Nat}
    (hs : skipToNoCheck tag req r = (.ok (true, ty), r1)) (hw : intWidth 4 ty = none) :
    readInt32 old tag req r = (.error .mismatch, r1) := by
  rw [readInt32_body]; exact readWith_int_mismatch hs hw
theorem C06_mistyped_int64 {old : Int} {tag : Nat} {req : Bool} {r r1 : Reader} {ty : Nat}
    (hs : skipToNoCheck tag req r = (.ok (true, ty), r1)) (hw : intWidth 8 ty = none) :
    readInt64 old tag req r = (.error .mismatch, r1) := by
  rw [readInt64_body]; exact readWith_int_mismatch hs hw
theorem C06_mistyped_float32 {old : Nat} {tag : Nat} {req : Bool} {r r1 : Reader} {ty : Nat}
    (hs : skipToNoCheck tag req r = (.ok (true, ty), r1)) (hw : f32Width ty = none) :
    readFloat32 old tag req r = (.error .mismatch, r1) := readFloat32_mismatch hs hw
theorem C06_mistyped_float64 {old : Nat} {tag : Nat} {req : Bool} {r r1 : Reader} {ty : Nat}
    (hs : skipToNoCheck tag req r = (.ok (true, ty), r1)) (hw : f64Width ty = none) :
    readFloat64 old tag req r = (.error .mismatch, r1) := readFloat64_mismatch hs hw
theorem C06_mistyped_string {old : Bytes} {tag : Nat} {req : Bool} {r r1 : Reader} {ty : Nat}
    (hs : skipToNoCheck tag req r = (.ok (true, ty), r1)) (hw : strLenWidth ty = none) :
    readString old tag req r = (.error .mismatch, r1) := readString_mismatch hs hw

/-- the matrix itself, for the sixteen 4-bit wire type codes (0 BYTE, 1 SHORT, 2 INT, 3 LONG,
    4 FLOAT, 5 DOUBLE, 6 STRING1, 7 STRING4, 8 MAP, 9 LIST, 10 StructBegin, 11 StructEnd,
    12 ZeroTag, 13 SimpleList; 14, 15 unassigned): admissible codes per declared type -/
theorem C06_matrix :
    (∀ ty, ty < 16 → ((intWidth 1 ty).isSome ↔ ty ∈ [12, 0])) ∧
    (∀ ty, ty < 16 → ((intWidth 2 ty).isSome ↔ ty ∈ [12, 0, 1])) ∧
    (∀ ty, ty < 16 → ((intWidth 4 ty).isSome ↔ ty ∈ [12, 0, 1, 2])) ∧
    (∀ ty, ty < 16 → ((intWidth 8 ty).isSome ↔ ty ∈ [12, 0, 1, 2, 3])) ∧
    (∀ ty, ty < 16 → ((f32Width ty).isSome ↔ ty ∈ [12, 4])) ∧
    (∀ ty, ty < 16 → ((f64Width ty).isSome ↔ ty ∈ [12, 4, 5])) ∧
    (∀ ty, ty < 16 → ((strLenWidth ty).isSome ↔ ty ∈ [6, 7])) := by
  refine ⟨?_, ?_, ?_, ?_, ?_, ?_, ?_⟩ <;> decide

/-- concrete form: the mistyped field is the next thing in the input, under ANY tag `0..255`,
    whatever bytes `t` follow (shown for `ReadInt32`, the reader also used for enums and lengths;
    the other readers are the same one-line combination of `skipToNoCheck_hit` and the general
    theorem above) -/
theorem C06_mistyped_next_int32 (r : Reader) (ty tag : Nat) (req : Bool) (old : Int) (t : Bytes)
    (hty : ty < 16) (hne : ty ≠ tyStructEnd) (htag : tag < 256) (hw : intWidth 4 ty = none)
    (h : r.rest = writeHead ty tag ++ t) :
    readInt32 old tag req r = (.error .mismatch, r.adv (writeHead ty tag).length) :=
  C06_mistyped_int32 (skipToNoCheck_hit r ty tag req t hty hne htag h) hw

theorem C06_mistyped_next_string (r : Reader) (ty tag : Nat) (req : Bool) (old : Bytes) (t : Bytes)
    (hty : ty < 16) (hne : ty ≠ tyStructEnd) (htag : tag < 256) (hw : strLenWidth ty = none)
    (h : r.rest = writeHead ty tag ++ t) :
    readString old tag req r = (.error .mismatch, r.adv (writeHead ty tag).length) :=
  C06_mistyped_string (skipToNoCheck_hit r ty tag req t hty hne htag h) hw

/-- container members of the generated decoders -/
theorem C06_mistyped_vec (env : Env) (fuel tag : Nat) (req : Bool) (e : Ty) (old : Val)
    {r r1 : Reader} {tyCur : Nat}
    (hs : skipToNoCheck tag req r = (.ok (true, tyCur), r1)) (h1 : tyCur ≠ tyLIST)
    (h2 : tyCur ≠ tySimpleList ∨ ¬ (e = .i8 ∨ e = .u8)) :
    decVar env (fuel+1) tag req (.vec e) old r = (.error .mismatch, r1) :=
  decVar_vec_mismatch env fuel tag req e old hs h1 h2
theorem C06_mistyped_arr (env : Env) (fuel tag : Nat) (req : Bool) (n : Nat) (e : Ty) (old : Val)
    {r r1 : Reader} {tyCur : Nat}
    (hs : skipToNoCheck tag req r = (.ok (true, tyCur), r1)) (h1 : tyCur ≠ tyLIST) :
    decVar env (fuel+1) tag req (.arr n e) old r = (.error .mismatch, r1) :=
  decVar_arr_mismatch env fuel tag req n e old hs h1
theorem C06_mistyped_map (env : Env) (fuel tag : Nat) (req : Bool) (k v : Ty) (old : Val)
    {r r1 : Reader} {tyCur : Nat}
    (hs : skipToNoCheck tag req r = (.ok (true, tyCur), r1)) (h1 : tyCur ≠ tyMAP) :
    decVar env (fuel+1) tag req (.map k v) old r = (.error .mismatch, r1) :=
  decVar_map_mismatch env fuel tag req k v old hs h1
theorem C06_mistyped_struct (env : Env) (fuel tag : Nat) (req : Bool) (name : String)
    (fs : List Field) (ovs : List Val) (hfs : env.find name = some fs)
    {r r1 : Reader} {tyCur : Nat}
    (hs : skipToNoCheck tag req r = (.ok (true, tyCur), r1)) (h1 : tyCur ≠ tyStructBegin) :
    decVar env (fuel+1) tag req (.struct name) (.struct ovs) r = (.error .mismatch, r1) :=
  decVar_struct_mismatch env fuel tag req name fs ovs hfs hs h1

/-! ## D8: the as-found primitives (counterexamples) and their relation to the repaired ones -/

/-- bytes from numerals -/
def C06.bs (l : List Nat) : Bytes := l.map byte

/-- **D8 witnesses on the code as found** (by evaluation):
    1. `11 12` (SHORT head, tag 1, ONE payload byte): `ReadInt16` returned 0x1200 = 4608, no error;
    2. `06 05 61 62` (STRING1 announcing 5, two bytes left): `ReadString` returned the partial "ab"
       and left the position at 7 > 4;
    3. `ReadSliceInt8` of 4 with one byte `07` left: returned `07 00 00 00`. -/
theorem C06_shortread_counterexamples :
    AsFound.readInt16 0 1 true (Reader.mk0 (C06.bs [0x11, 0x12]))
      = (.ok 4608, ⟨(C06.bs [0x11, 0x12]).toArray, 2⟩) ∧
    AsFound.readString [] 0 true (Reader.mk0 (C06.bs [0x06, 5, 0x61, 0x62]))
      = (.ok (C06.bs [0x61, 0x62]), ⟨(C06.bs [0x06, 5, 0x61, 0x62]).toArray, 7⟩) ∧
    AsFound.readSlice8 4 (Reader.mk0 (C06.bs [7]))
      = (.ok (C06.bs [7, 0, 0, 0]), ⟨(C06.bs [7]).toArray, 1⟩) :=
  ⟨by rfl, by rfl, by rfl⟩

/-- the same three inputs on the repaired model: an error each time -/
theorem C06_shortread_repaired :
    (readInt16 0 1 true (Reader.mk0 (C06.bs [0x11, 0x12]))).1 = .error .eof ∧
    (readString [] 0 true (Reader.mk0 (C06.bs [0x06, 5, 0x61, 0x62]))).1 = .error .eof ∧
    (readSlice8 [] 4 (Reader.mk0 (C06.bs [7]))).1 = .error .eof :=
  ⟨by rfl, by rfl, by rfl⟩

/-- exact characterisation of D8 for the fixed-width primitive: as found and repaired agree
    unless `0 < remaining < n` … -/
theorem C06_asFound_bReadU_agree {n : Nat} {r : Reader} (hn : 0 < n) (h : ¬ ShortAt r n) :
    AsFound.bReadU n r = bReadU n r := bReadU_asFound_agree hn h

/-- … and in that case the as-found primitive succeeds (zero-padded) where the repaired fails -/
theorem C06_asFound_bReadU_short {n : Nat} {r : Reader} (h : ShortAt r n) :
    (∃ v r', AsFound.bReadU n r = (.ok v, r')) ∧ (bReadU n r).1 = .error .eof :=
  bReadU_asFound_short h

theorem C06_asFound_readSlice8_agree {len : Nat} {r : Reader} (hn : 0 < len) (h : ¬ ShortAt r len)
    (old : Bytes) : AsFound.readSlice8 len r = readSlice8 old (len : Int) r :=
  readSlice8_asFound_agree hn h old

theorem C06_asFound_stringTail_agree {l : Nat} {r : Reader} (h : r.pos + l ≤ r.data.size) :
    AsFound.readStringTail l r = nextExact l r := readStringTail_asFound_agree h

/-! ## Non-vacuity -/

-- a found, successful read (hypotheses of `C06_no_overread_int16`, second disjunct): SHORT 0x1234 under tag 1
example : readInt16 0 1 true (Reader.mk0 (C06.bs [0x11, 0x12, 0x34]))
    = (.ok 0x1234, ⟨(C06.bs [0x11, 0x12, 0x34]).toArray, 3⟩) := by rfl
example : skipToNoCheck 1 true (Reader.mk0 (C06.bs [0x11, 0x12, 0x34]))
    = (.ok (true, 1), ⟨(C06.bs [0x11, 0x12, 0x34]).toArray, 1⟩) := by rfl
-- first disjunct: optional field absent (next tag is larger), old value kept, nothing consumed
example : readInt16 77 1 false (Reader.mk0 (C06.bs [0x21, 0x12, 0x34]))
    = (.ok 77, ⟨(C06.bs [0x21, 0x12, 0x34]).toArray, 0⟩) := by rfl
-- a complete string
example : readString [] 0 true (Reader.mk0 (C06.bs [0x06, 2, 0x61, 0x62, 0xFF]))
    = (.ok (C06.bs [0x61, 0x62]), ⟨(C06.bs [0x06, 2, 0x61, 0x62, 0xFF]).toArray, 4⟩) := by rfl
-- mistyped: a STRING1 field (code 6) under tag 3 read as int32, as float64, a SHORT read as string
example : intWidth 4 6 = none := by decide
example : (Reader.mk0 (C06.bs [0x36, 1, 0x41])).rest = writeHead 6 3 ++ C06.bs [1, 0x41] := by rfl
example : readInt32 0 3 true (Reader.mk0 (C06.bs [0x36, 1, 0x41]))
    = (.error .mismatch, ⟨(C06.bs [0x36, 1, 0x41]).toArray, 1⟩) := by rfl
example : readFloat64 0 3 false (Reader.mk0 (C06.bs [0x36, 1, 0x41]))
    = (.error .mismatch, ⟨(C06.bs [0x36, 1, 0x41]).toArray, 1⟩) := by rfl
example : readString [] 3 true (Reader.mk0 (C06.bs [0x31, 0, 7]))
    = (.error .mismatch, ⟨(C06.bs [0x31, 0, 7]).toArray, 1⟩) := by rfl
-- the short-read situation and its complement both occur
example : ShortAt (Reader.mk0 (C06.bs [1])) 2 := by unfold ShortAt; decide
example : ¬ ShortAt (Reader.mk0 (C06.bs [1, 2])) 2 := by unfold ShortAt; decide
example : ¬ ShortAt (Reader.mk0 (C06.bs [])) 2 := by unfold ShortAt; decide

/-! ## Non-vacuity of the struct-level theorems: `struct P { 0 require int a; 1 optional string b; }` -/

-- hypotheses: a well-formed schema, a well-typed value, its encoding `01 12 34 16 02 61 62`
example : WellTyped C06.envP C06.rkP "P" (.struct C06.vsP) := C06.vP_wt
example : encMembers C06.envP C06.fsP C06.vsP = C06.bsP [0x01, 0x12, 0x34, 0x16, 2, 97, 98] := C06.encP

/-- cut in the middle of the second member (`01 12 34 16 02 61`, the string announces 2 bytes and
    one is there): `ReadFrom` reports an error — not the partial string "a" -/
theorem C06_example_cut_inside :
    ∃ e r', decStruct C06.envP "P" (freshStruct C06.envP "P")
      (Reader.mk0 (C06.bsP [0x01, 0x12, 0x34, 0x16, 2, 97])) = (.error e, r') := by
  apply C06_prefix_cut_error C06.envP C06.rkP "P" C06.fsP C06.vsP _ C06.vP_wt C06.findP
  · apply cutOK_of_atoms
    · intro f hf
      simp only [C06.fsP, List.mem_cons, List.not_mem_nil, or_false] at hf
      rcases hf with rfl | rfl <;> decide
    · simpa [WT, C06.findP] using C06.vP_wt.2
    · rw [C06.encP]; decide
  · intro k hk h
    have hl := congrArg List.length h
    have hk' : k = 0 ∨ k = 1 ∨ k = 2 := by simp [C06.fsP] at hk; omega
    rcases hk' with rfl | rfl | rfl
    · simp [encMembers, C06.bsP] at hl
    · rw [C06.encP1] at hl; simp [C06.bsP] at hl
    · have : encMembers C06.envP (C06.fsP.take 2) (C06.vsP.take 2) = encMembers C06.envP C06.fsP C06.vsP := rfl
      rw [this, C06.encP] at hl; simp [C06.bsP] at hl

/-- cut exactly behind the first member (`01 12 34`): success, `b` at its default (the empty string) -/
theorem C06_example_cut_boundary :
    ∃ r', decStruct C06.envP "P" (freshStruct C06.envP "P") (Reader.mk0 (C06.bsP [0x01, 0x12, 0x34]))
      = (.ok (.struct [.int 0x1234, .str []]), r') := by
  obtain ⟨os, r', hos, h⟩ := C06_prefix_boundary_ok C06.envP C06.rkP "P" C06.fsP C06.vsP 1 C06.vP_wt
    C06.findP (by decide) (by intro f hf; simp [C06.fsP] at hf; subst hf; rfl)
  rw [C06.encP1] at h
  refine ⟨r', ?_⟩
  rw [h]
  have hfresh : freshStruct C06.envP "P" = .struct [.int 0, .str []] := by
    simp [freshStruct, zeroOf, zeroVal, C06.envP, Env.find, scalarZero]
  rw [hfresh] at hos
  cases hos
  have hF : decFuel C06.envP (Reader.mk0 (C06.bsP [0x01, 0x12, 0x34])) = 25 + 1 := by rfl
  rw [hF]
  simp [C06.fsP, C06.vsP, normMembers, normVar, absentVals, Evolve.absentVal, resetDefault, zeroOf,
    zeroVal, scalarZero]


-- the half-head case of `PrefixOutcomeGen` / `C06_member_cut` is not vacuous: `F6` is the first byte of
-- the head of a STRING1 field with a tag ≥ 15
example : HalfHead [byte 0xF6] := ⟨byte 0xF6, rfl, by decide⟩
example : CutAt ([byte 0x01, byte 0x12, byte 0x34] ++ [byte 0xF6]) [byte 0x01, byte 0x12, byte 0x34] :=
  .inr ⟨byte 0xF6, by decide, rfl⟩
-- hypotheses of `C06_prefix_full_holds` on the example: every prefix of the encoding qualifies
example : C06.bsP [0x01, 0x12, 0x34, 0x16, 2] <+: encStruct C06.envP "P" (.struct C06.vsP) := by
  simp only [encStruct, C06.findP]; rw [C06.encP]; decide

end Tars
