import TarsModel.Proofs.HealthProbe

/-!
# C15 — Failover: failing endpoints leave rotation, are probed, and come back

Property theorems only (helper lemmas and invariants: `Proofs/Health*.lean`; model:
`Model/Health.lean`).  Every theorem is about **all histories**: an arbitrary list `h` of actions

    advance d | checkStatus conn | start choice sendOk oneway | finish k ok

applied to a manager freshly created over an arbitrary registry list `reg` at an arbitrary time
`now0` (`after stamp reg now0 h`).  `choice` ranges over every choice the selector or the random
fallback can make, `conn` over every set of endpoints that can be connected to, calls may overlap
(`start` … `finish`), `ok` is the outcome of a call.  The observable trace is `log` (newest event
first); `post ++ e :: pre` splits it at an arbitrary event `e`, `pre` being what happened before.

`stamp` selects the variant of `SelectAdapterProxy`: `false` = as found, `true` = with
`pending/C15-probe-stamp.patch`.  Everything except the last group holds for both.

The numbers 2, 5, 5, 30 in the statements are those of the property text; the thresholds of the
code come from `Tars.Consts` (regenerated from setting.go / adapter.go on every run) and the proofs
need `overN ≥ 2`, `fainN ≥ 2`, `fainN ≤ 5`, `failInterval ≤ 5`, `tryTimeInterval ≥ 30` and the
extracted comparison operators to be `>=`.
-/
namespace Tars.C15
open Tars Tars.Health

/-- the state after history `h` -/
abbrev after (stamp : Bool) (reg : List Nat) (now0 : Int) (h : List Action) : Mgr := run (init stamp reg now0) h

/-! ## taken out of rotation only after failures -/

/-- **none is taken out with fewer than two failures since it was last (re)instated**: whenever
`checkStatus` takes `ep` out (`blocked ep t`), at least two calls on `ep` failed since its last
reinstatement (since the beginning, if it never was reinstated). -/
theorem C15_min_two (stamp : Bool) (reg : List Nat) (now0 : Int) (h : List Action)
    (post pre : List Event) (ep : Nat) (t : Int)
    (hlog : (after stamp reg now0 h).log = post ++ .blocked ep t :: pre) : 2 ≤ failsSince pre ep :=
  (run_invA (init_invA stamp reg now0) h).okBlocks.split hlog ep t rfl

/-- **an endpoint with no failed calls is never taken out of rotation** (trace form) -/
theorem C15_never_without_failures (stamp : Bool) (reg : List Nat) (now0 : Int) (h : List Action)
    (post pre : List Event) (ep : Nat) (t : Int)
    (hlog : (after stamp reg now0 h).log = post ++ .blocked ep t :: pre) : 1 ≤ failsEver pre ep := by
  have := C15_min_two stamp reg now0 h post pre ep t hlog
  have := failsSince_le_failsEver pre ep
  omega

/-- state form: after any history, a registered endpoint none of whose calls ever failed is in the
rotation (member of the selectors) and its record, if any, is active. -/
theorem C15_never_without_failures_state (stamp : Bool) (reg : List Nat) (now0 : Int) (h : List Action) (ep : Nat)
    (hreg : ep ∈ reg) (hnone : failsEver (after stamp reg now0 h).log ep = 0) :
    ep ∈ (after stamp reg now0 h).sel ∧ ((after stamp reg now0 h).recs ep).status = true := by
  have inv : InvA (after stamp reg now0 h) := run_invA (init_invA stamp reg now0) h
  have hst : ((after stamp reg now0 h).recs ep).status = true := by
    cases hs : ((after stamp reg now0 h).recs ep).status
    · have h2 := inv.blockedFails ep hs
      have := inv.fc ep
      have := failsSince_le_failsEver (after stamp reg now0 h).log ep
      omega
    · rfl
  refine ⟨inv.activeIn ep ?_ hst, hst⟩
  rw [show (after stamp reg now0 h).reg = reg from run_reg _ h]; exact hreg

/-- state form of `C15_min_two`: a registered endpoint that is outside the rotation has had at
least two failed calls since it was last (re)instated. -/
theorem C15_min_two_state (stamp : Bool) (reg : List Nat) (now0 : Int) (h : List Action) (ep : Nat)
    (hreg : ep ∈ reg) (hout : ep ∉ (after stamp reg now0 h).sel) : 2 ≤ failsSince (after stamp reg now0 h).log ep := by
  have inv : InvA (after stamp reg now0 h) := run_invA (init_invA stamp reg now0) h
  cases hs : ((after stamp reg now0 h).recs ep).status
  · have := inv.blockedFails ep hs
    have := inv.fc ep
    omega
  · exact absurd (inv.activeIn ep (by rw [show (after stamp reg now0 h).reg = reg from run_reg _ h]; exact hreg) hs) hout

/-! ## a failing endpoint is out after the next status check -/

/-- **at least 5 failures in a row, for at least 5 seconds ⇒ out of normal rotation after the next
status check** — whatever the other endpoints do (the code does not even need another endpoint
to be active), for every set `conn` of connectable endpoints. `now0 ≥ failInterval` only says that
the Unix clock is not within 5 s of the epoch (a never-successful endpoint has `lastSuccessTime = 0`). -/
theorem C15_blocked_after_check (stamp : Bool) (reg : List Nat) (now0 : Int) (h : List Action) (conn : List Nat) (ep : Nat)
    (hnow : (Consts.healthFailInterval : Int) ≤ now0)
    (hstreak : 5 ≤ streak (after stamp reg now0 h).log ep)
    (hsecs : ∀ t, lastOk (after stamp reg now0 h).log ep = some t → 5 ≤ (after stamp reg now0 h).now - t) :
    ep ∉ (step (after stamp reg now0 h) (.checkStatus conn)).sel ∧
    ((step (after stamp reg now0 h) (.checkStatus conn)).recs ep).status = false := by
  have inv : InvA (after stamp reg now0 h) := run_invA (init_invA stamp reg now0) h
  have hfn : Consts.healthFainN ≤ 5 := by decide
  have hfi : Consts.healthFailInterval ≤ 5 := by decide
  have hh : (after stamp reg now0 h).has ep = true := by
    cases hb : (after stamp reg now0 h).has ep
    · have := inv.fresh ep hb
      have h2 := inv.lfc ep
      rw [this] at h2
      simp only [Rec.fresh] at h2
      omega
    · rfl
  have hnow' : now0 ≤ (after stamp reg now0 h).now := run_now_le (init stamp reg now0) h
  have := checkStatus_blocks conn inv ep hh (by
    intro _
    constructor
    · rw [inv.lst ep]
      cases hl : lastOk (after stamp reg now0 h).log ep with
      | none => simp only [Option.getD_none]; omega
      | some t => have := hsecs t hl; simp only [Option.getD_some]; omega
    · have := inv.lfc ep
      omega)
  exact ⟨this.2, this.1⟩

/-! ## probing a blocked endpoint -/

/-- **probe candidates are at least 30 s apart**: `checkStatus` queues `ep` as probe candidate
(`grant ep t`) no sooner than 30 s after it queued it the last time. -/
theorem C15_probe_rate (stamp : Bool) (reg : List Nat) (now0 : Int) (h : List Action)
    (post pre : List Event) (ep : Nat) (t t0 : Int)
    (hlog : (after stamp reg now0 h).log = post ++ .grant ep t :: pre) (hprev : lastGrant pre ep = some t0) :
    30 ≤ t - t0 := by
  have := (run_invT (init_invT stamp reg now0) h).okG.split hlog ep t rfl t0 hprev
  have h30 : 30 ≤ Consts.healthTryTimeInterval := by decide
  simp only [T] at this
  omega

/-- **each probe candidate is handed to exactly one call**: at every moment the number of probe
calls on `ep` plus (1 if `ep` still waits in the queue) equals the number of times it was queued;
the queue never holds an endpoint twice. -/
theorem C15_probe_single (stamp : Bool) (reg : List Nat) (now0 : Int) (h : List Action) (ep : Nat) :
    grants (after stamp reg now0 h).log ep
      = probes (after stamp reg now0 h).log ep + (if ep ∈ (after stamp reg now0 h).queue then 1 else 0)
    ∧ (after stamp reg now0 h).queue.Nodup :=
  ⟨(run_invT (init_invT stamp reg now0) h).cnt ep, (run_invT (init_invT stamp reg now0) h).nd⟩

/-- the probe call goes to the queued endpoint and only blocked endpoints are queued: a `grant`
happens only for a blocked record (so a probe is never wasted on an endpoint in rotation at the
time it is queued). -/
theorem C15_probe_only_blocked (stamp : Bool) (reg : List Nat) (now0 : Int) (h : List Action) (conn : List Nat) (x : Nat)
    (hq : x ∉ (after stamp reg now0 h).queue) (hq' : x ∈ (checkOne conn (after stamp reg now0 h) x).queue) :
    ((after stamp reg now0 h).recs x).status = false := by
  rcases checkOne_cases conn (after stamp reg now0 h) x with ⟨_, he⟩ | ⟨_, _, he⟩ | ⟨_, _, _, he⟩ | ⟨_, hn, _, _⟩
  · rw [he] at hq'; exact absurd hq' hq
  · rw [he] at hq'; exact absurd hq' hq
  · rw [he] at hq'; exact absurd hq' hq
  · exact (checkActive_need _ _ _ hn).1

/-- the full-strength reading of "probed with a single call no more often than every 30 seconds":
any two consecutive probe *calls* on an endpoint are at least 30 s apart. -/
def C15_probe_rate_calls_full (stamp : Bool) : Prop :=
  ∀ (reg : List Nat) (now0 : Int) (h : List Action) (post pre : List Event) (ep : Nat) (t t1 : Int),
    (after stamp reg now0 h).log = post ++ .picked ep true t :: pre → lastProbe pre ep = some t1 → 30 ≤ t - t1

/-- **as found, the full-strength statement is false**: a queued probe candidate is consumed by
whatever call comes next, however late; the next candidate is queued 30 s after the *previous
candidate*, not after the previous probe call. Witness (2 endpoints, endpoint 0 fails): blocked at
t=100; candidate queued at 131 (= 101 + tryTimeInterval); no call until 160 → probe call at 160 (fails);
candidate queued at 162 → probe call at 162: two probe calls 2 s apart. Reproduced on the real code
(corpus/C15/probe-burst.json, signature C15:probe-burst:SelectAdapterProxy). -/
theorem C15_probe_rate_calls_counterexample : ¬ C15_probe_rate_calls_full false := by
  intro hfull
  have := hfull [0, 1] 100
    [.start 0 false false, .start 0 false false, .start 0 false false, .checkStatus [],
     .advance (Consts.healthTryTimeInterval + 1), .checkStatus [0],
     .advance (Consts.healthTryTimeInterval - 1), .start 0 true false, .finish 0 false, .advance 2, .checkStatus [0],
     .start 0 true false]
    [] [.grant 0 (102 + 2 * Consts.healthTryTimeInterval), .fail 0 (100 + 2 * Consts.healthTryTimeInterval),
        .picked 0 true (100 + 2 * Consts.healthTryTimeInterval), .grant 0 (101 + Consts.healthTryTimeInterval),
        .blocked 0 100, .fail 0 100, .picked 0 false 100, .fail 0 100, .picked 0 false 100, .fail 0 100,
        .picked 0 false 100] 0 (102 + 2 * Consts.healthTryTimeInterval) (100 + 2 * Consts.healthTryTimeInterval)
    (by decide) (by decide)
  omega

/-- **what does hold as found**: of any three consecutive probe calls on an endpoint the first and
the third are at least 30 s apart (at most two probe calls in any window shorter than 30 s). -/
theorem C15_probe_rate_calls_partial (stamp : Bool) (reg : List Nat) (now0 : Int) (h : List Action)
    (post pre : List Event) (ep : Nat) (t t2 : Int)
    (hlog : (after stamp reg now0 h).log = post ++ .picked ep true t :: pre) (hprev : prevProbe pre ep = some t2) :
    30 ≤ t - t2 := by
  have := (run_invT (init_invT stamp reg now0) h).okP3.split hlog ep t rfl t2 hprev
  have h30 : 30 ≤ Consts.healthTryTimeInterval := by decide
  simp only [T] at this
  omega

/-- **with the repair** (`SelectAdapterProxy` stamps `lastBlockTime` when it hands out the probe
candidate) the full-strength statement holds. -/
theorem C15_probe_rate_calls_repaired : C15_probe_rate_calls_full true := by
  intro reg now0 h post pre ep t t1 hlog hprev
  have := (run_invT (init_invT true reg now0) h).okP2 (run_stamp (init true reg now0) h)
  have := this.split hlog ep t rfl t1 hprev
  have h30 : 30 ≤ Consts.healthTryTimeInterval := by decide
  simp only [T] at this
  omega

/-! ## probing keeps happening -/

/-- **a blocked endpoint is probed again**: if `ep` is blocked, can be connected to, and
`tryTimeInterval` seconds have passed since its `lastBlockTime` (= the time it was blocked, the last
time a probe was attempted for it and, with the repair, the time its last probe call was handed
out), then the next `checkStatus` puts it into the probe queue (unless it is waiting there already).
There is no other condition: in particular no "probe pending" marker survives a failed probe. -/
theorem C15_probe_due (stamp : Bool) (reg : List Nat) (now0 : Int) (h : List Action) (conn : List Nat) (ep : Nat)
    (hb : ((after stamp reg now0 h).recs ep).status = false) (hconn : conn.contains ep = true)
    (hdue : (Consts.healthTryTimeInterval : Int) ≤ (after stamp reg now0 h).now - ((after stamp reg now0 h).recs ep).lastBlockTime) :
    ep ∈ (step (after stamp reg now0 h) (.checkStatus conn)).queue :=
  checkStatus_queues conn (run_invA (init_invA stamp reg now0) h) (run_invT (init_invT stamp reg now0) h) ep hb hconn hdue

/-- **probe liveness, from any reachable state**: whatever happened before (any number of failed
probes included), once `tryTimeInterval` more seconds have passed, a status check during which the
blocked endpoint can be connected to queues it as probe candidate. -/
theorem C15_probe_liveness (stamp : Bool) (reg : List Nat) (now0 : Int) (h : List Action) (conn : List Nat) (ep : Nat)
    (d : Nat) (hb : ((after stamp reg now0 h).recs ep).status = false) (hconn : conn.contains ep = true)
    (hd : Consts.healthTryTimeInterval ≤ d) :
    ep ∈ (step (step (after stamp reg now0 h) (.advance d)) (.checkStatus conn)).queue := by
  have hA : InvA (step (after stamp reg now0 h) (.advance d)) := step_invA (run_invA (init_invA stamp reg now0) h) _
  have hT : InvT (step (after stamp reg now0 h) (.advance d)) := step_invT (run_invT (init_invT stamp reg now0) h) _
  have hlb : ((after stamp reg now0 h).recs ep).lastBlockTime ≤ (after stamp reg now0 h).now :=
    ((run_invT (init_invT stamp reg now0) h).c ep).lb hb
  have hd' : (Consts.healthTryTimeInterval : Int) ≤ (d : Int) := by exact_mod_cast hd
  refine checkStatus_queues conn hA hT ep hb hconn ?_
  show (Consts.healthTryTimeInterval : Int) ≤ ((after stamp reg now0 h).now + (d : Int)) - ((after stamp reg now0 h).recs ep).lastBlockTime
  omega

/-- **the queued candidate is probed by the next call**: a call always takes the head of the probe
queue (first in, first out, one candidate per call; every other action leaves the queue alone or
appends to it), so an endpoint queued behind `k` others is probed by the `k+1`-th next call. -/
theorem C15_probe_consumed (stamp : Bool) (reg : List Nat) (now0 : Int) (h : List Action) (hreg : reg ≠ [])
    (choice : Nat) (sendOk oneway : Bool) (x : Nat) (q : List Nat) (hq : (after stamp reg now0 h).queue = x :: q) :
    Event.picked x true (after stamp reg now0 h).now ∈ (step (after stamp reg now0 h) (.start choice sendOk oneway)).log ∧
    (step (after stamp reg now0 h) (.start choice sendOk oneway)).queue = q := by
  have hr : (after stamp reg now0 h).reg ≠ [] := by rw [show (after stamp reg now0 h).reg = reg from run_reg _ h]; exact hreg
  obtain ⟨ep, p, hm, _, h2⟩ := start_picks (after stamp reg now0 h) choice sendOk oneway hr
  obtain ⟨he, hp⟩ := h2 x q hq
  subst he; subst hp
  refine ⟨hm, ?_⟩
  show (start _ choice sendOk oneway).queue = q
  rw [start_queue _ _ _ _ hr, hq]; rfl

/-! ## coming back -/

/-- **returns to rotation as soon as a probe succeeds**: completing an open probe call on `ep`
(two-way call, `needCheck = true`) successfully leaves `ep` active, in the selectors and in
`activeEp`, with its failure counters cleared. -/
theorem C15_reinstate (stamp : Bool) (reg : List Nat) (now0 : Int) (h : List Action) (k : Nat) (ep : Nat)
    (c0 : Nat × Bool) (cs : List (Nat × Bool)) (hin : (after stamp reg now0 h).inflight = c0 :: cs)
    (hk : (after stamp reg now0 h).inflight.getD (k % (after stamp reg now0 h).inflight.length) c0 = (ep, true)) :
    ((step (after stamp reg now0 h) (.finish k true)).recs ep).status = true ∧
    ep ∈ (step (after stamp reg now0 h) (.finish k true)).sel ∧
    ep ∈ (step (after stamp reg now0 h) (.finish k true)).active ∧
    failsSince (step (after stamp reg now0 h) (.finish k true)).log ep = 0 := by
  have inv : InvA (step (after stamp reg now0 h) (.finish k true)) :=
    step_invA (run_invA (init_invA stamp reg now0) h) (.finish k true)
  have hf := finish_probe_ok (after stamp reg now0 h) k ep c0 cs hin hk
  refine ⟨hf.1, hf.2.1, hf.2.2.1, ?_⟩
  rw [← inv.fc ep]; exact hf.2.2.2

/-- **stays blocked otherwise**: a failed call (probe or not) changes neither the status of any
endpoint nor the rotation. -/
theorem C15_probe_fail_stays_blocked (stamp : Bool) (reg : List Nat) (now0 : Int) (h : List Action) (k : Nat) (e : Nat) :
    ((step (after stamp reg now0 h) (.finish k false)).recs e).status = ((after stamp reg now0 h).recs e).status ∧
    (step (after stamp reg now0 h) (.finish k false)).sel = (after stamp reg now0 h).sel := by
  show ((finish _ k false).recs e).status = _ ∧ (finish _ k false).sel = _
  unfold finish
  split
  · exact ⟨rfl, rfl⟩
  · simp only
    exact ⟨(finishCall_fail _ _ _).2.2 e, (finishCall_fail _ _ _).1⟩

/-- **only a successful probe reinstates**: if an action turns a blocked record active, the action
is the successful completion of a call and a probe call on that endpoint was open. -/
theorem C15_only_probe_reinstates (stamp : Bool) (reg : List Nat) (now0 : Int) (h : List Action) (a : Action) (ep : Nat)
    (h0 : ((after stamp reg now0 h).recs ep).status = false)
    (h1 : ((step (after stamp reg now0 h) a).recs ep).status = true) :
    (∃ k, a = .finish k true) ∧ (ep, true) ∈ (after stamp reg now0 h).inflight :=
  step_unblock _ a ep h0 h1

/-- a blocked endpoint is outside the normal rotation: what the selectors can return never
contains an endpoint whose record is blocked. -/
theorem C15_blocked_not_in_rotation (stamp : Bool) (reg : List Nat) (now0 : Int) (h : List Action) (ep : Nat)
    (hb : ((after stamp reg now0 h).recs ep).status = false) : ep ∉ (after stamp reg now0 h).sel :=
  (run_invA (init_invA stamp reg now0) h).blockedOut ep hb

/-! ## when everything is blocked -/

/-- **calls are still attempted instead of failing outright**: as long as the registry lists an
endpoint, no call ever ends with "no endpoint selected". -/
theorem C15_fallback (stamp : Bool) (reg : List Nat) (now0 : Int) (h : List Action) (hreg : reg ≠ []) (t : Int) :
    Event.noEndpoint t ∉ (after stamp reg now0 h).log :=
  run_noNone (init stamp reg now0) h hreg (by intro t hm; cases hm) t

/-- every call is sent to some registered endpoint: the queued probe candidate if there is one,
else a member of the rotation if the rotation is not empty, else (every endpoint blocked) some
endpoint of the registry list. -/
theorem C15_fallback_pick (stamp : Bool) (reg : List Nat) (now0 : Int) (h : List Action) (hreg : reg ≠ [])
    (choice : Nat) (sendOk oneway : Bool) :
    ∃ ep p, Event.picked ep p (after stamp reg now0 h).now ∈ (step (after stamp reg now0 h) (.start choice sendOk oneway)).log ∧
      ep ∈ reg ∧
      ((after stamp reg now0 h).queue = [] → (after stamp reg now0 h).sel ≠ [] →
        p = false ∧ ep ∈ (after stamp reg now0 h).sel ∧ ((after stamp reg now0 h).recs ep).status = true) := by
  have inv : InvA (after stamp reg now0 h) := run_invA (init_invA stamp reg now0) h
  have hr : (after stamp reg now0 h).reg = reg := run_reg _ h
  obtain ⟨ep, p, hm, h1, h2⟩ := start_picks (after stamp reg now0 h) choice sendOk oneway (by rw [hr]; exact hreg)
  refine ⟨ep, p, hm, ?_, ?_⟩
  · cases hq : (after stamp reg now0 h).queue with
    | nil =>
      have := h1 hq
      by_cases hs : (after stamp reg now0 h).sel = []
      · rw [← hr]; exact this.2.2 hs
      · rw [← hr]; exact inv.selReg ep (this.2.1 hs)
    | cons x q =>
      have := h2 x q hq
      rw [← hr, this.1]
      exact inv.hasReg x (inv.queueHas x (by rw [hq]; exact List.mem_cons_self))
  · intro hq hs
    have := h1 hq
    refine ⟨this.1, this.2.1 hs, ?_⟩
    cases hst : ((after stamp reg now0 h).recs ep).status
    · exact absurd (this.2.1 hs) (inv.blockedOut ep hst)
    · rfl

/-! ## non-vacuity: concrete histories -/

/-- three refused sends on endpoint 0, then a status check -/
def exBlock : List Action := [.start 0 false false, .start 0 false false, .start 0 false false, .checkStatus []]

/-- six (one-way) successes, then five refused sends on endpoint 0, then 5 s -/
def exStreak : List Action :=
  [.start 0 true true, .start 0 true true, .start 0 true true, .start 0 true true, .start 0 true true,
   .start 0 true true, .start 0 false false, .start 0 false false, .start 0 false false,
   .start 0 false false, .start 0 false false, .advance 5]

/-- endpoint 0 blocked, 31 s later queued as probe candidate, the next call is its probe -/
def exProbe : List Action :=
  [.start 0 false false, .start 0 false false, .start 0 false false, .checkStatus [],
   .advance (Consts.healthTryTimeInterval + 1), .checkStatus [0], .start 7 true false]

/-- endpoint 0 is taken out (the hypothesis of `C15_min_two` is satisfiable) -/
example : (after false [0, 1] 100 exBlock).log
    = [.blocked 0 100, .fail 0 100, .picked 0 false 100, .fail 0 100, .picked 0 false 100, .fail 0 100,
       .picked 0 false 100] := by decide

/-- the hypotheses of `C15_blocked_after_check` hold (the ratio rule does not fire: 5 of 11) and the
endpoint is out after the check -/
example : 5 ≤ streak (after false [0, 1] 100 exStreak).log 0 ∧ lastOk (after false [0, 1] 100 exStreak).log 0 = some 100 ∧
    (after false [0, 1] 100 exStreak).now = 105 ∧ (after false [0, 1] 100 exStreak).sel = [0, 1] ∧
    (step (after false [0, 1] 100 exStreak) (.checkStatus [])).sel = [1] := by decide

/-- a probe candidate is queued (hypothesis of `C15_probe_rate`: a `grant` in the log), handed to one
call (hypothesis of `C15_reinstate`: an open probe call), and the successful probe reinstates -/
example : (after false [0, 1] 100 exProbe).inflight = [(0, true)] ∧ (after false [0, 1] 100 exProbe).sel = [1] ∧
    (after false [0, 1] 100 exProbe).log.head? = some (.picked 0 true (101 + Consts.healthTryTimeInterval)) ∧
    (step (after false [0, 1] 100 exProbe) (.finish 0 true)).sel = [1, 0] := by decide

/-- k failed probes in a row do not stop the probing: endpoint 0 is blocked, probed (fails), 31 s
later queued and probed again (fails), 31 s later queued again (hypotheses of `C15_probe_due` /
`C15_probe_liveness` hold after a failed probe) -/
def exReprobe : List Action :=
  exProbe ++ [.finish 0 false, .advance (Consts.healthTryTimeInterval + 1), .checkStatus [0], .start 3 true false,
              .finish 0 false, .advance (Consts.healthTryTimeInterval + 1)]

example : ((after false [0, 1] 100 exReprobe).recs 0).status = false ∧ (after false [0, 1] 100 exReprobe).queue = [] ∧
    probes (after false [0, 1] 100 exReprobe).log 0 = 2 ∧
    (step (after false [0, 1] 100 exReprobe) (.checkStatus [0])).queue = [0] := by decide

/-- every endpoint blocked: the call still goes to a registered endpoint -/
example : (after false [0] 100 exBlock).sel = [] ∧
    (step (after false [0] 100 exBlock) (.start 0 false false)).log.head? = some (.fail 0 100) := by decide

end Tars.C15
