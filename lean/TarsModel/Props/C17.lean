import TarsModel.Proofs.ConfMain

/-!
# C17 — Config parser: complete and exact, or an error, never silently partial

Property theorems only.  They are about `Model/Conf.lean`, the model of `tars/util/conf/conf.go`
from the token stream of `encoding/xml` on.  `Variant.repaired` is conf.go with
`pending/C17-return-parse-errors.patch` (the behaviour the check expects of the tree);
`Variant.asFound` is conf.go as found, kept for the counterexample theorems (defects D7, D21).

* "for all documents generated from the config grammar": `d : Doc` (= `List Item`, nested domains,
  key/value lines, comments, blank lines, arbitrary blanks, duplicates of keys and of domains,
  lines of any length) with `wfL d` (the side conditions of the grammar on blanks, keys, values)
  and `NoClash d` (within one merged domain no key is named like a sub-domain — the stated
  boundary, see `C17_name_clash_*`).  `tokensL d` is the token stream of the document; that Go's
  `xml.Decoder` returns exactly `tokensL d` (and then `io.EOF`) on `renderL d` is not a theorem
  (the tokenizer is outside the model) but checked by the harness on every generated document.
* a domain is addressed by the list of its names `p`; `descend d p = some b` gives the merged
  items `b` of that domain, `entriesOf b` / `linesOf b` / `domsOf b` what is written directly in
  it.  `C17_path_*` connect name lists with the path strings `/a/b<key>` of the getters and state
  which names a path string can spell.
* "all byte strings": every `Stream` (token list + how the stream ended), see `C17_all_or_error`,
  `C17_no_panic`, `C17_bytes`.
-/
namespace Tars.Conf
open Tars

/-- the literal constants of conf.go the model is built on (regenerated from the source on every
    run): trim set `" \n\t"`, `'#'`, `SplitN(line, "=", 2)`, the path meta characters, Node/Leaf -/
theorem C17_consts :
    trimSet = [byte 32, byte 10, byte 9] ∧ Consts.confTrimLen = 3 ∧ Consts.confTrimCalls = 3 ∧
    hashCh = byte 35 ∧ eqCh = byte 61 ∧ Consts.confSplitN = 2 ∧
    slashCh = byte 47 ∧ ltCh = byte 60 ∧ gtCh = byte 62 ∧ Consts.confPathPairLen = 2 ∧
    Consts.confKindNode = 0 ∧ Consts.confKindLeaf = 1 := by decide

/-! ## Complete and exact on every grammar document -/

/-- every grammar document is accepted -/
theorem C17_accepts (d : Doc) (hwf : wfL d = true) :
    ∃ t, initFromTokens .repaired ⟨tokensL d, false⟩ = .ok t :=
  ⟨_, parsed_repaired d hwf⟩

/-- every key of every domain is retrievable with exactly its value; later duplicates win:
    the value is that of the last entry for the key among all entries of the (merged) domain -/
theorem C17_complete (d : Doc) (hwf : wfL d = true) (hc : NoClash d) (t : Elem)
    (ht : initFromTokens .repaired ⟨tokensL d, false⟩ = .ok t)
    (p : List Txt) (b : List Item) (hd : descend d p = some b)
    (es1 : List (Txt × Txt)) (k v : Txt) (es2 : List (Txt × Txt))
    (he : entriesOf b = es1 ++ (k, v) :: es2) (hlast : k ∉ es2.map Prod.fst) :
    getValueV t (p ++ [k]) = some v := by
  rw [parsed_repaired d hwf] at ht; cases ht
  have hv : lastVal (entriesOf b) k = some v := by rw [he]; exact lastVal_decomp es1 es2 k v hlast
  simp [getValueV, value_at d hc p b hd k v hv, value_newLeaf]

/-- `C17_complete` and the listing theorems below are not vacuous: a document with a repeated
    (merged) domain, blanks, a comment, a duplicate key and a value containing `=` -/
def exampleDoc : Doc :=
  [ .dom [byte 97] [ .text ⟨[ .blank [], .kv [byte 32] [byte 107] [byte 32] (some ([byte 9], [byte 49])) [byte 32],
                               .comment [] [byte 107, byte 61, byte 50] ], [byte 32]⟩,
                      .dom [byte 98] [ .text ⟨[.kv [] [byte 120] [] none []], []⟩ ] ],
    .text ⟨[.blank []], []⟩,
    .dom [byte 97] [ .text ⟨[.kv [] [byte 107] [] (some ([], [byte 50, byte 61, byte 51])) []], []⟩ ] ]

example : wfL exampleDoc = true := by decide
example : descend exampleDoc [[byte 97]] ≠ none ∧ descend exampleDoc [[byte 97], [byte 98]] ≠ none := by decide
example : (descend exampleDoc [[byte 97]]).map entriesOf
    = some [([byte 107], [byte 49]), ([byte 107], [byte 50, byte 61, byte 51])] := by decide
example : NoClash exampleDoc := by
  have hA : bodyOf [byte 97] exampleDoc =
      [ .text ⟨[ .blank [], .kv [byte 32] [byte 107] [byte 32] (some ([byte 9], [byte 49])) [byte 32],
                 .comment [] [byte 107, byte 61, byte 50] ], [byte 32]⟩,
        .dom [byte 98] [ .text ⟨[.kv [] [byte 120] [] none []], []⟩ ],
        .text ⟨[.kv [] [byte 107] [] (some ([], [byte 50, byte 61, byte 51])) []], []⟩ ] := by rfl
  have hB : bodyOf [byte 98] (bodyOf [byte 97] exampleDoc) = [ .text ⟨[.kv [] [byte 120] [] none []], []⟩ ] := by
    rfl
  have h0 : ∀ n, n ∈ keysOf exampleDoc → n ∉ domsOf exampleDoc := by decide
  have h1 : ∀ n, n ∈ keysOf (bodyOf [byte 97] exampleDoc) → n ∉ domsOf (bodyOf [byte 97] exampleDoc) := by
    rw [hA]; decide
  have h2 : ∀ n, n ∈ keysOf (bodyOf [byte 98] (bodyOf [byte 97] exampleDoc)) →
      n ∉ domsOf (bodyOf [byte 98] (bodyOf [byte 97] exampleDoc)) := by rw [hB]; decide
  intro p b hd
  match p, hd with
  | [], hd => simp only [descend, Option.some.injEq] at hd; subst hd; exact h0
  | x :: q, hd =>
    simp only [descend] at hd
    by_cases hx : x ∈ domsOf exampleDoc
    · have : x = [byte 97] := by
        have : domsOf exampleDoc = [[byte 97], [byte 97]] := by decide
        rw [this] at hx; simpa using hx
      subst this
      simp only [hx, if_true] at hd
      match q, hd with
      | [], hd => simp only [descend, Option.some.injEq] at hd; subst hd; exact h1
      | y :: r, hd =>
        simp only [descend] at hd
        by_cases hy : y ∈ domsOf (bodyOf [byte 97] exampleDoc)
        · have : y = [byte 98] := by
            have : domsOf (bodyOf [byte 97] exampleDoc) = [[byte 98]] := by rw [hA]; decide
            rw [this] at hy; simpa using hy
          subst this
          simp only [hy, if_true] at hd
          match r, hd with
          | [], hd => simp only [descend, Option.some.injEq] at hd; subst hd; exact h2
          | z :: _, hd =>
            simp only [descend] at hd
            have : domsOf (bodyOf [byte 98] (bodyOf [byte 97] exampleDoc)) = [] := by rw [hB]; decide
            simp [this] at hd
        · simp [hy] at hd
    · simp [hx] at hd

/-- `GetDomainKey`: exactly the keys written in the domain, each once -/
theorem C17_listing_keys (d : Doc) (hwf : wfL d = true) (hc : NoClash d) (t : Elem)
    (ht : initFromTokens .repaired ⟨tokensL d, false⟩ = .ok t)
    (p : List Txt) (b : List Item) (hd : descend d p = some b) :
    ∃ ks, getDomainKeyV t p = some ks ∧ ks.Nodup ∧ ∀ x, x ∈ ks ↔ x ∈ keysOf b := by
  rw [parsed_repaired d hwf] at ht; cases ht; exact keys_at d hc p b hd

/-- `GetDomain`: exactly the sub-domains written in the domain, each once -/
theorem C17_listing_domains (d : Doc) (hwf : wfL d = true) (hc : NoClash d) (t : Elem)
    (ht : initFromTokens .repaired ⟨tokensL d, false⟩ = .ok t)
    (p : List Txt) (b : List Item) (hd : descend d p = some b) :
    ∃ ds, getDomainV t p = some ds ∧ ds.Nodup ∧ ∀ x, x ∈ ds ↔ x ∈ domsOf b := by
  rw [parsed_repaired d hwf] at ht; cases ht; exact doms_at d hc p b hd

/-- `GetDomainLine`: exactly the written key/value lines (surrounding blanks removed; comments
    and blank lines are not lines), in document order -/
theorem C17_listing_lines (d : Doc) (hwf : wfL d = true) (hc : NoClash d) (t : Elem)
    (ht : initFromTokens .repaired ⟨tokensL d, false⟩ = .ok t)
    (p : List Txt) (b : List Item) (hd : descend d p = some b) :
    getDomainLineV t p = some (linesOf b) := by
  rw [parsed_repaired d hwf] at ht; cases ht; exact lines_at d hc p b hd

/-- `GetMap`: exactly the written keys, each once, each with the value of its last entry -/
theorem C17_listing_map (d : Doc) (hwf : wfL d = true) (hc : NoClash d) (t : Elem)
    (ht : initFromTokens .repaired ⟨tokensL d, false⟩ = .ok t)
    (p : List Txt) (b : List Item) (hd : descend d p = some b) :
    ∃ m, getMapV t p = some m ∧ (m.map Prod.fst).Nodup ∧
      ∀ k v, (k, v) ∈ m ↔ ∃ es1 es2, entriesOf b = es1 ++ (k, v) :: es2 ∧ k ∉ es2.map Prod.fst := by
  rw [parsed_repaired d hwf] at ht; cases ht
  obtain ⟨m, h1, h2, h3⟩ := map_at d hc p b hd
  exact ⟨m, h1, h2, fun k v => by rw [h3, lastVal_iff_decomp]⟩

/-- a path that is not a domain of the document: all listings are empty (`[]string{}`, empty map) -/
theorem C17_listing_absent_domain (d : Doc) (hwf : wfL d = true) (hc : NoClash d) (t : Elem)
    (ht : initFromTokens .repaired ⟨tokensL d, false⟩ = .ok t)
    (p : List Txt) (hp : ∀ n ∈ p, pathName n = true) (hd : descend d p = none) :
    GetDomain t (domPath p) = [] ∧ GetDomainKey t (domPath p) = [] ∧
    GetDomainLine t (domPath p) = [] ∧ GetMap t (domPath p) = [] := by
  rw [parsed_repaired d hwf] at ht; cases ht
  simp only [GetDomain, GetDomainKey, GetDomainLine, GetMap, analysisPath_domPath p hp]
  exact nodomain_at d hc p hd

example : descend exampleDoc [[byte 99]] = none ∧ pathName [byte 99] = true := by decide

/-! ## Getters through path strings: the written value, or the supplied default -/

/-- `/n1/…/nk<key>` is read as the key `key` of the domain `[n1, …, nk]`, for every name a path
    string can spell: non-empty, no `/`, no `<`; the key moreover without `>` at either end.
    (Other keys are reachable through `GetMap` / `GetDomainKey` only — boundary of the path syntax.) -/
theorem C17_path_key (p : List Txt) (k : Txt) (hp : ∀ n ∈ p, pathName n = true) (hk : pathKey k = true) :
    analysisPath (keyPath p k) = p ++ [k] := analysisPath_keyPath p k hp hk

/-- `/n1/…/nk` is read as the domain `[n1, …, nk]` -/
theorem C17_path_dom (p : List Txt) (hp : ∀ n ∈ p, pathName n = true) : analysisPath (domPath p) = p :=
  analysisPath_domPath p hp

example : pathName [byte 97] = true ∧ pathKey [byte 107, byte 62, byte 49] = true := by decide
/-- boundary witness: the key `a/b` of domain `d` cannot be spelled (`/d<a/b>` reads `[d<a, b>]`) -/
example : analysisPath (keyPath [[byte 100]] [byte 97, byte 47, byte 98]) ≠ [[byte 100], [byte 97, byte 47, byte 98]] := by
  decide

/-- present key: `GetString…` returns the written value, the typed getters the `strconv` value of
    the written string, or the supplied default when it is malformed -/
theorem C17_getters_present (d : Doc) (hwf : wfL d = true) (hc : NoClash d) (t : Elem)
    (ht : initFromTokens .repaired ⟨tokensL d, false⟩ = .ok t)
    (p : List Txt) (b : List Item) (hd : descend d p = some b) (hp : ∀ n ∈ p, pathName n = true)
    (es1 : List (Txt × Txt)) (k v : Txt) (es2 : List (Txt × Txt)) (hk : pathKey k = true)
    (he : entriesOf b = es1 ++ (k, v) :: es2) (hlast : k ∉ es2.map Prod.fst) :
    (∀ dflt, GetStringWithDef t (keyPath p k) dflt = v) ∧ GetString t (keyPath p k) = v ∧
    (∀ dflt, GetIntWithDef t (keyPath p k) dflt = (parseIntBits 64 v).getD dflt) ∧
    GetInt t (keyPath p k) = (parseIntBits 64 v).getD 0 ∧
    (∀ dflt, GetInt32WithDef t (keyPath p k) dflt = (parseIntBits 32 v).getD dflt) ∧
    (∀ dflt, GetBoolWithDef t (keyPath p k) dflt = (parseBool v).getD dflt) ∧
    (∀ (F : Type) (parseFloat : Txt → Option F) dflt,
      GetFloatWithDef parseFloat t (keyPath p k) dflt = (parseFloat v).getD dflt) := by
  have hv := C17_complete d hwf hc t ht p b hd es1 k v es2 he hlast
  have hpath := analysisPath_keyPath p k hp hk
  have typed : ∀ (α : Type) (f : Txt → Option α) (dflt : α),
      getTypedWithDef f t (keyPath p k) dflt = (f v).getD dflt := by
    intro α f dflt
    simp only [getTypedWithDef, hpath, hv]
    cases f v <;> rfl
  refine ⟨?_, ?_, ?_, ?_, ?_, ?_, ?_⟩
  · intro dflt; simp only [GetStringWithDef, hpath, hv]
  · simp only [GetString, GetStringWithDef, hpath, hv]
  · intro dflt; exact typed _ _ _
  · exact typed _ _ _
  · intro dflt; exact typed _ _ _
  · intro dflt; exact typed _ _ _
  · intro F pf dflt; exact typed _ _ _

/-- absent key: every getter returns the supplied default -/
theorem C17_getters_absent (d : Doc) (hwf : wfL d = true) (hc : NoClash d) (t : Elem)
    (ht : initFromTokens .repaired ⟨tokensL d, false⟩ = .ok t)
    (p : List Txt) (b : List Item) (hd : descend d p = some b) (hp : ∀ n ∈ p, pathName n = true)
    (k : Txt) (hk : pathKey k = true) (hnk : k ∉ keysOf b) (hnd : k ∉ domsOf b) :
    (∀ dflt, GetStringWithDef t (keyPath p k) dflt = dflt) ∧ GetString t (keyPath p k) = [] ∧
    (∀ dflt, GetIntWithDef t (keyPath p k) dflt = dflt) ∧ GetInt t (keyPath p k) = 0 ∧
    (∀ dflt, GetInt32WithDef t (keyPath p k) dflt = dflt) ∧
    (∀ dflt, GetBoolWithDef t (keyPath p k) dflt = dflt) ∧
    (∀ (F : Type) (parseFloat : Txt → Option F) dflt, GetFloatWithDef parseFloat t (keyPath p k) dflt = dflt) := by
  rw [parsed_repaired d hwf] at ht; cases ht
  have hv : getValueV (semItems d newRoot) (p ++ [k]) = none := by
    simp [getValueV, absent_at d hc p b hd k hnk hnd]
  have hpath := analysisPath_keyPath p k hp hk
  have typed : ∀ (α : Type) (f : Txt → Option α) (dflt : α),
      getTypedWithDef f (semItems d newRoot) (keyPath p k) dflt = dflt := by
    intro α f dflt; simp only [getTypedWithDef, hpath, hv]
  refine ⟨?_, ?_, ?_, ?_, ?_, ?_, ?_⟩
  · intro dflt; simp only [GetStringWithDef, hpath, hv]
  · simp only [GetString, GetStringWithDef, hpath, hv]
  · intro dflt; exact typed _ _ _
  · exact typed _ _ _
  · intro dflt; exact typed _ _ _
  · intro dflt; exact typed _ _ _
  · intro F pf dflt; exact typed _ _ _

example : pathName [byte 97] = true ∧ pathKey [byte 107] = true ∧
    [byte 107] ∉ keysOf exampleDoc ∧ [byte 107] ∉ domsOf exampleDoc := by decide

/-- the typed parsers are not trivial: values, malformed strings, range limits -/
example : parseIntBits 64 [byte 45, byte 55] = some (-7) ∧ parseIntBits 32 [byte 49, byte 50, byte 97] = none ∧
    parseIntBits 64 [] = none ∧ parseIntBits 64 [byte 43] = none ∧
    parseBool [byte 84] = some true ∧ parseBool [byte 116, byte 82, byte 85, byte 69] = none := by decide

/-! ## The line laws -/

/-- later duplicates win (within one domain, also across repeated instances of the domain) -/
theorem C17_last_wins (d : Doc) (hwf : wfL d = true) (hc : NoClash d) (t : Elem)
    (ht : initFromTokens .repaired ⟨tokensL d, false⟩ = .ok t)
    (p : List Txt) (b : List Item) (hd : descend d p = some b)
    (es1 : List (Txt × Txt)) (k v1 : Txt) (es2 : List (Txt × Txt)) (v2 : Txt) (es3 : List (Txt × Txt))
    (he : entriesOf b = es1 ++ (k, v1) :: es2 ++ (k, v2) :: es3) (hlast : k ∉ es3.map Prod.fst) :
    getValueV t (p ++ [k]) = some v2 :=
  C17_complete d hwf hc t ht p b hd (es1 ++ (k, v1) :: es2) k v2 es3 (by rw [he]) hlast

/-- surrounding blanks are trimmed — around the line, around the key and around the value — and
    the line is listed without its surrounding blanks -/
theorem C17_trim (pre key mid w v post : Txt) (cur : Elem)
    (hpre : isWs pre = true) (hmid : isWs mid = true) (hw : isWs w = true) (hpost : isWs post = true)
    (hkne : key ≠ []) (hkeq : eqCh ∉ key) (hke : noEdge trimSet key = true)
    (hkh : key.head? ≠ some hashCh) (hve : noEdge trimSet v = true) :
    procLine (pre ++ key ++ mid ++ eqCh :: (w ++ v) ++ post) cur
      = (cur.addLine (key ++ mid ++ eqCh :: (if v.isEmpty then [] else w ++ v))).addChild key (newLeaf key v) :=
  procLine_kv_val pre key mid w v post cur hpre hmid hw hpost hkne hkeq hke hkh hve

example : isWs [byte 32, byte 9] = true ∧ noEdge trimSet [byte 107, byte 32, byte 107] = true ∧
    eqCh ∉ [byte 107, byte 32, byte 107] := by decide

/-- the first `=` splits: a value may contain further `=` -/
theorem C17_first_eq (key v1 v2 : Txt) (cur : Elem)
    (hkne : key ≠ []) (hkeq : eqCh ∉ key) (hke : noEdge trimSet key = true)
    (hkh : key.head? ≠ some hashCh) (hve : noEdge trimSet (v1 ++ eqCh :: v2) = true) :
    procLine (key ++ eqCh :: (v1 ++ eqCh :: v2)) cur
      = (cur.addLine (key ++ eqCh :: (v1 ++ eqCh :: v2))).addChild key (newLeaf key (v1 ++ eqCh :: v2)) := by
  have := procLine_kv_val [] key [] [] (v1 ++ eqCh :: v2) [] cur rfl rfl rfl rfl hkne hkeq hke hkh hve
  simpa using this

example : noEdge trimSet ([byte 97] ++ eqCh :: [byte 98]) = true := by decide

/-- a line whose first non-blank byte is `#` is ignored: no key, no listed line — whatever follows
    the `#` (including `=`) -/
theorem C17_comment (pre text : Txt) (cur : Elem) (hpre : isWs pre = true) :
    procLine (pre ++ hashCh :: text) cur = cur :=
  procLine_comment pre text cur (isWs_allIn _ hpre)

/-- a blank line is ignored -/
theorem C17_blank (ws : Txt) (cur : Elem) (h : isWs ws = true) : procLine ws cur = cur :=
  procLine_blank ws cur (isWs_allIn _ h)

/-! ## All or error, never a panic -/

/-- the tokenizer reported a syntax error: `InitFromBytes` does not return success -/
theorem C17_all_or_error (root0 : Elem) (toks : List Token) (t : Elem) :
    initFrom .repaired root0 ⟨toks, true⟩ ≠ .ok t := by
  unfold initFrom
  cases run .repaired toks [⟨[], root0⟩] <;> simp

/-- no line of any text is dropped: with the repaired buffer size the scanner never fails and
    every complete line `l` of a text `a ++ l ++ "\n" ++ b` (of any length) is scanned -/
theorem C17_no_line_dropped (a l b : Txt) (ha : atLineStart a) (hnl : nlCh ∉ l) (hcr : crCh ∉ l) :
    (scanLines (scanMax .repaired (a ++ l ++ nlCh :: b)) (a ++ l ++ nlCh :: b) [] []).2 = false ∧
    l ∈ (scanLines (scanMax .repaired (a ++ l ++ nlCh :: b)) (a ++ l ++ nlCh :: b) [] []).1 :=
  scan_complete _ a l b (by simp [scanMax]) ha hnl hcr

example : atLineStart [byte 107, byte 10] := Or.inr ⟨[byte 107], rfl⟩

/-- the repaired scanner never reports `ErrTooLong`, on any text -/
theorem C17_scanner_total (text : Txt) : (scanLines (scanMax .repaired text) text [] []).2 = false := by
  obtain ⟨ls, h⟩ := scan_mono (scanMax .repaired text) text [] [] (by simp [scanMax])
  rw [h]

/-- `InitFromBytes` never panics on a token stream in which no end element comes without an open
    start element (what the strict `xml.Decoder` delivers; checked by the harness on every input) -/
theorem C17_no_panic (v : Variant) (root0 : Elem) (toks : List Token) (e : Bool)
    (h : wellNested toks 0 = true) : initFrom v root0 ⟨toks, e⟩ ≠ .panic := by
  unfold initFrom
  have := run_no_panic v toks ⟨[], root0⟩ [] h
  cases hr : run v toks [⟨[], root0⟩] with
  | panic => exact absurd hr this
  | error e => simp
  | done top rest => simp only []; split <;> simp

example : wellNested [.start [byte 97], .chardata [byte 107], .fin [byte 97], .other] 0 = true := by decide

/-- the hypothesis of `C17_no_panic` is needed: an end element `</root>` at depth 0 pops the root
    and the next iteration indexes an empty `nodeStack` (unreachable through `xml.Decoder`) -/
theorem C17_panic_boundary (v : Variant) : initFromTokens v ⟨[.fin rootName], false⟩ = .panic := by
  cases v <;> rfl

/-- conf.go's own check: an end element that does not match the open node is an error -/
theorem C17_end_mismatch (v : Variant) (root0 : Elem) (n : Txt) (toks : List Token) (e : Bool)
    (h : root0.name ≠ n) : initFrom v root0 ⟨.fin n :: toks, e⟩ = .error .endMismatch := by
  simp [initFrom, run, h]

example : newRoot.name ≠ [byte 97] := by decide

/-- the token stream of every document is well nested (so `C17_no_panic` applies to it) -/
theorem C17_tokens_wellNested (d : Doc) : wellNested (tokensL d) 0 = true := by
  have := wellNested_items d [] 0
  rw [List.append_nil] at this
  rw [this]; rfl

/-- the property for `InitFromBytes := initFromTokens .repaired ∘ tk`, `tk` standing for
    `encoding/xml`: on every grammar document that `tk` tokenizes as `tokensL d` every value is
    retrievable; a tokenizer error is never turned into success; no input panics -/
def C17_full (tk : Txt → Stream) : Prop :=
  (∀ d : Doc, wfL d = true → NoClash d → tk (renderL d) = ⟨tokensL d, false⟩ →
      ∃ t, initFromTokens .repaired (tk (renderL d)) = .ok t ∧
        ∀ p b, descend d p = some b → ∀ es1 k v es2, entriesOf b = es1 ++ (k, v) :: es2 →
          k ∉ es2.map Prod.fst → getValueV t (p ++ [k]) = some v) ∧
  (∀ input t, (tk input).err = true → initFromTokens .repaired (tk input) ≠ .ok t) ∧
  (∀ input, initFromTokens .repaired (tk input) ≠ .panic)

/-- `C17_full` holds for every tokenizer that returns well-nested tokens on every input (what the
    strict `xml.Decoder` does; assumption A2, checked by the harness on every input).  That
    `xml.Decoder` tokenizes the rendering of a grammar document as `tokensL d` (the premise of the
    first clause) is likewise checked on every generated document, not proved. -/
theorem C17_bytes (tk : Txt → Stream) (A2 : ∀ input, wellNested (tk input).toks 0 = true) : C17_full tk := by
  refine ⟨?_, ?_, ?_⟩
  · intro d hwf hc hA1
    obtain ⟨t, ht⟩ := C17_accepts d hwf
    refine ⟨t, by rw [hA1]; exact ht, ?_⟩
    intro p b hd es1 k v es2 he hl
    exact C17_complete d hwf hc t ht p b hd es1 k v es2 he hl
  · intro input t herr
    have := C17_all_or_error newRoot (tk input).toks t
    intro h; apply this
    have e : tk input = ⟨(tk input).toks, true⟩ := by rw [← herr]
    rw [e] at h; exact h
  · intro input
    exact C17_no_panic .repaired newRoot (tk input).toks (tk input).err (A2 input)

example : ∃ tk : Txt → Stream, (∀ input, wellNested (tk input).toks 0 = true) ∧
    tk (renderL exampleDoc) = ⟨tokensL exampleDoc, false⟩ :=
  ⟨fun _ => ⟨tokensL exampleDoc, false⟩, fun _ => C17_tokens_wellNested exampleDoc, rfl⟩

/-! ## The code as found (D7, D21): counterexamples, and where it is right -/

/-- D7 (witness `<a>\nk1=v1\nk2=x&y\nk3=v3\n</a>`: the tokenizer returns `<a>` and then the syntax
    error): as found `InitFromBytes` returns nil and the document is empty; repaired: an error -/
theorem C17_counterexample_D7 :
    (∃ t, initFromTokens .asFound ⟨[.start [byte 97]], true⟩ = .ok t ∧ getDomainKeyV t [[byte 97]] = some []) ∧
    initFromTokens .repaired ⟨[.start [byte 97]], true⟩ = .error .tokenizer :=
  ⟨⟨_, rfl, rfl⟩, rfl⟩

/-- D7, unclosed domain (`<a>\nk=v\n`, the tokenizer ends with "unexpected EOF") and mismatched
    end tag (`<a>\nk=v\n</b>`: the tokenizer reports it before conf.go's own check can):
    success as found, an error after the repair -/
theorem C17_counterexample_D7_unclosed :
    (∃ t, initFromTokens .asFound ⟨[.start [byte 97], .chardata [byte 10, byte 107, byte 61, byte 118, byte 10]], true⟩ = .ok t) ∧
    initFromTokens .repaired ⟨[.start [byte 97], .chardata [byte 10, byte 107, byte 61, byte 118, byte 10]], true⟩
      = .error .tokenizer := by
  exact ⟨⟨_, rfl⟩, rfl⟩

/-- D21, the scanner as found: a line of 64 KiB or more ends the scan; that line and every later
    line of the text are dropped and (in `run .asFound`) the failure is ignored -/
theorem C17_counterexample_D21 (a l b : Txt) (ha : atLineStart a) (halen : a.length < maxScanTokenSize)
    (hnl : nlCh ∉ l) (hlen : maxScanTokenSize ≤ l.length) :
    scanLines (scanMax .asFound (a ++ l ++ nlCh :: b)) (a ++ l ++ nlCh :: b) [] []
      = ((scanLines maxScanTokenSize a [] []).1, true) :=
  scan_too_long maxScanTokenSize a l b halen ha hnl hlen

example : ∃ l : Txt, nlCh ∉ l ∧ maxScanTokenSize ≤ l.length :=
  ⟨List.replicate maxScanTokenSize (byte 120), by simp [nlCh, byte], by simp⟩

/-- D21 end to end on `<a>\nk1=1\n` + long line + `\nk3=3\n</a>`: as found the parse succeeds and
    `k3` (written after the long line) is absent, `k1` is there -/
theorem C17_counterexample_D21_parse (l : Txt) (hnl : nlCh ∉ l) (hlen : maxScanTokenSize ≤ l.length) :
    ∃ t, initFromTokens .asFound
        ⟨[.start [byte 97],
          .chardata ([byte 10, byte 107, byte 49, byte 61, byte 49, byte 10] ++ l ++ nlCh :: [byte 107, byte 51, byte 61, byte 51, byte 10]),
          .fin [byte 97]], false⟩ = .ok t ∧
      getValueV t [[byte 97], [byte 107, byte 49]] = some [byte 49] ∧
      getValueV t [[byte 97], [byte 107, byte 51]] = none := by
  have hs := C17_counterexample_D21 [byte 10, byte 107, byte 49, byte 61, byte 49, byte 10] l
    [byte 107, byte 51, byte 61, byte 51, byte 10] (Or.inr ⟨[byte 10, byte 107, byte 49, byte 61, byte 49], rfl⟩)
    (by decide) hnl hlen
  have h0 : (scanLines maxScanTokenSize [byte 10, byte 107, byte 49, byte 61, byte 49, byte 10] [] []).1
      = [[], [byte 107, byte 49, byte 61, byte 49]] := by decide
  rw [h0] at hs
  refine ⟨(newRoot.addChild [byte 97] (newElem .node [byte 97])).addChild [byte 97]
    ([[], [byte 107, byte 49, byte 61, byte 49]].foldl (fun c l => procLine l c) (newElem .node [byte 97])), ?_, ?_, ?_⟩
  · simp only [initFromTokens, initFrom, run]
    rw [hs]
    rfl
  · decide
  · decide

/-- where the code as found is right: on grammar documents whose lines are all shorter than 64 KiB
    it computes the same tree as the repaired code -/
theorem C17_asfound_agrees_on_short_lines (d : Doc) (hwf : wfL d = true) (hb : itemsBound .asFound d) :
    initFromTokens .asFound ⟨tokensL d, false⟩ = initFromTokens .repaired ⟨tokensL d, false⟩ := by
  rw [parsed_asFound d hwf hb, parsed_repaired d hwf]

example : itemsBound .asFound exampleDoc := by
  simp [exampleDoc, itemsBound, itemBound, textBound, maxScanTokenSize, Line.text]

/-! ## The name-clash boundary (outside the grammar: `NoClash` fails) -/

/-- a key and a sub-domain of one domain share one child slot.  Key first: the later sub-domain
    continues the *leaf*: it is never listed by `GetDomain` (the key still is, with its value),
    although its own keys are reachable below it -/
theorem C17_name_clash_key_first (n v : Txt) (body : List Item)
    (hwf : wfL [.text ⟨[.kv [] n [] (some ([], v)) []], []⟩, .dom n body] = true) :
    ∃ t, initFromTokens .repaired ⟨tokensL [.text ⟨[.kv [] n [] (some ([], v)) []], []⟩, .dom n body], false⟩ = .ok t ∧
      getDomainV t [] = some [] ∧ getDomainKeyV t [] = some [n] ∧ getValueV t [n] = some v ∧
      ∀ k v', k ∉ domsOf body → (∃ es1 es2, entriesOf body = es1 ++ (k, v') :: es2 ∧ k ∉ es2.map Prod.fst) →
        getValueV t [n, k] = some v' := by
  refine ⟨_, parsed_repaired _ hwf, ?_⟩
  rw [clash_key_first]
  have hkind : (semItems body (newLeaf n v)).kind = .leaf := by rw [semItems_kind]; rfl
  have hname : (semItems body (newLeaf n v)).name = n := by rw [semItems_name]; rfl
  refine ⟨?_, ?_, ?_, ?_⟩
  · simp [getDomainV, getElem, Elem.addChild, Elem.addLine, newRoot, newElem, Elem.children,
      assocSet, Elem.isNode, hkind]
  · simp [getDomainKeyV, getElem, Elem.addChild, Elem.addLine, newRoot, newElem, Elem.children,
      assocSet, Elem.isLeaf, hkind, hname]
  · simp [getValueV, getElem, findChild_addChild_same, semItems_value, value_newLeaf]
  · intro k v' hk hv
    have hl := (lastVal_iff_decomp _ _ _).mpr hv
    simp [getValueV, getElem, findChild_addChild_same, semItems_find_key body _ k hk, hl, value_newLeaf]

/-- sub-domain first: the later key *replaces* the sub-domain: its content is lost, the name is no
    longer listed by `GetDomain` -/
theorem C17_name_clash_dom_first (n v : Txt) (body : List Item)
    (hwf : wfL [.dom n body, .text ⟨[.kv [] n [] (some ([], v)) []], []⟩] = true) :
    ∃ t, initFromTokens .repaired ⟨tokensL [.dom n body, .text ⟨[.kv [] n [] (some ([], v)) []], []⟩], false⟩ = .ok t ∧
      getElem t [n] = some (newLeaf n v) ∧ ∀ k, getValueV t [n, k] = none := by
  refine ⟨_, parsed_repaired _ hwf, ?_, ?_⟩
  · simp [getElem, clash_dom_first]
  · intro k
    have h := clash_dom_first n v body
    simp only [getValueV, getElem, h]
    simp [Elem.findChild, children_newLeaf, assocFind]

example : wfL [.text ⟨[.kv [] [byte 98] [] (some ([], [byte 49])) []], []⟩,
    .dom [byte 98] [.text ⟨[.kv [] [byte 120] [] none []], []⟩]] = true := by decide
example : wfL [.dom [byte 98] [.text ⟨[.kv [] [byte 120] [] none []], []⟩],
    .text ⟨[.kv [] [byte 98] [] (some ([], [byte 49])) []], []⟩] = true := by decide

/-! ## The property at full strength

`C17_full` (above) is the property for the parser composed with a tokenizer; `C17_bytes` proves it.
The remaining clauses of the property text — listings exact, typed getters, trimming, first `=`,
comments, last-wins — are the theorems above, for every grammar document with `NoClash`; the two
stated boundaries are the name clash (`C17_name_clash_*`) and the names a path string can spell
(`C17_path_key`). -/

end Tars.Conf
