import TarsModel.Proofs.TraceKey

/-!
# Trace-key parser (`tars/util/trace/trace.go`) — the C05 clause for `initType` / `SpanContext.Init`

`Protocol.Invoke` parses the STATUS_TRACE_KEY entry of a request's status map under
`defer CheckPanic()`: a panic in the parser lets ONE well-formed packet end the server process.
The model (`Model/TraceKey.lean`) makes Go's slice expression partial, so "never panics" is a
statement, not a convention.

* `Trace_initType_total` / `Trace_spanInit_total`: for every byte string the parser of the tree
  returns a value — the only slice expression is `tid[:pos]` with `pos = strings.Index(tid, "-")`,
  and the '.'-separated flags are taken from that PREFIX; the type is within 0..15 and the limit
  is at least the configured default.
* `Trace_initTypeCut_panics` (+ witness): the "cut in place" rewrite of seeded change C05g, which
  looks the '.' up in the whole id, panics exactly when the first '.' lies behind the first '-'
  (`"-."`, `"f-a.b"`): the shape the totality theorem excludes.

Helper lemmas: `Proofs/TraceKey.lean`.
-/
namespace Tars.TraceKey
open Tars

/-- **`initType` is total.**  For every trace id and every configured default the parser of the
    current tree returns a value (no slice expression is out of range), the type lies in 0..15
    and the limit is never below the default. -/
theorem Trace_initType_total (dflt : Nat) (tid : Bytes) :
    ∃ t m, initType dflt tid = .ok (t, m) ∧ 0 ≤ t ∧ t ≤ 15 ∧ dflt ≤ m := by
  unfold initType
  cases hp : indexByte dash tid with
  | none => exact ⟨_, _, rfl, (clampType_range 0).1, (clampType_range 0).2, Nat.le_refl _⟩
  | some pos =>
    simp only
    rw [slice_prefix_ok tid (Nat.le_of_lt (indexByte_lt hp))]
    simp only
    refine ⟨_, _, rfl, (clampType_range _).1, (clampType_range _).2, ?_⟩
    split
    · split
      · split <;> omega
      · exact Nat.le_refl _
    · exact Nat.le_refl _

/-- **`SpanContext.Init` is total**: any status-map value is parsed without a panic. -/
theorem Trace_spanInit_total (dflt : Nat) (key : Bytes) : ∃ r, spanInit dflt key = .ok r := by
  unfold spanInit
  simp only
  split
  · obtain ⟨t, m, h, _⟩ := Trace_initType_total dflt ((splitOn bar key).headD [])
    rw [h]; exact ⟨_, rfl⟩
  · exact ⟨_, rfl⟩

/-- non-vacuity: the framework's own form, and the strings that kill the rewritten parser -/
example : initType 1 ([byte 102, dot, byte 50, dash, byte 101]) = .ok (15, 2) := by rfl
example : initType 1 [dash, dot] = .ok (0, 1) := by rfl
example : spanInit 1 [byte 102, dash, byte 97, dot, byte 98, bar, byte 48] = .ok (some (15, 1)) := by rfl

/-- **The in-place rewrite panics.**  When the first '.' of the id lies behind its first '-',
    `tid[dot+1:pos]` has `low > high`: a run-time panic, i.e. the death of the server. -/
theorem Trace_initTypeCut_panics (dflt : Nat) (tid : Bytes) (p d : Nat)
    (hp : indexByte dash tid = some p) (hd : indexByte dot tid = some d) (h : p < d) :
    initTypeCut dflt tid = .error (.panic "slice bounds out of range") := by
  unfold initTypeCut
  simp only [hp, hd]
  rw [slice_prefix_ok tid (Nat.le_of_lt (indexByte_lt hp))]
  simp only
  rw [slice_prefix_ok tid (Nat.le_of_lt (indexByte_lt hd))]
  have : slice tid (d + 1) p = .error (.panic "slice bounds out of range") := by
    unfold slice; rw [if_neg (by omega)]
  rw [this]

/-- the witness of seeded change C05g: the trace id `-.` (status value `-.|x`) -/
theorem Trace_initTypeCut_witness :
    initTypeCut 1 [dash, dot] = .error (.panic "slice bounds out of range") ∧
    initType 1 [dash, dot] = .ok (0, 1) := ⟨by rfl, by rfl⟩

end Tars.TraceKey
