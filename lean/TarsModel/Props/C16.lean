import TarsModel.Proofs.IdlTotal
import TarsModel.Proofs.IdlAccept
import TarsModel.Proofs.IdlLex
import TarsModel.Proofs.IdlSchema
import TarsModel.Proofs.IdlSem
import TarsModel.Generated.Consts

/-!
# C16 — tars2go: the tool always terminates; valid IDL is accepted and yields the declared schema

Property theorems only (helper lemmas live in `Proofs/Idl*.lean`).  The model is
`Model/Idl.lean`: the lexer (`lexer.go`), the recursive-descent parser and semantic analysis
(`parse.go`, `ast.go`) and the acceptance conditions of the generator (`typeDef`, `genEnum`), with
one `Variant` switch per defect that has a proposed repair, each on exactly the affected definition:
D5 (`parseEnum` has no exit at end of input), D6 (`typeDef` has no case for `byte`), and three
case/array defects of `genEnum`, `analyzeDefault`, `checkDepTName`.

What is a theorem here and what is not: termination and acceptance are theorems about the front end
model.  That the *emitted Go text compiles* and that it *is what the codec model describes* is not a
Lean theorem (it concerns 1 600 lines of string templates and the Go compiler); it is established
per generated program by the harness (`go build` of the emitted packages + comparison of the
emitted struct tags/enum values with the declared schema): translation validation, not proof.
-/
namespace Tars.Idl

/-! ## Totality -/

/-- Full-strength statement of the termination clause: on every input the tool ends with `ok` or with
a diagnostic. -/
def C16_total_full : Prop :=
  ∀ input : Bytes, (∃ f, tool .repaired input = .ok f) ∨ (∃ d, tool .repaired input = .diag d)

/-- **Termination.**  All model functions are total Lean functions (the lexer by well-founded
recursion on the unread bytes, every parser loop and recursive call guarded by a progress check whose
failure is the explicit outcome `hang`).  For every input, the model with the D5 repair (whatever the
other switches) never fails a progress check: it answers `ok`, a diagnostic, or `unsupported`.
`_partial`: what is missing from `C16_total_full` are the inputs with a second `module` or an
`#include`, which leave the model (`unsupported`); the Go code handles them with a nested parser that
runs the same loops on the same lexer and with a recursion over included files that is bounded by
the include-chain check. -/
theorem C16_total_partial (v : Variant) (hv : v.enumEof = true) (input : Bytes) :
    (∃ f, tool v input = .ok f) ∨ (∃ d, tool v input = .diag d) ∨
      (∃ w, tool v input = .unsupported w) := by
  have h := (tool_sat v hv input).1
  cases hq : tool v input with
  | ok f => exact Or.inl ⟨f, rfl⟩
  | diag d => exact Or.inr (Or.inl ⟨d, rfl⟩)
  | hang => exact absurd hq h
  | unsupported w => exact Or.inr (Or.inr ⟨w, rfl⟩)

example : Variant.repaired.enumEof = true := rfl

/-- the same for the parser alone (`parse.NewParse`) -/
theorem C16_parse_never_hangs (input : Bytes) : parseFile .repaired input ≠ .hang :=
  (parseFile_sat .repaired rfl input).1

/-- the lexer delivers the `Eof` token again and again once it has reached the end (or a NUL byte):
this is why a parser loop that ignores `Eof` cannot make progress -/
theorem C16_lexer_eof_fixpoint (s : LexState) (h : s.cur = 0) : lLex s = some (.eof, s) :=
  lLex_eof s h

/-- every token other than `Eof` consumes input (the termination argument of the lexer) -/
theorem C16_lexer_progress (s s' : LexState) (t : Tok) (h : lLex s = some (t, s')) :
    s'.size ≤ s.size ∧ (t ≠ .eof → s'.size < s.size) :=
  lLex_size s t s' h

/-- parser state reproduced by `next`: only `⟨Eof, []⟩` -/
theorem C16_next_progress (s s' : PS) (h : s.next = .ok s') :
    s'.size < s.size ∨ (s.tk = .eof ∧ s.ts = [] ∧ s' = s) :=
  next_cases s s' h

/-! ## D5: the as-found `parseEnum` loop does not terminate at end of input -/

/-- **Counterexample (as found).**  On `module a { enum E {` the faithful model of the `LFOR` loop
repeats the same iteration (state `⟨Eof, []⟩`) for ever. -/
theorem C16_hang_counterexample : tool .asFound (asc "module a { enum E {") = .hang := by
  decide +kernel

/-- the same input is diagnosed by the repaired parser -/
theorem C16_hang_repaired : tool .repaired (asc "module a { enum E {") = .diag "enum-eof" := by
  decide +kernel

/-- sibling witness: end of input after an enumerator -/
theorem C16_hang_counterexample_member : tool .asFound (asc "module a { enum E { A") = .hang := by
  decide +kernel

/-- the hang is confined to the enum loop: with no `enum` keyword among the tokens… the other loops
of the as-found parser are the same code as in the repaired one; concretely, truncations inside the
other productions are diagnosed -/
theorem C16_asFound_other_loops_diagnose :
    tool .asFound (asc "module a { struct S {") = .diag "expect-tags" ∧
    tool .asFound (asc "module a { interface I {") = .diag "expect-type" ∧
    tool .asFound (asc "module a { key[S,") = .diag "expect-name" ∧
    tool .asFound (asc "module a {") = .diag "module-not-expect" ∧
    tool .asFound (asc "module a { struct S { 0 require vector<") = .diag "expert-type" := by
  refine ⟨?_, ?_, ?_, ?_, ?_⟩ <;> decide +kernel

/-- **Sibling loops.**  Every other loop and recursion of the parser — struct members, interface
functions, function arguments, `key[...]` members, nested types — consumes a token per iteration or
ends with a diagnostic, in the code as found (these functions do not depend on the variant): the
flaw of D5 is confined to `parseEnum`.  (The lexer loops are total by `C16_lexer_progress`.) -/
theorem C16_sibling_loops_terminate :
    (∀ acc s, structLoop acc s ≠ .hang) ∧ (∀ acc s, funLoop acc s ≠ .hang) ∧
    (∀ acc s, argLoop acc s ≠ .hang) ∧ (∀ acc s, keyLoop acc s ≠ .hang) ∧
    (∀ s, parseType s ≠ .hang) ∧ (∀ m s, parseConst m s ≠ .hang) :=
  ⟨fun acc s => (structLoop_sat acc s).1, fun acc s => (funLoop_sat acc s).1,
   fun acc s => (argLoop_sat acc s).1, fun acc s => (keyLoop_sat acc s).1,
   fun s => (parseType_sat s).1, fun m s => (parseConst_sat m s).1⟩

/-! ## D6: `optional byte` without default is rejected as found -/

theorem C16_typeDef_counterexample :
    tool .asFound (asc "module a { struct S { 0 optional byte b; }; };") = .diag "typeDef-unknown-type" := by
  decide +kernel

theorem C16_typeDef_repaired :
    (match tool .repaired (asc "module a { struct S { 0 optional byte b; }; };") with
      | .ok f => decide (schemaOf f = [⟨asc "S", [⟨0, false, .prim .byte false, asc "b", asc "B", []⟩]⟩])
      | _ => false) = true := by
  decide +kernel

/-! ## Further boundaries found by the check (each with its repair switch) -/

/-- `genEnum`: as found, a reference to an enumerator whose name starts in lower case is rejected
("not define before use"); with the repair the program is accepted. -/
theorem C16_enumRef_counterexample :
    tool .asFound (asc "module a { enum E { x = 4, Y = x }; };") = .diag "enum-not-defined-before-use" ∧
    (match tool .repaired (asc "module a { enum E { x = 4, Y = x }; };") with | .ok _ => true | _ => false) = true := by
  constructor <;> decide +kernel

/-- `analyzeDefault`: as found, the default of a member whose enum type starts in lower case names a
constant that `genEnum` does not declare (`e_A` instead of `E_A`). -/
theorem C16_enumDefault_counterexample :
    (match tool .asFound (asc "module a { enum e { A }; struct S { 0 optional e x = A; }; };") with
      | .ok f => decide ((schemaOf f).map (fun s => s.fields.map (·.dflt)) = [[asc "e_A"]]) | _ => false) = true ∧
    (match tool .repaired (asc "module a { enum e { A }; struct S { 0 optional e x = A; }; };") with
      | .ok f => decide ((schemaOf f).map (fun s => s.fields.map (·.dflt)) = [[asc "E_A"]]) | _ => false) = true := by
  constructor <;> decide +kernel

/-- `checkDepTName`: as found, the element type of a fixed-size array is not resolved (an enum stays
`unresolved` and is then emitted as a struct). -/
theorem C16_arrayDepend_counterexample :
    (match tool .asFound (asc "module a { enum E { A }; struct S { 0 require E x[2]; }; };") with
      | .ok f => decide ((schemaOf f).map (fun s => s.fields.map (·.type)) =
          [[.array (.named (asc "E") .unresolved) 2]]) | _ => false) = true ∧
    (match tool .repaired (asc "module a { enum E { A }; struct S { 0 require E x[2]; }; };") with
      | .ok f => decide ((schemaOf f).map (fun s => s.fields.map (·.type)) =
          [[.array (.named (asc "E") .enum) 2]]) | _ => false) = true := by
  constructor <;> decide +kernel

/-! ## Acceptance of the grammar -/

/-- Full-strength statement: every program of the supported language (Appendix C: several modules,
includes, qualified names, …), in every layout, is accepted by the tool with the declared tree. -/
def C16_accepts_grammar_full : Prop :=
  ∀ (p : Prog) (lead : Sep) (seps : List Sep), p.WF = true → seps.length = p.toks.length →
    lead.all Trivia.WF = true → renderOK (p.toks.zip seps) = true →
    ∃ f, tool .repaired (p.render lead seps) = .ok f

/-- **Acceptance at token level.**  For every well-formed program of the grammar (one module;
enums with automatic/explicit/referencing enumerators and optional trailing comma; constants of every
scalar type; structs with `require`/`optional` members of every scalar, `unsigned`, `vector`, `map`,
named type, fixed-size arrays and defaults of every kind; `key[...]`; interfaces with `void`/typed
functions and in/out parameters) the parser reads the program's token sequence as exactly the syntax
tree the program declares — in both variants (a valid program never reaches the D5 branch). -/
theorem C16_accepts_tokens (v : Variant) (p : Prog) (h : p.WF = true) :
    parseTokens v p.toks = .ok p.ast :=
  parseTokens_accept v p h

/-- **The lexer on rendered programs.**  Any sequence of lexable tokens, each followed by an arbitrary
well-formed separator (blanks, line ends, `//` and `/* */` comments; non-empty after word-like tokens),
is lexed back to exactly that sequence. -/
theorem C16_lexer_accepts (lead : Sep) (hl : lead.all Trivia.WF = true) (l : List (Tok × Sep))
    (h : renderOK l = true) : tokens (lead.bytes ++ renderToks l) = l.map Prod.fst :=
  tokens_render lead hl l h

/-- **Acceptance of the grammar (syntax), from bytes.**  `parse (render p) = ok (ast p)` for every
well-formed program of the grammar in every layout.
`_partial`, missing relative to `C16_accepts_grammar_full`: (1) one module per file and no
`#include` (outside the model); (2) names are unqualified identifiers of letters, digits, `_` (the
lexer also admits `-` inside names and `a::b`); numeric literals are decimal (the lexer also admits
hex/octal) — both only restrict `renderOK`, `C16_accepts_tokens` has no such restriction;
(3) `/* */` comments without `*` inside; (4) the statement stops after syntax analysis; name
resolution (`analyze`) and the generator conditions (`genCheck`) are added by
`C16_tool_accepts_partial`. -/
theorem C16_accepts_grammar_partial (v : Variant) (p : Prog) (lead : Sep) (seps : List Sep)
    (hwf : p.WF = true) (hlen : seps.length = p.toks.length)
    (hlead : lead.all Trivia.WF = true) (hr : renderOK (p.toks.zip seps) = true) :
    parseTokens v (tokens (p.render lead seps)) = .ok p.ast := by
  unfold Prog.render
  rw [tokens_render lead hlead _ hr, List.map_fst_zip (Nat.le_of_eq hlen.symm)]
  exact parseTokens_accept v p hwf

/-- **Acceptance by the whole tool model** (`NewParse` + the generator's acceptance conditions): a
well-formed program of the grammar that also satisfies the semantic side conditions of the
language — named types are unqualified names of structs/enums of the module, defaults by name are
enumerators of exactly one enum, `= earlierName` enumerators are found by `genEnum`'s scan — is
accepted in every layout, by every variant that has the D6 repair (the D5 switch does not matter
for valid programs); the enums and the struct names of the result are the declared ones.
`_partial` for the same reasons as `C16_accepts_grammar_partial` (1)–(3).  On the unrepaired
`genEnum`/`checkDepTName`/`analyzeDefault` the same statement holds with the respective switch off
— but then `semOK` (as found) rejects lower-case enumerator references, and the emitted text no longer
compiles for lower-case enum names in defaults and for named types inside arrays: those are the
boundaries `C16_enumRef_counterexample`, `C16_enumDefault_counterexample`,
`C16_arrayDepend_counterexample`. -/
theorem C16_tool_accepts_partial (v : Variant) (hv : v.typeDefByte = true) (p : Prog) (lead : Sep)
    (seps : List Sep) (hwf : p.WF = true) (hlen : seps.length = p.toks.length)
    (hlead : lead.all Trivia.WF = true) (hr : renderOK (p.toks.zip seps) = true)
    (hsem : semOK v p.ast = true) :
    ∃ f, tool v (p.render lead seps) = .ok f ∧ f.module.enums = p.ast.module.enums ∧
      f.module.structs.map (·.name) = p.ast.module.structs.map (·.name) := by
  obtain ⟨f, hf, he, hn⟩ := analyze_ok v p.ast hsem
  refine ⟨f, ?_, he, hn⟩
  unfold tool parseFile
  rw [C16_accepts_grammar_partial v p lead seps hwf hlen hlead hr]
  simp only [Res.bind_ok]
  rw [hf]
  simp only [Res.bind_ok]
  rw [genCheck_ok v hv p.ast f hsem he]
  rfl

/-! ### non-vacuity: a concrete program with every declaration kind -/

/-- `module m { enum E { A, B = 5, C = A, }; const int K = 3; struct S { 7 require int x = 1;
2 optional vector<map<string, E>> v; 0 optional unsigned byte ub; 3 optional string s[4]; };
key[S, x, v]; interface I { int f(int a, out S b); void g(); }; };` -/
def exampleProg : Prog :=
  { modName := asc "m",
    decls := [
      .enum ⟨asc "E", [⟨asc "A", .auto⟩, ⟨asc "B", .int (asc "5") 5⟩, ⟨asc "C", .ref (asc "A")⟩], true⟩,
      .const ⟨.prim .int, asc "K", .int (asc "3") 3⟩,
      .struct ⟨asc "S", [
        ⟨asc "7", 7, true, .prim .int, asc "x", .dflt (.int (asc "1") 1)⟩,
        ⟨asc "2", 2, false, .vector (.map (.prim .string) (.named (asc "E"))), asc "v", .plain⟩,
        ⟨asc "0", 0, false, .unsigned .byte, asc "ub", .plain⟩,
        ⟨asc "3", 3, false, .prim .string, asc "s", .array (asc "4") 4⟩]⟩,
      .key ⟨asc "S", asc "x", [asc "v"]⟩,
      .interface ⟨asc "I", [
        ⟨some (.prim .int), asc "f", [⟨false, .prim .int, asc "a"⟩, ⟨true, .named (asc "S"), asc "b"⟩]⟩,
        ⟨none, asc "g", []⟩]⟩ ] }

/-- every token followed by a blank, a `//` comment and a `/* */` comment -/
def exampleSeps : List Sep :=
  List.replicate exampleProg.toks.length
    [.blank 32, .line (asc " c") 10, .blank 9, .block (asc " x\n y "), .blank 13, .blank 10]

example : exampleProg.WF = true := by decide +kernel
example : renderOK (exampleProg.toks.zip exampleSeps) = true := by decide +kernel
example : parseTokens .repaired (tokens (exampleProg.render [.blank 10] exampleSeps)) = .ok exampleProg.ast :=
  C16_accepts_grammar_partial .repaired exampleProg [.blank 10] exampleSeps (by decide +kernel)
    (by decide +kernel) (by decide +kernel) (by decide +kernel)
example : semOK .repaired exampleProg.ast = true := by decide +kernel
/-- the example goes through name resolution and the generator conditions, too -/
example : (match tool .repaired (exampleProg.render [.blank 10] exampleSeps) with
    | .ok _ => true | _ => false) = true := by decide +kernel

/-! ## Schema -/

/-- **Declared schema.**  The struct schemas extracted from the syntax tree of a well-formed program
are, in declaration order, those of its struct declarations (names capitalised), and the members of
each are exactly the declared members (tag, `require`, type incl. `unsigned`/array, names, default)
arranged in strictly ascending tag order — the order in which `WriteTo`/`ReadFrom` are emitted. -/
theorem C16_schema (p : Prog) (h : p.WF = true) :
    (schemaOf p.ast).map (·.name) = p.structDecls.map (fun s => upperFirst s.name) ∧
    (schemaOf p.ast).map (·.fields) =
      p.structDecls.map (fun s => (sortTag (s.fields.map GField.ast)).map StructMember.schema) ∧
    ∀ s ∈ p.structDecls,
      ((sortTag (s.fields.map GField.ast)).map StructMember.schema).Pairwise (fun a b => a.tag < b.tag) ∧
      ((sortTag (s.fields.map GField.ast)).map StructMember.schema).Perm s.declared := by
  have hw : declsWF { name := p.modName } p.decls = true := by
    have : p.modName ≠ [] ∧ declsWF { name := p.modName } p.decls = true := by simpa [Prog.WF] using h
    exact this.2
  have hst : p.ast.module.structs =
      p.structDecls.map fun s => ⟨s.name, sortTag (s.fields.map GField.ast)⟩ := by
    have := structs_foldl p.decls { name := p.modName }
    simpa [Prog.ast, Prog.structDecls] using this
  refine ⟨?_, ?_, ?_⟩
  · simp [schemaOf, hst, List.map_map, Function.comp_def]
  · simp [schemaOf, hst, List.map_map, Function.comp_def]
  · intro s hs
    have hd := declsWF_structs p.decls _ hw s hs
    refine ⟨?_, ?_⟩
    · rw [List.pairwise_map]
      exact sortTag_strict _ hd
    · have := (sortTag_perm (s.fields.map GField.ast)).map StructMember.schema
      simpa [GStruct.declared, List.map_map, Function.comp_def] using this

/-- the sort is the parser's own `sortTag` on an arbitrary member list with distinct tags -/
theorem C16_sortTag_spec (l : List StructMember) (h : dupTag l = false) :
    (sortTag l).Pairwise (fun a b => a.tag < b.tag) ∧ (sortTag l).Perm l :=
  ⟨sortTag_strict l h, sortTag_perm l⟩

/-! ## Tie of the keyword table to `token/token.go` (regenerated constants) -/

/-- base-256 numeral of at most 7 bytes -/
def num256 (b : Bytes) : Nat := b.foldl (fun a x => a * 256 + x.val) 0

/-- The table `readIdent` searches in the model is, entry by entry and in order, the spelling table
extracted from `token.go` (`tokenMap` between `DummyKeywordBegin`/`DummyKeywordEnd` and
`DummyTypeBegin`/`DummyTypeEnd`, positions from the `iota` block). -/
theorem C16_keyword_table :
    kwTable.map (fun e => (num256 (e.1.take 7), num256 (e.1.drop 7))) =
      [ (Consts.idlSpellModuleA, Consts.idlSpellModuleB), (Consts.idlSpellEnumA, Consts.idlSpellEnumB),
        (Consts.idlSpellStructA, Consts.idlSpellStructB), (Consts.idlSpellInterfaceA, Consts.idlSpellInterfaceB),
        (Consts.idlSpellRequireA, Consts.idlSpellRequireB), (Consts.idlSpellOptionalA, Consts.idlSpellOptionalB),
        (Consts.idlSpellConstA, Consts.idlSpellConstB), (Consts.idlSpellUnsignedA, Consts.idlSpellUnsignedB),
        (Consts.idlSpellVoidA, Consts.idlSpellVoidB), (Consts.idlSpellOutA, Consts.idlSpellOutB),
        (Consts.idlSpellKeyA, Consts.idlSpellKeyB), (Consts.idlSpellTrueA, Consts.idlSpellTrueB),
        (Consts.idlSpellFalseA, Consts.idlSpellFalseB),
        (Consts.idlSpellTIntA, Consts.idlSpellTIntB), (Consts.idlSpellTBoolA, Consts.idlSpellTBoolB),
        (Consts.idlSpellTShortA, Consts.idlSpellTShortB), (Consts.idlSpellTByteA, Consts.idlSpellTByteB),
        (Consts.idlSpellTLongA, Consts.idlSpellTLongB), (Consts.idlSpellTFloatA, Consts.idlSpellTFloatB),
        (Consts.idlSpellTDoubleA, Consts.idlSpellTDoubleB), (Consts.idlSpellTStringA, Consts.idlSpellTStringB),
        (Consts.idlSpellTVectorA, Consts.idlSpellTVectorB), (Consts.idlSpellTMapA, Consts.idlSpellTMapB),
        (Consts.idlSpellTArrayA, Consts.idlSpellTArrayB) ] ∧
    [ Consts.idlPosModule, Consts.idlPosEnum, Consts.idlPosStruct, Consts.idlPosInterface, Consts.idlPosRequire,
      Consts.idlPosOptional, Consts.idlPosConst, Consts.idlPosUnsigned, Consts.idlPosVoid, Consts.idlPosOut,
      Consts.idlPosKey, Consts.idlPosTrue, Consts.idlPosFalse, Consts.idlPosDummyKeywordEnd ] =
      (List.range 14).map (· + Consts.idlPosDummyKeywordBegin + 1) ∧
    [ Consts.idlPosTInt, Consts.idlPosTBool, Consts.idlPosTShort, Consts.idlPosTByte, Consts.idlPosTLong,
      Consts.idlPosTFloat, Consts.idlPosTDouble, Consts.idlPosTString, Consts.idlPosTVector, Consts.idlPosTMap,
      Consts.idlPosTArray, Consts.idlPosDummyTypeEnd ] =
      (List.range 12).map (· + Consts.idlPosDummyTypeBegin + 1) ∧
    (num256 ((asc "#include").take 7), num256 ((asc "#include").drop 7)) =
      (Consts.idlSpellIncludeA, Consts.idlSpellIncludeB) := by
  refine ⟨?_, ?_, ?_, ?_⟩ <;> decide +kernel

end Tars.Idl
