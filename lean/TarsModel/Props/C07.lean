/-
  C07 — Stream framing is independent of TCP segmentation and bounds packet size.

  Model: `TarsModel/Model/Frame.lean` — `tarsRequest` (= `protocol.TarsRequest`), the inner parse
  loops `drainServer` (= `tcpHandler.recv`) and `drainClient` (= `connection.recv`), and the outer
  loop over successful reads `feed`/`feedAll`.  `side` ranges over both receive loops, `maxLen` over
  every value of `maxPackageLength` (any Go `int`), chunk lists over *every* sequence of reads
  (empty reads, single bytes, many packets in one read, reads larger than any buffer).

  What the receive loop hands to the protocol layer (`Invoke` on the server, `Recv` on the client)
  is the packet *including* its 4-byte length prefix: the delivered packets of a stream of framed
  bodies `ps` are `ps.map frame`.

  "closes that connection only": the state of a receive loop is the `Conn` value of that
  connection; `feed` reads nothing else but `maxLen` and writes nothing else, so the status of one
  connection is a function of the bytes read on that connection alone.
-/
import TarsModel.Proofs.FrameFeed

namespace Tars.Frame.C07
open Tars Tars.Frame

/-- C07, full strength, in one statement (proved below as `C07_full_holds` from the clauses). -/
def C07_full : Prop :=
  ∀ (side : Side) (maxLen : Int) (ps : List Bytes), (∀ p ∈ ps, Legal maxLen p) →
    -- every partition of the stream of framed packets: exactly those packets, nothing buffered, open
    (∀ cs : List Bytes, cs.flatten = (ps.map frame).flatten →
      feedAll side maxLen Conn.init cs = (⟨[], .open⟩, ps.map frame)) ∧
    -- followed by an illegal length and anything else: exactly the packets before it, then closed
    (∀ (hdr rest : Bytes), hdr.length = 4 → (beVal hdr < 4 ∨ (beVal hdr : Int) > maxLen) →
      ∀ cs : List Bytes, cs.flatten = (ps.map frame).flatten ++ hdr ++ rest →
        (feedAll side maxLen Conn.init cs).2 = ps.map frame ∧
        (feedAll side maxLen Conn.init cs).1.status = .closed)

/-- **Chunking independence.** For every sequence of reads `cs` (any partition of any byte stream,
empty reads included), both receive loops deliver the same packets in the same order and end in
the same status as if the whole stream had arrived in one read; while the connection is open the
buffered rest is the same too (after a protocol error the chunked run has simply stopped reading
earlier: its buffer is a prefix). -/
theorem C07_chunking (side : Side) (maxLen : Int) (cs : List Bytes) :
    (feedAll side maxLen Conn.init cs).2 = (feed side maxLen Conn.init cs.flatten).2 ∧
    (feedAll side maxLen Conn.init cs).1.status = (feed side maxLen Conn.init cs.flatten).1.status ∧
    ((feedAll side maxLen Conn.init cs).1.status = .open →
      (feedAll side maxLen Conn.init cs).1 = (feed side maxLen Conn.init cs.flatten).1) ∧
    (feedAll side maxLen Conn.init cs).1.buf <+: (feed side maxLen Conn.init cs.flatten).1.buf := by
  obtain ⟨h1, h2, h3, h4⟩ := feedAll_flatten side maxLen cs Conn.init (settled_init maxLen)
  refine ⟨h1, h2, ?_, h4⟩
  intro ho
  have hb := h3 ho
  generalize feedAll side maxLen Conn.init cs = a at *
  generalize feed side maxLen Conn.init cs.flatten = b at *
  obtain ⟨⟨ab, as⟩, ad⟩ := a
  obtain ⟨⟨bb, bs⟩, bd⟩ := b
  simp only at h2 hb
  rw [h2, hb]

/-- **Any two partitions of the same stream** give the same packets, order and status, and the
same buffered rest while open. -/
theorem C07_chunking_partitions (side : Side) (maxLen : Int) (cs₁ cs₂ : List Bytes)
    (h : cs₁.flatten = cs₂.flatten) :
    (feedAll side maxLen Conn.init cs₁).2 = (feedAll side maxLen Conn.init cs₂).2 ∧
    (feedAll side maxLen Conn.init cs₁).1.status = (feedAll side maxLen Conn.init cs₂).1.status ∧
    ((feedAll side maxLen Conn.init cs₁).1.status = .open →
      (feedAll side maxLen Conn.init cs₁).1 = (feedAll side maxLen Conn.init cs₂).1) := by
  obtain ⟨a1, a2, a3, _⟩ := C07_chunking side maxLen cs₁
  obtain ⟨b1, b2, b3, _⟩ := C07_chunking side maxLen cs₂
  rw [h] at a1 a2 a3
  refine ⟨by rw [a1, b1], by rw [a2, b2], ?_⟩
  intro ho
  rw [a3 ho, b3 (by rw [b2, ← a2]; exact ho)]

example : ([[1, 2], [], [3]] : List Bytes).flatten = ([[1], [2, 3]] : List Bytes).flatten := by decide

/-- **Frames.** For every list of packets whose framed length is at most the maximum (and fits
the 4-byte prefix) and every partition of the concatenated stream into reads: exactly those
packets are delivered, each once, complete, in order; nothing stays buffered; the connection is
open. -/
theorem C07_frames (side : Side) (maxLen : Int) (ps : List Bytes)
    (hp : ∀ p ∈ ps, Legal maxLen p) (cs : List Bytes)
    (hcs : cs.flatten = (ps.map frame).flatten) :
    feedAll side maxLen Conn.init cs = (⟨[], .open⟩, ps.map frame) := by
  obtain ⟨h1, h2, h3, _⟩ := C07_chunking side maxLen cs
  have hf : feed side maxLen Conn.init cs.flatten = (⟨[], .open⟩, ps.map frame) := by
    rw [feed_open side maxLen Conn.init _ rfl, hcs]
    have := drainServer_frames (m := maxLen) ps hp []
    rw [List.append_nil, drainServer_nil] at this
    simp only [Conn.init, List.nil_append]
    rw [this]
    simp
  rw [hf] at h1 h2 h3
  have h3' := h3 h2
  generalize feedAll side maxLen Conn.init cs = a at *
  obtain ⟨a1, a2⟩ := a
  simp only at h1 h3'
  rw [h1, h3']

/-- non-vacuity: the 1-byte body `[7]` and the empty body are legal for `maxLen = 5`, and
`[frame [7], frame []]` has a partition into single bytes -/
example : ∀ p ∈ ([[7], []] : List Bytes), Legal 5 p := by unfold Legal; decide
example : ([[0], [0], [0], [5], [7], [0], [0], [0], [4]] : List Bytes).flatten
    = (([[7], []] : List Bytes).map frame).flatten := by decide

/-- **Bounds, rejection.** A length prefix smaller than 4 or larger than the maximum, arriving
after any number of legal packets, split in any way (also inside the header, also with bytes
following it): exactly the preceding packets are delivered and the connection is closed. -/
theorem C07_bounds (side : Side) (maxLen : Int) (ps : List Bytes)
    (hp : ∀ p ∈ ps, Legal maxLen p) (hdr rest : Bytes) (hlen : hdr.length = 4)
    (hbad : beVal hdr < 4 ∨ (beVal hdr : Int) > maxLen) (cs : List Bytes)
    (hcs : cs.flatten = (ps.map frame).flatten ++ hdr ++ rest) :
    (feedAll side maxLen Conn.init cs).2 = ps.map frame ∧
    (feedAll side maxLen Conn.init cs).1.status = .closed := by
  obtain ⟨h1, h2, _, _⟩ := C07_chunking side maxLen cs
  have hf : feed side maxLen Conn.init cs.flatten = (⟨hdr ++ rest, .closed⟩, ps.map frame) := by
    rw [feed_open side maxLen Conn.init _ rfl, hcs]
    have := drainServer_frames (m := maxLen) ps hp (hdr ++ rest)
    rw [drainServer_illegal hdr hlen hbad rest] at this
    simp only [Conn.init, List.nil_append, List.append_assoc]
    rw [this]
    simp
  rw [hf] at h1 h2
  exact ⟨h1, h2⟩

/-- non-vacuity: with `maxLen = 5` the prefixes 3 and 6 are illegal -/
example : beVal ([0, 0, 0, 3] : Bytes) < 4 ∨ (beVal ([0, 0, 0, 3] : Bytes) : Int) > 5 := by decide
example : beVal ([0, 0, 0, 6] : Bytes) < 4 ∨ (beVal ([0, 0, 0, 6] : Bytes) : Int) > 5 := by decide

/-- **Bounds, acceptance at the maximum.** A packet whose framed length is exactly the maximum is
accepted, however it is split. -/
theorem C07_bounds_exact_max (side : Side) (maxLen : Int) (p : Bytes)
    (hmax : ((p.length + 4 : Nat) : Int) = maxLen) (h32 : p.length + 4 < 2 ^ 32)
    (cs : List Bytes) (hcs : cs.flatten = frame p) :
    feedAll side maxLen Conn.init cs = (⟨[], .open⟩, [frame p]) := by
  have := C07_frames side maxLen [p] (by
    intro q hq
    simp only [List.mem_cons, List.not_mem_nil, or_false] at hq
    subst hq
    exact ⟨by omega, h32⟩) cs (by simpa using hcs)
  simpa using this

example : (((([1, 2, 3] : Bytes).length + 4 : Nat) : Int) = 7) := by decide

/-- **Bounds, one more than the maximum is rejected** (instance of `C07_bounds` spelled out for
the boundary): the prefix `maxLen + 1` closes the connection. -/
theorem C07_bounds_max_plus_one (side : Side) (maxLen : Nat) (h32 : maxLen + 1 < 2 ^ 32)
    (rest : Bytes) (cs : List Bytes) (hcs : cs.flatten = be 4 (maxLen + 1) ++ rest) :
    (feedAll side maxLen Conn.init cs).2 = [] ∧
    (feedAll side maxLen Conn.init cs).1.status = .closed := by
  have hv : beVal (be 4 (maxLen + 1)) = maxLen + 1 := by
    rw [beVal_be]; exact Nat.mod_eq_of_lt h32
  have := C07_bounds side maxLen [] (by simp) (be 4 (maxLen + 1)) rest (by simp)
    (Or.inr (by rw [hv]; omega)) cs (by simpa using hcs)
  simpa using this

/-- **Bounds, nothing oversize or incomplete is ever delivered.** Whatever bytes arrive in whatever
reads, every delivered packet has at least 4 and at most `maxLen` bytes and is exactly as long as
its own length prefix says. -/
theorem C07_delivered_wellformed (side : Side) (maxLen : Int) (cs : List Bytes) :
    ∀ p ∈ (feedAll side maxLen Conn.init cs).2,
      4 ≤ p.length ∧ (p.length : Int) ≤ maxLen ∧ beVal (p.take 4) = p.length :=
  feedAll_wellformed side maxLen cs Conn.init

/-- **No loss, no duplication (conservation invariant).** For every sequence of reads — hence
after every step of every run — the bytes delivered so far followed by the bytes buffered are
exactly the bytes read: all of them while the connection is open, and the reads up to the one that
hit the protocol error otherwise (the loop reads nothing after it). -/
theorem C07_no_loss (side : Side) (maxLen : Int) (cs : List Bytes) :
    ∃ k, k ≤ cs.length ∧
      (feedAll side maxLen Conn.init cs).2.flatten ++ (feedAll side maxLen Conn.init cs).1.buf
        = (cs.take k).flatten ∧
      ((feedAll side maxLen Conn.init cs).1.status = .open → k = cs.length) := by
  obtain ⟨k, hk, he, hf⟩ := feedAll_conserve side maxLen cs Conn.init rfl
  exact ⟨k, hk, by simpa [Conn.init] using he, hf⟩

/-- conservation for a single read in an arbitrary open state, and inertness of a stopped loop -/
theorem C07_no_loss_step (side : Side) (maxLen : Int) (st : Conn) (c : Bytes) :
    (st.status = .open →
      (feed side maxLen st c).2.flatten ++ (feed side maxLen st c).1.buf = st.buf ++ c) ∧
    (st.status ≠ .open → feed side maxLen st c = (st, [])) :=
  ⟨feed_conserve side maxLen st c, feed_not_open side maxLen st c⟩

/-- **Incomplete packets wait.** Any proper prefix of a legal framed packet, in any partition:
nothing is delivered, everything is buffered, the connection stays open. -/
theorem C07_partial_waits (side : Side) (maxLen : Int) (p : Bytes) (hp : Legal maxLen p)
    (k : Nat) (hk : k < (frame p).length) (cs : List Bytes) (hcs : cs.flatten = (frame p).take k) :
    feedAll side maxLen Conn.init cs = (⟨(frame p).take k, .open⟩, []) := by
  obtain ⟨h1, h2, h3, _⟩ := C07_chunking side maxLen cs
  have hf : feed side maxLen Conn.init cs.flatten = (⟨(frame p).take k, .open⟩, []) := by
    rw [feed_open side maxLen Conn.init _ rfl, hcs]
    simp only [Conn.init, List.nil_append]
    rw [drainServer_frame_prefix hp k hk]
  rw [hf] at h1 h2 h3
  have h3' := h3 h2
  generalize feedAll side maxLen Conn.init cs = a at *
  obtain ⟨a1, a2⟩ := a
  simp only at h1 h3'
  rw [h1, h3']

/-- non-vacuity: the first three bytes of `frame [7]` (5 bytes) with `maxLen = 5` -/
example : Legal 5 ([7] : Bytes) ∧ 3 < (frame ([7] : Bytes)).length := by unfold Legal; decide

/-- **Reconnect starts from the empty buffer.** For every history of connections of one client
(or one listener) — each cut wherever its reads end: inside a header, in the middle of a body,
after a protocol error — every connection is handled exactly as a first connection: nothing that
an earlier connection left buffered is carried over.  In particular a connection that carries,
in any partition, the framed legal packets `ps` delivers exactly `ps.map frame` whatever the
earlier connections left behind. -/
theorem C07_reconnect_fresh_buffer (side : Side) (maxLen : Int) (prev : Conn)
    (conns : List (List Bytes)) :
    session side maxLen prev conns = conns.map (feedAll side maxLen Conn.init) ∧
    ∀ (before after : List (List Bytes)) (cs : List Bytes) (ps : List Bytes),
      conns = before ++ cs :: after → (∀ p ∈ ps, Legal maxLen p) →
      cs.flatten = (ps.map frame).flatten →
      (session side maxLen prev conns)[before.length]? = some (⟨[], .open⟩, ps.map frame) := by
  have h := session_eq_map side maxLen conns prev
  refine ⟨h, ?_⟩
  intro before after cs ps hc hp hcs
  rw [h, hc, List.map_append, List.map_cons]
  rw [List.getElem?_append_right (by simp)]
  simp only [List.length_map, Nat.sub_self, List.getElem?_cons_zero]
  rw [C07_frames side maxLen ps hp cs hcs]

/-- non-vacuity: connection 1 ends after 2 header bytes of a 9-byte packet, connection 2 carries
`frame [7]` in two reads -/
example : ([[[0, 0]], [[0, 0, 0], [5, 7]]] : List (List Bytes)) = [[[0, 0]]] ++ [[0, 0, 0], [5, 7]] :: []
    ∧ ([[0, 0, 0], [5, 7]] : List Bytes).flatten = (([[7]] : List Bytes).map frame).flatten := by decide

/-- **The receive loops never panic** on any input (no slice expression goes out of range). -/
theorem C07_no_panic (side : Side) (maxLen : Int) (cs : List Bytes) :
    (feedAll side maxLen Conn.init cs).1.status ≠ .panicked :=
  feedAll_ne_panicked side maxLen cs Conn.init (by simp [Conn.init])

/-- **Client and server** handle the stream identically. -/
theorem C07_client_eq_server (maxLen : Int) (st : Conn) (cs : List Bytes) :
    feedAll .client maxLen st cs = feedAll .server maxLen st cs := by
  induction cs generalizing st with
  | nil => rfl
  | cons c cs ih =>
    have hfeed : ∀ s, feed .client maxLen s c = feed .server maxLen s c := by
      intro s
      unfold feed
      rw [drain_eq .client, drain_eq .server]
    simp only [feedAll, hfeed, ih]

/-- the per-step trace the driver prints is that of `feedAll` -/
theorem C07_trace_sound (side : Side) (maxLen : Int) (cs : List Bytes) :
    ((feedTrace side maxLen Conn.init 0 cs).1, (feedTrace side maxLen Conn.init 0 cs).2.1)
      = feedAll side maxLen Conn.init cs :=
  feedTrace_eq side maxLen cs Conn.init 0

/-- the full statement follows from `C07_frames` and `C07_bounds` -/
theorem C07_full_holds : C07_full := by
  intro side maxLen ps hp
  exact ⟨fun cs hcs => C07_frames side maxLen ps hp cs hcs,
    fun hdr rest hlen hbad cs hcs => C07_bounds side maxLen ps hp hdr rest hlen hbad cs hcs⟩

end Tars.Frame.C07
