/-
  C04 — Schema evolution, unknown fields merged into the encoding of a well-typed value.
  This file combines the C04 slot theorem (Props/C04.lean) with the C03 member round trip
  (`rt_all`, Proofs/SchemaRT3.lean).  It is separate from Props/C04.lean so that C04 proper does
  not depend on the C03 development.
-/
import TarsModel.Props.C04
import TarsModel.Proofs.EvolveRT

namespace Tars
open Consts WFField Evolve

/-- **C04_unknown_ignored**: for every well-formed schema (`EnvWF`), every struct `S` of it, every
    well-typed value `vals` of `S`, a target `ovs` whose members are as `ResetDefault` leaves a
    fresh struct (`OldOK`, inside `MembersTyped`), and every admissible interleaving (`gaps`,
    `tail`) of well-formed fields whose tags are not in the schema: `ReadFrom` returns the same
    outcome on the merged message as on `encStruct` of the value alone.

    `MembersTyped` is the member-wise form of C03's `WellTyped` (tag < 256, `TyOK`, `DfltOK`, `WT`,
    `OldOK`).  No hypothesis about the model fuel is left: `decFuel` of either run exceeds the fuel
    the members' reads need (C03's `fuelOK_all`: at most `(width+3)·bytes + 2`) plus the member
    count, and the rank of the struct (`C04_resetDefault_decFuel`). -/
theorem C04_unknown_ignored (env : Env) (rk : String → Nat) (hE : EnvWF env rk)
    (S : String) (fs : List Field) (vals ovs : List Val) (gaps : List (List WFField))
    (tail : List WFField) (r r' : Reader) (t t' : Bytes)
    (hfind : env.find S = some fs) (hlo : ovs.length = fs.length) (hlv : vals.length = fs.length)
    (hlg : gaps.length = fs.length)
    (hok : MembersTyped env rk fs (resetDefault env (decFuel env r) fs ovs) vals)
    (hadm : Admissible 0
      (gaps.zip (encSlots env fs (resetDefault env (decFuel env r) fs ovs) vals)) tail)
    (ht : Evolve.Terminated t) (ht' : Evolve.Terminated t')
    (h : r.rest = merged
      (gaps.zip (encSlots env fs (resetDefault env (decFuel env r) fs ovs) vals)) tail ++ t)
    (h' : r'.rest = encStruct env S (.struct vals) ++ t') :
    (decStruct env S (.struct ovs) r).1 = (decStruct env S (.struct ovs) r').1 := by
  have hwt := membersTyped_WTm env rk fs _ vals hok
  have hb := fuelOK_members env vals (fun v _ => fuelOK_all env v) fs hwt
  have hw := find_width env S fs hfind
  have hol : (resetDefault env (decFuel env r) fs ovs).length = fs.length := by
    rw [decFuel_pos]; exact resetDefault_length env _ fs ovs hlo.symm
  -- the encoded members fit in either input
  have hsz' : (encMembers env fs vals).length ≤ r'.data.size := by
    have := congrArg List.length h'
    simp [Reader.rest, encStruct, hfind] at this
    omega
  have hsz : (encMembers env fs vals).length ≤ r.data.size := by
    have h1 := merged_length_ge
      (gaps.zip (encSlots env fs (resetDefault env (decFuel env r) fs ovs) vals)) tail
    have hzip := map_snd_zip gaps (encSlots env fs (resetDefault env (decFuel env r) fs ovs) vals)
      (by rw [hlg, encSlots_length env fs _ vals hol hlv])
    rw [merged_strip, hzip, plain_encSlots env fs _ vals hol hlv] at h1
    have := congrArg List.length h
    simp [Reader.rest] at this
    omega
  have key : ∀ x : Reader, (encMembers env fs vals).length ≤ x.data.size →
      needElems vals + fs.length < decFuel env x := by
    intro x hx
    have : (env.width + 3) * (encMembers env fs vals).length ≤ (env.width + 3) * x.data.size :=
      Nat.mul_le_mul_left _ hx
    unfold decFuel
    rw [Nat.mul_add]
    omega
  exact C04_unknown_ignored_enc_partial env rk (envAcyclic_of_envWF hE) (needElems vals) S fs vals ovs
    gaps tail r r' t t' hfind hlo hlv hlg hadm
    (encSlots_ok env rk hE _ fs _ vals
      (membersOK_of_typed env rk _ fs _ vals (needVar_le_needElems vals) hok))
    (key r hsz) (key r' hsz') ht ht' h h'

/-- non-vacuity: all hypotheses hold together for the schema, value and unknown fields of the
    example in Props/C04.lean (`a = 5`, `b = ""` left out by the writer) -/
example :
    (decStruct C04_exEnv "S" (.struct [.int 0, .str []]) (Reader.mk0 (merged C04_exItems C04_exTail))).1
      = (decStruct C04_exEnv "S" (.struct [.int 0, .str []])
          (Reader.mk0 (encStruct C04_exEnv "S" (.struct [.int 5, .str []])))).1 := by
  have hwf : EnvWF C04_exEnv (fun _ => 0) := by
    intro name fs h
    simp only [C04_exEnv, Env.find] at h
    split at h
    · cases h
      refine ⟨Nat.zero_le _, by simp [TagsAsc, C04_exFs], ?_⟩
      intro f hf
      simp only [C04_exFs, List.mem_cons, List.not_mem_nil, or_false] at hf
      rcases hf with rfl | rfl <;> simp [FieldOK, TyOK]
    · cases h
  have hfind : C04_exEnv.find "S" = some C04_exFs := by simp [C04_exEnv, Env.find]
  have hf1 : decFuel C04_exEnv (Reader.mk0 (merged C04_exItems C04_exTail)) = 90 + 1 := by decide
  have henc : encStruct C04_exEnv "S" (.struct [.int 5, .str []]) = [Tars.byte 0x20, 5] := by
    simp [encStruct, hfind, C04_exFs, encMembers, encVar, Ty.isScalar, scalarNeDefault, scalarZero, writeScalar]
    decide
  have hf2 : decFuel C04_exEnv (Reader.mk0 (encStruct C04_exEnv "S" (.struct [.int 5, .str []]))) = 20 + 1 := by
    rw [henc]; decide
  have hr : ∀ x : Bytes, (Reader.mk0 x).rest = x ++ [] := by intro x; simp [Reader.rest, Reader.mk0]
  have hold : resetDefault C04_exEnv (90 + 1) C04_exFs [.int 0, .str []] = [.int 0, .str []] := by
    simp [C04_exFs, Evolve.resetDefault_cons, resetDefault_nil_left, resetMember, zeroOf, zeroVal,
      scalarZero]
  have hitems : ([[.zero 0, .string1 1 [Tars.byte 65]], [.list 3 [.zero 0, .zero 0]]] : List (List WFField)).zip
      (encSlots C04_exEnv C04_exFs [.int 0, .str []] [.int 5, .str []]) = C04_exItems := by
    simp [encSlots, C04_exFs, C04_exItems, encVar, Ty.isScalar, scalarNeDefault, scalarZero, writeScalar]
  refine C04_unknown_ignored C04_exEnv (fun _ => 0) hwf "S" C04_exFs [.int 5, .str []] _
    [[.zero 0, .string1 1 [Tars.byte 65]], [.list 3 [.zero 0, .zero 0]]] C04_exTail _ _ [] []
    hfind rfl rfl rfl ?_ ?_ (.inl rfl) (.inl rfl) ?_ (hr _)
  · rw [hf1, hold]
    simp [MembersTyped, C04_exFs, TyOK, DfltOK, WT, ScalarOK, OldOK, Ready, Ty.isAtom, Ty.isScalar, scalarZero]
  · rw [hf1, hold, hitems]; simp +decide [Admissible, C04_exItems, C04_exTail]
  · rw [hf1, hold, hitems]; exact hr _
end Tars
