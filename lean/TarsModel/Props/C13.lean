/-
  C13 — Endpoint selection: members only, strict rotation, weight-proportional.

  Full statement (properties.jsonl): every selection strategy (round-robin, random, mod-hash,
  consistent-hash) returns only endpoints of the current set after any history of refresh, add and
  remove, also when selections run concurrently with updates; it never crashes for any weights and
  fails with an error only when no endpoint is eligible.  Round robin serves the endpoints in strict
  rotation; with static weights `Wᵢ > 0` a full cycle contains endpoint `i` exactly
  `max(1, ⌊Wᵢ·R/Wmax⌋)` times, `R = min(100, max(10, ⌊Wmax/Wmin⌋))`.

  What is proved here (about `Model/Selector.lean`, `Model/Weight.lean`), for ALL histories
  (`List Op`: every interleaving of selectors and updaters is such a list, the methods being atomic
  under the selector's lock), all endpoint sets, all weight vectors:
    * `C13_members`, `C13_current_set`        membership / error iff empty / no panic in `Select`
    * `C13_rotation`, `C13_cycle_rotation`     strict rotation; a window of one cycle is a rotation of it
    * `C13_equal_weights_rotation`,
      `C13_rotation_equal_weights`            equal static weights: every window of N is a permutation (tie-break
                                               by `String()`, which must be injective on the set)
    * `C13_modhash`                            mod-hash selects `list[h mod N]` resp. `cycle[h mod |cycle|]`
    * `C13_cycle_len`, `C13_proportional`,
      `C13_weighted_window`                    the smooth-weighted-round-robin counting argument
    * `C13_no_panic`, `C13_alloc_bounded`      with the proposed D2 guard (`Variant.repaired`)
    * `C13_asFound_panic_iff`, `C13_counterexample_*`   exact panic set of the code as found (D2)
  Not modelled: the consistent-hash selector (ring placement is C14's model; its C13 clauses —
  member of the current set, error iff no endpoint with a ring point — are checked on the real code
  by the harness only), data-race freedom (outside any sequentially consistent model).
-/
import TarsModel.Proofs.Selector

namespace Tars.C13
open Tars.Sel

/-! ## Members only (round robin, random, mod-hash; every history) -/

/-- After any history of `Refresh/Add/Remove/Select` (any strategy, weighted or not, either variant
of the list builder, even after updates that panicked), the selector holds exactly the current set,
and a `Select` returns a member of it, or the error when — and only when — the set is empty.  It
never panics. -/
theorem C13_members (v : Variant) (k : Kind) (ew : Bool) (ops : List Op) (arg : Nat) :
    (after v (State.new k ew) ops).endpoints = currentSet ops ∧
    ((currentSet ops = [] ∧ (step v (after v (State.new k ew) ops) (.select arg)).2 = .err) ∨
     (currentSet ops ≠ [] ∧
        ∃ ep ∈ currentSet ops, (step v (after v (State.new k ew) ops) (.select arg)).2 = .selected ep)) := by
  obtain ⟨hwf, he, _, _⟩ := reach_spec v k ew ops
  refine ⟨he, ?_⟩
  have := (select_spec hwf arg).2.2.2.2.2
  rw [he] at this
  exact this

/-- every result inside a history is fine as well: each `Select` of the history returned the error
or an endpoint that had been supplied by an earlier `Refresh`/`Add` -/
theorem C13_members_within (v : Variant) (k : Kind) (ew : Bool) (pre post : List Op) (arg : Nat) :
    ∃ r, (run v (State.new k ew) (pre ++ .select arg :: post)).2[pre.length]? = some r ∧
      ((currentSet pre = [] ∧ r = .err) ∨ (∃ ep ∈ currentSet pre, r = .selected ep)) := by
  have hrun : ∀ (pre : List Op) (s : State),
      (run v s (pre ++ .select arg :: post)).2[pre.length]? = some (step v (after v s pre) (.select arg)).2 := by
    intro pre
    induction pre with
    | nil => intro s; simp [run, after]
    | cons op pre ih =>
      intro s
      have := ih (step v s op).1
      simp only [List.cons_append, run, List.length_cons, List.getElem?_cons_succ]
      rw [this]
      simp [after, run]
  refine ⟨_, hrun pre _, ?_⟩
  rcases (C13_members v k ew pre arg).2 with h | ⟨_, h⟩
  · exact Or.inl h
  · exact Or.inr h

/-- The current set is what the operations say, endpoints being identified by host: `Refresh`
replaces it by the given hosts, `Add` adds a host, `Remove` takes a host away; hosts stay pairwise
different and every member was supplied by the caller. -/
theorem C13_current_set (ops : List Op) (h : List Nat) :
    ((currentSet ops).map (·.host)).Nodup ∧
    (∀ eps r1 r2, (∃ e ∈ currentSet (ops ++ [.refresh eps r1 r2]), e.host = h) ↔ ∃ e ∈ eps, e.host = h) ∧
    (∀ ep r1 r2, (∃ e ∈ currentSet (ops ++ [.add ep r1 r2]), e.host = h) ↔
        ((∃ e ∈ currentSet ops, e.host = h) ∨ h = ep.host)) ∧
    (∀ ep r1 r2, (∃ e ∈ currentSet (ops ++ [.remove ep r1 r2]), e.host = h) ↔
        ((∃ e ∈ currentSet ops, e.host = h) ∧ h ≠ ep.host)) ∧
    (∀ a, currentSet (ops ++ [.select a]) = currentSet ops) := by
  refine ⟨?_, ?_, ?_, ?_, ?_⟩
  · obtain ⟨hwf, he, _, _⟩ := reach_spec .repaired .roundRobin false ops
    rw [← he]; exact hwf.hnd
  · intro eps r1 r2
    simp only [currentSet, List.foldl_append, List.foldl_cons, List.foldl_nil, specStep]
    rw [foldl_specAdd_hosts]; simp
  · intro ep r1 r2
    simp only [currentSet, List.foldl_append, List.foldl_cons, List.foldl_nil, specStep]
    exact specAdd_hosts _ _ _
  · intro ep r1 r2
    simp only [currentSet, List.foldl_append, List.foldl_cons, List.foldl_nil, specStep, List.mem_filter,
      bne_iff_ne, ne_eq]
    constructor
    · rintro ⟨e, ⟨he, hne⟩, hx⟩
      exact ⟨⟨e, he, hx⟩, by rw [← hx]; exact hne⟩
    · rintro ⟨⟨e, he, hx⟩, hne⟩
      exact ⟨e, ⟨he, by rw [hx]; exact hne⟩, hx⟩
  · intro a
    simp [currentSet, specStep]

/-! ## Strict rotation (round robin) -/

/-- Unweighted round robin, any reachable state, any cursor value: `N` consecutive selections over
the unchanged `N`-endpoint set return a permutation of the set — each endpoint (hosts are pairwise
different) exactly once.  The cursor is a `uint64`; the window must not straddle its wrap-around. -/
theorem C13_rotation (v : Variant) (ops : List Op) (args : List Nat)
    (hN : args.length = (currentSet ops).length) (hpos : 0 < args.length)
    (hwrap : (after v (State.new .roundRobin false) ops).lastPosition + args.length < uint64Mod) :
    ∃ picked : List Ep,
      (run v (after v (State.new .roundRobin false) ops) (args.map Op.select)).2 = picked.map Res.selected ∧
      picked.Perm (currentSet ops) ∧ ((currentSet ops).map (·.host)).Nodup := by
  obtain ⟨hwf, he, hk, hew⟩ := reach_spec v .roundRobin false ops
  generalize after v (State.new .roundRobin false) ops = s at *
  have hc : s.cache = [] := by rw [hwf.hcache, hew]; exact cacheOf_false _ _
  have hlen : 0 < s.endpoints.length := by rw [he, ← hN]; exact hpos
  have hne : s.endpoints ≠ [] := List.length_pos_iff.1 hlen
  have hrun := run_select_direct (v := v) args s hk hne hc hwrap
  refine ⟨s.endpoints.rotate (s.lastPosition + 1), ?_, ?_, ?_⟩
  · rw [hrun, hN, ← he]
    rw [← window_eq_rotate s.endpoints hlen Res.selected (s.lastPosition + 1)]
    apply List.map_congr_left
    intro j _
    exact pickDirect_eq hlen _
  · rw [← he]; exact List.rotate_perm _ _
  · rw [← he]; exact hwf.hnd

example : ∃ (ops : List Op) (args : List Nat),
    args.length = (currentSet ops).length ∧ 0 < args.length ∧
    (after .repaired (State.new .roundRobin false) ops).lastPosition + args.length < uint64Mod :=
  ⟨[.refresh [⟨[97], 1, 2, [116], 5, 0⟩, ⟨[98], 1, 2, [116], 7, 0⟩] 1 0], [0, 0], by decide⟩

/-- Round robin with a weight list (the cycle): `|cycle|` consecutive selections over an unchanged
set read a rotation of the cycle, i.e. return, up to order, exactly the endpoints the cycle lists
(with multiplicity). -/
theorem C13_cycle_rotation (v : Variant) (ew : Bool) (ops : List Op) (args : List Nat)
    (hcyc : (after v (State.new .roundRobin ew) ops).cache ≠ [])
    (hN : args.length = (after v (State.new .roundRobin ew) ops).cache.length)
    (hwrap : (after v (State.new .roundRobin ew) ops).lastStaticWeightPosition + args.length < uint64Mod) :
    (after v (State.new .roundRobin ew) ops).cache = cacheOf v ew (currentSet ops) ∧
    ∃ picked : List Ep,
      (run v (after v (State.new .roundRobin ew) ops) (args.map Op.select)).2 = picked.map Res.selected ∧
      picked.Perm ((cacheOf v ew (currentSet ops)).filterMap ((currentSet ops)[·]?)) ∧
      picked.length = (cacheOf v ew (currentSet ops)).length := by
  obtain ⟨hwf, he, hk, hew⟩ := reach_spec v .roundRobin ew ops
  generalize after v (State.new .roundRobin ew) ops = s at *
  have hcache : s.cache = cacheOf v ew (currentSet ops) := by rw [hwf.hcache, hew, he]
  refine ⟨hcache, ?_⟩
  have hclen : 0 < s.cache.length := List.length_pos_iff.2 hcyc
  have hne : s.endpoints ≠ [] := by
    intro e
    have := hwf.cacheValid _ (List.getElem_mem hclen)
    rw [e] at this; simp at this
  have hrun := run_select_cached (v := v) args s hk hne hcyc hwrap
  have hvalid : ∀ i ∈ s.cache.rotate (s.lastStaticWeightPosition + 1), i < s.endpoints.length := by
    intro i hi
    exact hwf.cacheValid i (List.mem_rotate.1 hi)
  refine ⟨(s.cache.rotate (s.lastStaticWeightPosition + 1)).filterMap (s.endpoints[·]?), ?_, ?_, ?_⟩
  · rw [hrun, hN, ← map_pickIdx_valid _ _ hvalid,
      ← window_eq_rotate s.cache hclen (pickIdx s.endpoints) (s.lastStaticWeightPosition + 1)]
    apply List.map_congr_left
    intro j _
    exact pickCached_eq hclen _
  · rw [← hcache, ← he]
    exact (List.rotate_perm _ _).filterMap _
  · rw [filterMap_valid_length _ _ hvalid, List.length_rotate, hcache]

/-! ## Mod hash -/

/-- Mod-hash selection is the pure function `h ↦ list[h mod N]` of the hash code and the current set
(`cycle[h mod |cycle|]` through the weight list when there is one); the state is not changed. -/
theorem C13_modhash (v : Variant) (ew : Bool) (ops : List Op) (h : Nat) (hh : h < uint32Mod) :
    (after v (State.new .modHash ew) ops).endpoints = currentSet ops ∧
    (after v (State.new .modHash ew) ops).cache = cacheOf v ew (currentSet ops) ∧
    (∀ (hn : 0 < (currentSet ops).length), cacheOf v ew (currentSet ops) = [] →
        step v (after v (State.new .modHash ew) ops) (.select h)
          = (after v (State.new .modHash ew) ops,
             .selected ((currentSet ops)[h % (currentSet ops).length]'(Nat.mod_lt _ hn)))) ∧
    (∀ (hc : 0 < (cacheOf v ew (currentSet ops)).length),
        ∃ hi : (cacheOf v ew (currentSet ops))[h % (cacheOf v ew (currentSet ops)).length]'(Nat.mod_lt _ hc)
                < (currentSet ops).length,
        step v (after v (State.new .modHash ew) ops) (.select h)
          = (after v (State.new .modHash ew) ops,
             .selected (currentSet ops)[(cacheOf v ew (currentSet ops))[h % (cacheOf v ew (currentSet ops)).length]'(Nat.mod_lt _ hc)])) := by
  obtain ⟨hwf, he, hk, hew⟩ := reach_spec v .modHash ew ops
  generalize after v (State.new .modHash ew) ops = s at *
  have hcache : s.cache = cacheOf v ew (currentSet ops) := by rw [hwf.hcache, hew, he]
  have hmod : h % uint32Mod = h := Nat.mod_eq_of_lt hh
  refine ⟨he, hcache, ?_, ?_⟩
  · simp only [← hcache]
    simp only [← he]
    intro hn hc
    rw [step_select_modHash hk, hmod]
    have h0 : ¬ s.endpoints.length = 0 := by omega
    rw [if_neg h0, hc]
    simp only [List.length_nil, ne_eq, not_true_eq_false, ↓reduceIte]
    rw [pickDirect_eq hn]
  · simp only [← hcache]
    simp only [← he]
    intro hc
    have hi := hwf.cacheValid _ (List.getElem_mem (Nat.mod_lt h hc))
    refine ⟨hi, ?_⟩
    rw [step_select_modHash hk, hmod]
    have h0 : ¬ s.endpoints.length = 0 := by omega
    have h1 : s.cache.length ≠ 0 := by omega
    rw [if_neg h0, if_pos h1, pickCached_eq hc, pickIdx_valid hi]

/-! ## Weight-proportional cycle (smooth weighted round robin) -/

/-- **Cycle length.**  Static weights `Wᵢ > 0` (`int32`), `M` the greatest, `m` the least:
`BuildStaticWeightList` returns a cycle of length `Σᵢ max(1, ⌊Wᵢ·R/M⌋)`, `R = min(100, max(10, ⌊M/m⌋))`. -/
theorem C13_cycle_len (v : Variant) (eps : List Ep) (M m : Int)
    (hst : ∀ e ∈ eps, e.weightType = 1)
    (hM : (∀ e ∈ eps, e.weight ≤ M) ∧ ∃ e ∈ eps, e.weight = M)
    (hm : (∀ e ∈ eps, m ≤ e.weight) ∧ ∃ e ∈ eps, e.weight = m)
    (hpos : 0 < m) (h32 : ∀ e ∈ eps, e.weight ≤ 2147483647) :
    ∃ cap cycle, buildStaticWeightList v eps = .ok cap cycle ∧
      (cycle.length : Int) = (eps.map fun e => max 1 (e.weight * (min 100 (max 10 (M / m))) / M)).sum ∧
      ∀ i ∈ cycle, i < eps.length := by
  obtain ⟨cap, l, h1, _, h3, h4⟩ := build_positive v hst hM hm hpos h32
  exact ⟨cap, l, h1, h4, h3⟩

/-- **Proportionality.**  Under the same hypotheses, index `i` occurs in the cycle exactly
`max(1, ⌊Wᵢ·R/M⌋)` times: traffic is proportional to weight (the counting argument for the smooth
weighted round robin: `curᵢ(k) = (k+1)·wᵢ − T·picksᵢ(k)`, `Σ cur = T`, the picked maximum is positive,
hence `picksᵢ ≤ wᵢ` throughout and equality after `T = Σ wᵢ` rounds). -/
theorem C13_proportional (v : Variant) (eps : List Ep) (M m : Int)
    (hst : ∀ e ∈ eps, e.weightType = 1)
    (hM : (∀ e ∈ eps, e.weight ≤ M) ∧ ∃ e ∈ eps, e.weight = M)
    (hm : (∀ e ∈ eps, m ≤ e.weight) ∧ ∃ e ∈ eps, e.weight = m)
    (hpos : 0 < m) (h32 : ∀ e ∈ eps, e.weight ≤ 2147483647) :
    ∃ cap cycle, buildStaticWeightList v eps = .ok cap cycle ∧
      ∀ i (hi : i < eps.length),
        (cycle.count i : Int) = max 1 (eps[i].weight * (min 100 (max 10 (M / m))) / M) := by
  obtain ⟨cap, l, h1, h2, _, _⟩ := build_positive v hst hM hm hpos h32
  exact ⟨cap, l, h1, h2⟩

/-- the hypotheses are satisfiable (weights 5, 1, 1: the cycle of the pinned example) -/
example :
    let eps : List Ep := [⟨[97], 1, 2, [116], 5, 1⟩, ⟨[98], 1, 2, [116], 1, 1⟩, ⟨[99], 1, 2, [116], 1, 1⟩]
    (∀ e ∈ eps, e.weightType = 1) ∧ ((∀ e ∈ eps, e.weight ≤ 5) ∧ ∃ e ∈ eps, e.weight = 5) ∧
      ((∀ e ∈ eps, 1 ≤ e.weight) ∧ ∃ e ∈ eps, e.weight = 1) ∧ (∀ e ∈ eps, e.weight ≤ 2147483647) := by
  decide

/-- **Proportionality, at the selector.**  Weighted round robin after any history whose current
set carries positive static weights: one window of `|cycle|` consecutive selections returns endpoint
`i` of the set exactly `max(1, ⌊Wᵢ·R/M⌋)` times. -/
theorem C13_weighted_window (v : Variant) (ops : List Op) (args : List Nat) (M m : Int)
    (hst : ∀ e ∈ currentSet ops, e.weightType = 1)
    (hM : (∀ e ∈ currentSet ops, e.weight ≤ M) ∧ ∃ e ∈ currentSet ops, e.weight = M)
    (hm : (∀ e ∈ currentSet ops, m ≤ e.weight) ∧ ∃ e ∈ currentSet ops, e.weight = m)
    (hpos : 0 < m) (h32 : ∀ e ∈ currentSet ops, e.weight ≤ 2147483647)
    (hN : args.length = (after v (State.new .roundRobin true) ops).cache.length)
    (hwrap : (after v (State.new .roundRobin true) ops).lastStaticWeightPosition + args.length < uint64Mod) :
    ∃ picked : List Ep,
      (run v (after v (State.new .roundRobin true) ops) (args.map Op.select)).2 = picked.map Res.selected ∧
      (picked.length : Int)
        = ((currentSet ops).map fun e => max 1 (e.weight * (min 100 (max 10 (M / m))) / M)).sum ∧
      ∀ i (hi : i < (currentSet ops).length),
        (picked.count (currentSet ops)[i] : Int)
          = max 1 ((currentSet ops)[i].weight * (min 100 (max 10 (M / m))) / M) := by
  obtain ⟨cap, l, hb, hcnt, hmem, hlen⟩ := build_positive v hst hM hm hpos h32
  have hcO : cacheOf v true (currentSet ops) = l := by simp [cacheOf, hb]
  obtain ⟨eM, heM, _⟩ := hM.2
  have hlpos : l ≠ [] := by
    intro e
    have hi : 0 < (currentSet ops).length := List.length_pos_of_mem heM
    have := hcnt 0 hi
    rw [e] at this
    have h1 : (1 : Int) ≤ ((List.count 0 ([] : List Nat) : Nat) : Int) := by
      rw [this]; exact le_max_left _ _
    simp at h1
  have hwf := (reach_spec v .roundRobin true ops).1
  have hcache : (after v (State.new .roundRobin true) ops).cache = l := by
    rw [hwf.hcache, (reach_spec v .roundRobin true ops).2.2.2, (reach_spec v .roundRobin true ops).2.1, hcO]
  obtain ⟨_, picked, h1, h2, h3⟩ := C13_cycle_rotation v true ops args (by rw [hcache]; exact hlpos) hN hwrap
  rw [hcO] at h2 h3
  refine ⟨picked, h1, by rw [h3, hlen]; rfl, ?_⟩
  intro i hi
  have hnd : (currentSet ops).Nodup := nodup_of_hosts (C13_current_set ops []).1
  rw [h2.count_eq, count_filterMap_getElem _ hnd i hi l hmem]
  exact hcnt i hi

/-! ## Equal static weights: the weighted round robin is a strict rotation too -/

/-- **Equal static weights, the cycle.**  All endpoints carry the same static weight `W > 0` and
their `String()`s are pairwise different (the tie-break of the `sort.Slice` comparator is then a
total order on the list — a key that is empty or shared, such as the `Key` field of a plain struct
value, would not do): the cycle has length `10·N` and EVERY window of `N` consecutive entries is a
permutation of the `N` indices. -/
theorem C13_equal_weights_rotation (v : Variant) (eps : List Ep) (W : Int) (hne : eps ≠ [])
    (hst : ∀ e ∈ eps, e.weightType = 1) (hW : ∀ e ∈ eps, e.weight = W) (hpos : 0 < W)
    (h32 : W ≤ 2147483647) (hkeys : (eps.map Ep.str).Nodup) :
    ∃ cap cycle, buildStaticWeightList v eps = .ok cap cycle ∧ cycle.length = 10 * eps.length ∧
      ∀ a, a + eps.length ≤ cycle.length →
        ((cycle.drop a).take eps.length).Perm (List.range eps.length) := by
  obtain ⟨cap, σ, hb, hσ⟩ := build_equal v hne hst hW hpos h32 hkeys
  have hlen : σ.length = eps.length := by simpa using hσ.length_eq
  have hN : 0 < eps.length := List.length_pos_iff.2 hne
  refine ⟨cap, _, hb, by simp, ?_⟩
  intro a ha
  simp only [List.length_map, List.length_range] at ha
  have hwin : (((List.range (10 * eps.length)).map (pickAt σ)).drop a).take eps.length
      = (List.range σ.length).map (fun j => pickAt σ (a + j)) := by
    apply List.ext_getElem
    · simp; omega
    · intro j h1 h2
      simp [List.getElem_take, List.getElem_drop]
  rw [hwin, window_pickAt σ (by omega) a]
  exact (List.rotate_perm σ a).trans hσ

example :
    let eps : List Ep := [⟨[97], 1, 2, [116], 5, 1⟩, ⟨[98], 1, 2, [116], 5, 1⟩, ⟨[99], 1, 2, [116], 5, 1⟩]
    eps ≠ [] ∧ (∀ e ∈ eps, e.weightType = 1) ∧ (∀ e ∈ eps, e.weight = 5) ∧ (eps.map Ep.str).Nodup := by
  decide

/-- **Equal static weights, at the selector.**  Weighted round robin after any history whose
current set carries one static weight `W > 0` and pairwise different `String()`s: `N` consecutive
selections over the unchanged `N`-endpoint set return a permutation of the set, from any cursor. -/
theorem C13_rotation_equal_weights (v : Variant) (ops : List Op) (args : List Nat) (W : Int)
    (hne : currentSet ops ≠ [])
    (hst : ∀ e ∈ currentSet ops, e.weightType = 1) (hW : ∀ e ∈ currentSet ops, e.weight = W)
    (hpos : 0 < W) (h32 : W ≤ 2147483647) (hkeys : ((currentSet ops).map Ep.str).Nodup)
    (hN : args.length = (currentSet ops).length)
    (hwrap : (after v (State.new .roundRobin true) ops).lastStaticWeightPosition + args.length < uint64Mod) :
    ∃ picked : List Ep,
      (run v (after v (State.new .roundRobin true) ops) (args.map Op.select)).2 = picked.map Res.selected ∧
      picked.Perm (currentSet ops) := by
  obtain ⟨cap, σ, hb, hσ⟩ := build_equal v hne hst hW hpos h32 hkeys
  obtain ⟨hwf, he, hk, hew⟩ := reach_spec v .roundRobin true ops
  generalize after v (State.new .roundRobin true) ops = s at *
  have hcache : s.cache = (List.range (10 * (currentSet ops).length)).map (pickAt σ) := by
    rw [hwf.hcache, hew, he]; simp [cacheOf, hb]
  have hlen : 0 < (currentSet ops).length := List.length_pos_iff.2 hne
  have hcl : s.cache.length = 10 * (currentSet ops).length := by rw [hcache]; simp
  have hcne : s.cache ≠ [] := List.length_pos_iff.1 (by rw [hcl]; omega)
  have hrun := run_select_cached (v := v) args s hk (by rw [he]; exact hne) hcne hwrap
  obtain ⟨picked, h1, h2⟩ := equal_window (currentSet ops) σ hσ hne (s.lastStaticWeightPosition + 1)
  refine ⟨picked, ?_, h2⟩
  rw [hrun, hN, he, hcache]
  exact h1

/-! ## No crash for any weights — with the proposed guard; exact failure set of the code as found (D2) -/

/-- With the guard of `pending/C13-static-weight-guard.patch` no operation of any history, on any
strategy, with any weights (zero, negative, huge, mixed weight types), panics. -/
theorem C13_no_panic (k : Kind) (ew : Bool) (ops : List Op) :
    ∀ r ∈ (run .repaired (State.new k ew) ops).2, ∀ site, r ≠ .panic site := by
  intro r hr site
  exact run_results (v := .repaired) (fun r => r ≠ .panic site)
    (fun s hs op => step_repaired_no_panic hs op site) ops _ (WF.new _ _ _) r hr

/-- … and the list builder itself never panics, asks `make` for at most `100·N + 1` slots and never
appends more than it asked for (no re-allocation: the capacity of the patch is an upper bound). -/
theorem C13_alloc_bounded (eps : List Ep) :
    (∀ site, buildStaticWeightList .repaired eps ≠ .panic site) ∧
    ∀ cap l, buildStaticWeightList .repaired eps = .ok cap l →
      0 < cap ∧ cap ≤ 100 * eps.length + 1 ∧ (l.length : Int) ≤ cap :=
  ⟨fun site => build_repaired_no_panic eps site,
   fun _ _ h => ⟨(build_repaired_cap h).1, (build_repaired_cap h).2, build_repaired_len h⟩⟩

/-- **D2, exact boundary.**  `BuildStaticWeightList` as found panics exactly when every endpoint has
a static weight type and either the weights sum to less than −100 (`make` with a negative capacity)
or the greatest weight is 0 (`… / maxWeight`). -/
theorem C13_asFound_panic_iff (eps : List Ep) :
    (∃ site, buildStaticWeightList .asFound eps = .panic site) ↔
      (∀ e ∈ eps, e.weightType = 1) ∧
        (sumWeights eps + 100 < 0 ∨ (eps ≠ [] ∧ (∀ e ∈ eps, e.weight ≤ 0) ∧ ∃ e ∈ eps, e.weight = 0)) :=
  build_asFound_panic_iff eps

/-- hence no panic as found when all weights are positive (what the pinned tests exercise) -/
theorem C13_no_panic_asFound_partial (eps : List Ep) (hpos : ∀ e ∈ eps, 0 < e.weight) (site : String) :
    buildStaticWeightList .asFound eps ≠ .panic site := by
  intro h
  obtain ⟨_, h2⟩ := (build_asFound_panic_iff eps).1 ⟨site, h⟩
  rcases h2 with h2 | ⟨_, _, e, he, h0⟩
  · have := sumWeights_nonneg eps hpos
    omega
  · have := hpos e he; omega

/-- a static-weight endpoint (`-v 1`) with the given host byte and weight -/
def ep (h : Nat) (w : Int) : Ep := ⟨[h], 19386, 60000, [116, 99, 112], w, 1⟩

/-- D2 witness 1: a single endpoint `-w 0 -v 1` — integer divide by zero -/
theorem C13_counterexample_D2_divzero :
    buildStaticWeightList .asFound [ep 97 0] = .panic "integer divide by zero" := by decide

/-- D2 witness 2: weights −60, −50 (sum < −100) — `make` with negative capacity -/
theorem C13_counterexample_D2_negcap :
    buildStaticWeightList .asFound [ep 97 (-60), ep 98 (-50)] = .panic "makeslice: cap out of range" := by
  decide

/-- D2 witness 3: a healthy endpoint next to a very negative one (5, −200) -/
theorem C13_counterexample_D2_mixed :
    buildStaticWeightList .asFound [ep 97 5, ep 98 (-200)] = .panic "makeslice: cap out of range" := by
  decide

/-- D2 at the selector: `Add` of a `-w 0 -v 1` endpoint to a weighted round robin panics as found … -/
theorem C13_counterexample_D2_add :
    (step .asFound (State.new .roundRobin true) (.add (ep 97 0) 0 0)).2 = .panic "integer divide by zero" := by
  decide

/-- … and does not with the guard (the selector then rotates over the plain list). -/
theorem C13_repaired_D2_add :
    (run .repaired (State.new .roundRobin true) [.add (ep 97 0) 0 0, .select 0]).2
      = [.done, .selected (ep 97 0)] := by
  decide

/-- D2, allocation: as found the requested capacity is the sum of the raw weights + 100 — eight
endpoints of weight `MaxInt32` ask for 2³⁴ slots (128 GiB; observed: fatal out of memory), the
repaired function for 81. -/
theorem C13_counterexample_D2_alloc :
    (∃ l, buildStaticWeightList .asFound (List.replicate 8 (ep 97 2147483647)) = .ok 17179869276 l) ∧
    (∃ l, buildStaticWeightList .repaired (List.replicate 8 (ep 97 2147483647)) = .ok 81 l) := by
  have hst : AllStatic (List.replicate 8 (ep 97 2147483647)) := by
    intro e he; rw [List.eq_of_mem_replicate he]; rfl
  have hM : IsMaxWeight (List.replicate 8 (ep 97 2147483647)) 2147483647 :=
    ⟨by intro e he; rw [List.eq_of_mem_replicate he]; simp [ep], ep 97 2147483647, by simp, rfl⟩
  have hm : IsMinWeight (List.replicate 8 (ep 97 2147483647)) 2147483647 :=
    ⟨by intro e he; rw [List.eq_of_mem_replicate he]; simp [ep], ep 97 2147483647, by simp, rfl⟩
  have h32 : ∀ e ∈ List.replicate 8 (ep 97 2147483647), e.weight ≤ maxInt32 := by
    intro e he; rw [List.eq_of_mem_replicate he]; simp [ep, maxInt32]
  have hs : scan (List.replicate 8 (ep 97 2147483647)) minInt32 maxInt32 0
      = some (2147483647, 2147483647, 17179869176) := by decide
  have hr : rangeOf 2147483647 2147483647 = (10, 0) := by decide
  refine ⟨?_, ?_⟩
  · obtain ⟨cap, l, hb, -⟩ := build_positive .asFound hst hM hm (by decide) h32
    obtain ⟨mx, mn, tc, hs', hcap⟩ := build_ok_cap hb
    rw [hs] at hs'
    simp only [Option.some.injEq, Prod.mk.injEq] at hs'
    obtain ⟨rfl, rfl, rfl⟩ := hs'
    refine ⟨l, ?_⟩
    rw [hb, hcap]; rfl
  · obtain ⟨cap, l, hb, -⟩ := build_positive .repaired hst hM hm (by decide) h32
    obtain ⟨mx, mn, tc, hs', hcap⟩ := build_ok_cap hb
    rw [hs] at hs'
    simp only [Option.some.injEq, Prod.mk.injEq] at hs'
    obtain ⟨rfl, rfl, rfl⟩ := hs'
    refine ⟨l, ?_⟩
    rw [hb, hcap, hr]; rfl

end Tars.C13
