import TarsModel.Proofs.ConHashInv
import TarsModel.Proofs.ConHashFix
import TarsModel.Proofs.HashRoute

/-!
# C14 — Hash routing is deterministic, history-independent and minimally disruptive

Property theorems only.  Models: `Model/ConHash.lean` (the ring of `consistenthash_new.go`, over an
abstract point function `pts : Host → Nat → List Nat`; `Model/MD5.lean` instantiates Ketama),
`Model/HashRoute.lean` (mod-hash selector, hash code in the client context, the decision of
`SelectAdapterProxy`); specification vocabulary: `Model/ConHashSpec.lean`.

Quantification.  `U` is an endpoint universe with pairwise distinct hosts (`HostsInj U`); a history
is any list of `Refresh / Add / Remove` calls mentioning only endpoints of `U` (`OverU U ops`),
including calls that fail ("already exists", "already removed") and `Refresh` lists with
repetitions; keys are arbitrary naturals (all 32-bit codes in particular).  `ew` is
`enableWeight`.  The current endpoint set after a history is `setAfter [] ops`, defined on hosts
only, with no reference to the ring.

The history-independence and minimal-disruption clauses need `NoCollision`: distinct hosts of the
universe have disjoint ring points.  Without it they are FALSE for the code as found (D17):
`C14_collision_history_dependent` (general) and `C14_D17_witness` (the two concrete hosts); the
unrestricted statement is kept as `C14_full` and refuted by `C14_full_refuted`.

Variants (DESIGN §3.5).  `ConHash` = the code as found; `ConHashFix` = the ring as repaired by
`pending/C14-conhash-collision.patch`, for which the same clauses are proved at full strength
(`C14_fix_*`: every point function, every history, no universe).  The extractor records which
variant the tree has (`Consts.conHashRepaired`); the driver runs that variant and the harness holds
the real code to it.
-/
namespace Tars.C14
open Tars.ConHash Tars.HashRoute

variable {H : Type} [DecidableEq H]

/-- configuration of every ring made by `consistenthash.New(ew, _)` -/
abbrev cfgOf (ew : Bool) : Cfg := ⟨ew, Consts.conHashVirtualNodes⟩

/-- the ring after a history, starting from `consistenthash.New` -/
abbrev ringAfter (pts : H → Nat → List Nat) (ew : Bool) (ops : List (Op H)) : Ring H :=
  run pts (Ring.new ew) ops

/-! ## The current set -/

/-- `mapValues` after any history is the specification-level endpoint set -/
theorem C14_set (pts : H → Nat → List Nat) (ew : Bool) (ops : List (Op H)) :
    (ringAfter pts ew ops).mapValues = setAfter [] ops :=
  mapValues_run pts ops (Ring.new ew)

/-! ## Lookup specification -/

/-- `FindInt32 k` is the owner of the least ring point `≥ k`, else of the least ring point; it
    misses exactly when the current set has no ring point; and the prescribed owner always exists
    when there is a point (so the three clauses determine the result). -/
theorem C14_lookup_spec (pts : H → Nat → List Nat) (ew : Bool) (U : List (Ep H))
    (hU : HostsInj U) (hnc : NoCollision (cfgOf ew) pts U)
    (ops : List (Op H)) (hops : OverU U ops) (k : Nat) :
    (∀ e, Owner (cfgOf ew) pts U (setAfter [] ops) k e → findInt32 (ringAfter pts ew ops) k = .ep e) ∧
    ((∀ p, ¬ IsPoint (cfgOf ew) pts U (setAfter [] ops) p) → findInt32 (ringAfter pts ew ops) k = .notFound) ∧
    ((∃ p, IsPoint (cfgOf ew) pts U (setAfter [] ops) p) → ∃ e, Owner (cfgOf ew) pts U (setAfter [] ops) k e) := by
  have hK := InvK_run pts ops (InvK_new (H := H) ew)
  have hO := OwnOK_run hU hnc ops hops (OwnOK_new ew pts U)
  rw [← C14_set pts ew ops]
  exact ⟨fun e he => findInt32_owner hK hO k e he, findInt32_none hK hO k, owner_exists hK hO k⟩

/-- for EVERY history (no universe, no collision hypothesis): `FindInt32` never returns the zero
    endpoint with `ok = true`, and reports "not found" only on an empty ring -/
theorem C14_lookup_total (pts : H → Nat → List Nat) (ew : Bool) (ops : List (Op H)) (k : Nat) :
    ((ringAfter pts ew ops).sortedKeys.size = 0 ∧ findInt32 (ringAfter pts ew ops) k = .notFound) ∨
    (∃ p e, p ∈ (ringAfter pts ew ops).sortedKeys.toList ∧ mget (ringAfter pts ew ops).hashRing p = some e ∧
      findInt32 (ringAfter pts ew ops) k = .ep e) :=
  findInt32_total (InvK_run pts ops (InvK_new (H := H) ew)) k

/-! ## Purity / history independence -/

/-- the lookup is a function of (key, current set): two histories — any interleaving of
    `Refresh`, `Add`, `Remove`, failed calls included — that reach the same set answer every key
    alike -/
theorem C14_pure (pts : H → Nat → List Nat) (ew : Bool) (U : List (Ep H))
    (hU : HostsInj U) (hnc : NoCollision (cfgOf ew) pts U)
    (ops1 ops2 : List (Op H)) (h1 : OverU U ops1) (h2 : OverU U ops2)
    (hset : SameSet (setAfter [] ops1) (setAfter [] ops2)) (k : Nat) :
    findInt32 (ringAfter pts ew ops1) k = findInt32 (ringAfter pts ew ops2) k := by
  have hK1 := InvK_run pts ops1 (InvK_new (H := H) ew)
  have hO1 := OwnOK_run hU hnc ops1 h1 (OwnOK_new ew pts U)
  have hK2 := InvK_run pts ops2 (InvK_new (H := H) ew)
  have hO2 := OwnOK_run hU hnc ops2 h2 (OwnOK_new ew pts U)
  apply pure_core hK1 hO1 hK2 hO2
  rw [C14_set, C14_set]; exact hset

/-- two clients that were handed the same endpoints in different orders (and with different
    repetitions) agree on every key -/
theorem C14_two_clients_agree (pts : H → Nat → List Nat) (ew : Bool) (U : List (Ep H))
    (hU : HostsInj U) (hnc : NoCollision (cfgOf ew) pts U)
    (eps1 eps2 : List (Ep H)) (h1 : ∀ e, e ∈ eps1 → e ∈ U) (h2 : ∀ e, e ∈ eps2 → e ∈ U)
    (hsame : ∀ h, h ∈ eps1.map (·.host) ↔ h ∈ eps2.map (·.host)) (k : Nat) :
    findInt32 (refresh pts (Ring.new ew) eps1) k = findInt32 (refresh pts (Ring.new ew) eps2) k := by
  have := C14_pure pts ew U hU hnc [.refresh eps1] [.refresh eps2]
    (by intro op hop e he; simp at hop; subst hop; exact h1 e he)
    (by intro op hop e he; simp at hop; subst hop; exact h2 e he)
    (by intro h; simp only [setAfter, List.foldl_cons, List.foldl_nil, setStep, mem_refresh_set]; simp [hsame h]) k
  simpa [ringAfter, run, step] using this

/-! ## Minimal disruption -/

/-- `Remove e` re-routes only the codes that were mapped to `e`: a key owned by another host
    keeps its owner (a failing `Remove` changes nothing at all) -/
theorem C14_remove_min (pts : H → Nat → List Nat) (ew : Bool) (U : List (Ep H))
    (hU : HostsInj U) (hnc : NoCollision (cfgOf ew) pts U)
    (ops : List (Op H)) (hops : OverU U ops) (ep : Ep H) (hep : ep ∈ U) (k : Nat) (e : Ep H)
    (hbefore : findInt32 (ringAfter pts ew ops) k = .ep e) (hne : e.host ≠ ep.host) :
    findInt32 (step pts (ringAfter pts ew ops) (.remove ep)) k = .ep e := by
  have hK := InvK_run pts ops (InvK_new (H := H) ew)
  have hO := OwnOK_run hU hnc ops hops (OwnOK_new ew pts U)
  have hK' := InvK_step pts hK (.remove ep)
  have hO' := OwnOK_step hU hnc (.remove ep) (by intro x hx; simp [Op.eps] at hx; subst hx; exact hep) hO
  have hmv := mapValues_step pts (ringAfter pts ew ops) (.remove ep)
  have hown := owner_of_findInt32 hK hO k e hbefore
  obtain ⟨_, _, _, hhost, _⟩ := hown
  apply shrink_core hK hO hK' hO' _ k e hbefore
  · rw [hmv]; simp [setStep, List.mem_filter, hhost, hne]
  · intro h hh; rw [hmv] at hh; simp [setStep, List.mem_filter] at hh; exact hh.1

/-- `Add e` moves codes only onto `e`: every key keeps its owner or goes to the new endpoint
    (a failing `Add` changes nothing at all) -/
theorem C14_add_min (pts : H → Nat → List Nat) (ew : Bool) (U : List (Ep H))
    (hU : HostsInj U) (hnc : NoCollision (cfgOf ew) pts U)
    (ops : List (Op H)) (hops : OverU U ops) (ep : Ep H) (hep : ep ∈ U) (k : Nat) :
    findInt32 (step pts (ringAfter pts ew ops) (.add ep)) k = findInt32 (ringAfter pts ew ops) k ∨
    findInt32 (step pts (ringAfter pts ew ops) (.add ep)) k = .ep ep := by
  have hK := InvK_run pts ops (InvK_new (H := H) ew)
  have hO := OwnOK_run hU hnc ops hops (OwnOK_new ew pts U)
  have hK' := InvK_step pts hK (.add ep)
  have hO' := OwnOK_step hU hnc (.add ep) (by intro x hx; simp [Op.eps] at hx; subst hx; exact hep) hO
  have hmv := mapValues_step pts (ringAfter pts ew ops) (.add ep)
  apply grow_core hU hK hO hK' hO' ep hep
  · intro h hh; rw [hmv]; simp only [setStep]; split
    · exact hh
    · exact List.mem_append_left _ hh
  · intro h hh; rw [hmv] at hh; simp only [setStep] at hh; split at hh
    · exact Or.inl hh
    · simpa using hh

/-! ## Collisions: history dependence of the code as found (D17) -/

/-- GENERAL: whenever two distinct hosts share a ring point, there are two histories over these
    two endpoints that reach the same set and route a key differently — `Refresh([e1,e2])` and
    `Refresh([e2,e1])`, on the shared point: the later `addLocked` overwrites. -/
theorem C14_collision_history_dependent (pts : H → Nat → List Nat) (ew : Bool) (e1 e2 : Ep H) (p : Nat)
    (hc : Collide (cfgOf ew) pts e1 e2 p) :
    ∃ ops1 ops2 : List (Op H), OverU [e1, e2] ops1 ∧ OverU [e1, e2] ops2 ∧
      SameSet (setAfter [] ops1) (setAfter [] ops2) ∧
      ∃ k, findInt32 (ringAfter pts ew ops1) k ≠ findInt32 (ringAfter pts ew ops2) k := by
  obtain ⟨hne, hp1, hp2⟩ := hc
  refine ⟨[.refresh [e1, e2]], [.refresh [e2, e1]], ?_, ?_, ?_, p, ?_⟩
  · intro op hop e he; simp at hop; subst hop; simpa [Op.eps] using he
  · intro op hop e he; simp at hop; subst hop
    simp only [Op.eps, List.mem_cons, List.not_mem_nil, or_false] at he
    simp only [List.mem_cons, List.not_mem_nil, or_false]; exact he.symm
  · intro h
    have hne' : ¬ e2.host = e1.host := fun h => hne h.symm
    simp only [setAfter, List.foldl_cons, List.foldl_nil, setStep, List.not_mem_nil, ↓reduceIte,
      List.nil_append, hne, hne', List.cons_append, List.mem_cons, or_false]
    exact Or.comm
  · have hK1 : InvK (refresh pts (Ring.new ew) [e1, e2]) := InvK_refresh pts _ _
    have hK2 : InvK (refresh pts (Ring.new ew) [e2, e1]) := InvK_refresh pts _ _
    have f1 := findInt32_at_point hK1 (refresh_pair_owner pts (Ring.new ew) e1 e2 hne p hp2)
    have f2 := findInt32_at_point hK2 (refresh_pair_owner pts (Ring.new ew) e2 e1 (fun h => hne h.symm) p hp1)
    show findInt32 (refresh pts (Ring.new ew) [e1, e2]) p ≠ findInt32 (refresh pts (Ring.new ew) [e2, e1]) p
    rw [f1, f2]
    intro heq
    cases heq
    exact hne rfl

/-- GENERAL, the `Remove` side: after `Refresh([e1,e2]); Remove(e1)` the shared point is gone from
    the ring although the remaining member `e2` claims it, whereas `Refresh([e2])` — the same set —
    has it. -/
theorem C14_collision_remove_loses_point (pts : H → Nat → List Nat) (ew : Bool) (e1 e2 : Ep H) (p : Nat)
    (hc : Collide (cfgOf ew) pts e1 e2 p) :
    SameSet (setAfter [] [Op.refresh [e1, e2], Op.remove e1]) (setAfter [] [Op.refresh [e2]]) ∧
    mget (ringAfter pts ew [.refresh [e1, e2], .remove e1]).hashRing p = none ∧
    mget (ringAfter pts ew [.refresh [e2]]).hashRing p = some e2 := by
  obtain ⟨hne, hp1, hp2⟩ := hc
  have hne' : ¬ e2.host = e1.host := fun h => hne h.symm
  refine ⟨?_, ?_, ?_⟩
  · intro h
    simp [setAfter, setStep, hne']
  · have hmv := (refresh_pair pts (Ring.new ew) e1 e2 hne).2
    have hmem : e1.host ∈ (refresh pts (Ring.new ew) [e1, e2]).mapValues := by rw [hmv]; simp
    show mget (step pts (refresh pts (Ring.new ew) [e1, e2]) (.remove e1)).hashRing p = none
    simp only [step]
    cases hr : remove pts (refresh pts (Ring.new ew) [e1, e2]) e1 with
    | none => exact absurd hmem (remove_none.1 hr)
    | some r' =>
      obtain ⟨_, _, _, hh, _⟩ := remove_some hr
      have hcfg : (refresh pts (Ring.new ew) [e1, e2]).cfg = cfgOf ew :=
        cfg_step pts (Ring.new ew) (.refresh [e1, e2])
      simp only [Option.getD_some, hh, mget_foldl_mdel, hcfg]
      simp [hp1]
  · show mget (refresh pts (Ring.new ew) [e2]).hashRing p = some e2
    rw [(refresh_single pts (Ring.new ew) e2).1, mget_foldl_mset]
    simp [show p ∈ ptsOf (Ring.new ew : Ring H).cfg pts e2 from hp2]

/-- the `Remove` side does change routing: a point function on three hosts (1 and 2 share the
    point 10, host 3 has 20) for which `Refresh([1,2,3]); Remove(1)` and `Refresh([2,3])` — the
    same set — route key 10 to host 3 resp. host 2.  (The harness finds such triples among real
    host names and keeps one in `corpus/C14/`.) -/
theorem C14_collision_remove_witness :
    let pts : Nat → Nat → List Nat := fun h i => if i = 0 then (if h = 3 then [20] else [10]) else []
    let e : Nat → Ep Nat := fun h => ⟨h, 0⟩
    SameSet (setAfter [] [Op.refresh [e 1, e 2, e 3], Op.remove (e 1)]) (setAfter [] [Op.refresh [e 2, e 3]]) ∧
    findInt32 (ringAfter pts false [.refresh [e 1, e 2, e 3], .remove (e 1)]) 10 = .ep (e 3) ∧
    findInt32 (ringAfter pts false [.refresh [e 2, e 3]]) 10 = .ep (e 2) := by
  intro pts e
  refine ⟨?_, ?_, ?_⟩
  · have a : setAfter [] [Op.refresh [e 1, e 2, e 3], Op.remove (e 1)] = [2, 3] := by decide
    have b : setAfter [] [Op.refresh [e 2, e 3]] = [2, 3] := by decide
    intro h; rw [a, b]
  · have hK := InvK_run pts [.refresh [e 1, e 2, e 3], .remove (e 1)] (InvK_new (H := Nat) false)
    have hr : (ringAfter pts false [.refresh [e 1, e 2, e 3], .remove (e 1)]).hashRing = [(20, e 3)] := by decide
    have hmem : ∀ q, q ∈ (ringAfter pts false [.refresh [e 1, e 2, e 3], .remove (e 1)]).sortedKeys.toList ↔ q = 20 := by
      intro q
      rw [hK.2 q, hr]
      by_cases hq : q = 20
      · subst hq; simp [mget]
      · have : ¬ 20 = q := fun h => hq h.symm
        simp [mget, hq, this]
    have hs : IsSucc (fun q => q ∈ (ringAfter pts false [.refresh [e 1, e 2, e 3], .remove (e 1)]).sortedKeys.toList) 10 20 := by
      refine ⟨(hmem 20).2 rfl, Or.inl ⟨by omega, ?_⟩⟩
      intro q hq _
      rw [(hmem q).1 hq]; exact Nat.le_refl _
    rw [findInt32_of_succ _ hK.1 10 20 hs, hr]
    rfl
  · exact findInt32_at_point (InvK_run pts _ (InvK_new false)) (by decide)

/-! ### The concrete witness (Ketama over MD5, hosts as their bytes) -/

/-- `"10.0.0.160"` -/
def hostA : List Nat := [49, 48, 46, 48, 46, 48, 46, 49, 54, 48]
/-- `"10.0.3.248"` -/
def hostB : List Nat := [49, 48, 46, 48, 46, 51, 46, 50, 52, 56]
def epA : Ep (List Nat) := ⟨hostA, 0⟩
def epB : Ep (List Nat) := ⟨hostB, 0⟩

set_option maxRecDepth 100000 in
/-- virtual node 22 of `10.0.0.160` and virtual node 17 of `10.0.3.248` share the ring point
    1292016174 (kernel evaluation of the MD5 model; the harness re-checks it on `crypto/md5`) -/
theorem C14_D17_points :
    ketamaPts hostA 22 = [2089692872, 1292016174, 426930743, 2466888746] ∧
    ketamaPts hostB 17 = [1292016174, 2460339679, 2050106470, 3602965539] := by
  constructor <;> decide

theorem C14_D17_collide : Collide (cfgOf false) ketamaPts epA epB 1292016174 := by
  refine ⟨by decide, ?_, ?_⟩
  · simp only [ptsOf, allPts, List.mem_flatMap, List.mem_range]
    exact ⟨22, by decide, by rw [show epA.host = hostA from rfl, C14_D17_points.1]; decide⟩
  · simp only [ptsOf, allPts, List.mem_flatMap, List.mem_range]
    exact ⟨17, by decide, by rw [show epB.host = hostB from rfl, C14_D17_points.2]; decide⟩

/-- D17 on the real point function: the set `{10.0.0.160, 10.0.3.248}` routes some key to
    different hosts depending on the order of installation -/
theorem C14_D17_witness :
    ∃ ops1 ops2 : List (Op (List Nat)), OverU [epA, epB] ops1 ∧ OverU [epA, epB] ops2 ∧
      SameSet (setAfter [] ops1) (setAfter [] ops2) ∧
      ∃ k, findInt32 (ringAfter ketamaPts false ops1) k ≠ findInt32 (ringAfter ketamaPts false ops2) k :=
  C14_collision_history_dependent ketamaPts false epA epB 1292016174 C14_D17_collide

/-- the property's first clauses at full strength (no `NoCollision`), for the ring as deployed
    (Ketama, `enableWeight = false`) -/
def C14_full : Prop :=
  ∀ (U : List (Ep (List Nat))), HostsInj U →
  ∀ (ops1 ops2 : List (Op (List Nat))), OverU U ops1 → OverU U ops2 →
    SameSet (setAfter [] ops1) (setAfter [] ops2) →
    ∀ k, findInt32 (ringAfter ketamaPts false ops1) k = findInt32 (ringAfter ketamaPts false ops2) k

/-- …which the code as found does not satisfy -/
theorem C14_full_refuted : ¬ C14_full := by
  intro h
  obtain ⟨ops1, ops2, h1, h2, hs, k, hk⟩ := C14_D17_witness
  apply hk
  apply h [epA, epB] _ ops1 ops2 h1 h2 hs k
  intro e1 he1 e2 he2 hh
  simp only [List.mem_cons, List.not_mem_nil, or_false] at he1 he2
  rcases he1 with rfl | rfl <;> rcases he2 with rfl | rfl
  · rfl
  · exact absurd hh (by decide)
  · exact absurd hh (by decide)
  · rfl

/-! ## The repaired ring (`pending/C14-conhash-collision.patch`): the clauses at FULL strength

`Model/ConHashFix.lean` mirrors the patched functions.  No `NoCollision`, no universe: the
selector remembers its endpoints, a shared point goes to the claimant with the least hash key
(`hlt` = Go's `<` on the keys, any strict total order), `Remove` rebuilds.  The current set is the
list of endpoints `epsAfter [] ops` (first `Add`/`Refresh` of a host wins, `Remove` is by host). -/

/-- the repaired ring after a history -/
abbrev fixAfter (hlt : H → H → Bool) (pts : H → Nat → List Nat) (ew : Bool) (ops : List (Op H)) : ConHashFix.RingF H :=
  ConHashFix.run hlt pts (ConHashFix.RingF.new ew) ops

/-- repaired: the remembered endpoints are the specification-level set, for every history -/
theorem C14_fix_set (hlt : H → H → Bool) (ho : ConHashFix.StrictTotal hlt) (pts : H → Nat → List Nat) (ew : Bool)
    (ops : List (Op H)) : (fixAfter hlt pts ew ops).mapValues = ConHashFix.epsAfter [] ops := by
  obtain ⟨a, b⟩ := ConHashFix.inv_new hlt ew pts
  exact (ConHashFix.run_spec ho pts ops a b).2.2

/-- repaired: lookup specification for every history and every point function (collisions allowed):
    the holder — least hash key among the claimants — of the clockwise successor of the key -/
theorem C14_fix_lookup_spec (hlt : H → H → Bool) (ho : ConHashFix.StrictTotal hlt) (pts : H → Nat → List Nat) (ew : Bool)
    (ops : List (Op H)) (k : Nat) :
    (∀ e, ConHashFix.OwnerF hlt (cfgOf ew) pts (ConHashFix.epsAfter [] ops) k e →
        ConHashFix.findInt32 (fixAfter hlt pts ew ops) k = .ep e) ∧
    ((∀ p, ¬ ConHashFix.IsPointS (cfgOf ew) pts (ConHashFix.epsAfter [] ops) p) →
        ConHashFix.findInt32 (fixAfter hlt pts ew ops) k = .notFound) ∧
    ((∃ p, ConHashFix.IsPointS (cfgOf ew) pts (ConHashFix.epsAfter [] ops) p) →
        ∃ e, ConHashFix.OwnerF hlt (cfgOf ew) pts (ConHashFix.epsAfter [] ops) k e) := by
  obtain ⟨a, b⟩ := ConHashFix.inv_new hlt ew pts
  obtain ⟨hi, hk, hm⟩ := ConHashFix.run_spec ho pts ops a b
  have hm' : (fixAfter hlt pts ew ops).mapValues = ConHashFix.epsAfter [] ops := hm
  rw [← hm']
  exact ⟨fun e he => ConHashFix.findInt32_ownerF ho hi hk k e he, ConHashFix.findInt32_noneF hi hk k,
    ConHashFix.owner_existsF ho hi hk k⟩

/-- repaired: C14's history independence WITHOUT any collision hypothesis: two arbitrary histories
    that reach the same set of endpoints answer every key alike -/
theorem C14_fix_pure (hlt : H → H → Bool) (ho : ConHashFix.StrictTotal hlt) (pts : H → Nat → List Nat) (ew : Bool)
    (ops1 ops2 : List (Op H))
    (hset : ConHashFix.SameEps (ConHashFix.epsAfter [] ops1) (ConHashFix.epsAfter [] ops2)) (k : Nat) :
    ConHashFix.findInt32 (fixAfter hlt pts ew ops1) k = ConHashFix.findInt32 (fixAfter hlt pts ew ops2) k := by
  obtain ⟨a, b⟩ := ConHashFix.inv_new hlt ew pts
  obtain ⟨hi1, hk1, hm1⟩ := ConHashFix.run_spec ho pts ops1 a b
  obtain ⟨hi2, hk2, hm2⟩ := ConHashFix.run_spec ho pts ops2 a b
  apply ConHashFix.pure_coreF ho hi1 hk1 hi2 hk2
  rw [hm1, hm2]; exact hset

/-- repaired: `Remove` re-routes only the keys of the removed host (whatever weight is passed) -/
theorem C14_fix_remove_min (hlt : H → H → Bool) (ho : ConHashFix.StrictTotal hlt) (pts : H → Nat → List Nat) (ew : Bool)
    (ops : List (Op H)) (ep : Ep H) (k : Nat) (e : Ep H)
    (hbefore : ConHashFix.findInt32 (fixAfter hlt pts ew ops) k = .ep e) (hne : e.host ≠ ep.host) :
    ConHashFix.findInt32 (ConHashFix.step hlt pts (fixAfter hlt pts ew ops) (.remove ep)) k = .ep e := by
  obtain ⟨a, b⟩ := ConHashFix.inv_new hlt ew pts
  obtain ⟨hi, hk, _⟩ := ConHashFix.run_spec ho pts ops a b
  obtain ⟨hi', hk', hm'⟩ := ConHashFix.step_spec ho pts hi hk (.remove ep)
  have hmem := (ConHashFix.owner_of_findInt32F ho hi hk k e hbefore)
  obtain ⟨_, _, hmem, _, _⟩ := hmem
  apply ConHashFix.shrink_coreF ho hi hk hi' hk' _ k e hbefore
  · rw [hm']; simp [ConHashFix.epsStep, List.mem_filter, hmem, hne]
  · intro x hx; rw [hm'] at hx; simp [ConHashFix.epsStep, List.mem_filter] at hx; exact hx.1

/-- repaired: `Add` moves keys only onto the new endpoint -/
theorem C14_fix_add_min (hlt : H → H → Bool) (ho : ConHashFix.StrictTotal hlt) (pts : H → Nat → List Nat) (ew : Bool)
    (ops : List (Op H)) (ep : Ep H) (k : Nat) :
    ConHashFix.findInt32 (ConHashFix.step hlt pts (fixAfter hlt pts ew ops) (.add ep)) k =
        ConHashFix.findInt32 (fixAfter hlt pts ew ops) k ∨
    ConHashFix.findInt32 (ConHashFix.step hlt pts (fixAfter hlt pts ew ops) (.add ep)) k = .ep ep := by
  obtain ⟨a, b⟩ := ConHashFix.inv_new hlt ew pts
  obtain ⟨hi, hk, _⟩ := ConHashFix.run_spec ho pts ops a b
  obtain ⟨hi', hk', hm'⟩ := ConHashFix.step_spec ho pts hi hk (.add ep)
  apply ConHashFix.grow_coreF ho hi hk hi' hk' ep
  · intro x hx; rw [hm']; simp only [ConHashFix.epsStep]; split
    · exact hx
    · exact List.mem_append_left _ hx
  · intro x hx; rw [hm'] at hx; simp only [ConHashFix.epsStep] at hx; split at hx
    · exact Or.inl hx
    · simpa using hx

/-- repaired, on the D17 hosts: both installation orders of 10.0.0.160 / 10.0.3.248 route every
    key alike (Go's string order on the host bytes) -/
theorem C14_fix_D17 (k : Nat) :
    ConHashFix.findInt32 (fixAfter ConHashFix.bytesLt ketamaPts false [.refresh [epA, epB]]) k =
    ConHashFix.findInt32 (fixAfter ConHashFix.bytesLt ketamaPts false [.refresh [epB, epA]]) k := by
  apply C14_fix_pure ConHashFix.bytesLt ConHashFix.bytesLt_strictTotal
  have a : ConHashFix.epsAfter [] [Op.refresh [epA, epB]] = [epA, epB] := by decide
  have b : ConHashFix.epsAfter [] [Op.refresh [epB, epA]] = [epB, epA] := by decide
  intro e; rw [a, b]; simp only [List.mem_cons, List.not_mem_nil, or_false]; exact Or.comm

/-- the hypothesis `StrictTotal` is satisfiable: Go's `<` on strings -/
example : ConHashFix.StrictTotal ConHashFix.bytesLt := ConHashFix.bytesLt_strictTotal

/-! ## Mod-hash -/

/-- mod-hash sends code `h` to slot `h mod N` of the installed endpoint list `l = listAfter [] ops`
    (insertion order of the history), and, when static weights apply and the weighted cycle
    `c = build l` is non-empty, to `l[c[h mod |c|]]`; an empty list is the error result.  `build`
    is the cycle builder (`selector.BuildStaticWeightList`, C13), only assumed to map `[]` to `[]`. -/
theorem C14_modhash (build : List (Ep H) → List Nat) (hb : build [] = []) (ew : Bool) (ops : List (Op H)) (code : Nat) :
    (ModHash.run build (ModHash.new ew) ops).endpoints = listAfter [] ops ∧
    (listAfter [] ops = [] → (ModHash.run build (ModHash.new ew) ops).select code = .err) ∧
    (listAfter [] ops ≠ [] → (ew = false ∨ build (listAfter [] ops) = []) →
      (ModHash.run build (ModHash.new ew) ops).select code = slot (listAfter [] ops) (code % (listAfter [] ops).length)) ∧
    (listAfter [] ops ≠ [] → ew = true → ∀ (hc : build (listAfter [] ops) ≠ []),
      (ModHash.run build (ModHash.new ew) ops).select code =
        slot (listAfter [] ops) ((build (listAfter [] ops))[code % (build (listAfter [] ops)).length]'(
          Nat.mod_lt _ (List.length_pos_iff.2 hc)))) := by
  obtain ⟨hl, hinv, hew⟩ := run_spec build ops (MInv_new (H := H) build ew hb)
  have hl' : (ModHash.run build (ModHash.new ew) ops).endpoints = listAfter [] ops := hl
  have hew' : (ModHash.run build (ModHash.new ew) ops).enableWeight = ew := hew
  have hcache := hinv.2.2
  rw [hew', hl'] at hcache
  refine ⟨hl', ?_, ?_, ?_⟩
  · intro hnil
    unfold ModHash.select
    simp [hl', hnil]
  · intro hne hcase
    have hc0 : (ModHash.run build (ModHash.new ew) ops).cache = [] := by
      rw [hcache]
      rcases hcase with h | h
      · simp [h]
      · split <;> simp [h]
    have hlen : (listAfter ([] : List (Ep H)) ops).length ≠ 0 := by
      intro h0; exact hne (List.eq_nil_of_length_eq_zero h0)
    unfold ModHash.select slot
    simp only [hl', hc0, hlen, ↓reduceDIte, List.length_nil, ne_eq, not_true_eq_false]
    rw [List.getElem?_eq_getElem (Nat.mod_lt _ (by omega))]
  · intro hne hewt hc
    have hc1 : (ModHash.run build (ModHash.new ew) ops).cache = build (listAfter [] ops) := by
      rw [hcache]; simp [hewt]
    have hlen : (listAfter ([] : List (Ep H)) ops).length ≠ 0 := by
      intro h0; exact hne (List.eq_nil_of_length_eq_zero h0)
    have hclen : (build (listAfter ([] : List (Ep H)) ops)).length ≠ 0 := by
      intro h0; exact hc (List.eq_nil_of_length_eq_zero h0)
    unfold ModHash.select
    simp only [hl', hlen, ↓reduceDIte, hc1, ne_eq, hclen, not_false_eq_true]

/-- mod-hash, unlike the ring, follows the ORDER of its list: `Remove b` then `Add b` moves `b` to
    the end, so the same set routes code 1 differently.  This is why a client that wants two
    holders of the same set to agree must re-`Refresh` the mod-hash selector with the canonically
    ordered list whenever the set changes (the endpoint manager orders by crc32 of the key; its
    `addAliveEp` as found only `Add`s — finding `addAliveEp-modhash-order`, harness stream `mgr`).
    The selector state is a value: nothing a caller does to the list it passed to `Refresh` can
    change it afterwards (harness stream `alias` holds the Go code to that). -/
theorem C14_modhash_order_dependent :
    let e : Nat → Ep Nat := fun h => ⟨h, 0⟩
    let build : List (Ep Nat) → List Nat := fun _ => []
    (ModHash.run build (ModHash.new false) [.refresh [e 1, e 2, e 3]]).select 1 = .ep (e 2) ∧
    (ModHash.run build (ModHash.new false) [.refresh [e 1, e 2, e 3], .remove (e 2), .add (e 2)]).select 1 = .ep (e 3) ∧
    (ModHash.run build (ModHash.new false) [.refresh [e 1, e 2, e 3], .remove (e 2), .add (e 2), .refresh [e 1, e 2, e 3]]).select 1 = .ep (e 2) := by
  decide

/-! ## The hash code in the call context survives the other per-call options -/

/-- whatever sequence of per-call options is applied to a client context — `SetClientHash`,
    `SetClientTimeout`, `SetServerIPWithContext`, `SetServerPortWithContext`, in any order, any
    number of times — `GetClientHash` reports the LAST hash that was set (and `isHash = true`), or,
    if none was set, what the context held before; likewise for the timeout.  In particular a hash
    set before a timeout is still there. -/
theorem C14_hash_survives_other_options (cc : ClientCurrent) (ops : List CtxOp) :
    getClientHash (applyCtxOps (some cc) ops) =
      (match lastHash ops with
       | some (t, c) => (true, t, c, true)
       | none => (true, cc.hashType, cc.hashCode, cc.isHash)) ∧
    getClientTimeout (applyCtxOps (some cc) ops) =
      (match lastTimeout ops with
       | some ms => (true, ms, true)
       | none => (true, cc.timeout, cc.isTimeout)) := by
  induction ops generalizing cc with
  | nil => simp [applyCtxOps, lastHash, lastTimeout, getClientHash, getClientTimeout]
  | cons op ops ih =>
    cases op with
    | hash t c =>
      have := ih { cc with isHash := true, hashType := t, hashCode := c }
      simp only [applyCtxOps, List.foldl_cons, applyCtxOp, setClientHash, lastHash, lastTimeout] at this ⊢
      refine ⟨?_, ?_⟩
      · rw [this.1]; cases lastHash ops <;> rfl
      · rw [this.2]; cases lastTimeout ops <;> rfl
    | timeout ms =>
      have := ih { cc with isTimeout := true, timeout := ms }
      simp only [applyCtxOps, List.foldl_cons, applyCtxOp, setClientTimeout, lastHash, lastTimeout] at this ⊢
      refine ⟨?_, ?_⟩
      · rw [this.1]; cases lastHash ops <;> rfl
      · rw [this.2]; cases lastTimeout ops <;> rfl
    | serverIP ip =>
      have := ih { cc with serverIP := ip }
      simp only [applyCtxOps, List.foldl_cons, applyCtxOp, setServerIP, lastHash, lastTimeout] at this ⊢
      refine ⟨?_, ?_⟩
      · rw [this.1]; cases lastHash ops <;> rfl
      · rw [this.2]; cases lastTimeout ops <;> rfl
    | serverPort p =>
      have := ih { cc with serverPort := p }
      simp only [applyCtxOps, List.foldl_cons, applyCtxOp, setServerPort, lastHash, lastTimeout] at this ⊢
      refine ⟨?_, ?_⟩
      · rw [this.1]; cases lastHash ops <;> rfl
      · rw [this.2]; cases lastTimeout ops <;> rfl

/-- hence a call whose context was given a hash and, afterwards, any other options is routed by
    that hash (decision of `SelectAdapterProxy` on the message `TarsInvoke` builds) -/
theorem C14_ctx_routing_after_other_options (ops : List CtxOp) (t : Int) (c : Nat) (h : lastHash ops = some (t, c)) :
    msgOfCtx (applyCtxOps (some newClientCurrent) ops) = ⟨true, t, c⟩ := by
  have := (C14_hash_survives_other_options newClientCurrent ops).1
  rw [h] at this
  simp only [msgOfCtx, this]
  rfl

/-- the extractor found every setter of clientcurrent.go writing only fields of its own (no
    whole-struct assignment; a field shared by several setters is only ever written with `|=` / `&^=`) -/
theorem C14_ctx_setters_anchor : Consts.conHashCtxSettersDisjoint = 1 := by decide

example : lastHash [.hash 1 77, .timeout 3000, .serverIP "x"] = some (1, 77) := by decide

/-! ## Weight type in force -/

/-- helper-free statement of the loop: it ends `true` iff it started `true` and every element equals `lastType` -/
theorem C14_sameTypeLoop_spec (lastType : Int) (ts : List Int) (b : Bool) :
    sameTypeLoop lastType ts b = (b && ts.all (· == lastType)) := by
  induction ts generalizing b with
  | nil => simp [sameTypeLoop]
  | cons t ts ih =>
    simp only [sameTypeLoop, ih, List.all_cons]
    by_cases h : t = lastType
    · subst h; simp
    · simp [h]

/-- the weight type `updateActiveEp` puts in force for a non-empty endpoint list is
    `effectiveWeightType` of that list — the common `WeightType`, `ELoop` when they differ — and
    does NOT depend on the weight type that was in force before: two managers handed the same
    registry answer build their selectors with the same `enableWeight`, whatever they saw earlier. -/
theorem C14_weight_type_pure (types : List Int) (hne : types ≠ []) (prev prev' : Int) :
    updateWeightType prev types = effectiveWeightType types ∧
    updateWeightType prev types = updateWeightType prev' types ∧
    enableWeight (updateWeightType prev types) = enableWeight (updateWeightType prev' types) := by
  cases types with
  | nil => exact absurd rfl hne
  | cons t ts =>
    have h : updateWeightType prev (t :: ts) = effectiveWeightType (t :: ts) := by
      simp only [updateWeightType, effectiveWeightType, C14_sameTypeLoop_spec, List.all_cons, Bool.true_and]
      simp
    have h' : updateWeightType prev' (t :: ts) = effectiveWeightType (t :: ts) := by
      simp only [updateWeightType, effectiveWeightType, C14_sameTypeLoop_spec, List.all_cons, Bool.true_and]
      simp
    exact ⟨h, by rw [h, h'], by rw [h, h']⟩

/-- the extractor found the shape the model mirrors (`e.weightType = endpoint.ELoop` unconditionally
    before `if sameType`, or the equivalent `else` branch); without it this file does not build -/
theorem C14_weight_type_anchor : Consts.conHashWtResetBeforeSameType = 1 ∧
    Consts.conHashWtELoop ≠ Consts.conHashWtEStaticWeight := by decide

/-- instances: all static ⇒ static weights apply; a loop endpoint among them, or all loop ⇒ they do not -/
example : enableWeight (updateWeightType 0 [1, 1, 1]) = true ∧ enableWeight (updateWeightType 1 [1, 1, 0]) = false ∧
    enableWeight (updateWeightType 1 [0, 0]) = false := by decide

/-! ## A call with a hash code in its context -/

/-- the hash-type enumerations of `tars` (message.go) and `tars/selector` agree
    (`Message.HashType()` converts one into the other by value) -/
theorem C14_hashtype_enums_agree :
    Consts.conHashMsgModHash = Consts.conHashSelModHash ∧
    Consts.conHashMsgConsistentHash = Consts.conHashSelConsistentHash ∧
    Consts.conHashMsgModHash ≠ Consts.conHashMsgConsistentHash := by decide

omit [DecidableEq H] in
/-- decision logic of `SelectAdapterProxy` for a call whose context was given a hash code with
    `current.SetClientHash(ctx, ty, code)`: with endpoints known and no adapter queued for a probe,
    the consistent-hash selector is asked for `code` iff `ty = ConsistentHash`, the mod-hash selector
    iff `ty = ModHash`, and every other type falls through to round robin; a selector error leads
    to the random fallback (registry mode) or to no adapter (direct mode). -/
theorem C14_ctx_routing (directProxy : Bool) (nEp nEpf : Nat)
    (hne : (directProxy && nEp == 0) = false) (hnf : (!directProxy && nEpf == 0) = false)
    (cc : ClientCurrent) (ty : Int) (code : Nat)
    (conHash : Nat → Found H) (modHash : Nat → Sel H) (roundRobin : Sel H) :
    selectAdapterProxy directProxy nEp nEpf false (msgOfCtx (setClientHash (some cc) ty code).1)
        conHash modHash roundRobin =
      (if ty = (Consts.conHashMsgConsistentHash : Int) then Route.ofFound directProxy (conHash code)
       else if ty = (Consts.conHashMsgModHash : Int) then Route.ofSel directProxy (modHash code)
       else Route.ofSel directProxy roundRobin) := by
  unfold selectAdapterProxy strategy
  generalize ((Consts.conHashMsgConsistentHash : Nat) : Int) = c1
  generalize ((Consts.conHashMsgModHash : Nat) : Int) = c0
  simp only [hne, hnf, msgOfCtx, setClientHash, getClientHash]
  by_cases h1 : ty = c1
  · simp [h1]
  · by_cases h2 : ty = c0
    · have h3 : ¬ c0 = c1 := h2 ▸ h1
      simp [h2, h3]
    · simp [h1, h2]

omit [DecidableEq H] in
/-- a call without a hash code in its context (fresh `ClientCurrent`, or none at all) is routed by
    round robin -/
theorem C14_ctx_no_hash (directProxy : Bool) (nEp nEpf : Nat)
    (hne : (directProxy && nEp == 0) = false) (hnf : (!directProxy && nEpf == 0) = false)
    (conHash : Nat → Found H) (modHash : Nat → Sel H) (roundRobin : Sel H) :
    selectAdapterProxy directProxy nEp nEpf false (msgOfCtx (some newClientCurrent)) conHash modHash roundRobin
      = Route.ofSel directProxy roundRobin ∧
    selectAdapterProxy directProxy nEp nEpf false (msgOfCtx none) conHash modHash roundRobin
      = Route.ofSel directProxy roundRobin := by
  simp [selectAdapterProxy, hne, hnf, msgOfCtx, getClientHash, newClientCurrent, strategy]

/-- end to end on the model: a call with `SetClientHash(ctx, ConsistentHash, code)` is handed the
    adapter of the endpoint that owns the clockwise successor of `code` on the current set,
    whatever history produced the set -/
theorem C14_ctx_conhash_route (pts : H → Nat → List Nat) (ew : Bool) (U : List (Ep H))
    (hU : HostsInj U) (hnc : NoCollision (cfgOf ew) pts U)
    (ops : List (Op H)) (hops : OverU U ops)
    (directProxy : Bool) (nEp nEpf : Nat)
    (hne : (directProxy && nEp == 0) = false) (hnf : (!directProxy && nEpf == 0) = false)
    (cc : ClientCurrent) (code : Nat) (e : Ep H)
    (hown : Owner (cfgOf ew) pts U (setAfter [] ops) code e)
    (modHash : Nat → Sel H) (roundRobin : Sel H) :
    selectAdapterProxy directProxy nEp nEpf false
        (msgOfCtx (setClientHash (some cc) (Consts.conHashMsgConsistentHash : Int) code).1)
        (select (ringAfter pts ew ops)) modHash roundRobin = .selected e := by
  rw [C14_ctx_routing directProxy nEp nEpf hne hnf]
  simp only [↓reduceIte, select]
  rw [(C14_lookup_spec pts ew U hU hnc ops hops code).1 e hown]
  rfl

/-! ## Non-vacuity: concrete instances of the hypotheses -/

section NonVacuity

/-- a toy point function: host `h` owns the points `1000·h + i` -/
def toyPts (h : Nat) (i : Nat) : List Nat := [1000 * h + i]
def toyU : List (Ep Nat) := [⟨1, 0⟩, ⟨2, 0⟩, ⟨3, 0⟩]

example : HostsInj toyU := by unfold HostsInj toyU; decide
example : NoCollision (cfgOf false) toyPts toyU := by
  unfold NoCollision toyU
  intro e1 h1 e2 h2 hne p hp1 hp2
  simp only [ptsOf, allPts, toyPts, List.mem_flatMap, List.mem_range, List.mem_singleton] at hp1 hp2
  obtain ⟨i, hi, rfl⟩ := hp1
  obtain ⟨j, hj, hp⟩ := hp2
  have w1 : weight (cfgOf false) e1.weight = 25 := by simp [weight]
  have w2 : weight (cfgOf false) e2.weight = 25 := by simp [weight]
  rw [w1] at hi; rw [w2] at hj
  simp only [List.mem_cons, List.not_mem_nil, or_false] at h1 h2
  have hi' : i < 25 := by simpa using hi
  have hj' : j < 25 := by simpa using hj
  rcases h1 with rfl | rfl | rfl <;> rcases h2 with rfl | rfl | rfl <;> simp at hne <;> simp at hp <;> omega
example : OverU toyU [.refresh [⟨2, 0⟩, ⟨1, 0⟩], .remove ⟨2, 0⟩, .add ⟨3, 0⟩, .add ⟨3, 0⟩] := by
  unfold OverU toyU; decide
set_option maxRecDepth 100000 in
/-- real hosts, one virtual node each (`enableWeight`, weight 4): no collision -/
example : NoCollision (cfgOf true) ketamaPts [⟨hostA, 4⟩, ⟨hostB, 4⟩] := by
  unfold NoCollision; decide
/-- the hypotheses of `C14_ctx_routing` -/
example : (true && (2 : Nat) == 0) = false ∧ (!true && (0 : Nat) == 0) = false := by decide
/-- the toy ring routes the ring point 2007 to host 2 -/
example : findInt32 (ringAfter toyPts false [.refresh toyU]) 2007 = .ep ⟨2, 0⟩ :=
  findInt32_at_point (InvK_run toyPts _ (InvK_new false)) (by decide)

end NonVacuity

end Tars.C14
