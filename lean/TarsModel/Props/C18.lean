import TarsModel.Proofs.EndpointParse
import TarsModel.Proofs.Bytes

/-!
# C18 — Endpoint strings parse to the same endpoint they describe

Property theorems only.  Model: `TarsModel/Model/Endpoint.lean` (`parse` = `endpoint.Parse` incl.
`strings.Fields`, `flag.FlagSet.Parse`, `strconv.ParseInt(s, 0, 64)`; `Endpoint.string`;
`tars2endpoint` / `endpoint2tars`).

What the theorems quantify over: a description `d : Desc` is a protocol (`tcp | udp | ssl`), a
*list* of written options — any subset of the nine options in any order, repetitions allowed,
each in one of the spellings `-x v`, `--x v`, `-x=v`, `--x=v`, preceded by an arbitrary non-empty
run of ASCII blanks (space, `\t \n \v \f \r`) and, for the first two spellings, with such a run
between flag and value — and a run of trailing blanks.  Host and bind values are arbitrary byte
strings that form one word (`FieldTok`), ASCII or not.  `render d` is the string, `d.endpoint` the
endpoint it denotes (options applied to the documented defaults, then the transport kind, the
weight normalisation and the conversion to int32).  Integer values range over all of Go's `int`
(64 bit); the endpoint carries their int32 conversion (`C18_int32`: the identity on int32).

`Variant`: `asFound` is `Parse` as it stands in the tree at round 0, `repaired` is `Parse` with the
guard of `pending/C18-parse-guard.patch`.  Everything except `C18_total` holds for both.
-/
namespace Tars.Endpoint
open Tars

/-! ## Clause 1: parsing the textual form yields exactly the described values -/

/-- a host / bind value: any byte string — ASCII or not, valid UTF-8 or not — that `strings.Fields`
    itself returns as its own single field, i.e. that is non-empty and contains no blank space in
    Go's sense (`unicode.IsSpace` on the runes Go decodes): the values that can be written as one
    word.  (The empty value, which only the `-h=` spelling could express, is not included.) -/
def FieldTok (t : Bytes) : Prop := fields t = [t]

/-- `C18_parse`: for every protocol, every list of written options (every subset, order and
    repetition), every spelling and every choice of blank runs, parsing the rendered string
    yields exactly the described endpoint — for both variants of `Parse`. -/
theorem C18_parse (var : Variant) (d : Desc) (h : d.WF FieldTok) :
    parse var (render d) = .ok d.endpoint :=
  parse_render var d (h.mono tokU_of_fields)

/-- every non-empty ASCII string without ASCII blanks is such a value -/
theorem C18_ascii_tokens (t : Bytes) (h : Tok t) : FieldTok t := h.fields_single

/-- the described endpoint, member by member -/
theorem C18_endpoint_members (d : Desc) :
    d.endpoint.host = d.flags.host ∧ d.endpoint.bind = d.flags.bind ∧
    d.endpoint.port = toI32 d.flags.port ∧ d.endpoint.timeout = toI32 d.flags.timeout ∧
    d.endpoint.grid = toI32 d.flags.grid ∧ d.endpoint.qos = toI32 d.flags.qos ∧
    d.endpoint.weightType = toI32 d.flags.weightType ∧ d.endpoint.authType = toI32 d.flags.authType ∧
    d.endpoint.setId = [] ∧ d.endpoint.key = d.endpoint.string :=
  ⟨rfl, rfl, rfl, rfl, rfl, rfl, rfl, rfl, rfl, rfl⟩

/-- an option that is written (each option at most once) determines its variable: exactly that value -/
theorem C18_parse_present (d : Desc) (nd : (d.opts.map Opt.flag).Nodup) (o : Opt) (ho : o ∈ d.opts) :
    d.flags.get o.flag = o.val := by
  rw [flags_opts]; exact get_foldl_present d.opts defaultFlags o ho nd

/-- with every option written at most once the result does not depend on the order of the options
    (nor on spellings and blanks) -/
theorem C18_parse_perm (var : Variant) (d d' : Desc) (h : d.WF FieldTok) (h' : d'.WF FieldTok)
    (hproto : d.proto = d'.proto) (hperm : d.opts.Perm d'.opts) (nd : (d.opts.map Opt.flag).Nodup) :
    parse var (render d) = parse var (render d') := by
  rw [C18_parse var d h, C18_parse var d' h']
  unfold Desc.endpoint
  rw [flags_opts, flags_opts, foldl_perm d.opts d'.opts defaultFlags hperm nd, hproto]

/-- the int32 conversion is the identity on int32 values -/
theorem C18_int32 (v : Int) (hlo : -(2 : Int) ^ 31 ≤ v) (hhi : v < (2 : Int) ^ 31) : toI32 v = v := by
  unfold toI32 wrapS
  exact toS_toU 32 (by decide) v (by simpa using hlo) (by simpa using hhi)

/-! ## Clause 2: defaults, weight normalisation, transport kind -/

/-- an option that is not written keeps the default of its variable -/
theorem C18_defaults (d : Desc) (k : Flag) (h : ∀ o ∈ d.opts, o.flag ≠ k) :
    d.flags.get k = defaultFlags.get k := by
  rw [flags_opts]; exact get_foldl_absent d.opts defaultFlags k h

/-- the documented defaults: no host, port 0, timeout 3000, grid 0, qos 0, weight −1 (unset),
    weight type 0, auth type 0, no bind address (constants regenerated from parse.go) -/
theorem C18_default_values :
    defaultFlags = { host := [], port := 0, timeout := 3000, grid := 0, qos := 0, weight := -1,
                     weightType := 0, authType := 0, bind := [] } := rfl

/-- the bare protocol (with optional trailing blanks) parses to the defaults -/
theorem C18_defaults_bare (var : Variant) (p : Proto) (trail : Bytes) (ht : Blank trail) :
    parse var (p.bytes ++ trail) = .ok (finish p.bytes defaultFlags) := by
  have := C18_parse var { proto := p, items := [], trail := trail } ⟨by simp, ht⟩
  simpa [render, renderPairs, Desc.endpoint, Desc.flags] using this

/-- weight normalisation: a weight type other than 0 with no weight (−1) or a weight above 100
    gives weight 100; otherwise the weight is kept (the test is made on the 64-bit values) -/
theorem C18_weight (proto : Bytes) (fl : Flags) :
    (finish proto fl).weight =
      toI32 (if fl.weightType ≠ 0 ∧ (fl.weight = -1 ∨ fl.weight > 100) then 100 else fl.weight) := rfl

/-- transport kind and protocol name: tcp ↦ (1, "tcp"), ssl ↦ (2, "tcp"), udp ↦ (0, "udp") -/
theorem C18_transport (fl : Flags) :
    ((finish sTcp fl).istcp = 1 ∧ (finish sTcp fl).proto = sTcp) ∧
    ((finish sSsl fl).istcp = 2 ∧ (finish sSsl fl).proto = sTcp) ∧
    ((finish sUdp fl).istcp = 0 ∧ (finish sUdp fl).proto = sUdp) := by
  refine ⟨⟨?_, ?_⟩, ⟨?_, ?_⟩, ⟨?_, ?_⟩⟩ <;> simp [finish, sTcp, sSsl, sUdp]

/-! ## Clause 3: conversion to the registry structure and back -/

/-- `Tars2endpoint (Endpoint2tars e)` agrees with `e` on host, port, timeout, transport kind, grid,
    qos, weight, weight type, auth type and set id — for every endpoint value -/
theorem C18_convert (e : Endpoint) :
    let e' := tars2endpoint (endpoint2tars e)
    e'.host = e.host ∧ e'.port = e.port ∧ e'.timeout = e.timeout ∧ e'.istcp = e.istcp ∧
    e'.grid = e.grid ∧ e'.qos = e.qos ∧ e'.weight = e.weight ∧ e'.weightType = e.weightType ∧
    e'.authType = e.authType ∧ e'.setId = e.setId :=
  ⟨rfl, rfl, rfl, rfl, rfl, rfl, rfl, rfl, rfl, rfl⟩

/-- the other direction loses nothing of the members the conversions know -/
theorem C18_convert_registry (f : EndpointF) : endpoint2tars (tars2endpoint f) = f := rfl

/-! ## Clause 4: the cache key does not depend on where the description comes from -/

/-- every string that begins with `tcp`, `udp` or `ssl` — whatever follows, well-formed or not —
    is parsed without panic, and a registry entry `f` that describes the same endpoint (same host,
    port, timeout, transport kind) obtains the same `Key` through `Tars2endpoint` -/
theorem C18_key (var : Variant) (s : Bytes) (p : Proto) (hp : s.take 3 = p.bytes) :
    ∃ e, parse var s = .ok e ∧
      ∀ f : EndpointF, f.host = e.host → f.port = e.port → f.timeout = e.timeout → f.istcp = e.istcp →
        (tars2endpoint f).key = e.key := by
  obtain ⟨fl, hfl⟩ := parse_of_proto var s p hp
  exact ⟨_, hfl, fun f hh hpt ht hi => key_registry p fl f hh hpt ht hi⟩

/-- in particular the round trip through the registry structure keeps the key -/
theorem C18_key_roundtrip (var : Variant) (s : Bytes) (p : Proto) (hp : s.take 3 = p.bytes) :
    ∃ e, parse var s = .ok e ∧ (tars2endpoint (endpoint2tars e)).key = e.key := by
  obtain ⟨e, he, hk⟩ := C18_key var s p hp
  exact ⟨e, he, hk (endpoint2tars e) rfl rfl rfl rfl⟩

/-- boundary of the clause: for a first word other than the three protocols the keys differ
    (`"xyz"` parses to protocol `xyz` but comes back from the registry as `udp`) -/
theorem C18_key_boundary :
    ∃ e, parse .repaired [B 120, B 121, B 122] = .ok e ∧ (tars2endpoint (endpoint2tars e)).key ≠ e.key := by
  refine ⟨_, rfl, ?_⟩
  intro h
  have := congrArg List.head? h
  simp [tars2endpoint, endpoint2tars, finish, Endpoint.string, sUdp, sTcp, sSsl] at this

/-! ## Clause 4 at the level of the endpoint manager's key-indexed tables

The manager indexes its adapters (`epList`) and its probe candidates (`checkAdapterList`) by the
endpoint key and compares the cached keys with those of the registry's inactive list on every
refresh.  `keyOfRegistry` / `keyOfString` are the only two ways a key may be made. -/

/-- key of an endpoint as the registry describes it: `endpoint.Tars2endpoint(f).Key` -/
def keyOfRegistry (f : EndpointF) : Bytes := (tars2endpoint f).key

/-- key of an endpoint given by an address string: `endpoint.Parse(s).Key` (`none`: panic) -/
def keyOfString (var : Variant) (s : Bytes) : Option Bytes :=
  match parse var s with
  | .ok e => some e.key
  | .panic _ => none

/-- registry and string descriptions of the same endpoint agree on the key (restatement of
    `C18_key` in terms of the two key functions) -/
theorem C18_keyOf_agree (var : Variant) (s : Bytes) (p : Proto) (hp : s.take 3 = p.bytes) :
    ∃ e, parse var s = .ok e ∧ keyOfString var s = some e.key ∧
      ∀ f : EndpointF, f.host = e.host → f.port = e.port → f.timeout = e.timeout → f.istcp = e.istcp →
        keyOfRegistry f = e.key := by
  obtain ⟨e, he, hk⟩ := C18_key var s p hp
  exact ⟨e, he, by simp [keyOfString, he], hk⟩

/-- probe hand-out: `checkStatus` stores the candidate under `Tars2endpoint(ef).Key`; the adapter
    remembers `ef` itself or `Endpoint2tars(Tars2endpoint(ef))`, and `SelectAdapterProxy` deletes
    under `Tars2endpoint(*adp.GetPoint()).Key` — the same key, for every registry entry -/
theorem C18_manager_probe_key (f : EndpointF) :
    keyOfRegistry (endpoint2tars (tars2endpoint f)) = keyOfRegistry f := rfl

/-- direct proxies: the adapter of an endpoint parsed from an address string that begins with
    tcp/udp/ssl remembers `Endpoint2tars(Parse(s))`; its key is the key of the string -/
theorem C18_manager_direct_key (var : Variant) (s : Bytes) (p : Proto) (hp : s.take 3 = p.bytes) :
    ∃ e, parse var s = .ok e ∧ keyOfRegistry (endpoint2tars e) = e.key := by
  obtain ⟨e, he, hk⟩ := C18_key_roundtrip var s p hp
  exact ⟨e, he, hk⟩

/-- a key made any other way need not agree: the key of an Endpoint assembled with the protocol
    word `udp` for every transport kind other than 1 (what a "tcp only if Istcp == 1" shortcut
    does) differs from the registry key of an ssl endpoint -/
theorem C18_counterexample_local_key :
    let f : EndpointF := { host := [B 97], port := 1, timeout := 2, istcp := 2, grid := 0, qos := 0,
                           weight := 0, weightType := 0, authType := 0, setId := [] }
    ({ (tars2endpoint f) with proto := if f.istcp = 1 then sTcp else sUdp } : Endpoint).string ≠ keyOfRegistry f := by
  intro f h
  have := congrArg List.head? h
  simp [f, keyOfRegistry, tars2endpoint, Endpoint.string, sUdp, sTcp] at this

/-- tie to the current tree: in tars/endpointmanager.go and tars/application.go every key used
    with the manager's tables, or compared with an Endpoint's `Key`, is the `Key`/`String()` of an
    Endpoint made by `endpoint.Parse` / `endpoint.Tars2endpoint` or a key taken out of a table
    (extractor rule "key sites" of extract/c18.go; this theorem no longer builds when a site
    formats a key itself) -/
theorem C18_key_sites_current_tree : Consts.epKeySitesCanonical = 1 := by decide

/-! ## Purity

`parse`, `Endpoint.string`, `tars2endpoint`, `endpoint2tars` are Lean functions: what they return
depends on their argument only, so two calls with the same argument agree whatever happens in
between or at the same time.  The Go functions are pure as long as they keep no state between
calls; that is what the anchor below (no package-level flag target, no package-level variable
written / address-taken / method-called in the four functions) and the stream `conc` (results of
concurrent calls = results of the same calls made alone) check on the current tree. -/

/-- statement of purity used by the harness: a result does not depend on the calls made before -/
theorem C18_parse_pure (var : Variant) (s : Bytes) (history : List Bytes) :
    (history.map (parse var), parse var s).2 = parse var s := rfl

/-- tie to the current tree: every target registered with the FlagSet is a local of `Parse`, and
    none of Parse / String / Tars2endpoint / Endpoint2tars touches a package-level variable
    (extractor rule "purity" of extract/c18.go) -/
theorem C18_parse_pure_current_tree : Consts.epParsePure = 1 := by decide

/-! ## Clause 5: no string makes the parser crash -/

/-- with the guard (pending/C18-parse-guard.patch) `Parse` returns for **every** byte string -/
theorem C18_total (s : Bytes) : ∃ e, parse .repaired s = .ok e := repaired_total s

/-- the guard changes nothing where the as-found code did not panic -/
theorem C18_repair_conservative (s : Bytes) (h : ¬ (s.length < 3 ∨ fields s = [])) :
    parse .repaired s = parse .asFound s := variants_agree s h

/-- D1, exact class: as found, `Parse` panics precisely on strings shorter than 3 bytes and on
    strings without a field -/
theorem C18_asFound_panics_iff (s : Bytes) :
    (∃ site, parse .asFound s = .panic site) ↔ (s.length < 3 ∨ fields s = []) :=
  asFound_panics_iff s

/-- D1 witnesses: `Parse("")`, `Parse("  ")`, `Parse("tc")` (slice `endpoint[0:3]`) and
    `Parse("   ")` (slice `strings.Fields(endpoint)[1:]`) -/
theorem C18_counterexample_D1_empty : parse .asFound [] = .panic "slice-proto" := by decide
theorem C18_counterexample_D1_two_blanks : parse .asFound [B 32, B 32] = .panic "slice-proto" := by decide
theorem C18_counterexample_D1_short : parse .asFound [B 116, B 99] = .panic "slice-proto" := by decide
theorem C18_counterexample_D1_three_blanks : parse .asFound [B 32, B 32, B 32] = .panic "slice-fields" := by decide

/-! ## The property as one statement -/

/-- C18 at full strength on the model: (1) parse ∘ render = described endpoint for all descriptions,
    (2) the conversion round trip keeps the ten members, (3) a registry entry for the endpoint a
    string starting with tcp/udp/ssl denotes gets the same key, (4) the (guarded) parser returns
    for every byte string -/
def C18_full : Prop :=
  (∀ (var : Variant) (d : Desc), d.WF FieldTok → parse var (render d) = .ok d.endpoint) ∧
  (∀ e : Endpoint, endpoint2tars (tars2endpoint (endpoint2tars e)) = endpoint2tars e) ∧
  (∀ (var : Variant) (s : Bytes) (p : Proto), s.take 3 = p.bytes →
    ∃ e, parse var s = .ok e ∧ ∀ f : EndpointF, f.host = e.host → f.port = e.port →
      f.timeout = e.timeout → f.istcp = e.istcp → (tars2endpoint f).key = e.key) ∧
  (∀ s : Bytes, ∃ e, parse .repaired s = .ok e)

theorem C18_full_holds : C18_full :=
  ⟨C18_parse, fun _ => rfl, C18_key, C18_total⟩

/-! ## Non-vacuity -/

/-- `ssl -p 80\t--h=a.b ` is a well-formed description … -/
def exampleDesc : Desc :=
  { proto := .ssl,
    items := [ { opt := .p 80, form := .plain, sep := [B 32], sep2 := [B 32, B 32] },
               { opt := .h [B 97, B 46, B 98], form := .ddeq, sep := [B 9], sep2 := [] } ],
    trail := [B 32] }

example : exampleDesc.WF FieldTok := by
  have h : exampleDesc.WF Tok := by
    refine ⟨?_, Blank.cons _ _ (by decide) Blank.nil⟩
    intro it hit
    simp only [exampleDesc, List.mem_cons, List.not_mem_nil, or_false] at hit
    rcases hit with hit | hit <;> subst hit
    · exact ⟨Blank.cons _ _ (by decide) Blank.nil, by decide,
        fun _ => ⟨Blank.cons _ _ (by decide) (Blank.cons _ _ (by decide) Blank.nil), by decide⟩,
        by simp [Opt.IntOk], trivial⟩
    · refine ⟨Blank.cons _ _ (by decide) Blank.nil, by decide, fun h => by simp at h, trivial, ?_⟩
      exact tok_cons _ _ (by decide) (tok_cons _ _ (by decide) (tok_single _ (by decide)))
  exact h.mono C18_ascii_tokens

/-- a non-ASCII host: `é` (C3 A9) is a value in the sense of `FieldTok`, `a b` and `a\u00a0b` are not -/
example : FieldTok [B 195, B 169] := by
  unfold FieldTok
  rw [fields_eq_unicode]
  simp [fieldsUnicode, fieldsUniAux_cons, fieldsUniAux_nil, decodeRune, isSpaceRune, isCont]
example : ¬ FieldTok [B 97, B 32, B 98] := by unfold FieldTok; decide
example : ¬ FieldTok [B 97, B 194, B 160, B 98] := by
  unfold FieldTok
  rw [fields_eq_unicode]
  simp [fieldsUnicode, fieldsUniAux_cons, fieldsUniAux_nil, decodeRune, isSpaceRune, isCont]

/-- … its options are pairwise distinct (hypothesis of `C18_parse_perm` / `C18_parse_present`) … -/
example : (exampleDesc.opts.map Opt.flag).Nodup := by decide

/-- … and denotes host `a.b`, port 80, default timeout, transport kind 2 over protocol `tcp` -/
example : exampleDesc.endpoint.host = [B 97, B 46, B 98] ∧ exampleDesc.endpoint.port = 80 ∧
    exampleDesc.endpoint.timeout = 3000 ∧ exampleDesc.endpoint.istcp = 2 ∧
    exampleDesc.endpoint.proto = sTcp ∧ exampleDesc.endpoint.weight = -1 := by decide

/-- hypothesis of `C18_key`: a string beginning with `udp` -/
example : ([B 117, B 100, B 112, B 32, B 45] : Bytes).take 3 = Proto.udp.bytes := by decide

/-- hypothesis of `C18_repair_conservative` is satisfiable (`tcp`) and so is its negation (`""`) -/
example : ¬ (([B 116, B 99, B 112] : Bytes).length < 3 ∨ fields [B 116, B 99, B 112] = []) := by decide


end Tars.Endpoint
