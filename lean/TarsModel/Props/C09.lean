/-
  C09 — Every call terminates by its deadline and leaves nothing behind.

  Property theorems only.  Models: `TarsModel/Model/Route.lean` (untimed LTS of the call path; the
  cleanup and late-reply clauses are proved there, for all schedules and all peer behaviours) and
  `TarsModel/Model/Call.lean` (the same LTS with a discrete clock: effective deadline, dial bound,
  write-timeout bound; the timing clauses are proved there).  Helper lemmas: `Proofs/RouteInv.lean`,
  `Proofs/RouteLate.lean`, `Proofs/CallTime.lean`.

  PARTIAL with respect to real time: the clock of the model counts abstract units; scheduling
  latency, timer slack (`rtimer`'s time wheel, the runtime timers behind `context.WithTimeout`) and the
  duration of computation are outside the model.  "Returns no later than …" is therefore a theorem
  about the model's clock only; the harness measures wall-clock time with a generous slack.
-/
import TarsModel.Props.C08
import TarsModel.Proofs.CallTime

namespace Tars.C09
open Tars.Route Tars.Call

/-- The timing clause of the property as a statement about the timed model: every call that has
    returned did so no later than its effective deadline (not before its start) plus the dial bound.
    It is FALSE for the code as it is: `C09_bound_vs_property` (D18: a full send queue delays the
    return by up to `WriteTimeout`, without bound when `WriteTimeout = 0`; and callers queue up behind
    the dial lock).  What holds is `C09_bound` / `C09_bound_property_partial`. -/
def C09_full_bound : Prop :=
  ∀ (cfg : Cfg) (ctr : Int) (ts : TState) (i : Nat) (c : Call) (t : Times) (o : Outcome),
    TReachable cfg ctr ts → ts.base.calls[i]? = some c → ts.times[i]? = some t → c.pc = .done o →
    t.ret ≤ propertyBound cfg t

/-- the literals the model is written over (re-extracted on every run): the counters move by 1,
    `WriteTimeout > 0` arms the timer of `TarsClient.Send`, and the decrement of `queueLen` in
    `doInvoke`'s deferred cleanup is on the same receiver as the increment (`&s.queueLen` both — the
    counter of the proxy the call was made on, not `adp.servantProxy`, the proxy that used the shared
    adapter last), and every way out of `doInvoke` and of `doKeepAlive` after the increment of `queueLen`
    runs the decrement (a `defer` installed before any `return`, or an explicit decrement on the path) -/
theorem C09_model_applicable :
    Consts.callQueueLenInc = 1 ∧ Consts.callInvokeNumInc = 1 ∧ Consts.callWriteTimeoutOffValue = 0 ∧
    Consts.callReplyChanCap = 0 ∧ Consts.callQueueLenDecSameReceiver = 1 ∧
    Consts.callInvokeSlotReleased = 1 ∧ Consts.callKeepAliveSlotReleased = 1 := by decide

/-- **Lock discipline of the transport client (current tree).**  The model treats
    `connection.close`, `connection.lost` and the non-dialling path of `connection.ReConnect` as atomic
    actions (`connClose`, `lockAcq`) that never leave `connLock` held, and the dialling path as holding
    it exactly from `lockAcq` to `dialOk` / `dialFail`.  That is an abstraction of the code only if every
    way out of these three functions releases the lock (a `defer c.connLock.Unlock()` after the `Lock()`,
    or an `Unlock()` before every `return` and before the end): re-extracted on every run. -/
theorem C09_lock_discipline_current_tree :
    Consts.callConnLockReleasedClose = 1 ∧ Consts.callConnLockReleasedReConnect = 1 ∧
    Consts.callConnLockReleasedLost = 1 := by decide

/-- **Effective deadline.** The caller's context deadline if it has one, otherwise now + the per-call
    timeout, otherwise now + the configured timeout. -/
theorem C09_deadline_selection (cfg : Cfg) (now : Nat) (par : Params) :
    effDeadline cfg now par =
      match par.ctxDeadline, par.callTimeout with
      | some d, _ => d
      | none, some t => now + t
      | none, none => now + cfg.timeout := by
  unfold effDeadline effTimeout
  cases par.ctxDeadline <;> cases par.callTimeout <;> rfl

/-- **C09_deadline_path_independent.** Whatever way `TarsInvoke` dispatches the call — directly, around
    pre/post filters, through the legacy single client filter or through the middleware chain — the
    context `doInvoke` waits on carries exactly the effective deadline.  (Stated over the re-extracted
    call-site constants: if one dispatch branch of `TarsInvoke` is handed another context than the one
    assigned by `context.WithTimeout`, this theorem no longer builds.) -/
theorem C09_deadline_path_independent (cfg : Cfg) (now : Nat) (par : Params) (p : Path) :
    handedDeadline cfg now par p = some (effDeadline cfg now par) := by
  have hp : passesInvokeCtx p = true := by cases p <;> decide
  have hw : wrapsWhateverTimeout = true := by decide
  unfold handedDeadline effDeadline
  cases par.ctxDeadline <;> simp [hp, hw]

/-- **Timeout 0 is a deadline, not "no deadline".**  A call whose context has no deadline and whose
    effective timeout (per-call, else configured) is 0 waits on a context that has expired when the call
    starts, on every dispatch path; in the timed model such a call that never sat at a full send queue and
    got the dial lock at once has returned by `start + DialTimeout` — it does not wait for the peer. -/
theorem C09_zero_timeout_expires_at_once (cfg : Cfg) (now : Nat) (par : Params) (p : Path)
    (hc : par.ctxDeadline = none) (h0 : effTimeout cfg par = 0) :
    effDeadline cfg now par = now ∧ handedDeadline cfg now par p = some now := by
  have h := C09_deadline_path_independent cfg now par p
  have he : effDeadline cfg now par = now := by simp [effDeadline, hc, h0]
  exact ⟨he, by rw [h, he]⟩

/-- a call with configured timeout 0 against a peer that never answers: it dials, enqueues its request
    and returns with a timeout without a single tick of the clock (model time 0) -/
example :
    let cfg : Cfg := ⟨1, 100, 4, 3, 3, 0⟩
    let acts : List TAction := ([CallAct.begin, .cas, .add, .pre, .selectAdp (some 0), .gate, .incQ, .store, .lockAcq,
      .dialOk, .enqueue, .timeout, .decQ, .del, .post].map (fun a => TAction.act (.call 0 a)))
    (trun cfg (tinit cfg 0) (TAction.act (.spawn ⟨false, 0, none, none, 0⟩) :: acts)).map
        (fun ts => (ts.now, ts.base.calls.map (·.pc), ts.times.map (fun t => (t.deadline, t.ret)))) =
      some (0, [.done .timeout], [(0, 0)]) ∧
    -- … and the clock may not advance while it still waits: `tick` is refused in `wait` at the deadline
    (trun cfg (tinit cfg 0) (TAction.act (.spawn ⟨false, 0, none, none, 0⟩) :: (acts.take 11 ++ [.tick]))) = none := by
  decide


example : handedDeadline ⟨1, 0, 1, 0, 0, 3000⟩ 10 ⟨false, 0, none, some 500, 0⟩ .middleware = some 510 ∧
    handedDeadline ⟨1, 0, 1, 0, 0, 3000⟩ 10 ⟨false, 0, none, none, 0⟩ .single = some 3010 ∧
    handedDeadline ⟨1, 0, 1, 0, 0, 3000⟩ 10 ⟨false, 0, some 700, some 500, 0⟩ .prePost = some 700 := by decide

/-- **C09_cleanup** (inductive invariant; all interleavings, all peer behaviours, any number of
    callers and of ServantProxy objects sharing the adapters).  In every reachable state the `queueLen`
    of every proxy is the number of ITS calls between `queueLen+1` and the deferred `queueLen-1` plus the number
    of keep-alive ticks (`doKeepAlive`) on it that are between theirs, `invokeNum` the number of calls between `preInvoke` and `postInvoke`, every
    entry of a pending-reply table belongs to a call between `resp.Store` and `resp.Delete` that carries
    the entry's id, and every such call is found under its id unless another call shares the id. -/
theorem C09_cleanup {cfg : Cfg} {ctr : Int} {s : State} (hr : Reachable cfg ctr s) :
    (∀ p : Nat, qGet s.queueLens p =
      (s.calls.countP (fun c => c.pc.inQueue && c.par.proxy == p) : Nat) + (s.kaHeld.count p : Nat)) ∧
    s.invokeNum = (s.calls.countP (fun c => c.pc.inInvoke) : Nat) ∧
    (∀ e ∈ s.table, ∃ c, s.calls[e.call]? = some c ∧ c.id = e.id ∧ c.adp = e.adp ∧ c.pc.registered = true) ∧
    (∀ (i : Nat) (c : Call), s.calls[i]? = some c → c.pc.registered = true →
      tLoad s.table c.adp c.id = some i ∨
      ∃ (j : Nat) (c' : Call), j ≠ i ∧ s.calls[j]? = some c' ∧ c'.pc.stored = true ∧ c'.id = c.id ∧ c'.adp = c.adp) :=
  let hI := inv_reachable hr
  ⟨hI.ql, hI.inv, hI.tbl, hI.own⟩

/-- **C09_counters_per_proxy** (any number of ServantProxy objects of one object sharing the endpoint
    manager and its adapters, all interleavings of their calls).  The `queueLen` of proxy `p` counts
    exactly the calls made ON `p` that are between their increment and their deferred decrement —
    calls of other proxies that run through the same adapter, before, during or after, do not move it;
    it is never negative; and once every call made on `p` has returned (or has not started) and no
    keep-alive tick of `p` is between its increment and its deferred decrement it is 0, whatever the
    calls of the other proxies are doing.  Keep-alive ticks are part of the conservation: each tick in
    flight accounts for exactly one, at any moment and however often ticks were admitted or refused before. -/
theorem C09_counters_per_proxy {cfg : Cfg} {ctr : Int} {s : State} (hr : Reachable cfg ctr s) (p : Nat) :
    qGet s.queueLens p =
      (s.calls.countP (fun c => c.pc.inQueue && c.par.proxy == p) : Nat) + (s.kaHeld.count p : Nat) ∧
    0 ≤ qGet s.queueLens p ∧
    ((∀ c ∈ s.calls, c.par.proxy = p → c.pc = .idle ∨ ∃ o, c.pc = .done o) → p ∉ s.kaHeld →
      qGet s.queueLens p = 0) := by
  have hq := (inv_reachable hr).ql p
  refine ⟨hq, by rw [hq]; omega, ?_⟩
  intro h hk
  have hk0 : s.kaHeld.count p = 0 := List.count_eq_zero.mpr hk
  have : s.calls.countP (fun c => c.pc.inQueue && c.par.proxy == p) = 0 := by
    rw [List.countP_eq_zero]
    intro c hc
    by_cases hp : c.par.proxy = p
    · rcases h c hc hp with h' | ⟨o, h'⟩ <;> simp [h', Pc.inQueue]
    · simp [hp]
  rw [hq, this, hk0]; rfl

/-- non-vacuity with keep-alive ticks: while proxy 0's call waits for its reply two ticks take a slot
    (counter 3), one gives it back (2), the call times out and the other tick finishes: 0 -/
example :
    let cfg : Cfg := ⟨1, 100, 4, 3, 3, 5⟩
    let pre : List Action :=
      [CallAct.begin, .cas, .add, .pre, .selectAdp (some 0), .gate, .incQ, .store, .lockAcq, .dialOk, .enqueue].map (Action.call 0)
    let fin : List Action := [CallAct.timeout, .decQ, .del, .post].map (Action.call 0)
    let mid := [Action.spawn ⟨false, 0, none, none, 0⟩] ++ pre ++ [.kaCas, .kaAdd, .kaTake 0, .kaCas, .kaAdd, .kaTake 0, .kaRelease 0]
    (run cfg (init cfg 0) mid).map (fun s => (s.queueLens, s.kaHeld)) = some ([2], [0]) ∧
    (run cfg (init cfg 0) (mid ++ fin ++ [.kaRelease 0])).map (fun s => (s.queueLens, s.kaHeld, s.gen.issued)) =
      some ([0], [], [3, 2, 1]) := by decide

/-- non-vacuity: proxy 0's call waits for its reply while proxy 1 makes and finishes a call through the
    same adapter, then proxy 0's call times out: in between proxy 0's counter is 1 and proxy 1's is back
    at 0, at the end both are 0 -/
example :
    let cfg : Cfg := ⟨1, 100, 4, 3, 3, 5⟩
    let pre (i : Nat) : List Action :=
      [CallAct.begin, .cas, .add, .pre, .selectAdp (some 0), .gate, .incQ, .store, .lockAcq].map (Action.call i)
    let fin (i : Nat) : List Action := [CallAct.decQ, .del, .post].map (Action.call i)
    let mid := [Action.spawn ⟨false, 0, none, none, 0⟩, .spawn ⟨false, 1, none, none, 1⟩] ++ pre 0 ++
      [.call 0 .dialOk, .call 0 .enqueue] ++ pre 1 ++ [.call 1 .enqueue, .emit 0 ⟨2, false, 1⟩, .lookup 0, .deliver 0] ++ fin 1
    (run cfg (init cfg 0) mid).map (·.queueLens) = some [1, 0] ∧
    (run cfg (init cfg 0) (mid ++ [.call 0 .timeout] ++ fin 0)).map (·.queueLens) = some [0, 0] := by decide

/-- A call that has returned — with a reply, an error or a timeout — holds nothing: it is counted in
    neither counter and no table entry refers to it. -/
theorem C09_cleanup_returned {cfg : Cfg} {ctr : Int} {s : State} (hr : Reachable cfg ctr s)
    {i : Nat} {c : Call} {o : Outcome} (hc : s.calls[i]? = some c) (hd : c.pc = .done o) :
    c.pc.inQueue = false ∧ c.pc.inInvoke = false ∧ ∀ e ∈ s.table, e.call ≠ i := by
  refine ⟨by simp [hd, Pc.inQueue], by simp [hd, Pc.inInvoke], ?_⟩
  intro e he hei
  obtain ⟨c0, h0, _, _, h3⟩ := (inv_reachable hr).tbl e he
  rw [hei, hc] at h0; injection h0 with h0; subst h0
  simp [hd, Pc.registered] at h3

/-- Once every call has returned (or has not started), the counters are back to 0 and the
    pending-reply tables are empty — whatever happened in between. -/
theorem C09_cleanup_quiescent {cfg : Cfg} {ctr : Int} {s : State} (hr : Reachable cfg ctr s)
    (hq : ∀ c ∈ s.calls, c.pc = .idle ∨ ∃ o, c.pc = .done o) (hk : s.kaHeld = []) :
    (∀ p : Nat, qGet s.queueLens p = 0) ∧ s.invokeNum = 0 ∧ s.table = [] := by
  have hI := inv_reachable hr
  have h1 : ∀ p : Nat, s.calls.countP (fun c => c.pc.inQueue && c.par.proxy == p) = 0 := by
    intro p
    rw [List.countP_eq_zero]
    intro c hc
    rcases hq c hc with h | ⟨o, h⟩ <;> simp [h, Pc.inQueue]
  have h2 : s.calls.countP (fun c => c.pc.inInvoke) = 0 := by
    rw [List.countP_eq_zero]
    intro c hc
    rcases hq c hc with h | ⟨o, h⟩ <;> simp [h, Pc.inInvoke]
  refine ⟨fun p => by rw [hI.ql p, h1 p, hk]; rfl, by rw [hI.inv, h2]; rfl, ?_⟩
  cases ht : s.table with
  | nil => rfl
  | cons e es =>
    obtain ⟨c, h0, _, _, h3⟩ := hI.tbl e (by rw [ht]; exact List.mem_cons_self)
    rcases hq c (List.mem_of_getElem? h0) with h | ⟨o, h⟩ <;> simp [h, Pc.registered] at h3

example : (run C08.demoCfg (init C08.demoCfg 0) C08.demoActs).map
    (fun s => s.calls.all (fun c => match c.pc with | .idle | .done _ => true | _ => false)) = some true := by
  decide

/-- **C09_late_reply.** Whatever arrives and whenever: the arrival of a packet, its decoding, the table
    lookup and the receiver's give-up change no call record, no table, no counter; a lookup for an id
    that is not registered (the call has returned, or the id was invented) ends the receiver; and the
    only remaining receiver action, the hand-over, changes exactly one call — one that is still
    waiting, carries the packet's id and uses the adapter the packet came from.  A reply that arrives
    after the return of its call therefore affects no call at all. -/
theorem C09_late_reply {cfg : Cfg} {ctr : Int} {s s' : State} (hr : Reachable cfg ctr s) :
    (∀ a, a.isRecvSide = true → step cfg s a = some s' →
      s'.calls = s.calls ∧ s'.table = s.table ∧ s'.queueLens = s.queueLens ∧ s'.invokeNum = s.invokeNum) ∧
    (∀ (r : Nat) (x : Rcv), s.rcvs[r]? = some x → tLoad s.table x.adp x.pkt.id = none →
      step cfg s (.lookup r) = some s' → ∃ pc, (pc = .dropped ∨ pc = .pushed) ∧ s' = s.setRcv r { x with pc := pc }) ∧
    (∀ (r : Nat), step cfg s (.deliver r) = some s' →
      s'.table = s.table ∧ s'.queueLens = s.queueLens ∧ s'.invokeNum = s.invokeNum ∧
      ∃ (x : Rcv) (i : Nat) (c : Call), s.rcvs[r]? = some x ∧ s.calls[i]? = some c ∧ c.pc = .wait ∧
        c.id = x.pkt.id ∧ c.adp = x.adp ∧
        ∀ (j : Nat), j ≠ i → s'.calls[j]? = s.calls[j]?) := by
  refine ⟨?_, ?_, ?_⟩
  · intro a ha h
    obtain ⟨h1, h2, h3, h4, _⟩ := recvSide_frame ha h
    exact ⟨h1, h2, h3, h4⟩
  · intro r x hx hm h
    exact lookup_miss hx hm h
  · intro r h
    obtain ⟨x, i, c, hx, hc, hw, h1, h2, _, rfl⟩ := (C08.C08_route hr).2.2 r s' h
    refine ⟨rfl, rfl, rfl, x, i, c, hx, hc, hw, h1.symm, h2.symm, ?_⟩
    intro j hj
    simp only [State.setRcv, State.setCall, List.getElem?_set]
    split
    · next h' => exact absurd h'.symm hj
    · rfl

/-- A call that has returned is never the target of a hand-over: `deliver` needs its target in
    `wait`. -/
theorem C09_late_reply_returned {cfg : Cfg} {s s' : State} {r i : Nat} {c : Call} {o : Outcome}
    (hc : s.calls[i]? = some c) (hd : c.pc = .done o) (h : step cfg s (.deliver r) = some s') :
    s'.calls[i]? = some c := by
  obtain ⟨x, j, cj, _, _, hcj, hw, rfl⟩ := deliver_spec h
  simp only [State.setRcv, State.setCall, List.getElem?_set]
  split
  · next hji =>
    subst hji
    rw [hc] at hcj; injection hcj with hcj; subst hcj
    rw [hd] at hw; contradiction
  · exact hc

/-- **C09_bound** (model clock).  A call that has returned did so no later than
    `budget = max start (max deadline (lockAt + DialTimeout + (WriteTimeout if it sat at a full send queue)))`
    where `lockAt` is the time it acquired the dial lock (= its start when nobody else was dialling).
    Hypothesis: if it sat at a full send queue then `WriteTimeout > 0` (otherwise there is no bound:
    `C09_unbounded_without_write_timeout`). -/
theorem C09_bound {cfg : Cfg} {ctr : Int} {ts : TState} (hr : TReachable cfg ctr ts)
    {i : Nat} {c : Call} {t : Times} {o : Outcome} (hc : ts.base.calls[i]? = some c) (ht : ts.times[i]? = some t)
    (hd : c.pc = .done o) (hw : t.blocked = true → 0 < cfg.writeTimeout) : t.ret ≤ budget cfg t := by
  have := (tinv_reachable hr).b i c t hc ht
  simp only [B, hd] at this
  exact this hw

/-- … and while a call is in flight the clock cannot run away from it: computation steps take no model
    time, the dial ends within `DialTimeout`, the wait at a full send queue within `WriteTimeout` (if
    that is positive), the wait for the reply at the deadline.  (Waiting for the dial lock is not
    bounded by this theorem: it lasts as long as the callers ahead keep dialling.) -/
theorem C09_in_flight {cfg : Cfg} {ctr : Int} {ts : TState} (hr : TReachable cfg ctr ts)
    {i : Nat} {c : Call} {t : Times} (hc : ts.base.calls[i]? = some c) (ht : ts.times[i]? = some t) :
    (c.pc = .dial → ts.now ≤ t.lockAt + cfg.dialTimeout) ∧
    (c.pc = .enq → 0 < cfg.writeTimeout → ts.now ≤ t.lockAt + cfg.dialTimeout + cfg.writeTimeout) ∧
    (c.pc = .wait → (t.blocked = true → 0 < cfg.writeTimeout) → ts.now ≤ budget cfg t) := by
  have hB := (tinv_reachable hr).b i c t hc ht
  refine ⟨?_, ?_, ?_⟩
  · intro h; simp only [B, h] at hB; exact hB
  · intro h hw
    simp only [B, h] at hB
    obtain ⟨h1, h2, h3⟩ := hB
    by_cases hb : t.blocked = true
    · have := h3 hb hw; omega
    · have := h2 (by simpa using hb); omega
  · intro h hw; simp only [B, h] at hB; exact hB hw

/-- **C09_establishment_bounded.**  What `C09_bound` assumes about connection establishment, for every
    transport kind: in the timed model a caller that holds the dial lock is in `dial` for at most
    `DialTimeout` (the clock may not advance past `lockAt + DialTimeout` while it dials: `tickOk`), i.e.
    `net.DialTimeout` for tcp/udp endpoints and `tls.DialWithDialer` with `Dialer.Timeout` for ssl
    endpoints return within `DialTimeout` — TLS handshake included.  The second part is re-extracted from
    `connection.ReConnect` (`Consts.callSslDialBounded`: the ssl dial goes through a dialer that carries the
    timeout, or sets a deadline before a hand-run handshake); the first is the model's own invariant. -/
theorem C09_establishment_bounded {cfg : Cfg} {ctr : Int} {ts : TState} (hr : TReachable cfg ctr ts)
    {i : Nat} {c : Call} {t : Times} (hc : ts.base.calls[i]? = some c) (ht : ts.times[i]? = some t)
    (hd : c.pc = .dial) :
    Consts.callSslDialBounded = 1 ∧ ts.now ≤ t.lockAt + cfg.dialTimeout :=
  ⟨by decide, (C09_in_flight hr hc ht).1 hd⟩

/-- No time-lock: in every reachable state either the clock can advance or some caller goroutine can
    take a step — the bounds above are not vacuous. -/
theorem C09_no_timelock {cfg : Cfg} {ctr : Int} {ts : TState} (hr : TReachable cfg ctr ts) :
    (∃ ts', tstep cfg ts .tick = some ts') ∨ ∃ i a ts', tstep cfg ts (.act (.call i a)) = some ts' := by
  by_cases h : canTick cfg ts = true
  · left; simp [tstep, h]
  · right; exact no_timelock hr (by simpa using h)

/-- **The property's bound, where it holds.**  If the call never sat at a full send queue and got the
    dial lock no later than its effective deadline (in particular: at once), it returned no later than
    effective deadline (not before its start) + `DialTimeout`. -/
theorem C09_bound_property_partial {cfg : Cfg} {ctr : Int} {ts : TState} (hr : TReachable cfg ctr ts)
    {i : Nat} {c : Call} {t : Times} {o : Outcome} (hc : ts.base.calls[i]? = some c) (ht : ts.times[i]? = some t)
    (hd : c.pc = .done o) (hnb : t.blocked = false) (hl : t.lockAt ≤ max t.start t.deadline) :
    t.ret ≤ propertyBound cfg t := by
  have := C09_bound hr hc ht hd (by simp [hnb])
  simp only [budget, hnb, propertyBound] at *
  simp at this
  omega

/-! ### counterexamples (D18 and the dial lock) -/

def par0 : Params := ⟨false, 0, none, none, 0⟩
def upToLock (i : Nat) : List TAction :=
  [CallAct.begin, .cas, .add, .pre, .selectAdp (some 0), .gate, .incQ, .store, .lockAcq].map
    (fun a => TAction.act (.call i a))
def finish (i : Nat) : List TAction := [CallAct.decQ, .del, .post].map (fun a => TAction.act (.call i a))

/-- D18: queue capacity 1, WriteTimeout 5, DialTimeout 2, call timeout 1 -/
def d18Cfg : Cfg := ⟨1, 100, 1, 5, 2, 1⟩

/-- call 0 fills the send queue and the peer never reads; call 1 (deadline 1) sits in
    `TarsClient.Send` until the write timer fires at 5 -/
def d18Acts : List TAction :=
  [.act (.spawn par0), .act (.spawn par0)] ++ upToLock 0 ++ [.act (.call 0 .dialOk), .act (.call 0 .enqueue)] ++
  upToLock 1 ++ [.tick, .act (.call 0 .timeout)] ++ finish 0 ++
  [.tick, .tick, .tick, .tick, .act (.call 1 .writeTimeout)] ++ finish 1

theorem C09_counterexample_D18 :
    (trun d18Cfg (tinit d18Cfg 0) d18Acts).map
        (fun ts => (ts.base.calls.map (·.pc), ts.times.map (fun t => (t.start, t.deadline, t.ret, propertyBound d18Cfg t)))) =
      some ([.done .timeout, .done .sendErr], [(0, 1, 1, 3), (0, 1, 5, 3)]) := by decide

/-- non-vacuity of `C09_bound` / `C09_bound_property_partial` on the same run: the second call sat at
    the full queue with `WriteTimeout = 5 > 0` and returned at 5 ≤ budget 7; the first call never sat at
    a full queue, got the lock at 0 ≤ max start deadline, and returned at 1 ≤ property bound 3 -/
example :
    (trun d18Cfg (tinit d18Cfg 0) d18Acts).map
        (fun ts => ts.times.map (fun t => (t.blocked, t.lockAt, t.ret, budget d18Cfg t, propertyBound d18Cfg t))) =
      some [(false, 0, 1, 2, 3), (true, 0, 5, 7, 3)] := by decide

/-- callers queue up behind the dial lock: DialTimeout 3, call timeout 1; the endpoint does not
    answer the dial; call 0 holds `connLock` for 3 units and fails, then call 1 dials for another 3 -/
def dialCfg : Cfg := ⟨1, 100, 4, 5, 3, 1⟩

def dialActs : List TAction :=
  [.act (.spawn par0), .act (.spawn par0)] ++ upToLock 0 ++ (upToLock 1).dropLast ++
  [.tick, .tick, .tick, .act (.call 0 .dialFail)] ++ finish 0 ++
  [.act (.call 1 .lockAcq), .tick, .tick, .tick, .act (.call 1 .dialFail)] ++ finish 1

theorem C09_counterexample_dial_lock :
    (trun dialCfg (tinit dialCfg 0) dialActs).map
        (fun ts => (ts.base.calls.map (·.pc), ts.times.map (fun t => (t.deadline, t.lockAt, t.ret, propertyBound dialCfg t)))) =
      some ([.done .sendErr, .done .sendErr], [(1, 0, 3, 4), (1, 3, 6, 4)]) := by decide

/-- **C09_bound_vs_property.** The property's bound (effective deadline + dial bound) does NOT hold
    for the code as modelled: the D18 trace is a reachable state in which a call with deadline 1 and
    dial bound 2 returned at time 5. -/
theorem C09_bound_vs_property : ¬ C09_full_bound := by
  intro h
  have hr : ∀ (as : List TAction) (ts0 ts : TState), TReachable d18Cfg 0 ts0 → trun d18Cfg ts0 as = some ts →
      TReachable d18Cfg 0 ts := by
    intro as
    induction as with
    | nil => intro ts0 ts h0 h1; simp only [trun] at h1; injection h1 with h1; subst h1; exact h0
    | cons a as ih =>
      intro ts0 ts h0 h1
      simp only [trun] at h1
      split at h1
      · next ts1 h2 => exact ih ts1 ts (TReachable.step a h0 h2) h1
      · contradiction
  cases hts : trun d18Cfg (tinit d18Cfg 0) d18Acts with
  | none => have := C09_counterexample_D18; rw [hts] at this; contradiction
  | some ts =>
    have hreach := hr d18Acts _ ts TReachable.init hts
    have hce := C09_counterexample_D18
    rw [hts] at hce
    simp only [Option.map_some, Option.some.injEq, Prod.mk.injEq] at hce
    obtain ⟨hpcs, htimes⟩ := hce
    -- the second call
    have hlen : ts.base.calls.length = 2 := by
      have := congrArg List.length hpcs; simpa using this
    have hlen' : ts.times.length = 2 := by
      have := congrArg List.length htimes; simpa using this
    have hc : ts.base.calls[1]? = some (ts.base.calls[1]'(by omega)) := by simp [hlen]
    have ht : ts.times[1]? = some (ts.times[1]'(by omega)) := by simp [hlen']
    have hpc : (ts.base.calls[1]'(by omega)).pc = .done .sendErr := by
      have := congrArg (fun l => l[1]?) hpcs
      simpa [hlen] using this
    have hb := h d18Cfg 0 ts 1 _ _ _ hreach hc ht hpc
    have htm := congrArg (fun l => l[1]?) htimes
    simp [hlen'] at htm
    omega

/-- queue capacity 1, WriteTimeout 0 (no timer in `TarsClient.Send`) -/
def zeroCfg : Cfg := ⟨1, 100, 1, 0, 2, 1⟩

/-- call 0 fills the send queue, times out and returns; call 1 reaches the select of
    `TarsClient.Send` with the queue full -/
def zeroPrefix : List TAction :=
  [.act (.spawn par0), .act (.spawn par0)] ++ upToLock 0 ++ [.act (.call 0 .dialOk), .act (.call 0 .enqueue)] ++
  upToLock 1 ++ [.tick, .act (.call 0 .timeout)] ++ finish 0

/-- the state reached by `zeroPrefix`, at time `k` -/
def stuck (k : Nat) : TState :=
  { base := { gen := ⟨2, [2, 1]⟩,
              calls := [⟨par0, .done .timeout, 1, 0, 0⟩, ⟨par0, .enq, 2, 1, 0⟩],
              table := [⟨0, 2, 1⟩], queueLens := [1], kaHeld := [], invokeNum := 1,
              conns := [⟨false, false, [1]⟩], rcvs := [], emitted := [] },
    now := k, times := [⟨0, 1, 0, 0, false, 1⟩, ⟨0, 1, 0, 0, true, 0⟩] }

/-- **Unbounded without a write timeout.**  With `WriteTimeout = 0` a call that finds the send queue
    full (and a peer that never reads) never returns: for every time T there is a run in which the
    clock has reached T and the call still sits in `TarsClient.Send`. -/
theorem C09_unbounded_without_write_timeout (T : Nat) :
    ∃ (as : List TAction) (ts : TState) (c : Call), trun zeroCfg (tinit zeroCfg 0) as = some ts ∧ T ≤ ts.now ∧
      ts.base.calls[1]? = some c ∧ c.pc = .enq := by
  have h0 : trun zeroCfg (tinit zeroCfg 0) zeroPrefix = some (stuck 1) := by decide
  have htick : ∀ k, tstep zeroCfg (stuck k) .tick = some (stuck (k + 1)) := by
    intro k
    simp [tstep, canTick, stuck, tickOk, queueFull, zeroCfg, stampTick]
  have hticks : ∀ n k, trun zeroCfg (stuck k) (List.replicate n .tick) = some (stuck (k + n)) := by
    intro n
    induction n with
    | zero => intro k; rfl
    | succ n ih =>
      intro k
      simp only [List.replicate_succ, trun, htick]
      rw [ih (k + 1)]
      congr 2
      omega
  have hrun : ∀ (a b : List TAction) (x y z : TState), trun zeroCfg x a = some y → trun zeroCfg y b = some z →
      trun zeroCfg x (a ++ b) = some z := by
    intro a
    induction a with
    | nil => intro b x y z h h'; simp only [trun] at h; injection h with h; subst h; exact h'
    | cons q qs ih =>
      intro b x y z h h'
      simp only [List.cons_append, trun] at *
      split at h
      · next w hw => first | exact ih b w y z h h' | (rw [hw]; exact ih b w y z h h')
      · contradiction
  exact ⟨zeroPrefix ++ List.replicate T .tick, stuck (1 + T), ⟨par0, .enq, 2, 1, 0⟩,
    hrun _ _ _ _ _ h0 (hticks T 1), by simp [stuck], rfl, rfl⟩

end Tars.C09
