import TarsModel.Proofs.TotalDec

/-!
  C05 helper lemmas, part 6: panic triggers, outcome classification and sufficient fuel for the
  generated decoders (`dec_cls`).
-/
namespace Tars
open Consts

/-! ### outcome classification -/

/-- outcome classification: a value, a plain Go error, or the model's ill-typed-target marker —
    in particular neither the artefact `.fuel` nor a Go run-time panic -/
def Cls {α : Type} (x : Res α) : Prop :=
  ∀ e, x.1 = .error e → e.isPlain = true ∨ e = illTyped

theorem Cls.of_plain {α : Type} {x : Res α} (h : PlainRes x.1) : Cls x := fun e he => .inl (h e he)

theorem Cls.of_ok {α : Type} {r' : Reader} {a : α} : Cls ((.ok a, r') : Res α) :=
  fun e he => by simp at he

theorem Cls.of_plainErr {α : Type} {r' : Reader} {e : Err} (h : e.isPlain = true) :
    Cls ((.error e, r') : Res α) := fun e' he => by
  simp only [Except.error.injEq] at he; subst he; exact .inl h

theorem Cls.err_cast {α β : Type} {r1 : Reader} {e : Err}
    (h : Cls ((.error e, r1) : Res α)) : Cls ((.error e, r1) : Res β) := by
  intro e' he
  simp only [Except.error.injEq] at he
  subst he
  exact h e rfl

theorem readLen_plain (r : Reader) : PlainRes (readLen r).1 := by
  cases h : readLen r with
  | mk res r' =>
    cases res with
    | error e => rcases readLen_err h with rfl | rfl | rfl <;> simp
    | ok v => simp

theorem readSlice8_plain (old : Bytes) (len : Int) (r : Reader) : PlainRes (readSlice8 old len r).1 := by
  unfold readSlice8; split
  · simp
  · cases hc : checkLength len r with
    | mk res0 r0 =>
      cases res0 with
      | error e => rw [(checkLength_err hc).2.1]; simp
      | ok u =>
        simp only
        cases h : readFull len.toNat r0 with
        | mk res r' =>
          cases res with
          | error e => rw [(readFull_err h).1]; simp
          | ok v => simp

theorem checkLength_plain (len : Int) (r : Reader) : PlainRes (checkLength len r).1 := by
  cases hc : checkLength len r with
  | mk res0 r0 =>
    cases res0 with
    | error e => rw [(checkLength_err hc).2.1]; simp
    | ok u => simp

theorem skipTo_plain (ty tag : Nat) (req : Bool) (r : Reader) : PlainRes (skipTo ty tag req r).1 := by
  cases h : skipTo ty tag req r with
  | mk res r' => exact (skipTo_pos h).2.2.2

/-- `arrOverflow` (unreachable from `decVar` since the length guard): plain error, "makeslice" or "index" -/
theorem arrOverflow_cls (e : Ty) (r : Reader) :
    ∀ e', (arrOverflow e r).1 = .error e' →
      e'.isPlain = true ∨ e' = .panic "makeslice" ∨ e' = .panic "index" := by
  unfold arrOverflow
  split
  · have hp := skipToNoCheck_nofuel 0 true r
    cases hb : skipToNoCheck 0 true r with
    | mk res r1 =>
      obtain ⟨p1, _, _⟩ := skipToNoCheck_pos hb
      rw [hb] at hp
      cases res with
      | error er => intro e' he; simp only [Except.error.injEq] at he; subst he; exact .inl (by simpa using hp)
      | ok p =>
        obtain ⟨hv, tyCur⟩ := p
        simp only
        split
        · have hp2 := readLen_plain r1
          cases hc : readLen r1 with
          | mk res2 r2 =>
            rw [hc] at hp2
            cases res2 with
            | error er => intro e' he; simp only [Except.error.injEq] at he; subst he; exact .inl (by simpa using hp2)
            | ok len =>
              simp only
              split
              · rename_i hneg
                intro e' he; simp only [Except.error.injEq] at he; subst he
                exact .inr (.inl rfl)
              · intro e' he; simp only [Except.error.injEq] at he; subst he
                exact .inr (.inr rfl)
        · split
          · split
            · have hp2 := skipTo_plain tyBYTE 0 true r1
              cases hc : skipTo tyBYTE 0 true r1 with
              | mk res2 r2 =>
                rw [hc] at hp2
                cases res2 with
                | error er => intro e' he; simp only [Except.error.injEq] at he; subst he; exact .inl (by simpa using hp2)
                | ok b =>
                  simp only
                  have hp3 := readLen_plain r2
                  cases hd : readLen r2 with
                  | mk res3 r3 =>
                    rw [hd] at hp3
                    cases res3 with
                    | error er => intro e' he; simp only [Except.error.injEq] at he; subst he; exact .inl (by simpa using hp3)
                    | ok len => intro e' he; simp only [Except.error.injEq] at he; subst he; exact .inr (.inr rfl)
            · intro e' he; simp only [Except.error.injEq] at he; subst he; exact .inl rfl
          · intro e' he; simp only [Except.error.injEq] at he; subst he; exact .inl rfl
  · intro e' he; simp only [Except.error.injEq] at he; subst he; exact .inr (.inr rfl)
  · have hp2 := skipTo_plain tyMAP 0 true r
    cases hc : skipTo tyMAP 0 true r with
    | mk res2 r2 =>
      rw [hc] at hp2
      cases res2 with
      | error er => intro e' he; simp only [Except.error.injEq] at he; subst he; exact .inl (by simpa using hp2)
      | ok b =>
        simp only
        have hp3 := readLen_plain r2
        cases hd : readLen r2 with
        | mk res3 r3 =>
          rw [hd] at hp3
          cases res3 with
          | error er => intro e' he; simp only [Except.error.injEq] at he; subst he; exact .inl (by simpa using hp3)
          | ok len => intro e' he; simp only [Except.error.injEq] at he; subst he; exact .inr (.inr rfl)
  · intro e' he; simp only [Except.error.injEq] at he; subst he; exact .inr (.inr rfl)

theorem Env.find_mem {env : Env} {name : String} {fs : List Field} (h : env.find name = some fs) :
    (name, fs) ∈ env := by
  induction env with
  | nil => simp [Env.find] at h
  | cons p rest ih =>
    obtain ⟨m, gs⟩ := p
    simp only [Env.find] at h
    split at h
    · rename_i hm
      simp only [Option.some.injEq] at h
      subst hm; subst h; exact List.mem_cons_self
    · exact List.mem_cons_of_mem _ (ih h)

theorem Env.width_ge {env : Env} {name : String} {fs : List Field} (h : (name, fs) ∈ env) :
    fs.length ≤ env.width := by
  induction env with
  | nil => cases h
  | cons p rest ih =>
    simp only [Env.width, List.foldr_cons]
    rcases List.mem_cons.mp h with rfl | h'
    · exact Nat.le_max_left _ _
    · exact Nat.le_trans (ih h') (Nat.le_max_right _ _)

theorem Env.find_width {env : Env} {name : String} {fs : List Field} (h : env.find name = some fs) :
    fs.length ≤ env.width := Env.width_ge (Env.find_mem h)


theorem mul_step (a ρ1 ρ : Nat) (h : ρ1 + 1 ≤ ρ) : a * ρ1 + a ≤ a * ρ := by
  have := Nat.mul_le_mul_left a h
  rw [Nat.mul_add, Nat.mul_one] at this
  exact this

/-- **Sufficient fuel and exact outcome classification for the generated decoders.**
    With `W = env.width` (largest member count), `(W+3)·remaining + 1` units of fuel suffice for
    `decVar` (`+2` for the loops, `+ #members + 2` for a member sequence): the result is then a
    value, a plain Go error, or the model's ill-typed-target marker — in particular never `.fuel`
    and never a Go run-time panic (lengths and element counts are validated before use; the array
    loop is only entered with `len ≤ n`). -/
theorem dec_cls (env : Env) : ∀ f : Nat,
    (∀ tag req ty old (r : Reader), (env.width + 3) * r.remaining + 1 ≤ f →
      Cls (decVar env f tag req ty old r)) ∧
    (∀ e n acc (r : Reader), (env.width + 3) * r.remaining + 2 ≤ f →
      Cls (decElems env f e n acc r)) ∧
    (∀ e (n : Nat) i len cur (r : Reader), (env.width + 3) * r.remaining + 2 ≤ f → len ≤ (n : Int) →
      Cls (decArr env f e n i len cur r)) ∧
    (∀ k v len acc (r : Reader), (env.width + 3) * r.remaining + 2 ≤ f →
      Cls (decPairs env f k v len acc r)) ∧
    (∀ fs olds (r : Reader), (env.width + 3) * r.remaining + fs.length + 2 ≤ f →
      Cls (decMembers env f fs olds r)) := by
  intro f
  induction f with
  | zero => refine ⟨?_, ?_, ?_, ?_, ?_⟩ <;> intros <;> omega
  | succ f ih =>
    obtain ⟨ihV, ihE, ihA, ihP, ihM⟩ := ih
    refine ⟨?_, ?_, ?_, ?_, ?_⟩
    · intro tag req ty old r hf
      cases ty with
      | vec e =>
        rw [Total.decVar_vec]
        have hp := skipToNoCheck_nofuel tag req r
        cases hb : skipToNoCheck tag req r with
        | mk res r1 =>
          obtain ⟨p1, p2, p3⟩ := skipToNoCheck_pos hb
          rw [hb] at hp
          cases res with
          | error er => exact Cls.of_plain (by simpa using hp)
          | ok p =>
            obtain ⟨hv, tyCur⟩ := p
            simp only
            split
            · exact Cls.of_ok
            · rename_i hc
              have hvt := have_true_of hc (by intro h; subst h; exact p3 tyCur rfl)
              subst hvt
              have hlt := (p2 tyCur rfl).remaining
              split
              · have hp2 := readLen_plain r1
                cases hd : readLen r1 with
                | mk res2 r2 =>
                  rw [hd] at hp2
                  cases res2 with
                  | error er => exact Cls.of_plain (by simpa using hp2)
                  | ok len =>
                    have hl2 := readLen_ok hd
                    have hlt2 := hl2.remaining
                    simp only
                    have hp3 := checkLength_plain len r2
                    cases hc3 : checkLength len r2 with
                    | mk res3 r3 =>
                      rw [hc3] at hp3
                      cases res3 with
                      | error er => exact Cls.of_plain (by simpa using hp3)
                      | ok u =>
                        obtain ⟨rfl, _, _⟩ := checkLength_ok_inv hc3
                        have s1 := mul_step (env.width + 3) _ _ hlt
                        have s2 := mul_step (env.width + 3) _ _ hlt2
                        exact ihE e _ _ r3 (by omega)
              · split
                · split
                  · have hp2 := skipTo_plain tyBYTE 0 true r1
                    cases hd : skipTo tyBYTE 0 true r1 with
                    | mk res2 r2 =>
                      rw [hd] at hp2
                      cases res2 with
                      | error er => exact Cls.of_plain (by simpa using hp2)
                      | ok b =>
                        simp only
                        have hp3 := readLen_plain r2
                        cases he : readLen r2 with
                        | mk res3 r3 =>
                          rw [he] at hp3
                          cases res3 with
                          | error er => exact Cls.of_plain (by simpa using hp3)
                          | ok len =>
                            simp only
                            cases hg : readSlice8 (Total.oldBytes old) len r3 with
                            | mk res4 r4 =>
                              have hp4 : PlainRes (res4, r4).1 := by
                                rw [← hg]; exact readSlice8_plain _ _ _
                              cases res4 with
                              | error er => exact Cls.of_plain (by simpa using hp4)
                              | ok bs => exact Cls.of_ok
                  · exact Cls.of_plainErr rfl
                · exact Cls.of_plainErr rfl
      | arr n e =>
        rw [Total.decVar_arr]
        have hp := skipToNoCheck_nofuel tag req r
        cases hb : skipToNoCheck tag req r with
        | mk res r1 =>
          obtain ⟨p1, p2, p3⟩ := skipToNoCheck_pos hb
          rw [hb] at hp
          cases res with
          | error er => exact Cls.of_plain (by simpa using hp)
          | ok p =>
            obtain ⟨hv, tyCur⟩ := p
            simp only
            split
            · exact Cls.of_ok
            · rename_i hc
              have hvt := have_true_of hc (by intro h; subst h; exact p3 tyCur rfl)
              subst hvt
              have hlt := (p2 tyCur rfl).remaining
              split
              · have hp2 := readLen_plain r1
                cases hd : readLen r1 with
                | mk res2 r2 =>
                  rw [hd] at hp2
                  cases res2 with
                  | error er => exact Cls.of_plain (by simpa using hp2)
                  | ok len =>
                    have hl2 := readLen_ok hd
                    have hlt2 := hl2.remaining
                    simp only
                    have s1 := mul_step (env.width + 3) _ _ hlt
                    have s2 := mul_step (env.width + 3) _ _ hlt2
                    split
                    · exact Cls.of_plainErr rfl
                    · rename_i hgt
                      exact ihA e n 0 len (Total.oldList old) r2 (by omega) (by omega)
              · exact Cls.of_plainErr rfl
      | map k v =>
        rw [Total.decVar_map]
        have hp := skipTo_plain tyMAP tag req r
        cases hb : skipTo tyMAP tag req r with
        | mk res r1 =>
          obtain ⟨p1, p2, p3, _⟩ := skipTo_pos hb
          rw [hb] at hp
          cases res with
          | error er => exact Cls.of_plain (by simpa using hp)
          | ok hv =>
            simp only
            split
            · exact Cls.of_ok
            · rename_i hc
              have hvt := have_true_of hc (by intro h; subst h; exact p3 rfl)
              subst hvt
              have hlt := (p2 rfl).remaining
              have hp2 := readLen_plain r1
              cases hd : readLen r1 with
              | mk res2 r2 =>
                rw [hd] at hp2
                cases res2 with
                | error er => exact Cls.of_plain (by simpa using hp2)
                | ok len =>
                  have hl2 := readLen_ok hd
                  have hlt2 := hl2.remaining
                  simp only
                  have s1 := mul_step (env.width + 3) _ _ hlt
                  have s2 := mul_step (env.width + 3) _ _ hlt2
                  have hp3 := checkLength_plain len r2
                  cases hc3 : checkLength len r2 with
                  | mk res3 r3 =>
                    rw [hc3] at hp3
                    cases res3 with
                    | error er => exact Cls.of_plain (by simpa using hp3)
                    | ok u =>
                      obtain ⟨rfl, _, _⟩ := checkLength_ok_inv hc3
                      exact ihP k v len [] r3 (by omega)
      | struct name =>
        rw [Total.decVar_struct]
        split
        · rename_i _ _ fs ovs hfs
          unfold Total.structBody
          have hp := skipTo_plain tyStructBegin tag req r
          cases hb : skipTo tyStructBegin tag req r with
          | mk res r1 =>
            obtain ⟨p1, p2, p3, _⟩ := skipTo_pos hb
            rw [hb] at hp
            cases res with
            | error er => exact Cls.of_plain (by simpa using hp)
            | ok hv =>
              simp only
              cases hv with
              | false =>
                simp only [Bool.not_false, if_true]
                split
                · exact Cls.of_plainErr rfl
                · exact Cls.of_ok
              | true =>
                have hlt := (p2 rfl).remaining
                simp only [Bool.not_true]
                rw [if_neg (by simp)]
                have s1 := mul_step (env.width + 3) _ _ hlt
                have hw := Env.find_width hfs
                have hM := ihM fs (resetDefault env f fs (resetDefault env f fs ovs)) r1 (by omega)
                cases hd : decMembers env f fs (resetDefault env f fs (resetDefault env f fs ovs)) r1 with
                | mk res2 r2 =>
                  rw [hd] at hM
                  cases res2 with
                  | error er =>
                    simp only
                    exact hM.err_cast
                  | ok vs =>
                    simp only
                    have hp3 := skipToStructEnd_fuel_plain r2
                    cases he : skipToStructEnd r2.fuel r2 with
                    | mk res3 r3 =>
                      rw [he] at hp3
                      cases res3 with
                      | error er => exact Cls.of_plain (by simpa using hp3)
                      | ok u => exact Cls.of_ok
        · intro e' he; simp only [Except.error.injEq] at he; subst he
          exact .inr rfl
      | bool | i8 | u8 | i16 | u16 | i32 | u32 | i64 | f32 | f64 | str | enum =>
        rw [Total.decVar_atom _ _ _ _ _ _ _ rfl]
        intro e' he
        rcases (readScalar_spec _ old tag req r).2.2 e' he with h | h
        · exact .inl h
        · exact .inr h
    · intro e n acc r hf
      rw [Total.decElems_succ]
      cases n with
      | zero => exact Cls.of_ok
      | succ n' =>
        simp only
        have hV := ihV 0 true e (zeroOf env e) r (by omega)
        have hS := (dec_pos env f).1 0 true e (zeroOf env e) r
        cases hb : decVar env f 0 true e (zeroOf env e) r with
        | mk res r1 =>
          rw [hb] at hV hS
          cases res with
          | error er => exact hV
          | ok v =>
            simp only
            have hlt := hS.2 rfl v rfl
            have s1 := mul_step (env.width + 3) _ _ hlt
            exact ihE e n' (v :: acc) r1 (by simp only at s1; omega)
    · intro e n i len cur r hf hlen'
      rw [Total.decArr_succ]
      split
      · intro e' he; simp at he
      · rename_i hlen
        split
        · rename_i hin
          -- unreachable: `i < len ≤ n`
          omega
        · have hV := ihV 0 true e (cur.getD i (zeroOf env e)) r (by omega)
          have hS := (dec_pos env f).1 0 true e (cur.getD i (zeroOf env e)) r
          cases hb : decVar env f 0 true e (cur.getD i (zeroOf env e)) r with
          | mk res r1 =>
            rw [hb] at hV hS
            cases res with
            | error er => exact hV
            | ok v =>
              simp only
              have hlt := hS.2 rfl v rfl
              have s1 := mul_step (env.width + 3) _ _ hlt
              exact ihA e n (i+1) len (listSet cur i v) r1 (by simp only at s1; omega) hlen'
    · intro k v len acc r hf
      rw [Total.decPairs_succ]
      split
      · exact Cls.of_ok
      · have hV := ihV 0 true k (zeroOf env k) r (by omega)
        have hS := (dec_pos env f).1 0 true k (zeroOf env k) r
        cases hb : decVar env f 0 true k (zeroOf env k) r with
        | mk res r1 =>
          rw [hb] at hV hS
          cases res with
          | error er => exact hV
          | ok a =>
            simp only
            have hlt := hS.2 rfl a rfl
            have s1 := mul_step (env.width + 3) _ _ hlt
            have hV2 := ihV 1 true v (zeroOf env v) r1 (by simp only at s1; omega)
            have hS2 := (dec_pos env f).1 1 true v (zeroOf env v) r1
            cases hc : decVar env f 1 true v (zeroOf env v) r1 with
            | mk res2 r2 =>
              rw [hc] at hV2 hS2
              cases res2 with
              | error er => exact hV2
              | ok b =>
                simp only
                have hlt2 := hS2.2 rfl b rfl
                have s2 := mul_step (env.width + 3) _ _ hlt2
                exact ihP k v (len - 1) _ r2 (by simp only at s1 s2; omega)
    · intro fs olds r hf
      rw [Total.decMembers_succ]
      split
      · rename_i fld fs' o os
        simp only [List.length_cons] at hf
        have hV := ihV fld.tag fld.req fld.ty o r (by omega)
        have hS := (dec_pos env f).1 fld.tag fld.req fld.ty o r
        cases hb : decVar env f fld.tag fld.req fld.ty o r with
        | mk res r1 =>
          rw [hb] at hV hS
          cases res with
          | error er =>
            simp only
            exact hV.err_cast
          | ok v =>
            simp only
            have hle := hS.1.remaining
            have s1 := Nat.mul_le_mul_left (env.width + 3) hle
            have hM := ihM fs' os r1 (by simp only at s1; omega)
            cases hc : decMembers env f fs' os r1 with
            | mk res2 r2 =>
              rw [hc] at hM
              cases res2 with
              | error er =>
                exact hM
              | ok vs => exact Cls.of_ok
      · exact Cls.of_ok


theorem decStruct_eq (env : Env) (name : String) (old : Val) (r : Reader) :
    decStruct env name old r =
      match env.find name, old with
      | some fs, .struct ovs =>
        match decMembers env (decFuel env r) fs (resetDefault env (decFuel env r) fs ovs) r with
        | (.error er, r') => (.error er, r')
        | (.ok vs, r1) => (.ok (.struct vs), r1)
      | _, _ => (.error illTyped, r) := rfl

/-- `decFuel` is sufficient for the member sequence of any struct of `env` -/
theorem decFuel_ge (env : Env) (r : Reader) {name : String} {fs : List Field}
    (h : env.find name = some fs) :
    (env.width + 3) * r.remaining + fs.length + 2 ≤ decFuel env r := by
  have hw := Env.find_width h
  have hr : r.remaining ≤ r.data.size := by unfold Reader.remaining; omega
  have := Nat.mul_le_mul_left (env.width + 3) hr
  unfold decFuel
  rw [Nat.mul_add]
  omega

/-- outcome classification of `ReadFrom` for every struct, every target, every input -/
theorem decStruct_cls (env : Env) (name : String) (old : Val) (r : Reader) :
    Cls (decStruct env name old r) := by
  rw [decStruct_eq]
  split
  · rename_i _ _ fs ovs hfs
    have hM := (dec_cls env (decFuel env r)).2.2.2.2 fs (resetDefault env (decFuel env r) fs ovs) r
      (decFuel_ge env r hfs)
    cases hd : decMembers env (decFuel env r) fs (resetDefault env (decFuel env r) fs ovs) r with
    | mk res2 r2 =>
      rw [hd] at hM
      cases res2 with
      | error er =>
        simp only
        exact hM.err_cast
      | ok vs => exact Cls.of_ok
  · intro e' he; simp only [Except.error.injEq] at he; subst he
    exact .inr rfl

end Tars
