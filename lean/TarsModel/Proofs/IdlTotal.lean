/-
  Progress lemmas of the tars2go parser model: every parser function that succeeds has consumed
  input (strictly, where the Go code relies on it), and no progress check fails in the repaired
  variant, i.e. the outcome `Res.hang` is impossible.
-/
import TarsModel.Model.Idl

namespace Tars.Idl

theorem PS.size_mk (tk : Tok) (ts : List Tok) :
    (PS.mk tk ts).size = 2 * ts.length + (if tk = .eof then 0 else 1) := rfl
theorem next_nil (tk : Tok) : (PS.mk tk []).next = .ok ⟨.eof, []⟩ := rfl
theorem next_cons (tk t : Tok) (r : List Tok) :
    (PS.mk tk (t :: r)).next = if t = .bad then .diag "lex" else .ok ⟨t, r⟩ := rfl

/-- `next` strictly decreases the measure, except in the state `⟨Eof, []⟩` which it reproduces -/
theorem next_cases (s s' : PS) (h : s.next = .ok s') :
    s'.size < s.size ∨ (s.tk = .eof ∧ s.ts = [] ∧ s' = s) := by
  obtain ⟨tk, ts⟩ := s
  cases ts with
  | nil =>
    rw [next_nil] at h
    cases h
    by_cases hk : tk = .eof
    · right; subst hk; exact ⟨rfl, rfl, rfl⟩
    · left; simp [PS.size, hk]
  | cons t r =>
    rw [next_cons] at h
    split at h
    · cases h
    · cases h
      left
      simp only [PS.size_mk, List.length_cons]
      split <;> split <;> omega

/-- `r` is not `hang`, and if it is `ok a` then `P a` -/
def Res.Sat {α : Type} (P : α → Prop) (r : Res α) : Prop := r ≠ .hang ∧ ∀ a, r = .ok a → P a

theorem Sat.bind {α β : Type} {P : α → Prop} {Q : β → Prop} {x : Res α} {f : α → Res β}
    (hx : x.Sat P) (hf : ∀ a, P a → (f a).Sat Q) : (x >>= f).Sat Q := by
  cases x with
  | ok a => exact hf a (hx.2 a rfl)
  | diag d => exact ⟨by simp, by intro a h; cases h⟩
  | hang => exact absurd rfl hx.1
  | unsupported w => exact ⟨by simp, by intro a h; cases h⟩

theorem Sat.bind' {α β : Type} {P : α → Prop} {Q : β → Prop} {x : Res α} {f : α → Res β}
    (hx : x.Sat P) (hf : ∀ a, P a → (f a).Sat Q) : (x.bind f).Sat Q := Sat.bind hx hf

theorem Sat.ok {α : Type} {Q : α → Prop} {a : α} (h : Q a) : (Res.ok a).Sat Q :=
  ⟨by simp, by intro b hb; cases hb; exact h⟩
theorem Sat.pure {α : Type} {Q : α → Prop} {a : α} (h : Q a) : (Pure.pure a : Res α).Sat Q := Sat.ok h
theorem Sat.diag {α : Type} {Q : α → Prop} {d : String} : (Res.diag d : Res α).Sat Q :=
  ⟨by simp, by intro b hb; cases hb⟩
theorem Sat.unsupported {α : Type} {Q : α → Prop} {d : String} : (Res.unsupported d : Res α).Sat Q :=
  ⟨by simp, by intro b hb; cases hb⟩
theorem Sat.mono {α : Type} {P Q : α → Prop} {x : Res α} (hx : x.Sat P) (h : ∀ a, P a → Q a) : x.Sat Q :=
  ⟨hx.1, fun a ha => h a (hx.2 a ha)⟩

/-- what `next` guarantees -/
def NextSpec (s s' : PS) : Prop :=
  s'.size ≤ s.size ∧ (s'.tk ≠ .eof → s'.size < s.size) ∧ (s.tk ≠ .eof → s'.size < s.size)

theorem next_sat (s : PS) : s.next.Sat (NextSpec s) := by
  refine ⟨?_, ?_⟩
  · obtain ⟨tk, ts⟩ := s
    cases ts with
    | nil => rw [next_nil]; simp
    | cons t r => rw [next_cons]; split <;> simp
  · intro s' h
    rcases next_cases s s' h with h1 | ⟨h2, _, rfl⟩
    · exact ⟨Nat.le_of_lt h1, fun _ => h1, fun _ => h1⟩
    · exact ⟨Nat.le_refl _, fun hk => absurd h2 hk, fun hk => absurd h2 hk⟩

theorem expect_sat (t : Tok) (s : PS) (ht : t ≠ .eof) :
    (expect t s).Sat (fun s' => s'.size < s.size ∧ s'.tk = t) := by
  unfold expect
  apply Sat.bind (next_sat s)
  intro s' h
  split
  · rename_i heq
    exact Sat.pure ⟨h.2.1 (by rw [heq]; exact ht), heq⟩
  · exact Sat.diag

theorem expectName_sat (s : PS) :
    (expectName s).Sat (fun r => r.2.size < s.size ∧ r.2.tk ≠ .eof) := by
  unfold expectName
  apply Sat.bind (next_sat s)
  intro s' h
  split
  · rename_i n heq
    exact Sat.pure ⟨h.2.1 (by rw [heq]; simp), by rw [heq]; simp⟩
  · exact Sat.diag

theorem expectInt_sat (s : PS) :
    (expectInt s).Sat (fun r => r.2.size < s.size ∧ r.2.tk ≠ .eof) := by
  unfold expectInt
  apply Sat.bind (next_sat s)
  intro s' h
  split
  · rename_i n v heq
    exact Sat.pure ⟨h.2.1 (by rw [heq]; simp), by rw [heq]; simp⟩
  · exact Sat.diag

theorem expectStr_sat (s : PS) :
    (expectStr s).Sat (fun r => r.2.size < s.size ∧ r.2.tk ≠ .eof) := by
  unfold expectStr
  apply Sat.bind (next_sat s)
  intro s' h
  split
  · rename_i n heq
    exact Sat.pure ⟨h.2.1 (by rw [heq]; simp), by rw [heq]; simp⟩
  · exact Sat.diag

theorem makeUnsigned_sat (t : VarType) : (makeUnsigned t).Sat (fun _ => True) := by
  unfold makeUnsigned
  split <;> first | exact Sat.ok trivial | exact Sat.diag

/-- `parseType` never fails a progress check and never gives tokens back -/
theorem parseType_sat (s : PS) : (parseType s).Sat (fun r => r.2.size ≤ s.size) := by
  fun_induction parseType s
  case case1 s n hk => exact Sat.ok (Nat.le_refl _)
  case case2 s p hk => exact Sat.ok (Nat.le_refl _)
  case case3 s hk ih =>
    apply Sat.bind (expect_sat .shl s (by decide))
    intro s1 h1
    apply Sat.bind (next_sat s1)
    intro s2 h2
    have hlt : s2.size < s.size := Nat.lt_of_le_of_lt h2.1 h1.1
    rw [dif_pos hlt]
    apply Sat.bind (ih s2 hlt)
    intro ⟨k, s3⟩ h3
    apply Sat.bind (expect_sat .shr s3 (by decide))
    intro s4 h4
    refine Sat.pure ?_
    have := h4.1; simp only at *; omega
  case case4 s hk ih =>
    apply Sat.bind (expect_sat .shl s (by decide))
    intro s1 h1
    apply Sat.bind (next_sat s1)
    intro s2 h2
    have hlt : s2.size < s.size := Nat.lt_of_le_of_lt h2.1 h1.1
    rw [dif_pos hlt]
    apply Sat.bind (ih s2 hlt)
    intro ⟨k, s3⟩ h3
    apply Sat.bind (expect_sat .comma s3 (by decide))
    intro s4 h4
    apply Sat.bind (next_sat s4)
    intro s5 h5
    have hlt2 : s5.size < s.size := by
      have := h4.1; have := h5.1; simp only at *; omega
    rw [dif_pos hlt2]
    apply Sat.bind (ih s5 hlt2)
    intro ⟨v, s6⟩ h6
    apply Sat.bind (expect_sat .shr s6 (by decide))
    intro s7 h7
    refine Sat.pure ?_
    have := h7.1; simp only at *; omega
  case case5 s hk ih =>
    apply Sat.bind (next_sat s)
    intro s1 h1
    have hlt : s1.size < s.size := h1.2.2 (by rw [hk]; decide)
    rw [dif_pos hlt]
    apply Sat.bind (ih s1 hlt)
    intro ⟨u, s2⟩ h2
    apply Sat.bind (makeUnsigned_sat u)
    intro u' _
    refine Sat.pure ?_
    simp only at *; omega
  case case6 => exact Sat.diag

/-- the enum loop: with the D5 repair no progress check fails; a successful run ends on a `}`
that was consumed -/
theorem enumLoop_sat (v : Variant) (hv : v.enumEof = true) (acc : List EnumMember) (s : PS) :
    (enumLoop v acc s).Sat (fun r => r.2.size < s.size) := by
  fun_induction enumLoop v acc s
  rename_i acc s ih3 ih2 ih1
  apply Sat.bind (next_sat s)
  intro s1 h1
  split
  · -- `}`
    rename_i hk
    exact Sat.pure (h1.2.1 (by rw [hk]; decide))
  · -- name
    rename_i k hk
    have hs1 : s1.size < s.size := h1.2.1 (by rw [hk]; simp)
    apply Sat.bind (next_sat s1)
    intro s2 h2
    have hs2 : s2.size < s.size := Nat.lt_of_le_of_lt h2.1 hs1
    split
    · rw [dif_pos hs2]
      exact Sat.mono (ih3 k s2 hs2) (fun r hr => Nat.lt_trans hr hs2)
    · exact Sat.pure hs2
    · apply Sat.bind (next_sat s2)
      intro s3 h3
      apply Sat.bind (P := fun _ => True)
      · split <;> first | exact Sat.ok trivial | exact Sat.diag
      intro m _
      apply Sat.bind (next_sat s3)
      intro s4 h4
      have hs4 : s4.size < s.size := by have := h3.1; have := h4.1; omega
      split
      · exact Sat.pure hs4
      · rw [dif_pos hs4]
        exact Sat.mono (ih2 m s4 hs4) (fun r hr => Nat.lt_trans hr hs4)
      · exact Sat.diag
    · rw [dif_pos hs2]
      exact Sat.mono (ih1 s2 hs2) (fun r hr => Nat.lt_trans hr hs2)
  · -- `Eof`: with the repair a diagnostic
    rw [if_pos hv]
    exact Sat.diag
  · -- any other token is skipped; it is not `Eof`, so it was consumed
    rename_i hnb hnn hne
    have hs1 : s1.size < s.size := h1.2.1 (by intro h; exact hne h)
    rw [dif_pos hs1]
    exact Sat.mono (ih1 s1 hs1) (fun r hr => Nat.lt_trans hr hs1)

theorem parseEnum_sat (v : Variant) (hv : v.enumEof = true) (m : Module) (s : PS) :
    (parseEnum v m s).Sat (fun r => r.2.size < s.size) := by
  unfold parseEnum
  apply Sat.bind (expectName_sat s)
  intro ⟨name, s1⟩ h1
  simp only
  split
  · exact Sat.diag
  · apply Sat.bind (expect_sat .braceL s1 (by decide))
    intro s2 h2
    apply Sat.bind (enumLoop_sat v hv [] s2)
    intro ⟨mb, s3⟩ h3
    apply Sat.bind (expect_sat .semi s3 (by decide))
    intro s4 h4
    refine Sat.pure ?_
    have := h1.1; have := h2.1; have := h4.1; simp only at *; omega

theorem parseDefault_sat (ty : VarType) (tk : Tok) : (parseDefault ty tk).Sat (fun _ => True) := by
  unfold parseDefault
  simp only
  repeat' split
  all_goals first | exact Sat.ok trivial | exact Sat.diag

theorem parseStructMember_sat (s : PS) :
    (parseStructMember s).Sat (fun r => r.2.size < s.size) := by
  unfold parseStructMember
  apply Sat.bind (next_sat s)
  intro s1 h1
  split
  · rename_i hk
    exact Sat.pure (h1.2.1 (by rw [hk]; decide))
  · rename_i txt tagv hk
    have hs1 : s1.size < s.size := h1.2.1 (by rw [hk]; simp)
    apply Sat.bind (next_sat s1)
    intro s2 h2
    apply Sat.bind (P := fun _ => True)
    · split <;> first | exact Sat.ok trivial | exact Sat.diag
    intro req _
    apply Sat.bind (next_sat s2)
    intro s3 h3
    split
    · exact Sat.diag
    · apply Sat.bind (parseType_sat s3)
      intro ⟨ty, s4⟩ h4
      apply Sat.bind (expectName_sat s4)
      intro ⟨key, s5⟩ h5
      apply Sat.bind (next_sat s5)
      intro s6 h6
      have hs6 : s6.size < s.size := by
        have := h2.1; have := h3.1; have := h5.1; have := h6.1; simp only at *; omega
      split
      · exact Sat.pure hs6
      · apply Sat.bind (expectInt_sat s6)
        intro ⟨len, s7⟩ h7
        apply Sat.bind (expect_sat .sqR s7 (by decide))
        intro s8 h8
        apply Sat.bind (expect_sat .semi s8 (by decide))
        intro s9 h9
        refine Sat.pure ?_
        have := h7.1; have := h8.1; have := h9.1; simp only at *; omega
      · apply Sat.bind (next_sat s6)
        intro s7 h7
        apply Sat.bind (parseDefault_sat ty s7.tk)
        intro ⟨d, dk⟩ _
        apply Sat.bind (expect_sat .semi s7 (by decide))
        intro s8 h8
        refine Sat.pure ?_
        have := h7.1; have := h8.1; simp only at *; omega
      · exact Sat.diag
  · exact Sat.diag

theorem structLoop_sat (acc : List StructMember) (s : PS) :
    (structLoop acc s).Sat (fun r => r.2.size < s.size) := by
  fun_induction structLoop acc s
  rename_i acc s ih
  apply Sat.bind (parseStructMember_sat s)
  intro ⟨m, s1⟩ h1
  simp only at h1
  cases m with
  | none => exact Sat.pure h1
  | some mb =>
    simp only
    rw [dif_pos h1]
    exact Sat.mono (ih s1 mb h1) (fun r hr => Nat.lt_trans hr h1)

theorem parseStruct_sat (m : Module) (s : PS) :
    (parseStruct m s).Sat (fun r => r.2.size < s.size) := by
  unfold parseStruct
  apply Sat.bind (expectName_sat s)
  intro ⟨name, s1⟩ h1
  simp only
  split
  · exact Sat.diag
  · apply Sat.bind (expect_sat .braceL s1 (by decide))
    intro s2 h2
    apply Sat.bind (structLoop_sat [] s2)
    intro ⟨mb, s3⟩ h3
    apply Sat.bind (expect_sat .semi s3 (by decide))
    intro s4 h4
    split
    · exact Sat.diag
    · refine Sat.pure ?_
      have := h1.1; have := h2.1; have := h4.1; simp only at *; omega

theorem argLoop_sat (acc : List Arg) (s : PS) :
    (argLoop acc s).Sat (fun r => r.2.size ≤ s.size) := by
  fun_induction argLoop acc s
  rename_i acc s ih
  apply Sat.bind (P := fun r => r.2.size ≤ s.size)
  · split
    · apply Sat.bind (next_sat s)
      intro s' h
      exact Sat.pure h.1
    · exact Sat.pure (Nat.le_refl _)
  intro ⟨isOut, s1⟩ h1
  apply Sat.bind (parseType_sat s1)
  intro ⟨ty, s2⟩ h2
  apply Sat.bind (next_sat s2)
  intro s3 h3
  apply Sat.bind (P := fun r => r.2.size ≤ s3.size ∧ (r.2.tk ≠ .eof → r.2.size < s2.size))
  · split
    · apply Sat.bind (next_sat s3)
      intro s' h
      exact Sat.pure ⟨h.1, fun hk => Nat.lt_of_lt_of_le (h.2.1 hk) h3.1⟩
    · exact Sat.pure ⟨Nat.le_refl _, fun hk => h3.2.1 hk⟩
  intro ⟨nm, s4⟩ h4
  simp only at h1 h2 h4 ⊢
  split
  · rename_i hk
    apply Sat.bind (next_sat s4)
    intro s5 h5
    have hlt : s5.size < s.size := by
      have := h4.2 (by rw [hk]; decide); have := h5.1; omega
    rw [dif_pos hlt]
    exact Sat.mono (ih isOut ty nm s5 hlt) (fun r hr => Nat.le_trans hr (Nat.le_of_lt hlt))
  · apply Sat.bind (expect_sat .semi s4 (by decide))
    intro s5 h5
    refine Sat.pure ?_
    have := h4.1; have := h3.1; have := h5.1; simp only at *; omega
  · exact Sat.diag

theorem parseInterfaceFun_sat (s : PS) :
    (parseInterfaceFun s).Sat (fun r => r.2.size < s.size) := by
  unfold parseInterfaceFun
  apply Sat.bind (next_sat s)
  intro s1 h1
  split
  · rename_i hk
    exact Sat.pure (h1.2.1 (by rw [hk]; decide))
  · apply Sat.bind (P := fun r => r.2.2.size ≤ s1.size)
    · split
      · exact Sat.pure (Nat.le_refl _)
      · split
        · exact Sat.diag
        · apply Sat.bind (parseType_sat s1)
          intro ⟨ty, s'⟩ h
          exact Sat.pure h
    intro ⟨hasRet, ret, s2⟩ h2
    apply Sat.bind (expectName_sat s2)
    intro ⟨name, s3⟩ h3
    apply Sat.bind (expect_sat .ptl s3 (by decide))
    intro s4 h4
    apply Sat.bind (next_sat s4)
    intro s5 h5
    have hs5 : s5.size < s.size := by
      have := h1.1; have := h3.1; have := h4.1; have := h5.1; simp only at *; omega
    split
    · exact Sat.pure hs5
    · apply Sat.bind (expect_sat .semi s5 (by decide))
      intro s6 h6
      exact Sat.pure (Nat.lt_trans h6.1 hs5)
    · apply Sat.bind (argLoop_sat [] s5)
      intro ⟨args, s6⟩ h6
      exact Sat.pure (Nat.lt_of_le_of_lt h6 hs5)

theorem funLoop_sat (acc : List Func) (s : PS) :
    (funLoop acc s).Sat (fun r => r.2.size < s.size) := by
  fun_induction funLoop acc s
  rename_i acc s ih
  apply Sat.bind (parseInterfaceFun_sat s)
  intro ⟨m, s1⟩ h1
  simp only at h1
  cases m with
  | none => exact Sat.pure h1
  | some fn =>
    simp only
    rw [dif_pos h1]
    exact Sat.mono (ih s1 fn h1) (fun r hr => Nat.lt_trans hr h1)

theorem parseInterface_sat (m : Module) (s : PS) :
    (parseInterface m s).Sat (fun r => r.2.size < s.size) := by
  unfold parseInterface
  apply Sat.bind (expectName_sat s)
  intro ⟨name, s1⟩ h1
  simp only
  split
  · exact Sat.diag
  · apply Sat.bind (expect_sat .braceL s1 (by decide))
    intro s2 h2
    apply Sat.bind (funLoop_sat [] s2)
    intro ⟨fs, s3⟩ h3
    apply Sat.bind (expect_sat .semi s3 (by decide))
    intro s4 h4
    refine Sat.pure ?_
    have := h1.1; have := h2.1; have := h4.1; simp only at *; omega

theorem parseConst_sat (m : Module) (s : PS) :
    (parseConst m s).Sat (fun r => r.2.size < s.size) := by
  unfold parseConst
  apply Sat.bind (next_sat s)
  intro s1 h1
  apply Sat.bind (P := fun r => r.2.size ≤ s1.size)
  · split
    · exact Sat.diag
    · exact Sat.diag
    · exact parseType_sat s1
    · exact parseType_sat s1
    · exact Sat.diag
  intro ⟨ty, s2⟩ h2
  apply Sat.bind (expectName_sat s2)
  intro ⟨name, s3⟩ h3
  apply Sat.bind (expect_sat .eq s3 (by decide))
  intro s4 h4
  apply Sat.bind (next_sat s4)
  intro s5 h5
  simp only
  apply Sat.bind (P := fun _ => True)
  · repeat' split
    all_goals first | exact Sat.ok trivial | exact Sat.diag
  intro value _
  apply Sat.bind (expect_sat .semi s5 (by decide))
  intro s6 h6
  refine Sat.pure ?_
  have := h1.1; have := h3.1; have := h4.1; have := h5.1; have := h6.1; simp only at *; omega

theorem keyLoop_sat (acc : List Bytes) (s : PS) :
    (keyLoop acc s).Sat (fun r => r.2.size < s.size) := by
  fun_induction keyLoop acc s
  rename_i acc s ih
  apply Sat.bind (expectName_sat s)
  intro ⟨n, s1⟩ h1
  apply Sat.bind (next_sat s1)
  intro s2 h2
  have hs2 : s2.size < s.size := Nat.lt_of_le_of_lt h2.1 h1.1
  split
  · apply Sat.bind (expect_sat .semi s2 (by decide))
    intro s3 h3
    exact Sat.pure (Nat.lt_trans h3.1 hs2)
  · rw [dif_pos hs2]
    exact Sat.mono (ih n s2 hs2) (fun r hr => Nat.lt_trans hr hs2)
  · exact Sat.diag

theorem parseHashKey_sat (m : Module) (s : PS) :
    (parseHashKey m s).Sat (fun r => r.2.size < s.size) := by
  unfold parseHashKey
  apply Sat.bind (expect_sat .sqL s (by decide))
  intro s1 h1
  apply Sat.bind (expectName_sat s1)
  intro ⟨name, s2⟩ h2
  apply Sat.bind (expect_sat .comma s2 (by decide))
  intro s3 h3
  apply Sat.bind (keyLoop_sat [] s3)
  intro ⟨mem, s4⟩ h4
  refine Sat.pure ?_
  have := h1.1; have := h2.1; have := h3.1; simp only at *; omega

theorem segmentItem_sat (v : Variant) (hv : v.enumEof = true) (m : Module) (s : PS) :
    (segmentItem v m s).Sat (fun r => r.2.size < s.size) := by
  unfold segmentItem
  split
  · exact parseConst_sat m s
  · exact parseEnum_sat v hv m s
  · exact parseStruct_sat m s
  · exact parseInterface_sat m s
  · exact parseHashKey_sat m s
  · exact Sat.diag

theorem segmentLoop_sat (v : Variant) (hv : v.enumEof = true) (m : Module) (s : PS) :
    (segmentLoop v m s).Sat (fun r => r.2.size < s.size) := by
  fun_induction segmentLoop v m s
  rename_i m s ih
  apply Sat.bind (next_sat s)
  intro s1 h1
  split
  · rename_i hk
    apply Sat.bind (expect_sat .semi s1 (by decide))
    intro s2 h2
    exact Sat.pure (Nat.lt_of_lt_of_le h2.1 h1.1)
  · apply Sat.bind (segmentItem_sat v hv m s1)
    intro ⟨m', s2⟩ h2
    have hlt : s2.size < s.size := Nat.lt_of_lt_of_le h2 h1.1
    simp only
    rw [dif_pos hlt]
    exact Sat.mono (ih m' s2 hlt) (fun r hr => Nat.lt_trans hr hlt)

theorem parseModuleSegment_sat (v : Variant) (hv : v.enumEof = true) (m : Module) (s : PS) :
    (parseModuleSegment v m s).Sat (fun r => r.2.size < s.size) := by
  unfold parseModuleSegment
  apply Sat.bind (expect_sat .braceL s (by decide))
  intro s1 h1
  exact Sat.mono (segmentLoop_sat v hv m s1) (fun r hr => Nat.lt_trans hr h1.1)

theorem parseModule_sat (v : Variant) (hv : v.enumEof = true) (f : TarsFile) (s : PS) :
    (parseModule v f s).Sat (fun r => r.2.size < s.size) := by
  unfold parseModule
  apply Sat.bind (expectName_sat s)
  intro ⟨name, s1⟩ h1
  simp only
  split
  · exact Sat.unsupported
  · apply Sat.bind (parseModuleSegment_sat v hv _ s1)
    intro ⟨m, s2⟩ h2
    exact Sat.pure (Nat.lt_trans h2 h1.1)

theorem parseInclude_sat (f : TarsFile) (s : PS) :
    (parseInclude f s).Sat (fun r => r.2.size < s.size) := by
  unfold parseInclude
  apply Sat.bind (expectStr_sat s)
  intro ⟨path, s1⟩ h1
  exact Sat.pure h1.1

theorem fileLoop_sat (v : Variant) (hv : v.enumEof = true) (f : TarsFile) (s : PS) :
    (fileLoop v f s).Sat (fun _ => True) := by
  fun_induction fileLoop v f s
  rename_i f s ih1
  apply Sat.bind (next_sat s)
  intro s1 h1
  split
  · exact Sat.pure trivial
  · apply Sat.bind (parseInclude_sat f s1)
    intro ⟨f', s2⟩ h2
    have hlt : s2.size < s.size := Nat.lt_of_lt_of_le h2 h1.1
    simp only
    rw [dif_pos hlt]
    exact ih1 f' s2 hlt
  · apply Sat.bind (parseModule_sat v hv f s1)
    intro ⟨f', s2⟩ h2
    have hlt : s2.size < s.size := Nat.lt_of_lt_of_le h2 h1.1
    simp only
    rw [dif_pos hlt]
    exact ih1 f' s2 hlt
  · exact Sat.diag

theorem mapRes_sat {α β : Type} (f : α → Res β) (l : List α) (h : ∀ a, (f a).Sat (fun _ => True)) :
    (mapRes f l).Sat (fun _ => True) := by
  induction l with
  | nil => exact Sat.ok trivial
  | cons a as ih =>
    unfold mapRes
    apply Sat.bind (h a)
    intro b _
    apply Sat.bind ih
    intro bs _
    exact Sat.pure trivial

theorem checkDepTName_sat (v : Variant) (m : Module) (t : VarType) :
    (checkDepTName v m t).Sat (fun _ => True) := by
  induction t with
  | prim p u => unfold checkDepTName; exact Sat.ok trivial
  | named n c =>
    unfold checkDepTName
    simp only
    split <;> first | exact Sat.ok trivial | exact Sat.diag
  | vector k ih =>
    unfold checkDepTName
    apply Sat.bind ih
    intro k' _
    exact Sat.pure trivial
  | map k x ihk ihx =>
    unfold checkDepTName
    apply Sat.bind ihk
    intro k' _
    apply Sat.bind ihx
    intro x' _
    exact Sat.pure trivial
  | array k l ih =>
    unfold checkDepTName
    split
    · apply Sat.bind ih
      intro k' _
      exact Sat.pure trivial
    · exact Sat.ok trivial

theorem resolveEnumDefault_sat (v : Variant) (m : Module) (d : Bytes) :
    (resolveEnumDefault v m d).Sat (fun _ => True) := by
  unfold resolveEnumDefault
  simp only
  split <;> first | exact Sat.ok trivial | exact Sat.diag

theorem analyzeDefaultMember_sat (v : Variant) (m : Module) (mb : StructMember) :
    (analyzeDefaultMember v m mb).Sat (fun _ => True) := by
  unfold analyzeDefaultMember
  split
  · apply Sat.bind (resolveEnumDefault_sat v m mb.dflt)
    intro d _
    exact Sat.pure trivial
  · exact Sat.pure trivial

theorem defaultsOf_sat (v : Variant) (m : Module) (st : Struct) : (defaultsOf v m st).Sat (fun _ => True) := by
  unfold defaultsOf
  apply Sat.bind (mapRes_sat _ _ (analyzeDefaultMember_sat v m))
  intro mb _
  exact Sat.pure trivial

theorem typesOf_sat (v : Variant) (m : Module) (st : Struct) : (typesOf v m st).Sat (fun _ => True) := by
  unfold typesOf
  apply Sat.bind (P := fun _ => True)
  · apply mapRes_sat
    intro x
    apply Sat.bind (checkDepTName_sat v _ x.type)
    intro t _
    exact Sat.pure trivial
  intro mb _
  exact Sat.pure trivial

theorem funcTypes_sat (v : Variant) (m : Module) (fn : Func) : (funcTypes v m fn).Sat (fun _ => True) := by
  unfold funcTypes
  apply Sat.bind (P := fun _ => True)
  · apply mapRes_sat
    intro a
    apply Sat.bind (checkDepTName_sat v _ a.type)
    intro t _
    exact Sat.pure trivial
  intro args _
  apply Sat.bind (P := fun _ => True)
  · split
    · exact Sat.ok trivial
    · apply Sat.bind' (checkDepTName_sat v _ _)
      intro t' _
      exact Sat.ok trivial
  intro ret _
  exact Sat.pure trivial

theorem ifaceTypes_sat (v : Variant) (m : Module) (i : Interface) : (ifaceTypes v m i).Sat (fun _ => True) := by
  unfold ifaceTypes
  apply Sat.bind (mapRes_sat _ _ (funcTypes_sat v m))
  intro fs _
  exact Sat.pure trivial

theorem analyze_sat (v : Variant) (f : TarsFile) : (analyze v f).Sat (fun _ => True) := by
  unfold analyze
  split
  · exact Sat.unsupported
  · simp only
    apply Sat.bind (mapRes_sat _ _ (defaultsOf_sat v f.module))
    intro structs1 _
    apply Sat.bind (mapRes_sat _ _ (typesOf_sat v _))
    intro structs2 _
    apply Sat.bind (mapRes_sat _ _ (ifaceTypes_sat v _))
    intro ifs _
    exact Sat.pure trivial

theorem parseFile_sat (v : Variant) (hv : v.enumEof = true) (input : Bytes) :
    (parseFile v input).Sat (fun _ => True) := by
  unfold parseFile parseTokens
  apply Sat.bind (fileLoop_sat v hv _ _)
  intro f _
  exact analyze_sat v f

theorem genCheck_sat (v : Variant) (f : TarsFile) : (genCheck v f).Sat (fun _ => True) := by
  unfold genCheck
  split
  · exact Sat.diag
  · split
    · exact Sat.diag
    · exact Sat.ok trivial

theorem tool_sat (v : Variant) (hv : v.enumEof = true) (input : Bytes) :
    (tool v input).Sat (fun _ => True) := by
  unfold tool
  apply Sat.bind (parseFile_sat v hv input)
  intro f _
  apply Sat.bind (genCheck_sat _ f)
  intro _ _
  exact Sat.pure trivial

end Tars.Idl
