import TarsModel.Proofs.TotalBasic

/-!
  C05 helper lemmas, part 2: the skip family (`skipField`, the element loop of
  `skipFieldList`/`skipFieldMap`, `SkipToStructEnd`, `SkipToNoCheck`) never moves backwards and is
  independent of the fuel once the fuel covers the remaining input.
-/
namespace Tars
open Consts

/-- the errors the Go code returns as `error` values (neither the model artefact `.fuel` nor a
    run-time panic) -/
@[simp] def Err.isPlain : Err → Bool
  | .eof | .require | .mismatch | .invalid | .slhead => true
  | .fuel | .panic _ => false

/-- the outcome is a value or a plain Go `error` -/
def PlainRes {α : Type} (x : Except Err α) : Prop := ∀ e, x = .error e → e.isPlain = true

@[simp] theorem plainRes_ok {α : Type} (a : α) : PlainRes (Except.ok a : Except Err α) := by
  intro e h; cases h
@[simp] theorem plainRes_error {α : Type} (e : Err) :
    PlainRes (Except.error e : Except Err α) ↔ e.isPlain = true := by
  constructor
  · intro h; exact h e rfl
  · intro h e' he; cases he; exact h

theorem PlainRes.ne_fuel {α : Type} {x : Except Err α} (h : PlainRes x) : x ≠ .error .fuel := by
  intro hx; have := h _ hx; simp at this
theorem PlainRes.ne_panic {α : Type} {x : Except Err α} (h : PlainRes x) (s : String) :
    x ≠ .error (.panic s) := by
  intro hx; have := h _ hx; simp at this



theorem skip_family_le : ∀ fuel : Nat,
    (∀ ty (r : Reader), r.Le (skipField fuel ty r).2) ∧ (∀ n (r : Reader), r.Le (skipElems fuel n r).2) ∧
    (∀ r : Reader, r.Le (skipToStructEnd fuel r).2) := by
  intro fuel
  induction fuel with
  | zero =>
    refine ⟨?_, ?_, ?_⟩ <;> intros <;> simp [skipField, skipElems, skipToStructEnd, RM.fail] <;>
      exact Reader.Le.refl _
  | succ f ih =>
    obtain ⟨ihF, ihE, ihS⟩ := ih
    refine ⟨?_, ?_, ?_⟩
    · intro ty r
      simp only [skipField]
      by_cases h0 : ty = tyBYTE
      · rw [if_pos h0]; exact skip_le _ _
      rw [if_neg h0]
      by_cases h1 : ty = tySHORT
      · rw [if_pos h1]; exact skip_le _ _
      rw [if_neg h1]
      by_cases h2 : ty = tyINT
      · rw [if_pos h2]; exact skip_le _ _
      rw [if_neg h2]
      by_cases h3 : ty = tyLONG
      · rw [if_pos h3]; exact skip_le _ _
      rw [if_neg h3]
      by_cases h4 : ty = tyFLOAT
      · rw [if_pos h4]; exact skip_le _ _
      rw [if_neg h4]
      by_cases h5 : ty = tyDOUBLE
      · rw [if_pos h5]; exact skip_le _ _
      rw [if_neg h5]
      by_cases h6 : ty = tySTRING1
      · rw [if_pos h6]
        cases hb : readByte r with
        | mk res r1 =>
          cases res with
          | error e => exact res_le_of (readByte_le r) hb
          | ok d => exact (readByte_lt hb).le.trans (skip_le _ _)
      rw [if_neg h6]
      by_cases h7 : ty = tySTRING4
      · rw [if_pos h7]
        cases hb : bReadU 4 r with
        | mk res r1 =>
          cases res with
          | error e => exact res_le_of (bReadU_le 4 r) hb
          | ok d => exact (res_le_of (bReadU_le 4 r) hb).trans (skip_le _ _)
      rw [if_neg h7]
      by_cases h8 : ty = tyMAP
      · rw [if_pos h8]
        cases hb : readLen r with
        | mk res r1 =>
          cases res with
          | error e => exact res_le_of (readLen_le r) hb
          | ok d => exact (res_le_of (readLen_le r) hb).trans (ihE _ _)
      rw [if_neg h8]
      by_cases h9 : ty = tyLIST
      · rw [if_pos h9]
        cases hb : readLen r with
        | mk res r1 =>
          cases res with
          | error e => exact res_le_of (readLen_le r) hb
          | ok d => exact (res_le_of (readLen_le r) hb).trans (ihE _ _)
      rw [if_neg h9]
      by_cases h10 : ty = tySimpleList
      · rw [if_pos h10]
        cases hb : readHead r with
        | mk res r1 =>
          have hl := res_le_of (readHead_le r) hb
          cases res with
          | error e =>
            simp only
            split
            · exact hl
            · split <;> exact hl
          | ok p =>
            obtain ⟨tyCur, tg⟩ := p
            simp only
            split
            · exact hl
            · cases hc : readLen r1 with
              | mk res2 r2 =>
                have hl2 := res_le_of (readLen_le r1) hc
                cases res2 with
                | error e => exact hl.trans hl2
                | ok d => exact (hl.trans hl2).trans (skip_le _ _)
      rw [if_neg h10]
      by_cases h11 : ty = tyStructBegin
      · rw [if_pos h11]; exact ihS r
      rw [if_neg h11]
      split
      · exact Reader.Le.refl _
      · split <;> exact Reader.Le.refl _
    · intro n r
      simp only [skipElems]
      split
      · exact Reader.Le.refl _
      · cases hb : readHead r with
        | mk res r1 =>
          have hl := res_le_of (readHead_le r) hb
          cases res with
          | error e => exact hl
          | ok p =>
            obtain ⟨tyCur, tg⟩ := p
            simp only
            exact (hl.trans (ihF _ _)).trans (ihE _ _)
    · intro r
      simp only [skipToStructEnd]
      cases hb : readHead r with
      | mk res r1 =>
        have hl := res_le_of (readHead_le r) hb
        cases res with
        | error e => exact hl
        | ok p =>
          obtain ⟨ty, tg⟩ := p
          simp only
          cases hc : skipField f ty r1 with
          | mk res2 r2 =>
            have hl2 := res_le_of (ihF ty r1) hc
            cases res2 with
            | error e => exact hl.trans hl2
            | ok u =>
              simp only
              split
              · exact hl.trans hl2
              · exact (hl.trans hl2).trans (ihS _)


/-- one unfolding of `skipField`, separating the three recursive cases from the leaves (which do
    not look at the fuel) -/
theorem skipField_succ (f ty : Nat) (r : Reader) :
    skipField (f+1) ty r =
      if ty = tyMAP then
        match readLen r with
        | (.error e, r') => (.error e, r')
        | (.ok len, r1) => skipElems f (wrapS 32 (len * 2)) r1
      else if ty = tyLIST then
        match readLen r with
        | (.error e, r') => (.error e, r')
        | (.ok len, r1) => skipElems f len r1
      else if ty = tyStructBegin then skipToStructEnd f r
      else skipField 1 ty r := by
  by_cases hM : ty = tyMAP
  · subst hM; simp [skipField, tyMAP, tyBYTE, tySHORT, tyINT, tyLONG, tyFLOAT, tyDOUBLE, tySTRING1, tySTRING4]
    rcases readLen r with ⟨_ | _, _⟩ <;> rfl
  by_cases hL : ty = tyLIST
  · subst hL; simp [skipField, tyMAP, tyLIST, tyBYTE, tySHORT, tyINT, tyLONG, tyFLOAT, tyDOUBLE, tySTRING1, tySTRING4]
    rcases readLen r with ⟨_ | _, _⟩ <;> rfl
  by_cases hS : ty = tyStructBegin
  · subst hS; simp [skipField, tyMAP, tyLIST, tyBYTE, tySHORT, tyINT, tyLONG, tyFLOAT, tyDOUBLE, tySTRING1, tySTRING4, tyStructBegin, tySimpleList]
  rw [if_neg hM, if_neg hL, if_neg hS]
  simp only [skipField, if_neg hM, if_neg hL, if_neg hS]



theorem skip_fst (n : Int) (r : Reader) : (skip n r).1 = .ok () := by rw [skip_spec]

theorem readHead_err_eof {r r' : Reader} {e : Err} (h : readHead r = (.error e, r')) : e = .eof :=
  (readHead_err h).2.2.1

/-- the non-recursive cases of `skipField` never report `.fuel` -/
theorem skipField_leaf_nofuel (ty : Nat) (r : Reader)
    (hM : ty ≠ tyMAP) (hL : ty ≠ tyLIST) (hS : ty ≠ tyStructBegin) :
    PlainRes (skipField 1 ty r).1 := by
  simp only [skipField, if_neg hM, if_neg hL, if_neg hS]
  by_cases h0 : ty = tyBYTE
  · rw [if_pos h0, skip_fst]; simp
  rw [if_neg h0]
  by_cases h1 : ty = tySHORT
  · rw [if_pos h1, skip_fst]; simp
  rw [if_neg h1]
  by_cases h2 : ty = tyINT
  · rw [if_pos h2, skip_fst]; simp
  rw [if_neg h2]
  by_cases h3 : ty = tyLONG
  · rw [if_pos h3, skip_fst]; simp
  rw [if_neg h3]
  by_cases h4 : ty = tyFLOAT
  · rw [if_pos h4, skip_fst]; simp
  rw [if_neg h4]
  by_cases h5 : ty = tyDOUBLE
  · rw [if_pos h5, skip_fst]; simp
  rw [if_neg h5]
  by_cases h6 : ty = tySTRING1
  · rw [if_pos h6]
    cases hb : readByte r with
    | mk res r1 =>
      cases res with
      | error e => rw [(readByte_err hb).2.1]; simp
      | ok d => simp only [skip_fst]; simp
  rw [if_neg h6]
  by_cases h7 : ty = tySTRING4
  · rw [if_pos h7]
    cases hb : bReadU 4 r with
    | mk res r1 =>
      cases res with
      | error e => rw [(bReadU_err hb).1]; simp
      | ok d => simp only [skip_fst]; simp
  rw [if_neg h7]
  by_cases h10 : ty = tySimpleList
  · rw [if_pos h10]
    cases hb : readHead r with
    | mk res r1 =>
      cases res with
      | error e =>
        rw [readHead_err_eof hb]
        simp only
        split
        · simp
        · split <;> simp
      | ok p =>
        obtain ⟨tyCur, tg⟩ := p
        simp only
        split
        · simp
        · cases hc : readLen r1 with
          | mk res2 r2 =>
            cases res2 with
            | error e => rcases readLen_err hc with rfl | rfl | rfl <;> simp
            | ok d => simp only [skip_fst]; simp
  rw [if_neg h10]
  split
  · simp
  · split <;> simp

/-- **Fuel independence of the skip family.**  `2·remaining + 2` units (`+1` for the two loops)
    always suffice: with any two such amounts the result is identical and is not `.fuel`.
    (Equality matters, not just `≠ .fuel`: the loops of `skipFieldList`/`skipFieldMap` ignore the
    error of the inner `skipField`, so an inner `.fuel` would be swallowed.) -/
theorem skip_family_fuel : ∀ f : Nat,
    (∀ ty (r : Reader) f', 2 * r.remaining + 2 ≤ f → 2 * r.remaining + 2 ≤ f' →
      skipField f ty r = skipField f' ty r ∧ PlainRes (skipField f ty r).1) ∧
    (∀ n (r : Reader) f', 2 * r.remaining + 1 ≤ f → 2 * r.remaining + 1 ≤ f' →
      skipElems f n r = skipElems f' n r ∧ PlainRes (skipElems f n r).1) ∧
    (∀ (r : Reader) f', 2 * r.remaining + 1 ≤ f → 2 * r.remaining + 1 ≤ f' →
      skipToStructEnd f r = skipToStructEnd f' r ∧ PlainRes (skipToStructEnd f r).1) := by
  intro f
  induction f with
  | zero =>
    refine ⟨?_, ?_, ?_⟩ <;> intros <;> omega
  | succ f ih =>
    obtain ⟨ihF, ihE, ihS⟩ := ih
    refine ⟨?_, ?_, ?_⟩
    · intro ty r f' hf hf'
      obtain ⟨f'', rfl⟩ : ∃ k, f' = k + 1 := ⟨f' - 1, by omega⟩
      rw [skipField_succ f, skipField_succ f'']
      by_cases hM : ty = tyMAP
      · rw [if_pos hM, if_pos hM]
        cases hb : readLen r with
        | mk res r1 =>
          cases res with
          | error e => exact ⟨rfl, by rcases readLen_err hb with rfl | rfl | rfl <;> simp⟩
          | ok len =>
            have := (readLen_ok hb).remaining
            exact ihE _ r1 f'' (by omega) (by omega)
      rw [if_neg hM, if_neg hM]
      by_cases hL : ty = tyLIST
      · rw [if_pos hL, if_pos hL]
        cases hb : readLen r with
        | mk res r1 =>
          cases res with
          | error e => exact ⟨rfl, by rcases readLen_err hb with rfl | rfl | rfl <;> simp⟩
          | ok len =>
            have := (readLen_ok hb).remaining
            exact ihE _ r1 f'' (by omega) (by omega)
      rw [if_neg hL, if_neg hL]
      by_cases hS : ty = tyStructBegin
      · rw [if_pos hS, if_pos hS]
        exact ihS r f'' (by omega) (by omega)
      rw [if_neg hS, if_neg hS]
      exact ⟨rfl, skipField_leaf_nofuel ty r hM hL hS⟩
    · intro n r f' hf hf'
      obtain ⟨f'', rfl⟩ : ∃ k, f' = k + 1 := ⟨f' - 1, by omega⟩
      simp only [skipElems]
      by_cases hn : n ≤ 0
      · rw [if_pos hn, if_pos hn]; exact ⟨rfl, by simp⟩
      rw [if_neg hn, if_neg hn]
      cases hb : readHead r with
      | mk res r1 =>
        cases res with
        | error e => exact ⟨rfl, by rw [readHead_err_eof hb]; simp⟩
        | ok p =>
          obtain ⟨tyCur, tg⟩ := p
          have h1 := (readHead_ok hb).1.remaining
          simp only
          rw [← (ihF tyCur r1 f'' (by omega) (by omega)).1]
          have h2 := ((skip_family_le f).1 tyCur r1).remaining
          exact ihE _ _ f'' (by omega) (by omega)
    · intro r f' hf hf'
      obtain ⟨f'', rfl⟩ : ∃ k, f' = k + 1 := ⟨f' - 1, by omega⟩
      simp only [skipToStructEnd]
      cases hb : readHead r with
      | mk res r1 =>
        cases res with
        | error e => exact ⟨rfl, by rw [readHead_err_eof hb]; simp⟩
        | ok p =>
          obtain ⟨ty, tg⟩ := p
          have h1 := (readHead_ok hb).1.remaining
          simp only
          obtain ⟨e1, e2⟩ := ihF ty r1 f'' (by omega) (by omega)
          rw [← e1]
          have h2 := ((skip_family_le f).1 ty r1).remaining
          cases hc : skipField f ty r1 with
          | mk res2 r2 =>
            rw [hc] at h2 e2
            cases res2 with
            | error e => exact ⟨rfl, e2⟩
            | ok u =>
              have h2' : r2.remaining ≤ r1.remaining := h2
              simp only
              split
              · exact ⟨rfl, by simp⟩
              · exact ihS r2 f'' (by omega) (by omega)



/-- `readHead` consumed two bytes exactly when it saw the extended-tag marker; otherwise the tag
    is below 15 — so `unreadHead` never gives back more than `readHead` took -/
theorem readHead_ok_tag {r r' : Reader} {ty tag : Nat} (h : readHead r = (.ok (ty, tag), r')) :
    (r'.pos = r.pos + 1 ∧ tag < extTagUnread) ∨ r'.pos = r.pos + 2 := by
  unfold readHead at h
  cases h1 : readByte r with
  | mk res r1 =>
    cases res with
    | error e => simp [h1] at h
    | ok d =>
      obtain ⟨rfl, hlt, _⟩ := readByte_ok h1
      simp only [h1] at h
      split at h
      · cases h2 : readByte ⟨r.data, r.pos + 1⟩ with
        | mk res2 r2 =>
          cases res2 with
          | error e => simp [h2] at h
          | ok d2 =>
            obtain ⟨rfl, _, _⟩ := readByte_ok h2
            simp only [h2, Prod.mk.injEq, Except.ok.injEq] at h
            right; rw [← h.2]
      · rename_i hne
        simp only [Prod.mk.injEq, Except.ok.injEq] at h
        left
        obtain ⟨⟨_, rfl⟩, rfl⟩ := h
        refine ⟨rfl, ?_⟩
        have := d.isLt
        simp only [extTagRead] at hne
        simp only [extTagUnread]
        omega

theorem skipField_fuel_nofuel (ty : Nat) (r : Reader) : PlainRes (skipField r.fuel ty r).1 :=
  ((skip_family_fuel r.fuel).1 ty r r.fuel
    (by unfold Reader.fuel Reader.remaining; omega) (by unfold Reader.fuel Reader.remaining; omega)).2

/-- how `SkipToNoCheck` moves the position: never backwards; a hit consumed at least the head -/
theorem skipToNoCheckF_pos : ∀ (f tag : Nat) (req : Bool) (r : Reader) (res : Except Err (Bool × Nat))
    (r' : Reader), skipToNoCheckF f tag req r = (res, r') →
    r.Le r' ∧ (∀ ty, res = .ok (true, ty) → r.Lt r') ∧ (∀ ty, res = .ok (false, ty) → req = false) := by
  intro f
  induction f with
  | zero =>
    intro tag req r res r' h
    simp only [skipToNoCheckF, RM.fail, Prod.mk.injEq] at h
    obtain ⟨rfl, rfl⟩ := h
    exact ⟨Reader.Le.refl _, by simp, by simp⟩
  | succ f ih =>
    intro tag req r res r' h
    simp only [skipToNoCheckF] at h
    cases hb : readHead r with
    | mk res1 r1 =>
      rw [hb] at h
      cases res1 with
      | error e =>
        have hl := (readHead_err hb).1
        simp only at h
        split at h
        · simp only [Prod.mk.injEq] at h; obtain ⟨rfl, rfl⟩ := h
          exact ⟨hl, by simp, by simp⟩
        · rename_i hreq
          simp only [Prod.mk.injEq] at h; obtain ⟨rfl, rfl⟩ := h
          exact ⟨hl, by simp, fun _ _ => by simpa using hreq⟩
      | ok p =>
        obtain ⟨tyCur, tagCur⟩ := p
        have hlt := (readHead_ok hb).1
        simp only at h
        split at h
        · split at h
          · simp only [Prod.mk.injEq] at h; obtain ⟨rfl, rfl⟩ := h
            exact ⟨hlt.le, by simp, by simp⟩
          · rename_i hreq
            simp only [Prod.mk.injEq] at h; obtain ⟨rfl, rfl⟩ := h
            obtain ⟨_, u2, u3, u4⟩ := unreadHead_spec tagCur r1
            refine ⟨⟨u2.trans hlt.1, ?_⟩, by simp, fun _ _ => by simpa using hreq⟩
            rcases readHead_ok_tag hb with ⟨hp, ht⟩ | hp
            · have : ¬ tagCur ≥ extTagUnread := by omega
              rw [if_neg this] at u4; omega
            · split at u4 <;> omega
        · split at h
          · simp only [Prod.mk.injEq] at h; obtain ⟨rfl, rfl⟩ := h
            refine ⟨hlt.le, ?_, by simp⟩
            intro ty _; exact hlt
          · cases hc : skipField r1.fuel tyCur r1 with
            | mk res2 r2 =>
              have hl2 := res_le_of ((skip_family_le _).1 tyCur r1) hc
              rw [hc] at h
              cases res2 with
              | error e =>
                simp only [Prod.mk.injEq] at h; obtain ⟨rfl, rfl⟩ := h
                exact ⟨hlt.le.trans hl2, by simp, by simp⟩
              | ok u =>
                obtain ⟨i1, i2, i3⟩ := ih tag req r2 res r' h
                exact ⟨(hlt.le.trans hl2).trans i1, fun ty hty => (hlt.le.trans hl2).trans_lt (i2 ty hty), i3⟩

/-- `SkipToNoCheck`: one iteration per field head, so `remaining + 1` iterations suffice -/
theorem skipToNoCheckF_fuel : ∀ (f f' tag : Nat) (req : Bool) (r : Reader),
    r.remaining + 1 ≤ f → r.remaining + 1 ≤ f' →
    skipToNoCheckF f tag req r = skipToNoCheckF f' tag req r ∧
    PlainRes (skipToNoCheckF f tag req r).1 := by
  intro f
  induction f with
  | zero => intros; omega
  | succ f ih =>
    intro f' tag req r hf hf'
    obtain ⟨f'', rfl⟩ : ∃ k, f' = k + 1 := ⟨f' - 1, by omega⟩
    simp only [skipToNoCheckF]
    cases hb : readHead r with
    | mk res1 r1 =>
      cases res1 with
      | error e =>
        simp only
        refine ⟨trivial, ?_⟩
        split <;> simp
      | ok p =>
        obtain ⟨tyCur, tagCur⟩ := p
        have h1 := (readHead_ok hb).1.remaining
        simp only
        split
        · refine ⟨rfl, ?_⟩
          split <;> simp
        · split
          · exact ⟨rfl, by simp⟩
          · have hnf := skipField_fuel_nofuel tyCur r1
            cases hc : skipField r1.fuel tyCur r1 with
            | mk res2 r2 =>
              have hl2 := (res_le_of ((skip_family_le _).1 tyCur r1) hc).remaining
              rw [hc] at hnf
              cases res2 with
              | error e => exact ⟨rfl, by simpa using hnf⟩
              | ok u => exact ih f'' tag req r2 (by omega) (by omega)

theorem Reader.remaining_lt_fuel (r : Reader) : r.remaining + 1 ≤ r.fuel := by
  unfold Reader.fuel Reader.remaining; omega

theorem skipToNoCheck_nofuel (tag : Nat) (req : Bool) (r : Reader) :
    PlainRes (skipToNoCheck tag req r).1 :=
  (skipToNoCheckF_fuel _ _ tag req r r.remaining_lt_fuel r.remaining_lt_fuel).2

theorem skipToNoCheck_pos {tag : Nat} {req : Bool} {r r' : Reader} {res : Except Err (Bool × Nat)}
    (h : skipToNoCheck tag req r = (res, r')) :
    r.Le r' ∧ (∀ ty, res = .ok (true, ty) → r.Lt r') ∧ (∀ ty, res = .ok (false, ty) → req = false) :=
  skipToNoCheckF_pos _ tag req r res r' h

/-- `SkipToNoCheck` never panics: its errors are `require`, or those of `skipField` -/
theorem skipTo_pos {ty tag : Nat} {req : Bool} {r r' : Reader} {res : Except Err Bool}
    (h : skipTo ty tag req r = (res, r')) :
    r.Le r' ∧ (res = .ok true → r.Lt r') ∧ (res = .ok false → req = false) ∧ PlainRes res := by
  unfold skipTo at h
  have hnf := skipToNoCheck_nofuel tag req r
  cases hb : skipToNoCheck tag req r with
  | mk res1 r1 =>
    obtain ⟨p1, p2, p3⟩ := skipToNoCheck_pos hb
    rw [hb] at h hnf
    cases res1 with
    | error e =>
      simp only [Prod.mk.injEq] at h; obtain ⟨rfl, rfl⟩ := h
      exact ⟨p1, by simp, by simp, by simpa using hnf⟩
    | ok p =>
      obtain ⟨hv, tyCur⟩ := p
      simp only at h
      split at h
      · simp only [Prod.mk.injEq] at h; obtain ⟨rfl, rfl⟩ := h
        exact ⟨p1, by simp, by simp, by simp⟩
      · simp only [Prod.mk.injEq] at h; obtain ⟨rfl, rfl⟩ := h
        refine ⟨p1, ?_, ?_, by simp⟩
        · intro hh; simp only [Except.ok.injEq] at hh; subst hh; exact p2 tyCur rfl
        · intro hh; simp only [Except.ok.injEq] at hh; subst hh; exact p3 tyCur rfl

theorem skipToStructEnd_fuel_plain (r : Reader) : PlainRes (skipToStructEnd r.fuel r).1 :=
  ((skip_family_fuel r.fuel).2.2 r r.fuel
    (by unfold Reader.fuel Reader.remaining; omega) (by unfold Reader.fuel Reader.remaining; omega)).2

theorem skipElems_fuel_plain (n : Int) (r : Reader) : PlainRes (skipElems r.fuel n r).1 :=
  ((skip_family_fuel r.fuel).2.1 n r r.fuel
    (by unfold Reader.fuel Reader.remaining; omega) (by unfold Reader.fuel Reader.remaining; omega)).2

end Tars
