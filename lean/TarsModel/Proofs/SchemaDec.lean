import TarsModel.Proofs.SchemaScalar
import TarsModel.Proofs.SchemaReady

/-!
# Plumbing for the struct round trip: length prefixes, StructEnd, unfolding of `decVar`,
  and the fuel measure `needVar`
-/
namespace Tars
open Consts

/-! ## length prefix -/

/-- `readLen` is `ReadInt32(&length, 0, true)` -/
theorem readLen_eq (old : Int) (r : Reader) : readLen r = readInt32 old 0 true r := by
  unfold readLen readInt32 skipToNoCheck
  rw [Reader.fuel_succ]
  unfold skipToNoCheckF
  rcases hh : readHead r with ⟨_ | ⟨ty, tg⟩, r1⟩
  · simp
  · simp only
    by_cases hc : ty = tyStructEnd ∨ tg > 0
    · simp [hc]
    · have : tg = 0 := by omega
      subst this
      simp only [hc, if_false, if_true]
      simp only [mapRes]
      rcases bReadU8 r1 with ⟨_ | _, _⟩ <;> rcases bReadU 2 r1 with ⟨_ | _, _⟩ <;>
        rcases bReadU 4 r1 with ⟨_ | _, _⟩ <;> try rfl

theorem wrapS32_len (n : Nat) (h : n < 2^31) : wrapS 32 (n : Int) = (n : Int) := by
  unfold wrapS
  exact toS_toU 32 (by decide) _ (by simp) (by simp; omega)

/-- reading back a container length `n < 2^31` written by `WriteInt32(int32(len(x)), 0)` -/
theorem readLen_len (r : Reader) (n : Nat) (t : Bytes) (hn : n < 2^31)
    (h : r.rest = writeInt32 (wrapS 32 (n : Int)) 0 ++ t) :
    readLen r = (.ok (n : Int), r.adv (writeInt32 (wrapS 32 (n : Int)) 0).length) := by
  rw [wrapS32_len n hn] at h ⊢
  rw [readLen_eq 0 r]
  exact C02_rt_int32 r n 0 0 true t (by decide) (by omega) h

/-- `CheckLength` passes for a count/length that does not exceed the unread bytes -/
theorem checkLength_ok (r : Reader) (n : Nat) (bs : Bytes) (h : r.rest = bs) (hn : n ≤ bs.length) :
    checkLength (n : Int) r = (.ok (), r) := by
  have hl := congrArg List.length h
  simp only [Reader.rest, List.length_drop, Array.length_toList] at hl
  unfold checkLength Reader.remaining
  have : ¬ ((n : Int) < 0 ∨ (n : Int) > ((r.data.size - r.pos : Nat) : Int)) := by omega
  rw [if_neg this]

/-! ## StructEnd -/

theorem skipToStructEnd_end (r : Reader) (t : Bytes) (h : r.rest = writeHead tyStructEnd 0 ++ t) :
    skipToStructEnd r.fuel r = (.ok (), r.adv (writeHead tyStructEnd 0).length) := by
  rw [Reader.fuel_succ]
  unfold skipToStructEnd
  rw [readHead_writeHead r tyStructEnd 0 t (by decide) (by decide) h]
  have : 2 * r.data.size + 7 = (2 * r.data.size + 6) + 1 := rfl
  rw [this]
  unfold skipField
  simp +decide

/-! ## unfolding `decVar` per type -/

theorem decVar_vec (env : Env) (fuel tag : Nat) (req : Bool) (e : Ty) (old : Val) (r : Reader) :
    decVar env (fuel+1) tag req (.vec e) old r =
      match skipToNoCheck tag req r with
      | (.error er, r') => (.error er, r')
      | (.ok (have_, tyCur), r1) =>
        if !req && !have_ then (.ok old, r1)
        else if tyCur = tyLIST then
          match readLen r1 with
          | (.error er, r') => (.error er, r')
          | (.ok len, r2) =>
            match checkLength len r2 with
            | (.error er, r') => (.error er, r')
            | (.ok (), r3) => decElems env fuel e len.toNat [] r3
        else if tyCur = tySimpleList then
          if e = .i8 ∨ e = .u8 then
            match skipTo tyBYTE 0 true r1 with
            | (.error er, r') => (.error er, r')
            | (.ok _, r2) =>
              match readLen r2 with
              | (.error er, r') => (.error er, r')
              | (.ok len, r3) =>
                let oldBytes := match old with
                  | .list vs => int8Bytes vs
                  | _ => []
                match readSlice8 oldBytes len r3 with
                | (.error er, r') => (.error er, r')
                | (.ok bs, r4) => (.ok (.list (bytesToVals (e = .i8) bs)), r4)
          else (.error .mismatch, r1)
        else (.error .mismatch, r1) := by
  conv => lhs; unfold decVar
  rfl

theorem decVar_arr (env : Env) (fuel tag : Nat) (req : Bool) (n : Nat) (e : Ty) (old : Val)
    (r : Reader) :
    decVar env (fuel+1) tag req (.arr n e) old r =
      match skipToNoCheck tag req r with
      | (.error er, r') => (.error er, r')
      | (.ok (have_, tyCur), r1) =>
        if !req && !have_ then (.ok old, r1)
        else if tyCur = tyLIST then
          match readLen r1 with
          | (.error er, r') => (.error er, r')
          | (.ok len, r2) =>
            let oldVs := match old with
              | .list vs => vs
              | _ => []
            if len > (n : Int) then (.error .mismatch, r2)
            else decArr env fuel e n 0 len oldVs r2
        else (.error .mismatch, r1) := by
  conv => lhs; unfold decVar
  rfl

theorem decVar_map (env : Env) (fuel tag : Nat) (req : Bool) (k v : Ty) (old : Val) (r : Reader) :
    decVar env (fuel+1) tag req (.map k v) old r =
      match skipTo tyMAP tag req r with
      | (.error er, r') => (.error er, r')
      | (.ok have_, r1) =>
        if !req && !have_ then (.ok old, r1)
        else
          match readLen r1 with
          | (.error er, r') => (.error er, r')
          | (.ok len, r2) =>
            match checkLength len r2 with
            | (.error er, r') => (.error er, r')
            | (.ok (), r3) => decPairs env fuel k v len [] r3 := by
  conv => lhs; unfold decVar
  rfl

theorem decVar_struct (env : Env) (fuel tag : Nat) (req : Bool) (name : String) (fs : List Field)
    (ovs : List Val) (r : Reader) (hfs : env.find name = some fs) :
    decVar env (fuel+1) tag req (.struct name) (.struct ovs) r =
      match skipTo tyStructBegin tag req r with
      | (.error er, r') => (.error er, r')
      | (.ok have_, r1) =>
        if !have_ then
          if req then (.error .require, r1)
          else (.ok (.struct (resetDefault env fuel fs ovs)), r1)
        else
          match decMembers env fuel fs
              (resetDefault env fuel fs (resetDefault env fuel fs ovs)) r1 with
          | (.error er, r') => (.error er, r')
          | (.ok vs, r2) =>
            match skipToStructEnd r2.fuel r2 with
            | (.error er, r') => (.error er, r')
            | (.ok (), r3) => (.ok (.struct vs), r3) := by
  conv => lhs; unfold decVar
  simp only [hfs]
  rfl

theorem decVar_atom (env : Env) (fuel tag : Nat) (req : Bool) (ty : Ty) (old : Val) (r : Reader)
    (h : ty.isAtom = true) :
    decVar env (fuel+1) tag req ty old r = readScalar ty old tag req r := by
  conv => lhs; unfold decVar
  cases ty <;> first | rfl | simp [Ty.isAtom, Ty.isScalar] at h

theorem decElems_zero (env : Env) (fuel : Nat) (e : Ty) (acc : List Val) (r : Reader) :
    decElems env (fuel+1) e 0 acc r = (.ok (.list acc.reverse), r) := by
  conv => lhs; unfold decElems

theorem decElems_succ (env : Env) (fuel : Nat) (e : Ty) (n : Nat) (acc : List Val) (r : Reader) :
    decElems env (fuel+1) e (n+1) acc r =
      match decVar env fuel 0 true e (zeroOf env e) r with
      | (.error er, r') => (.error er, r')
      | (.ok v, r1) => decElems env fuel e n (v :: acc) r1 := by
  conv => lhs; unfold decElems
  rfl

theorem decArr_succ (env : Env) (fuel : Nat) (e : Ty) (n i : Nat) (len : Int) (cur : List Val)
    (r : Reader) :
    decArr env (fuel+1) e n i len cur r =
      if (i : Int) ≥ len then (.ok (.list cur), r)
      else if i ≥ n then arrOverflow e r
      else
        match decVar env fuel 0 true e (cur.getD i (zeroOf env e)) r with
        | (.error er, r') => (.error er, r')
        | (.ok v, r1) => decArr env fuel e n (i+1) len (listSet cur i v) r1 := by
  conv => lhs; unfold decArr
  rfl

theorem decPairs_succ (env : Env) (fuel : Nat) (k v : Ty) (len : Int) (acc : List (Val × Val))
    (r : Reader) :
    decPairs env (fuel+1) k v len acc r =
      if len ≤ 0 then (.ok (.map acc), r)
      else
        match decVar env fuel 0 true k (zeroOf env k) r with
        | (.error er, r') => (.error er, r')
        | (.ok a, r1) =>
          match decVar env fuel 1 true v (zeroOf env v) r1 with
          | (.error er, r') => (.error er, r')
          | (.ok b, r2) => decPairs env fuel k v (len - 1) (mapInsert acc a b keyEq) r2 := by
  conv => lhs; unfold decPairs
  rfl

theorem decMembers_nil (env : Env) (fuel : Nat) (olds : List Val) (r : Reader) :
    decMembers env (fuel+1) [] olds r = (.ok [], r) := by
  conv => lhs; unfold decMembers

theorem decMembers_cons (env : Env) (fuel : Nat) (f : Field) (fs : List Field) (o : Val)
    (os : List Val) (r : Reader) :
    decMembers env (fuel+1) (f :: fs) (o :: os) r =
      match decVar env fuel f.tag f.req f.ty o r with
      | (.error er, r') => (.error er, r')
      | (.ok v, r1) =>
        match decMembers env fuel fs os r1 with
        | (.error er, r') => (.error er, r')
        | (.ok vs, r2) => (.ok (v :: vs), r2) := by
  conv => lhs; unfold decMembers
  rfl

/-! ## fuel measure: the call depth of `decVar` on the encoding of a value -/

mutual
def needVar : Val → Nat
  | .list vs => 1 + needElems vs
  | .map kvs => 1 + needPairs kvs
  | .struct vs => 1 + needElems vs
  | _ => 1
def needElems : List Val → Nat
  | [] => 1
  | v :: vs => 1 + max (needVar v) (needElems vs)
def needPairs : List (Val × Val) → Nat
  | [] => 1
  | (a, b) :: rest => 1 + max (max (needVar a) (needVar b)) (needPairs rest)
end

theorem needVar_pos (v : Val) : 1 ≤ needVar v := by
  cases v <;> simp [needVar]
theorem needElems_pos (vs : List Val) : 1 ≤ needElems vs := by
  cases vs <;> simp [needElems]
theorem needPairs_pos (kvs : List (Val × Val)) : 1 ≤ needPairs kvs := by
  cases kvs <;> simp [needPairs]

end Tars
