import TarsModel.Proofs.ShortLoops

namespace Tars
open Consts

theorem halfHead_of_strict (hty tag : Nat) (p : Bytes) (h16 : hty < 16) (hp : p ≠ [])
    (hlt : p.length < (writeHead hty tag).length) (hpre : p <+: writeHead hty tag) : HalfHead p := by
  unfold writeHead at hlt hpre
  by_cases ht : tag < extTagThreshold
  · rw [if_pos ht] at hlt
    cases p with
    | nil => exact absurd rfl hp
    | cons x xs => simp at hlt
  · rw [if_neg ht] at hlt hpre
    obtain ⟨t, ht2⟩ := hpre
    cases p with
    | nil => exact absurd rfl hp
    | cons x xs =>
      cases xs with
      | cons y ys => simp at hlt; omega
      | nil =>
        simp only [List.cons_append, List.nil_append, List.cons.injEq] at ht2
        refine ⟨x, rfl, ?_⟩
        rw [ht2.1]; simp only [byte_val, extTagMarker]; omega

/-- a prefix of the encoding of members with larger tags either shows no head of member `tag`
    (end, or a complete head with a larger tag) or is the first byte of a two-byte head -/
theorem tail_class (env : Env) (tag : Nat) : ∀ (fs : List Field) (vs : List Val) (p : Bytes),
    (∀ f ∈ fs, tag < f.tag ∧ f.tag ≤ 255) → p <+: encMembers env fs vs → NextTagGt tag p ∨ HalfHead p
  | [], vs, p, _, h => by
    cases vs <;> simp [encMembers] at h <;> exact .inl (.inl h)
  | f :: fs, [], p, _, h => by simp [encMembers] at h; exact .inl (.inl h)
  | f :: fs, v :: vs, p, hfs, h => by
    simp only [encMembers] at h
    have hf := hfs f (by simp)
    rcases encVar_headAt env f.tag f.req f.ty f.dflt v with h0 | ⟨hty, rest, h16, _, hh⟩
    · rw [h0] at h
      exact tail_class env tag fs vs p (fun g hg => hfs g (by simp [hg])) (by simpa using h)
    · rw [hh, List.append_assoc] at h
      rcases prefix_append_cases p _ _ h with ⟨p', rfl, _⟩ | ⟨hl, hp⟩
      · exact .inl (.inr ⟨hty, f.tag, p', h16, by omega, .inr hf.1, rfl⟩)
      · by_cases hp0 : p = []
        · exact .inl (.inl hp0)
        · exact .inr (halfHead_of_strict hty f.tag p h16 hp0 hl hp)

/-- where the input was cut relative to the boundary `P`: exactly there, or one byte later, that
    byte being the first of a two-byte head -/
def CutAt (p P : Bytes) : Prop := p = P ∨ ∃ b : Byte, b.val / 16 = 15 ∧ p = P ++ [b]

theorem CutAt.cons {p P : Bytes} (a : Bytes) (h : CutAt p P) : CutAt (a ++ p) (a ++ P) := by
  rcases h with rfl | ⟨b, hb, rfl⟩
  · exact .inl rfl
  · exact .inr ⟨b, hb, by simp⟩

theorem cutAt_nil_of {p : Bytes} (h : p = [] ∨ HalfHead p) : CutAt p [] := by
  rcases h with rfl | ⟨b, rfl, hb⟩
  · exact .inl rfl
  · exact .inr ⟨b, hb, rfl⟩

/-- **the member loop of `ReadFrom` on ANY prefix of a struct body**: an error, or exactly the
    values of the members whose fields are complete (`k` of them) followed by the `ResetDefault`
    values of the others, which are all optional; the input is exhausted.  `ih`: the cut statement
    for the member values (supplied by the induction over the value structure). -/
theorem decMembers_prefix (env : Env) (rk : String → Nat) (hE : EnvWF env rk) (b : Nat) (hb : b ≤ env.length) :
    ∀ (vs : List Val), (∀ v ∈ vs, TR env rk v) →
      ∀ (fs : List Field) (olds : List Val) (fuel : Nat) (r : Reader) (p : Bytes),
      (∀ f ∈ fs, FieldOK env rk b f) → TagsAsc fs → WTm env fs vs → OldOKs env fs olds →
      p <+: encMembers env fs vs → (env.width + 3) * p.length + fs.length + 2 ≤ fuel → r.rest = p →
      (∃ e r', decMembers env fuel fs olds r = (.error e, r')) ∨
      (∃ k r', k ≤ fs.length ∧ CutAt p (encMembers env (fs.take k) (vs.take k)) ∧
        (∀ f ∈ fs.drop k, f.req = false) ∧ r'.rest = [] ∧
        decMembers env fuel fs olds r =
          (.ok (normMembers env (fs.take k) (vs.take k) ++
                absentVals env (fuel - k) (fs.drop k) (olds.drop k)), r'))
  | [], _, fs, olds, fuel, r, p, _, _, hwt, hold, hpre, hfuel, hr => by
    cases fs with
    | cons g gs => simp [WTm] at hwt
    | nil =>
      cases olds with
      | cons _ _ => simp [OldOKs] at hold
      | nil =>
        have hp : p = [] := by simpa [encMembers] using hpre
        subst hp
        obtain ⟨f, rfl⟩ : ∃ f, fuel = f + 1 := ⟨fuel - 1, by omega⟩
        right
        exact ⟨0, r, by simp, .inl (by simp [encMembers]), by simp, hr,
          by rw [decMembers_nil]; simp [normMembers, absentVals]⟩
  | v :: vs, ih, fs, olds, fuel, r, p, hfs, hasc, hwt, hold, hpre, hfuel, hr => by
    cases fs with
    | nil => simp [WTm] at hwt
    | cons g gs =>
      cases olds with
      | nil => simp [OldOKs] at hold
      | cons o os =>
        simp only [WTm] at hwt
        simp only [OldOKs] at hold
        simp only [encMembers] at hpre
        simp only [List.length_cons] at hfuel
        have hg := hfs g (by simp)
        have hasc' := List.pairwise_cons.mp hasc
        have hdf : ∀ f ∈ gs, DfltOK f.ty f.dflt := fun f hf => (hfs f (by simp [hf])).dfltOK
        have hoks := targetOks_of_oldOKs hdf hold.2
        have hok0 := targetOk_of_oldOK hg.dfltOK hold.1
        obtain ⟨f, rfl⟩ : ∃ f, fuel = f + 2 := ⟨fuel - 2, by omega⟩
        have htag : g.tag < 256 := by have := hg.1; omega
        have htyok := TyOK.mono (by omega : b ≤ env.length + 1) hg.2.1
        -- what happens once this member has been treated as absent and the input is exhausted
        have hdead : ∀ (r' : Reader), r'.rest = [] → g.req = false → (p = [] ∨ HalfHead p) →
            decVar env (f+1) g.tag g.req g.ty o r = (.ok (Evolve.absentVal env f g.ty o), r') →
            (∃ e r'', decMembers env (f+2) (g :: gs) (o :: os) r = (.error e, r'')) ∨
            (∃ k r'', k ≤ (g :: gs).length ∧
              CutAt p (encMembers env ((g :: gs).take k) ((v :: vs).take k)) ∧
              (∀ f' ∈ (g :: gs).drop k, f'.req = false) ∧ r''.rest = [] ∧
              decMembers env (f+2) (g :: gs) (o :: os) r =
                (.ok (normMembers env ((g :: gs).take k) ((v :: vs).take k) ++
                  absentVals env (f + 2 - k) ((g :: gs).drop k) ((o :: os).drop k)), r'')) := by
          intro r' hr' hreq hp hdec
          have heof := decMembers_eof env gs os (f+1) r' hr' (by omega) hoks
          rw [decMembers_cons, hdec]
          simp only
          by_cases hall : ∀ f' ∈ gs, f'.req = false
          · right
            refine ⟨0, r', by simp, by simpa [encMembers] using cutAt_nil_of hp, ?_, hr', ?_⟩
            · intro f' hf'
              simp only [List.drop_zero, List.mem_cons] at hf'
              rcases hf' with rfl | hf'
              · exact hreq
              · exact hall f' hf'
            · rw [heof.1 hall]; simp [normMembers, absentVals]
          · left
            have : ∃ f' ∈ gs, f'.req = true := by
              apply Classical.byContradiction
              intro hne
              apply hall
              intro f' hf'
              cases hq : f'.req with
              | false => rfl
              | true => exact absurd ⟨f', hf', hq⟩ hne
            obtain ⟨e, r'', he⟩ := heof.2 this
            rw [he]; exact ⟨e, r'', rfl⟩
        by_cases he0 : encVar env g.tag g.req g.ty g.dflt v = []
        · -- the member was not transmitted (optional, at its default)
          have hreq : g.req = false := by
            cases hq : g.req with
            | false => rfl
            | true => rw [hq] at he0; exact absurd he0 (encVar_req_ne env g.tag g.ty g.dflt v hwt.1)
          rw [he0, List.nil_append] at hpre
          rcases tail_class env g.tag gs vs p
            (fun f' hf' => ⟨hasc'.1 f' hf', (hfs f' (by simp [hf'])).1⟩) hpre with hnt | hhalf
          · have hv := rt_all env rk hE v (f+1) g.tag g.req g.ty g.dflt o r p htag htyok hg.dfltOK hwt.1
              hold.1 (fun _ => hnt) (by
                have := (fuelOK_all env v g.tag g.req g.ty g.dflt hwt.1).1
                rw [he0] at this; simp at this; omega) (by rw [he0]; simpa using hr)
            rw [he0] at hv
            simp only [List.length_nil, Reader.adv_zero] at hv
            have ih' := decMembers_prefix env rk hE b hb vs (fun w hw => ih w (by simp [hw])) gs os (f+1) r p
              (fun f' hf' => hfs f' (by simp [hf'])) hasc'.2 hwt.2 hold.2 hpre (by omega) hr
            rw [decMembers_cons, hv]
            simp only
            rcases ih' with ⟨e, r', he⟩ | ⟨k, r', hk, hcut, hopt, hrest, hdec⟩
            · left; rw [he]; exact ⟨e, r', rfl⟩
            · right
              refine ⟨k + 1, r', by simp; omega, by simpa [encMembers, he0] using hcut,
                by simpa using hopt, hrest, ?_⟩
              rw [hdec]
              simp [normMembers]
          · obtain ⟨hs, hrest⟩ := skipToNoCheck_half_opt g.tag hr hhalf
            have hdec := decVar_of_skip_absent env f g.tag g.ty o r _ 0 hok0 hs
            rw [← hreq] at hdec
            exact hdead _ hrest hreq (.inr hhalf) hdec
        · rcases prefix_append_cases p _ _ hpre with ⟨p', rfl, hp'⟩ | ⟨hl, hp⟩
          · -- the member's field is complete
            have hpos : 0 < (encVar env g.tag g.req g.ty g.dflt v).length := List.length_pos_iff.mpr he0
            have hneed := (fuelOK_all env v g.tag g.req g.ty g.dflt hwt.1).2 hpos
            simp only [List.length_append, Nat.mul_add] at hfuel
            have hv := decVar_present env rk hE v (f+1) g.tag g.req g.ty g.dflt o r p' htag htyok hg.dfltOK
              hwt.1 hold.1 (by omega) he0 hr
            have hr' := r.rest_adv _ _ hr
            have ih' := decMembers_prefix env rk hE b hb vs (fun w hw => ih w (by simp [hw])) gs os (f+1) _ p'
              (fun f' hf' => hfs f' (by simp [hf'])) hasc'.2 hwt.2 hold.2 hp' (by omega) hr'
            rw [decMembers_cons, hv]
            simp only
            rcases ih' with ⟨e, r', he⟩ | ⟨k, r', hk, hcut, hopt, hrest, hdec⟩
            · left; rw [he]; exact ⟨e, r', rfl⟩
            · right
              refine ⟨k + 1, r', by simp; omega, by simpa [encMembers] using hcut.cons _,
                by simpa using hopt, hrest, ?_⟩
              rw [hdec]
              simp [normMembers]
          · -- the cut is inside this member's field
            have htr := ih v (by simp) (f+1) g.tag g.req g.ty g.dflt o r p htag htyok hg.dfltOK hwt.1
              hold.1 hp hl (by omega) hr
            rcases htr with ⟨e, r', he⟩ | ⟨hreq, hq, r', hdec, hrest⟩
            · left; rw [decMembers_cons, he]; exact ⟨e, r', rfl⟩
            · exact hdead r' hrest hreq hq (by simpa using hdec)

end Tars
