import TarsModel.Model.SkipIter
import TarsModel.Proofs.TotalSkip
import TarsModel.Proofs.Skip

/-!
  The recursive skip family of `Wire.lean` with a fuel that is "large" for the input (`Big`):
  fuel-free unfolding equations (from the fuel independence of Proofs/TotalSkip.lean), and the
  recursive meaning `unwind` of the explicit stack of the iterative skip (`Model/SkipIter.lean`).
-/
namespace Tars
namespace SkipIter
open Consts

/-- the fuel `K` is large for every reader over this input -/
def Big (K : Nat) (r : Reader) : Prop := 2 * r.data.size + 3 ≤ K

theorem Big.of_le {K : Nat} {r r' : Reader} (h : Big K r) (hle : r.Le r') : Big K r' := by
  unfold Big at *; rw [hle.1]; exact h

theorem remaining_le_size (r : Reader) : r.remaining ≤ r.data.size := by
  unfold Reader.remaining; omega

/-- fuel independence in terms of the input size -/
theorem indep (K K' : Nat) (r : Reader) (h : 2 * r.data.size + 2 ≤ K) (h' : 2 * r.data.size + 2 ≤ K') :
    (∀ ty, skipField K ty r = skipField K' ty r) ∧ (∀ n, skipElems K n r = skipElems K' n r) ∧
    skipToStructEnd K r = skipToStructEnd K' r := by
  have := remaining_le_size r
  exact ⟨fun ty => ((skip_family_fuel K).1 ty r K' (by omega) (by omega)).1,
    fun n => ((skip_family_fuel K).2.1 n r K' (by omega) (by omega)).1,
    ((skip_family_fuel K).2.2 r K' (by omega) (by omega)).1⟩

theorem Big.pred {K : Nat} {r : Reader} (h : Big K r) : ∃ K', K = K' + 1 ∧ 2 * r.data.size + 2 ≤ K' :=
  ⟨K - 1, by unfold Big at h; omega, by unfold Big at h; omega⟩

/-! ### unfolding equations of the recursive family, same fuel on both sides -/

section
variable {K : Nat} {r : Reader} (hK : Big K r)
include hK

theorem SS_err {e : Err} {r' : Reader} (h : readHead r = (.error e, r')) :
    skipToStructEnd K r = (.error e, r') := by
  obtain ⟨K', rfl, _⟩ := hK.pred
  simp [skipToStructEnd, h]

theorem SS_field_err {ty tg : Nat} {r1 r2 : Reader} {e : Err} (h : readHead r = (.ok (ty, tg), r1))
    (h2 : skipField K ty r1 = (.error e, r2)) : skipToStructEnd K r = (.error e, r2) := by
  obtain ⟨K', rfl, hK'⟩ := hK.pred
  have hd := (readHead_le r); rw [h] at hd
  rw [← (indep K' (K'+1) r1 (by rw [hd.1]; exact hK') (by rw [hd.1]; omega)).1 ty] at h2
  simp [skipToStructEnd, h, h2]

theorem SS_field_ok {ty tg : Nat} {r1 r2 : Reader} (h : readHead r = (.ok (ty, tg), r1))
    (h2 : skipField K ty r1 = (.ok (), r2)) :
    skipToStructEnd K r = if ty = tyStructEnd then (.ok (), r2) else skipToStructEnd K r2 := by
  obtain ⟨K', rfl, hK'⟩ := hK.pred
  have hd := (readHead_le r); rw [h] at hd
  have hd2 := (skip_family_le (K'+1)).1 ty r1; rw [h2] at hd2
  rw [← (indep K' (K'+1) r1 (by rw [hd.1]; exact hK') (by rw [hd.1]; omega)).1 ty] at h2
  rw [Skip.skipToStructEnd_step K' r r1 r2 ty tg h h2,
    (indep K' (K'+1) r2 (by rw [hd2.1, hd.1]; exact hK') (by rw [hd2.1, hd.1]; omega)).2.2]

theorem SE_done {n : Int} (h : n ≤ 0) : skipElems K n r = (.ok (), r) := by
  obtain ⟨K', rfl, _⟩ := hK.pred
  exact Skip.skipElems_done K' n r h

theorem SE_err {n : Int} {e : Err} {r' : Reader} (hn : 0 < n) (h : readHead r = (.error e, r')) :
    skipElems K n r = (.error e, r') := by
  obtain ⟨K', rfl, _⟩ := hK.pred
  have : ¬ n ≤ 0 := by omega
  simp [skipElems, this, h]

theorem SE_field {n : Int} {ty tg : Nat} {r1 : Reader} (hn : 0 < n)
    (h : readHead r = (.ok (ty, tg), r1)) :
    skipElems K n r = skipElems K (n - 1) (skipField K ty r1).2 := by
  obtain ⟨K', rfl, hK'⟩ := hK.pred
  have hd := (readHead_le r); rw [h] at hd
  have hd2 := (skip_family_le (K'+1)).1 ty r1
  rw [Skip.skipElems_step K' n r r1 ty tg hn h,
    (indep K' (K'+1) r1 (by rw [hd.1]; exact hK') (by rw [hd.1]; omega)).1 ty,
    (indep K' (K'+1) _ (by rw [hd2.1, hd.1]; exact hK') (by rw [hd2.1, hd.1]; omega)).2.1]

theorem SF_struct : skipField K tyStructBegin r = skipToStructEnd K r := by
  obtain ⟨K', rfl, hK'⟩ := hK.pred
  rw [Skip.skipField_structBegin, (indep K' (K'+1) r hK' (by omega)).2.2]

theorem SF_list_err {e : Err} {r' : Reader} (h : readLen r = (.error e, r')) :
    skipField K tyLIST r = (.error e, r') := by
  obtain ⟨K', rfl, _⟩ := hK.pred
  simp +decide [skipField, h]

theorem SF_list_ok {len : Int} {r1 : Reader} (h : readLen r = (.ok len, r1)) :
    skipField K tyLIST r = skipElems K len r1 := by
  obtain ⟨K', rfl, hK'⟩ := hK.pred
  have hd := (readLen_le r); rw [h] at hd
  rw [Skip.skipField_list K' r len r1 h,
    (indep K' (K'+1) r1 (by rw [hd.1]; exact hK') (by rw [hd.1]; omega)).2.1]

theorem SF_map_err {e : Err} {r' : Reader} (h : readLen r = (.error e, r')) :
    skipField K tyMAP r = (.error e, r') := by
  obtain ⟨K', rfl, _⟩ := hK.pred
  simp +decide [skipField, h]

theorem SF_map_ok {len : Int} {r1 : Reader} (h : readLen r = (.ok len, r1)) :
    skipField K tyMAP r = skipElems K (wrapS 32 (len * 2)) r1 := by
  obtain ⟨K', rfl, hK'⟩ := hK.pred
  have hd := (readLen_le r); rw [h] at hd
  rw [Skip.skipField_map K' r len r1 h,
    (indep K' (K'+1) r1 (by rw [hd.1]; exact hK') (by rw [hd.1]; omega)).2.1]

/-- every other wire type: no recursion, one unit of fuel is all it looks at -/
theorem SF_leaf {ty : Nat} (h1 : ty ≠ tyMAP) (h2 : ty ≠ tyLIST) (h3 : ty ≠ tyStructBegin) :
    skipField K ty r = skipField 1 ty r := by
  obtain ⟨K', rfl, _⟩ := hK.pred
  rw [skipField_succ, if_neg h1, if_neg h2, if_neg h3]

end

/-! ### the recursive meaning of the explicit stack -/

/-- the error carried by a result -/
def errOf : Except Err Unit → Option Err
  | .ok _ => none
  | .error e => some e

/-- What remains to be done for a stack (head = top) in the recursive reading, given whether the
    field just skipped ended in an error:
    * a `skipPending` frame is an open struct: an error ends it and propagates outwards; otherwise
      the rest of the struct is `SkipToStructEnd`, whose error again propagates outwards;
    * a count frame `n` is the element loop of an enclosing LIST/MAP with `n` elements to go: the
      loop ignores the error of the element just skipped (`_ = b.skipField(tyCur)`) and goes on
      with `skipElems n`; the error of the loop itself (a head that cannot be read) propagates
      outwards. -/
def unwindFrame (K : Nat) (top : Int) (k : Option Err → RM Unit) : Option Err → RM Unit :=
  fun err r =>
    if top = skipPending then
      match err with
      | some e => k (some e) r
      | none =>
        match skipToStructEnd K r with
        | (.error e, r') => k (some e) r'
        | (.ok (), r') => k none r'
    else
      match skipElems K top r with
      | (.error e, r') => k (some e) r'
      | (.ok (), r') => k none r'

/-- the empty stack: the outcome of the whole skip -/
def unwindBase : Option Err → RM Unit
  | none => fun r => (.ok (), r)
  | some e => fun r => (.error e, r)

def unwind (K : Nat) (err : Option Err) (stack : List Int) : RM Unit :=
  stack.foldr (unwindFrame K) unwindBase err

theorem unwind_nil (K : Nat) (err : Option Err) : unwind K err [] = unwindBase err := rfl
theorem unwind_cons (K : Nat) (err : Option Err) (top : Int) (rest : List Int) :
    unwind K err (top :: rest) = unwindFrame K top (fun e => unwind K e rest) err := rfl

/-- continue with the stack after a recursive skip returned `x` -/
def after (K : Nat) (x : Res Unit) (stack : List Int) : Res Unit := unwind K (errOf x.1) stack x.2

theorem after_ok (K : Nat) (r' : Reader) (stack : List Int) :
    after K (.ok (), r') stack = unwind K none stack r' := by simp only [after, errOf]
theorem after_err (K : Nat) (e : Err) (r' : Reader) (stack : List Int) :
    after K (.error e, r') stack = unwind K (some e) stack r' := by simp only [after, errOf]

theorem unwind_nil_after (K : Nat) (x : Res Unit) : after K x [] = x := by
  obtain ⟨res, r'⟩ := x
  cases res <;> simp only [after, errOf, unwind_nil, unwindBase]

theorem unwind_pending_err (K : Nat) (e : Err) (rest : List Int) (r : Reader) :
    unwind K (some e) (skipPending :: rest) r = unwind K (some e) rest r := by
  simp only [unwind_cons, unwindFrame, if_true]

theorem unwind_pending (K : Nat) (rest : List Int) (r : Reader) :
    unwind K none (skipPending :: rest) r = after K (skipToStructEnd K r) rest := by
  simp only [unwind_cons, unwindFrame, if_true, after]
  rcases skipToStructEnd K r with ⟨_ | _, r'⟩ <;> simp only [errOf]

theorem unwind_count (K : Nat) (err : Option Err) (top : Int) (rest : List Int) (r : Reader)
    (h : top ≠ skipPending) :
    unwind K err (top :: rest) r = after K (skipElems K top r) rest := by
  cases err <;> simp only [unwind_cons, unwindFrame, if_neg h, after] <;>
    rcases skipElems K top r with ⟨_ | _, r'⟩ <;> simp only [errOf]

/-- an error ends the open structs on top of the stack and is swallowed by the first count frame -/
theorem unwind_some (K : Nat) (e : Err) (stack : List Int) (r : Reader) :
    unwind K (some e) stack r =
      if stack.dropWhile (· = skipPending) = [] then (.error e, r)
      else unwind K none (stack.dropWhile (· = skipPending)) r := by
  induction stack with
  | nil => simp [unwind_nil, unwindBase]
  | cons top rest ih =>
    by_cases h : top = skipPending
    · subst h
      rw [unwind_pending_err, ih]
      simp [List.dropWhile]
    · have hd : (top :: rest).dropWhile (· = skipPending) = top :: rest := by
        simp [List.dropWhile, h]
      rw [hd, if_neg (by simp), unwind_count K _ top rest r h, unwind_count K _ top rest r h]

end SkipIter
end Tars
