import TarsModel.Proofs.ClientConnAdmits

/-! Helper lemmas for C11: with `ReConnect` holding the lock from the test of the flag to the
installation of the new connection (and the idle close out of reach) the client only ever closes
connections the server has left. -/
namespace Tars.ClientConn

structure Inv2 (s : State) : Prop where
  conn : ∀ (k : Nat) (c : Conn), s.conns[k]? = some c →
    (c.known = true → c.alive = false) ∧ (c.reset = true → c.alive = false) ∧
    ((c.rpc = .atClosing ∨ c.rpc = .closing) → c.alive = false) ∧
    (((∃ m, c.spc = .failed m) ∨ c.spc = .failClosing) → c.alive = false) ∧
    c.spc ≠ .idleClosing
  noIdle : s.idleOK = false
  locked : s.unlockedDial = false

@[simp] theorem setCall_idleOK (s : State) (m pc) : (setCall s m pc).idleOK = s.idleOK := rfl
@[simp] theorem setCall_unlockedDial (s : State) (m pc) : (setCall s m pc).unlockedDial = s.unlockedDial := rfl
@[simp] theorem dropCall_idleOK (s : State) (id) : (dropCall s id).idleOK = s.idleOK := rfl
@[simp] theorem dropCall_unlockedDial (s : State) (id) : (dropCall s id).unlockedDial = s.unlockedDial := rfl

macro "inv2_case" h:ident : tactic => `(tactic|
  (simp only [step] at $h:ident
   repeat' (split at $h:ident)
   all_goals first
     | (cases $h:ident; done)
     | (cases $h:ident
        constructor
        all_goals simp only [setConn, closeConn, List.getElem?_set, List.length_set, isCur, afterDequeue,
          setCall_conns, dropCall_conns, setCall_idleOK, setCall_unlockedDial, dropCall_idleOK,
          dropCall_unlockedDial]
        all_goals grind [Inv2, isCur, afterDequeue])))


theorem inv2_callBegin {v cap s s' n} (hi : Inv2 s) (h : step v cap s (.callBegin n) = some s') : Inv2 s' := by
  cases v <;> inv2_case h

theorem inv2_callReconnect {v cap s s' n} (hi : Inv2 s) (h : step v cap s (.callReconnect n) = some s') : Inv2 s' := by
  cases v <;> inv2_case h

theorem inv2_callCheckClosed {v cap s s' n} (hi : Inv2 s) (h : step v cap s (.callCheckClosed n) = some s') : Inv2 s' := by
  cases v <;> inv2_case h

theorem inv2_callInstall {v cap s s' n} (hi : Inv2 s) (h : step v cap s (.callInstall n) = some s') : Inv2 s' := by
  cases v <;> inv2_case h

theorem inv2_markReconnected {v cap s s' n} (hi : Inv2 s) (h : step v cap s (.markReconnected n) = some s') : Inv2 s' := by
  cases v <;> inv2_case h

theorem inv2_callEnq {v cap s s' n} (hi : Inv2 s) (h : step v cap s (.callEnq n) = some s') : Inv2 s' := by
  cases v <;> inv2_case h

theorem inv2_callFail {v cap s s' n} (hi : Inv2 s) (h : step v cap s (.callFail n) = some s') : Inv2 s' := by
  cases v <;> inv2_case h

theorem inv2_callRet {v cap s s' n} (hi : Inv2 s) (h : step v cap s (.callRet n) = some s') : Inv2 s' := by
  cases v <;> inv2_case h

theorem inv2_pClose {v cap s s' n} (hi : Inv2 s) (h : step v cap s (.pClose n) = some s') : Inv2 s' := by
  cases v <;> inv2_case h

theorem inv2_pReset {v cap s s' n} (hi : Inv2 s) (h : step v cap s (.pReset n) = some s') : Inv2 s' := by
  cases v <;> inv2_case h

theorem inv2_rEof {v cap s s' n} (hi : Inv2 s) (h : step v cap s (.rEof n) = some s') : Inv2 s' := by
  cases v <;> inv2_case h

theorem inv2_rErr {v cap s s' n} (hi : Inv2 s) (h : step v cap s (.rErr n) = some s') : Inv2 s' := by
  cases v <;> inv2_case h

theorem inv2_rClose {v cap s s' n} (hi : Inv2 s) (h : step v cap s (.rClose n) = some s') : Inv2 s' := by
  cases v <;> inv2_case h

theorem inv2_rSignal {v cap s s' n} (hi : Inv2 s) (h : step v cap s (.rSignal n) = some s') : Inv2 s' := by
  cases v <;> inv2_case h

theorem inv2_sTopDone {v cap s s' n} (hi : Inv2 s) (h : step v cap s (.sTopDone n) = some s') : Inv2 s' := by
  cases v <;> inv2_case h

theorem inv2_sTopGo {v cap s s' n} (hi : Inv2 s) (h : step v cap s (.sTopGo n) = some s') : Inv2 s' := by
  cases v <;> inv2_case h

theorem inv2_sTakeFail {v cap s s' n} (hi : Inv2 s) (h : step v cap s (.sTakeFail n) = some s') : Inv2 s' := by
  cases v <;> inv2_case h

theorem inv2_sNoFail {v cap s s' n} (hi : Inv2 s) (h : step v cap s (.sNoFail n) = some s') : Inv2 s' := by
  cases v <;> inv2_case h

theorem inv2_sTakeQ {v cap s s' n} (hi : Inv2 s) (h : step v cap s (.sTakeQ n) = some s') : Inv2 s' := by
  cases v <;> inv2_case h

theorem inv2_sTickClosed {v cap s s' n} (hi : Inv2 s) (h : step v cap s (.sTickClosed n) = some s') : Inv2 s' := by
  cases v <;> inv2_case h

theorem inv2_sTickIdle {v cap s s' n} (hi : Inv2 s) (h : step v cap s (.sTickIdle n) = some s') : Inv2 s' := by
  cases v <;> inv2_case h

theorem inv2_sTickCont {v cap s s' n} (hi : Inv2 s) (h : step v cap s (.sTickCont n) = some s') : Inv2 s' := by
  cases v <;> inv2_case h

theorem inv2_sIdleClose {v cap s s' n} (hi : Inv2 s) (h : step v cap s (.sIdleClose n) = some s') : Inv2 s' := by
  cases v <;> inv2_case h

theorem inv2_sInnerFail {v cap s s' n} (hi : Inv2 s) (h : step v cap s (.sInnerFail n) = some s') : Inv2 s' := by
  cases v <;> inv2_case h

theorem inv2_sInnerDone {v cap s s' n} (hi : Inv2 s) (h : step v cap s (.sInnerDone n) = some s') : Inv2 s' := by
  cases v <;> inv2_case h

theorem inv2_sCheckOk {v cap s s' n} (hi : Inv2 s) (h : step v cap s (.sCheckOk n) = some s') : Inv2 s' := by
  cases v <;> inv2_case h

theorem inv2_sCheckLost {v cap s s' n} (hi : Inv2 s) (h : step v cap s (.sCheckLost n) = some s') : Inv2 s' := by
  cases v <;> inv2_case h

theorem inv2_sHandback {v cap s s' n} (hi : Inv2 s) (h : step v cap s (.sHandback n) = some s') : Inv2 s' := by
  cases v <;> inv2_case h

theorem inv2_sWriteOk {v cap s s' n} (hi : Inv2 s) (h : step v cap s (.sWriteOk n) = some s') : Inv2 s' := by
  cases v <;> inv2_case h

theorem inv2_sWriteLost {v cap s s' n} (hi : Inv2 s) (h : step v cap s (.sWriteLost n) = some s') : Inv2 s' := by
  cases v <;> inv2_case h

theorem inv2_sWriteFail {v cap s s' n} (hi : Inv2 s) (h : step v cap s (.sWriteFail n) = some s') : Inv2 s' := by
  cases v <;> inv2_case h

theorem inv2_sRequeue {v cap s s' n} (hi : Inv2 s) (h : step v cap s (.sRequeue n) = some s') : Inv2 s' := by
  cases v <;> inv2_case h

theorem inv2_sFailClose {v cap s s' n} (hi : Inv2 s) (h : step v cap s (.sFailClose n) = some s') : Inv2 s' := by
  cases v <;> inv2_case h

theorem inv2_obsAccept {v cap s s' n} (hi : Inv2 s) (h : step v cap s (.obsAccept n) = some s') : Inv2 s' := by
  cases v <;> inv2_case h

theorem inv2_mark {v cap s s' p k} (hi : Inv2 s) (h : step v cap s (.mark p k) = some s') : Inv2 s' := by
  cases v <;> inv2_case h

theorem inv2_obsRecv {v cap s s' k id} (hi : Inv2 s) (h : step v cap s (.obsRecv k id) = some s') : Inv2 s' := by
  cases v <;> inv2_case h

theorem inv2_step {v cap s s' a} (hi : Inv2 s) (h : step v cap s a = some s') : Inv2 s' := by
  cases a with
  | mark p k => exact inv2_mark hi h
  | obsRecv k id => exact inv2_obsRecv hi h
  | callBegin n => exact inv2_callBegin hi h
  | callReconnect n => exact inv2_callReconnect hi h
  | callCheckClosed n => exact inv2_callCheckClosed hi h
  | callInstall n => exact inv2_callInstall hi h
  | markReconnected n => exact inv2_markReconnected hi h
  | callEnq n => exact inv2_callEnq hi h
  | callFail n => exact inv2_callFail hi h
  | callRet n => exact inv2_callRet hi h
  | pClose n => exact inv2_pClose hi h
  | pReset n => exact inv2_pReset hi h
  | rEof n => exact inv2_rEof hi h
  | rErr n => exact inv2_rErr hi h
  | rClose n => exact inv2_rClose hi h
  | rSignal n => exact inv2_rSignal hi h
  | sTopDone n => exact inv2_sTopDone hi h
  | sTopGo n => exact inv2_sTopGo hi h
  | sTakeFail n => exact inv2_sTakeFail hi h
  | sNoFail n => exact inv2_sNoFail hi h
  | sTakeQ n => exact inv2_sTakeQ hi h
  | sTickClosed n => exact inv2_sTickClosed hi h
  | sTickIdle n => exact inv2_sTickIdle hi h
  | sTickCont n => exact inv2_sTickCont hi h
  | sIdleClose n => exact inv2_sIdleClose hi h
  | sInnerFail n => exact inv2_sInnerFail hi h
  | sInnerDone n => exact inv2_sInnerDone hi h
  | sCheckOk n => exact inv2_sCheckOk hi h
  | sCheckLost n => exact inv2_sCheckLost hi h
  | sHandback n => exact inv2_sHandback hi h
  | sWriteOk n => exact inv2_sWriteOk hi h
  | sWriteLost n => exact inv2_sWriteLost hi h
  | sWriteFail n => exact inv2_sWriteFail hi h
  | sRequeue n => exact inv2_sRequeue hi h
  | sFailClose n => exact inv2_sFailClose hi h
  | obsAccept n => exact inv2_obsAccept hi h

theorem inv2_initNoIdle : Inv2 initNoIdle := by
  constructor <;> simp [initNoIdle]

theorem inv2_runFrom {v cap} : ∀ (acts : List Action) (s s' : State), Inv2 s →
    runFrom v cap s acts = some s' → Inv2 s'
  | [], s, s', hi, h => by simp only [runFrom] at h; cases h; exact hi
  | a :: as, s, s', hi, h => by
    simp only [runFrom] at h
    split at h
    · cases h
    · rename_i s1 hs1
      exact inv2_runFrom as s1 s' (inv2_step hi hs1) h

end Tars.ClientConn
