import TarsModel.Proofs.ShortRead
import TarsModel.Model.Tup

/-!
  TUP attribute set (`Model/Tup.lean`), helper lemmas part 1: what one loop iteration of
  `UniAttribute.Decode` and the whole loop do on ANY input — the outcome is a value or a plain
  error, the position never moves backwards, every byte allocated is paid for by a byte of input
  that is left behind, and every key / value stored is a contiguous piece of the input.
-/
namespace Tars.Tup
open Tars Consts

/-- `s` occurs contiguously in the input of `r` -/
def Inside (s : Bytes) (r : Reader) : Prop :=
  ∃ i, i + s.length ≤ r.data.size ∧ s = takeFrom r.data i s.length

theorem Inside.nil (r : Reader) : Inside [] r := ⟨0, by simp, by simp [takeFrom]⟩

theorem Inside.of_le {s : Bytes} {r r' : Reader} (h : Inside s r) (hd : r'.data = r.data) : Inside s r' := by
  unfold Inside at *; rw [hd]; exact h

/-- contiguous occurrence, on lists: `s` is an infix of the input -/
theorem Inside.infix {s : Bytes} {r : Reader} (h : Inside s r) : s <:+: r.data.toList := by
  obtain ⟨i, _, hs⟩ := h
  rw [takeFrom_eq] at hs
  rw [hs]
  exact (List.take_prefix _ _).isInfix.trans (List.drop_suffix _ _).isInfix

/-! ### `readBytes` -/

theorem readBytes_le (len : Int) (r : Reader) : r.Le (readBytes len r).2 := by
  unfold readBytes
  cases hc : checkLength len r with
  | mk res0 r0 =>
    have := checkLength_snd len r
    rw [hc] at this
    simp only at this
    subst this
    cases res0 with
    | error e => exact Reader.Le.refl _
    | ok u => exact readFull_le _ _

/-- allocation of `ReadBytes` is paid for by the bytes it consumes -/
theorem readBytes_alloc (len : Int) (r : Reader) :
    bytesAlloc len r + (readBytes len r).2.remaining ≤ r.remaining := by
  unfold bytesAlloc
  cases hc : checkLength len r with
  | mk res0 r0 =>
    cases res0 with
    | error e =>
      have := (readBytes_le len r).remaining
      simpa using this
    | ok u =>
      obtain ⟨rfl, h0, h1⟩ := checkLength_ok_inv hc
      simp only
      cases hb : readBytes len r0 with
      | mk res r' =>
        cases res with
        | error e =>
          -- impossible after a successful check, but not needed: use the position
          unfold readBytes at hb
          rw [hc] at hb
          simp only at hb
          obtain ⟨_, _, hlt⟩ := readFull_err hb
          omega
        | ok bs =>
          obtain ⟨_, _, e1, e2, _⟩ := readBytes_exact hb
          simp only
          unfold Reader.remaining at *
          rw [e1, e2]; omega

theorem readBytes_inside {len : Int} {r r' : Reader} {bs : Bytes}
    (h : readBytes len r = (.ok bs, r')) : Inside bs r := by
  obtain ⟨h0, h1, _, _, h4⟩ := readBytes_exact h
  by_cases hz : 0 < len
  · obtain ⟨a, b⟩ := h4 hz
    refine ⟨r.pos, ?_, ?_⟩
    · have := (readBytes_exact h).2.2.2.1
      rw [h1]; omega
    · rw [h1]; exact b
  · have : bs = [] := List.eq_nil_of_length_eq_zero (by omega)
    subst this; exact Inside.nil r

theorem bytesAlloc_of_ok {len : Int} {r r' : Reader} {bs : Bytes}
    (h : readBytes len r = (.ok bs, r')) : bytesAlloc len r = bs.length := by
  obtain ⟨_, b1, _, _, _⟩ := readBytes_exact h
  unfold bytesAlloc
  unfold readBytes at h
  cases hc : checkLength len r with
  | mk res0 r0 =>
    rw [hc] at h
    cases res0 with
    | error e => simp at h
    | ok u => simp only; omega

/-- a successful required `ReadInt32` consumed a complete field inside the input -/
theorem readInt32_req_pos {old : Int} {tag : Nat} {r r' : Reader} {v : Int}
    (h : readInt32 old tag true r = (.ok v, r')) : r'.pos ≤ r'.data.size ∧ r'.data = r.data := by
  rw [readInt32_body] at h
  rcases readWith_int_exact h with ⟨_, _, _, hf⟩ | ⟨ty, r1, w, _, _, hb, rfl, _⟩
  · cases hf
  · exact ⟨hb, rfl⟩

/-! ### `readString` -/

/-- a key is either the empty old value or a contiguous piece of the input, and its bytes are
    paid for by consumed input -/
theorem readString_key {r r' : Reader} {s : Bytes} (h : readString [] 0 false r = (.ok s, r')) :
    Inside s r ∧ s.length + r'.remaining ≤ r.remaining ∧ r.Le r' := by
  have hle : r.Le r' := by
    have := (readString_spec [] 0 false r).1.1
    rw [h] at this; exact this
  rcases readString_exact h with ⟨ty, hs, rfl, _⟩ | ⟨ty, r1, w, l, hs, _, _, hb, rfl, hv, hl⟩
  · exact ⟨Inside.nil r, by have := hle.remaining; simpa using this, hle⟩
  · obtain ⟨p1, _, _⟩ := skipToNoCheck_pos hs
    refine ⟨⟨r1.pos + w, by omega, by rw [hl]; exact hv⟩, ?_, hle⟩
    unfold Reader.remaining
    have := p1.2
    simp only
    omega

/-! ### one iteration -/

/-- specification of one iteration on an arbitrary reader -/
theorem decodeEntry_spec (r : Reader) :
    r.Le (decodeEntry r).rd ∧ PlainRes (decodeEntry r).res ∧
    (decodeEntry r).alloc + (decodeEntry r).rd.remaining ≤ r.remaining ∧
    (∀ k v, (decodeEntry r).res = .ok (some (k, v)) → Inside k r ∧ Inside v r ∧ r.Lt (decodeEntry r).rd ∧
      k.length + v.length ≤ (decodeEntry r).alloc) := by
  unfold decodeEntry
  have hsp := (readString_spec [] 0 false r)
  cases h1 : readString [] 0 false r with
  | mk res1 r1 =>
    rw [h1] at hsp
    cases res1 with
    | error e =>
      simp only
      exact ⟨hsp.1.1, by simpa using hsp.2, by have := hsp.1.1.remaining; simpa using this, by simp⟩
    | ok k =>
      obtain ⟨kin, kal, kle⟩ := readString_key h1
      simp only
      have hnf := skipToNoCheck_nofuel 1 false r1
      cases h2 : skipToNoCheck 1 false r1 with
      | mk res2 r2 =>
        obtain ⟨p1, p2, _⟩ := skipToNoCheck_pos h2
        rw [h2] at hnf
        have rem2 := p1.remaining
        cases res2 with
        | error e =>
          simp only
          exact ⟨kle.trans p1, by simpa using hnf, by omega, by simp⟩
        | ok p =>
          obtain ⟨hv, ty⟩ := p
          cases hv with
          | false =>
            simp only
            exact ⟨kle.trans p1, by simp, by omega, by simp⟩
          | true =>
            have lt2 := p2 ty rfl
            simp only
            split
            · -- SimpleList
              cases h3 : skipTo tyBYTE 0 true r2 with
              | mk res3 r3 =>
                obtain ⟨q1, _, _, q4⟩ := skipTo_pos h3
                have rem3 := q1.remaining
                cases res3 with
                | error e =>
                  simp only
                  exact ⟨(kle.trans p1).trans q1, by simpa using q4, by omega, by simp⟩
                | ok hb =>
                  simp only
                  have isp := readInt32_spec 0 0 true r3
                  cases h4 : readInt32 0 0 true r3 with
                  | mk res4 r4 =>
                    rw [h4] at isp
                    have i1 : r3.Le r4 := isp.1.1
                    have rem4 := i1.remaining
                    cases res4 with
                    | error e =>
                      simp only
                      exact ⟨((kle.trans p1).trans q1).trans i1, by simpa using isp.2, by omega, by simp⟩
                    | ok byteLen =>
                      simp only
                      have bal := readBytes_alloc byteLen r4
                      have ble := readBytes_le byteLen r4
                      have bpl := readBytes_plain byteLen r4
                      cases h5 : readBytes byteLen r4 with
                      | mk res5 r5 =>
                        rw [h5] at bal ble bpl
                        simp only at bal ble bpl
                        have le5 : r.Le r5 := (((kle.trans p1).trans q1).trans i1).trans ble
                        cases res5 with
                        | error e =>
                          simp only
                          exact ⟨le5, by simpa using bpl, by omega, by simp⟩
                        | ok v =>
                          simp only
                          refine ⟨le5, by simp, by omega, ?_⟩
                          intro k' v' hkv
                          simp only [Except.ok.injEq, Option.some.injEq, Prod.mk.injEq] at hkv
                          obtain ⟨rfl, rfl⟩ := hkv
                          have d4 : r4.data = r.data := (((kle.trans p1).trans q1).trans i1).1
                          refine ⟨kin, (readBytes_inside h5).of_le d4.symm, ?_⟩
                          -- strictly forward: the tag-1 head was consumed
                          have hpos5 : r5.pos ≤ r5.data.size := by
                            obtain ⟨b0, _, b2, b3, b4⟩ := readBytes_exact h5
                            by_cases hz : 0 < byteLen
                            · rw [b2]; exact (b4 hz).1
                            · have : byteLen.toNat = 0 := by omega
                              have r4pos := (readInt32_req_pos h4).1
                              rw [b2, b3, this]; simpa using r4pos
                          have ba := bytesAlloc_of_ok h5
                          exact ⟨(kle.trans_lt lt2).trans_le ((q1.trans i1).trans ble) hpos5, by omega⟩
            · simp only
              exact ⟨kle.trans p1, by simp, by omega, by simp⟩

/-! ### `put` -/

theorem mem_put {m : TupMap} {k v : Bytes} {p : Bytes × Bytes} (h : p ∈ put m k v) :
    p = (k, v) ∨ p ∈ m := by
  unfold put at h
  rcases List.mem_cons.mp h with h | h
  · exact .inl h
  · exact .inr (List.mem_filter.mp h).1

/-- total size of the stored keys and values -/
def dataBytes : TupMap → Nat
  | [] => 0
  | (k, v) :: rest => k.length + v.length + dataBytes rest

theorem dataBytes_filter (m : TupMap) (f : Bytes × Bytes → Bool) :
    dataBytes (m.filter f) ≤ dataBytes m := by
  induction m with
  | nil => simp [dataBytes]
  | cons p rest ih =>
    obtain ⟨k, v⟩ := p
    simp only [List.filter_cons]
    split
    · simp only [dataBytes]; omega
    · simp only [dataBytes]; omega

theorem dataBytes_put (m : TupMap) (k v : Bytes) :
    dataBytes (put m k v) ≤ dataBytes m + k.length + v.length := by
  unfold put
  simp only [dataBytes]
  have := dataBytes_filter m (fun p => !(p.1 == k))
  omega

/-! ### the loop -/

/-- invariants of the loop, for any count, any starting map and any input -/
theorem decodeLoop_spec : ∀ (n : Nat) (m : TupMap) (it al : Nat) (r : Reader),
    let o := decodeLoop n m it al r
    r.Le o.rd ∧ (∀ e, o.err = some e → e.isPlain = true) ∧
    it ≤ o.iters ∧ o.iters ≤ it + n ∧
    al ≤ o.alloc ∧ (o.alloc - al) + o.rd.remaining ≤ r.remaining ∧
    (∀ p ∈ o.data, p ∈ m ∨ (Inside p.1 r ∧ Inside p.2 r)) ∧
    dataBytes o.data + al ≤ dataBytes m + o.alloc := by
  intro n
  induction n with
  | zero =>
    intro m it al r
    simp only [decodeLoop]
    exact ⟨Reader.Le.refl _, by simp, Nat.le_refl _, Nat.le_refl _, Nat.le_refl _, by omega,
      fun p hp => .inl hp, Nat.le_refl _⟩
  | succ n ih =>
    intro m it al r
    obtain ⟨e1, e2, e3, e4⟩ := decodeEntry_spec r
    simp only [decodeLoop]
    cases hd : decodeEntry r with
    | mk res a r' =>
      rw [hd] at e1 e2 e3 e4
      simp only at e1 e2 e3 e4
      cases res with
      | error e =>
        simp only
        refine ⟨e1, ?_, by omega, by omega, by omega, by omega, fun p hp => .inl hp, by omega⟩
        intro e' he'
        simp only [Option.some.injEq] at he'
        subst he'
        exact e2 _ rfl
      | ok x =>
        cases x with
        | none =>
          simp only
          obtain ⟨i1, i2, i3, i4, i5, i6, i7, i8⟩ := ih m (it + 1) (al + a) r'
          refine ⟨e1.trans i1, i2, by omega, by omega, by omega, by omega, ?_, by omega⟩
          intro p hp
          rcases i7 p hp with h | ⟨h1, h2⟩
          · exact .inl h
          · exact .inr ⟨h1.of_le e1.1.symm, h2.of_le e1.1.symm⟩
        | some kv =>
          obtain ⟨k, v⟩ := kv
          simp only
          obtain ⟨i1, i2, i3, i4, i5, i6, i7, i8⟩ := ih (put m k v) (it + 1) (al + a) r'
          obtain ⟨kin, vin, _, ea⟩ := e4 k v rfl
          have hp := dataBytes_put m k v
          refine ⟨e1.trans i1, i2, by omega, by omega, by omega, by omega, ?_, by omega⟩
          intro p hp
          rcases i7 p hp with h | ⟨h1, h2⟩
          · rcases mem_put h with rfl | h
            · exact .inr ⟨kin, vin⟩
            · exact .inl h
          · exact .inr ⟨h1.of_le e1.1.symm, h2.of_le e1.1.symm⟩

/-! ### the whole of `Decode` -/

/-- invariants of `Decode` (both variants), any starting map, any input -/
theorem decodeV_spec (chk : Bool) (m0 : TupMap) (r : Reader) :
    let o := decodeV chk m0 r
    r.Le o.rd ∧ (∀ e, o.err = some e → e.isPlain = true) ∧
    o.alloc + o.rd.remaining ≤ r.remaining ∧
    (∀ p ∈ o.data, p ∈ m0 ∨ (Inside p.1 r ∧ Inside p.2 r)) ∧
    dataBytes o.data ≤ dataBytes m0 + o.alloc ∧
    (chk = true → o.iters ≤ r.remaining) := by
  simp only
  unfold decodeV
  cases h1 : skipTo tyMAP 0 false r with
  | mk res1 r1 =>
    obtain ⟨q1, _, _, q4⟩ := skipTo_pos h1
    have rem1 := q1.remaining
    cases res1 with
    | error e =>
      simp only
      exact ⟨q1, by intro e' he'; simp only [Option.some.injEq] at he'; subst he'; simpa using q4,
        by omega, fun p hp => .inl hp, by omega, fun _ => by omega⟩
    | ok hv =>
      simp only
      have isp := readInt32_spec 0 0 true r1
      cases h2 : readInt32 0 0 true r1 with
      | mk res2 r2 =>
        rw [h2] at isp
        have i1 : r1.Le r2 := isp.1.1
        have rem2 := i1.remaining
        cases res2 with
        | error e =>
          simp only
          exact ⟨q1.trans i1, by intro e' he'; simp only [Option.some.injEq] at he'; subst he'; simpa using isp.2,
            by omega, fun p hp => .inl hp, by omega, fun _ => by omega⟩
        | ok length =>
          simp only
          have tr : ∀ {r3 : Reader}, r2.Le r3 → r3.data = r.data := fun h => h.1.trans (q1.trans i1).1
          cases chk with
          | false =>
            simp only [Bool.false_eq_true, if_false]
            obtain ⟨l1, l2, _, _, _, l6, l7, l8⟩ := decodeLoop_spec length.toNat m0 0 0 r2
            refine ⟨(q1.trans i1).trans l1, l2, by omega, ?_, by omega, by simp⟩
            intro p hp
            rcases l7 p hp with h | ⟨a, b⟩
            · exact .inl h
            · exact .inr ⟨a.of_le (q1.trans i1).1.symm, b.of_le (q1.trans i1).1.symm⟩
          | true =>
            simp only [if_true]
            cases h3 : checkLength length r2 with
            | mk res3 r3 =>
              cases res3 with
              | error e =>
                obtain ⟨rfl, rfl, _⟩ := checkLength_err h3
                simp only
                exact ⟨q1.trans i1, by simp, by omega, fun p hp => .inl hp, by omega, fun _ => by omega⟩
              | ok u =>
                obtain ⟨rfl, c0, c1⟩ := checkLength_ok_inv h3
                simp only
                obtain ⟨l1, l2, _, l4, _, l6, l7, l8⟩ := decodeLoop_spec length.toNat m0 0 0 r3
                refine ⟨(q1.trans i1).trans l1, l2, by omega, ?_, by omega, fun _ => by omega⟩
                intro p hp
                rcases l7 p hp with h | ⟨a, b⟩
                · exact .inl h
                · exact .inr ⟨a.of_le (q1.trans i1).1.symm, b.of_le (q1.trans i1).1.symm⟩

end Tars.Tup
