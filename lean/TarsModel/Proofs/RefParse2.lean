import TarsModel.Proofs.RefParse

/-!
# Reference decoder, stage 1b: containers, nested structs, the top-level field sequence
-/
namespace Tars
open Consts
namespace Ref

/-- parse statement for one present member/element -/
def PR (env : Env) (v : Val) : Prop :=
  ∀ (total fuel tag : Nat) (req : Bool) (ty : Ty) (dflt : Option Val) (t : Bytes),
    tag < 256 → WT env ty v → encVar env tag req ty dflt v ≠ [] →
    (encVar env tag req ty dflt v).length + 1 ≤ fuel →
    (encVar env tag req ty dflt v).length ≤ total →
    parseField total fuel (encVar env tag req ty dflt v ++ t) = some (tlvVar env tag ty v, t)

theorem pr_scalar (env : Env) (v : Val) (hsc : ∀ ty, WT env ty v → ScalarOK ty v)
    (htv : ∀ tag ty, tlvVar env tag ty v = tlvScalar ty v tag) : PR env v := by
  intro total fuel tag req ty dflt t htag hwt hne hfuel htot
  have hv := hsc ty hwt
  obtain ⟨f, rfl⟩ : ∃ f, fuel = f + 1 := ⟨fuel - 1, by omega⟩
  rw [encVar_scalarVal env tag req ty dflt v hv] at hne htot ⊢
  have henc : (if ty = .enum then writeScalar ty v tag
      else if (!req && !scalarNeDefault ty dflt v) = true then [] else writeScalar ty v tag)
      = writeScalar ty v tag := by
    split
    · rfl
    · split
      · rename_i h1 h2; simp [h1, h2] at hne
      · rfl
  rw [henc] at htot ⊢
  rw [htv]
  exact parse_scalar total f tag ty v t htag hv htot

/-! ## unfolding the loops -/

theorem parseElems_zero (total fuel : Nat) (p : Bytes) :
    parseElems total (fuel+1) 0 p = some ([], p) := by
  conv => lhs; unfold parseElems

theorem parseElems_succ (total fuel n : Nat) (p : Bytes) :
    parseElems total (fuel+1) (n+1) p =
      match parseField total fuel p with
      | none => none
      | some (e, q) =>
        if e.tag ≠ 0 then none
        else
          match parseElems total fuel n q with
          | none => none
          | some (es, q2) => some (e :: es, q2) := by
  conv => lhs; unfold parseElems
  rfl

theorem parsePairs_zero (total fuel : Nat) (p : Bytes) :
    parsePairs total (fuel+1) 0 p = some ([], p) := by
  conv => lhs; unfold parsePairs

theorem parsePairs_succ (total fuel n : Nat) (p : Bytes) :
    parsePairs total (fuel+1) (n+1) p =
      match parseField total fuel p with
      | none => none
      | some (k, q) =>
        match parseField total fuel q with
        | none => none
        | some (v, q2) =>
          if k.tag ≠ 0 ∨ v.tag ≠ 1 then none
          else
            match parsePairs total fuel n q2 with
            | none => none
            | some (es, q3) => some (k :: v :: es, q3) := by
  conv => lhs; unfold parsePairs
  rfl

theorem parseMembers_end (total fuel : Nat) (t : Bytes) :
    parseMembers total (fuel+1) (writeHead tyStructEnd 0 ++ t) = some ([], t) := by
  conv => lhs; unfold parseMembers
  have : writeHead tyStructEnd 0 ++ t = byte 11 :: t := rfl
  rw [this]
  simp +decide [parseHead]

theorem parseMembers_step (total fuel : Nat) (p : Bytes) (b : Byte) (rest : Bytes)
    (hp : p = b :: rest) (hb : b.val % 16 ≠ 11) :
    parseMembers total (fuel+1) p =
      match parseField total fuel p with
      | none => none
      | some (m, q) =>
        match parseMembers total fuel q with
        | none => none
        | some (ms, q2) => some (m :: ms, q2) := by
  subst hp
  conv => lhs; unfold parseMembers
  simp only [hb, if_false]
  rfl

theorem parseTop_nil (total fuel : Nat) : parseTop total (fuel+1) [] = some [] := by
  conv => lhs; unfold parseTop

theorem parseTop_step (total fuel : Nat) (p : Bytes) (hp : p ≠ []) :
    parseTop total (fuel+1) p =
      match parseField total fuel p with
      | none => none
      | some (f, q) =>
        match parseTop total fuel q with
        | none => none
        | some (fs) => some (f :: fs) := by
  obtain ⟨b, rest, rfl⟩ := List.exists_cons_of_ne_nil hp
  conv => lhs; unfold parseTop
  rfl

/-! ## tags of trees -/

theorem intTlv_tag (tag : Nat) (i : Int) : (intTlv tag i).tag = tag := rfl

theorem tlvScalar_tag (ty : Ty) (v : Val) (tag : Nat) (h : ScalarOK ty v) :
    (tlvScalar ty v tag).tag = tag := by
  cases ty <;> cases v <;> simp only [ScalarOK] at h <;> rfl

theorem tlvVar_tag (env : Env) (tag : Nat) (ty : Ty) (v : Val) (h : WT env ty v) :
    (tlvVar env tag ty v).tag = tag := by
  cases v with
  | list vs =>
    cases ty <;> simp only [WT] at h
    all_goals (simp only [tlvVar]; split <;> rfl)
  | map kvs =>
    cases ty <;> simp only [WT] at h
    simp only [tlvVar]; rfl
  | struct vs =>
    cases ty <;> simp only [WT] at h
    rename_i name
    cases hfs : env.find name with
    | none => simp [hfs] at h
    | some fs => simp only [tlvVar, hfs]; rfl
  | bool b => simp only [tlvVar]; exact tlvScalar_tag _ _ _ (by simpa only [WT] using h)
  | int b => simp only [tlvVar]; exact tlvScalar_tag _ _ _ (by simpa only [WT] using h)
  | f32 b => simp only [tlvVar]; exact tlvScalar_tag _ _ _ (by simpa only [WT] using h)
  | f64 b => simp only [tlvVar]; exact tlvScalar_tag _ _ _ (by simpa only [WT] using h)
  | str b => simp only [tlvVar]; exact tlvScalar_tag _ _ _ (by simpa only [WT] using h)

/-! ## loops over encodings -/

theorem parseElems_enc (env : Env) (e : Ty) : ∀ (vs : List Val), (∀ v ∈ vs, PR env v) →
    WTs env e vs → ∀ (total fuel : Nat) (t : Bytes),
      (encElems env e vs).length + 2 ≤ fuel → (encElems env e vs).length ≤ total →
      parseElems total fuel vs.length (encElems env e vs ++ t) = some (tlvElems env e vs, t)
  | [], _, _, total, fuel, t, hf, _ => by
    obtain ⟨f, rfl⟩ : ∃ f, fuel = f + 1 := ⟨fuel - 1, by omega⟩
    simp [parseElems_zero, encElems, tlvElems]
  | v :: vs, ih, hwt, total, fuel, t, hf, htot => by
    obtain ⟨f, rfl⟩ : ∃ f, fuel = f + 1 := ⟨fuel - 1, by omega⟩
    simp only [WTs] at hwt
    have hpos := encVar_req_pos env 0 e none v hwt.1
    simp only [encElems, List.length_append] at hf htot
    simp only [encElems, List.append_assoc, List.length_cons, parseElems_succ, tlvElems]
    rw [ih v (by simp) total f 0 true e none _ (by decide) hwt.1
      (encVar_req_ne env 0 e none v hwt.1) (by omega) (by omega)]
    simp only [tlvVar_tag env 0 e v hwt.1, ne_eq, not_true_eq_false, if_false]
    rw [parseElems_enc env e vs (fun w hw => ih w (by simp [hw])) hwt.2 total f t (by omega)
      (by omega)]

theorem parsePairs_enc (env : Env) (k v : Ty) : ∀ (kvs : List (Val × Val)),
    (∀ p ∈ kvs, PR env p.1 ∧ PR env p.2) → WTp env k v kvs → ∀ (total fuel : Nat) (t : Bytes),
      (encPairs env k v kvs).length + 2 ≤ fuel → (encPairs env k v kvs).length ≤ total →
      parsePairs total fuel kvs.length (encPairs env k v kvs ++ t) = some (tlvPairs env k v kvs, t)
  | [], _, _, total, fuel, t, hf, _ => by
    obtain ⟨f, rfl⟩ : ∃ f, fuel = f + 1 := ⟨fuel - 1, by omega⟩
    simp [parsePairs_zero, encPairs, tlvPairs]
  | (a, b) :: kvs, ih, hwt, total, fuel, t, hf, htot => by
    obtain ⟨f, rfl⟩ : ∃ f, fuel = f + 1 := ⟨fuel - 1, by omega⟩
    simp only [WTp] at hwt
    have hpa := encVar_req_pos env 0 k none a hwt.1
    have hpb := encVar_req_pos env 1 v none b hwt.2.1
    simp only [encPairs, List.length_append] at hf htot
    simp only [encPairs, List.append_assoc, List.length_cons, parsePairs_succ, tlvPairs]
    have iha : PR env a := (ih (a, b) (by simp)).1
    have ihb : PR env b := (ih (a, b) (by simp)).2
    rw [iha total f 0 true k none _ (by decide) hwt.1
      (encVar_req_ne env 0 k none a hwt.1) (by omega) (by omega)]
    simp only
    rw [ihb total f 1 true v none _ (by decide) hwt.2.1
      (encVar_req_ne env 1 v none b hwt.2.1) (by omega) (by omega)]
    simp only [tlvVar_tag env 0 k a hwt.1, tlvVar_tag env 1 v b hwt.2.1, ne_eq, not_true_eq_false,
      or_self, if_false]
    rw [parsePairs_enc env k v kvs (fun p hp => ih p (by simp [hp])) hwt.2.2 total f t (by omega)
      (by omega)]

/-- a present member's encoding starts with a byte whose low nibble is not StructEnd -/
theorem encVar_first (env : Env) (tag : Nat) (req : Bool) (ty : Ty) (dflt : Option Val) (v : Val)
    (hne : encVar env tag req ty dflt v ≠ []) :
    ∃ b rest, encVar env tag req ty dflt v = b :: rest ∧ b.val % 16 ≠ 11 := by
  rcases encVar_headAt env tag req ty dflt v with h0 | ⟨hty, rest, h1, h2, heq⟩
  · exact absurd h0 hne
  · obtain ⟨b, r', hb, hbv⟩ := writeHead_first hty tag h1
    refine ⟨b, r' ++ rest, by rw [heq, hb]; rfl, ?_⟩
    rw [hbv]; exact h2

theorem parseMembers_enc (env : Env) : ∀ (vs : List Val), (∀ v ∈ vs, PR env v) →
    ∀ (fs : List Field), WTm env fs vs → (∀ f ∈ fs, f.tag ≤ 255) →
    ∀ (total fuel : Nat) (t : Bytes),
      (encMembers env fs vs).length + 2 ≤ fuel → (encMembers env fs vs).length ≤ total →
      parseMembers total fuel (encMembers env fs vs ++ (writeHead tyStructEnd 0 ++ t))
        = some (tlvMembers env fs vs, t)
  | [], _, fs, hwt, _, total, fuel, t, hf, _ => by
    obtain ⟨f, rfl⟩ : ∃ f, fuel = f + 1 := ⟨fuel - 1, by omega⟩
    cases fs with
    | nil => simp [encMembers, tlvMembers, parseMembers_end]
    | cons g gs => simp [WTm] at hwt
  | v :: vs, ih, fs, hwt, htags, total, fuel, t, hf, htot => by
    cases fs with
    | nil => simp [WTm] at hwt
    | cons g gs =>
      simp only [WTm] at hwt
      simp only [encMembers, List.length_append] at hf htot
      simp only [encMembers, tlvMembers, List.append_assoc]
      by_cases h0 : encVar env g.tag g.req g.ty g.dflt v = []
      · rw [if_pos h0]
        rw [h0] at hf htot ⊢
        simp only [List.length_nil, Nat.zero_add, List.nil_append] at hf htot ⊢
        exact parseMembers_enc env vs (fun w hw => ih w (by simp [hw])) gs hwt.2
          (fun f' hf' => htags f' (by simp [hf'])) total fuel t hf htot
      · rw [if_neg h0]
        obtain ⟨f, rfl⟩ : ∃ f, fuel = f + 1 := ⟨fuel - 1, by omega⟩
        have hpos : 0 < (encVar env g.tag g.req g.ty g.dflt v).length := List.length_pos_iff.mpr h0
        obtain ⟨b, rest, hb, hbv⟩ := encVar_first env g.tag g.req g.ty g.dflt v h0
        rw [parseMembers_step total f _ b (rest ++ (encMembers env gs vs ++ (writeHead tyStructEnd 0 ++ t)))
          (by rw [hb]; rfl) hbv]
        rw [ih v (by simp) total f g.tag g.req g.ty g.dflt _ (by have := htags g (by simp); omega)
          hwt.1 h0 (by omega) (by omega)]
        simp only
        rw [parseMembers_enc env vs (fun w hw => ih w (by simp [hw])) gs hwt.2
          (fun f' hf' => htags f' (by simp [hf'])) total f t (by omega) (by omega)]

theorem parseTop_enc (env : Env) : ∀ (vs : List Val), (∀ v ∈ vs, PR env v) →
    ∀ (fs : List Field), WTm env fs vs → (∀ f ∈ fs, f.tag ≤ 255) →
    ∀ (total fuel : Nat),
      (encMembers env fs vs).length + 2 ≤ fuel → (encMembers env fs vs).length ≤ total →
      parseTop total fuel (encMembers env fs vs) = some (tlvMembers env fs vs)
  | [], _, fs, hwt, _, total, fuel, hf, _ => by
    obtain ⟨f, rfl⟩ : ∃ f, fuel = f + 1 := ⟨fuel - 1, by omega⟩
    cases fs with
    | nil => simp [encMembers, tlvMembers, parseTop_nil]
    | cons g gs => simp [WTm] at hwt
  | v :: vs, ih, fs, hwt, htags, total, fuel, hf, htot => by
    cases fs with
    | nil => simp [WTm] at hwt
    | cons g gs =>
      simp only [WTm] at hwt
      simp only [encMembers, List.length_append] at hf htot
      simp only [encMembers, tlvMembers]
      by_cases h0 : encVar env g.tag g.req g.ty g.dflt v = []
      · rw [if_pos h0]
        rw [h0] at hf htot ⊢
        simp only [List.length_nil, Nat.zero_add, List.nil_append] at hf htot ⊢
        exact parseTop_enc env vs (fun w hw => ih w (by simp [hw])) gs hwt.2
          (fun f' hf' => htags f' (by simp [hf'])) total fuel hf htot
      · rw [if_neg h0]
        obtain ⟨f, rfl⟩ : ∃ f, fuel = f + 1 := ⟨fuel - 1, by omega⟩
        have hpos : 0 < (encVar env g.tag g.req g.ty g.dflt v).length := List.length_pos_iff.mpr h0
        rw [parseTop_step total f _ (by intro h; simp [h0] at h)]
        rw [ih v (by simp) total f g.tag g.req g.ty g.dflt _ (by have := htags g (by simp); omega)
          hwt.1 h0 (by omega) (by omega)]
        simp only
        rw [parseTop_enc env vs (fun w hw => ih w (by simp [hw])) gs hwt.2
          (fun f' hf' => htags f' (by simp [hf'])) total f (by omega) (by omega)]

end Ref
end Tars
