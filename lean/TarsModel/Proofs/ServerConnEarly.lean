import TarsModel.Proofs.AppShutdown

/-!
Helper lemmas for C12, part 9: the states `writePending` / `doneLate` belong to the early-decrement
variant only (`cfg.decEarly = true`); otherwise they are unreachable, and the safety clause
`safeEnd` is `done true`.
-/
namespace Tars.ServerConn

/-! ### unless the decrement is early, no request is ever in a state of the early-decrement variant -/

def NoEarly (k : Conn) : Prop := ∀ q ∈ k.reqs, q.st.early = false
def NoEarlyF (f : Conn → Option Conn) : Prop := ∀ k k', f k = some k' → NoEarly k → NoEarly k'

theorem nef_of_reqs_eq {f : Conn → Option Conn} (h : ∀ k k', f k = some k' → k'.reqs = k.reqs) : NoEarlyF f := by
  intro k k' hf hn q hq
  rw [h k k' hf] at hq
  exact hn q hq

theorem nef_cSetSt (i : Nat) (frm : HSt) (to : Conn → HSt) (hto : ∀ k, (to k).early = false) :
    NoEarlyF (fun k => cSetSt i frm (to k) k) := by
  intro k k' h hn q hq
  simp only [cSetSt] at h
  split at h <;> try contradiction
  split at h <;> try contradiction
  simp only [Option.some.injEq] at h; subst h
  rcases List.mem_or_eq_of_mem_set hq with hq | hq
  · exact hn q hq
  · subst hq; exact hto k

theorem nef_cSend (nr : Bool) (r : Rid) : NoEarlyF (cSend nr r) := nef_of_reqs_eq (by
  intro k k' h; unfold cSend at h; split at h <;> try contradiction
  simp only [Option.some.injEq] at h; subst h; rfl)
theorem nef_cAccept : NoEarlyF cAccept := nef_of_reqs_eq (by
  intro k k' h; unfold cAccept at h; split at h <;> try contradiction
  simp only [Option.some.injEq] at h; subst h; rfl)
theorem nef_cRegister : NoEarlyF cRegister := nef_of_reqs_eq (by
  intro k k' h; unfold cRegister at h; split at h <;> try contradiction
  simp only [Option.some.injEq] at h; subst h; rfl)
theorem nef_cStamp : NoEarlyF cStamp := nef_of_reqs_eq (by
  intro k k' h; unfold cStamp at h; split at h <;> try contradiction
  simp only [Option.some.injEq] at h; subst h; rfl)
theorem nef_cRead (n : Nat) : NoEarlyF (cRead n) := nef_of_reqs_eq (by
  intro k k' h; unfold cRead at h; split at h <;> try contradiction
  split at h <;> try contradiction
  simp only [Option.some.injEq] at h; subst h; rfl)
theorem nef_cReadErr (p b f : Bool) : NoEarlyF (cReadErr p b f) := nef_of_reqs_eq (by
  intro k k' h; unfold cReadErr at h; split at h <;> try contradiction
  split at h <;> (simp only [Option.some.injEq] at h; subst h; rfl))
theorem nef_cDrainTick : NoEarlyF cDrainTick := nef_of_reqs_eq (by
  intro k k' h; unfold cDrainTick at h; split at h <;> try contradiction
  simp only [Option.some.injEq] at h; subst h; rfl)
theorem nef_cAge : NoEarlyF cAge := nef_of_reqs_eq (by
  intro k k' h; unfold cAge at h; simp only [Option.some.injEq] at h; subst h; rfl)
theorem nef_cDrainClose : NoEarlyF cDrainClose := nef_of_reqs_eq (by
  intro k k' h; unfold cDrainClose at h; split at h <;> try contradiction
  split at h <;> try contradiction
  simp only [Option.some.injEq] at h; subst h; rfl)
theorem nef_cRecvRsp (i : Nat) : NoEarlyF (cRecvRsp i) := nef_of_reqs_eq (by
  intro k k' h; unfold cRecvRsp at h; split at h <;> try contradiction
  split at h <;> try contradiction
  simp only [Option.some.injEq] at h; subst h; rfl)
theorem nef_cRecvMsg : NoEarlyF cRecvMsg := nef_of_reqs_eq (by
  intro k k' h; unfold cRecvMsg at h; split at h <;> try contradiction
  simp only [Option.some.injEq] at h; subst h; rfl)
theorem nef_cRecvEof : NoEarlyF cRecvEof := nef_of_reqs_eq (by
  intro k k' h; unfold cRecvEof at h; split at h <;> try contradiction
  simp only [Option.some.injEq] at h; subst h; rfl)
theorem nef_cEnqueued' : NoEarlyF cEnqueued' := nef_of_reqs_eq (by
  intro k k' h; unfold cEnqueued' cEnqueued at h; split at h <;> simp at h
  subst h; rfl)
theorem nef_cDispatch (p : Bool) : NoEarlyF (cDispatch p) := by
  intro k k' h hn q hq
  unfold cDispatch at h; split at h <;> try contradiction
  simp only [Option.some.injEq] at h; subst h
  simp at hq
  rcases hq with hq | hq
  · exact hn q hq
  · subst hq; simp [HSt.early]
theorem nef_cStart (i : Nat) : NoEarlyF (cStart i) := nef_cSetSt i .queued (fun _ => .running) (fun _ => rfl)
theorem nef_cHand (i : Nat) : NoEarlyF (cHand i) := nef_cSetSt i .queued (fun _ => .handed) (fun _ => rfl)
theorem nef_cStartP (i : Nat) : NoEarlyF (cStartP i) := nef_cSetSt i .handed (fun _ => .running) (fun _ => rfl)
theorem nef_cFin (i : Nat) : NoEarlyF (cFin i) := nef_cSetSt i .running (fun _ => .finished) (fun _ => rfl)
theorem nef_of_imp {f g : Conn → Option Conn} (h : ∀ k k', f k = some k' → g k = some k')
    (hg : NoEarlyF g) : NoEarlyF f := fun k k' hf => hg k k' (h k k' hf)
theorem nef_cWrite (i : Nat) : NoEarlyF (cWrite i) :=
  nef_of_imp (cWrite_imp i) (nef_cSetSt i .finished (fun k => .wrote (!k.srvClosed)) (fun _ => rfl))
theorem nef_cSkip (d : Bool) (i : Nat) : NoEarlyF (cSkip d i) :=
  nef_of_imp (cSkip_imp d i) (nef_cSetSt i .finished (fun _ => if d then .wrote true else .leaked)
    (by intro _; cases d <;> rfl))
theorem nef_cDec (i : Nat) : NoEarlyF (cDec i) := by
  intro k k' h hn q hq
  unfold cDec at h
  split at h <;> try contradiction
  split at h <;> try contradiction
  simp only [Option.some.injEq] at h; subst h
  rcases List.mem_or_eq_of_mem_set hq with hq | hq
  · exact hn q hq
  · subst hq; simp [HSt.early]

/-- the late write needs a request in the state `writePending`: never enabled here -/
theorem nef_cLateWrite (i : Nat) : NoEarlyF (cLateWrite i) := by
  intro k k' h hn
  unfold cLateWrite at h
  split at h <;> try contradiction
  rename_i q0 hq0
  split at h <;> try contradiction
  rename_i hst
  have := hn q0 (mem_of_getElem? hq0)
  rw [hst] at this
  simp [HSt.early] at this

def NoEarlyAll (s : State) : Prop := ∀ (c : Nat) (k : Conn), s.conns[c]? = some k → NoEarly k

theorem noearly_updConn {s s' : State} {c : Cid} {f : Conn → Option Conn} (hf : NoEarlyF f)
    (hn : NoEarlyAll s) (h : updConn s c f = some s') : NoEarlyAll s' := by
  obtain ⟨k, k', hk, hfk, rfl⟩ := updConn_some h
  intro c' x hx
  rcases getElem?_set_cases hk hx with ⟨_, rfl⟩ | ⟨_, hx'⟩
  · exact hf k x hfk (hn c k hk)
  · exact hn c' x hx'

theorem noearly_set_close {s : State} {c : Cid} {k : Conn} (hn : NoEarlyAll s) (hk : s.conns[c]? = some k) :
    ∀ (c' : Nat) (x : Conn), (s.conns.set c (cCloseByIdles k))[c']? = some x → NoEarly x := by
  intro c' x hx
  rcases getElem?_set_cases hk hx with ⟨_, rfl⟩ | ⟨_, hx'⟩
  · exact hn c k hk
  · exact hn c' x hx'

theorem noearly_notifyAll {s : State} (hn : NoEarlyAll s) : NoEarlyAll (notifyAll s) := by
  intro c x hx
  obtain ⟨k, hk, rfl⟩ := map_notify_get hx
  intro q hq
  rw [(cNotify_keeps k).1] at hq
  exact hn c k hk q hq

/-- with the deferred decrement no action leaves a handler past its decrement -/
theorem noearly_step {cfg : Cfg} (he : cfg.decEarly = false) {s s' : State} (a : Action)
    (hn : NoEarlyAll s) (h : step cfg s a = some s') : NoEarlyAll s' := by
  cases a with
  | connect =>
    simp only [step, Option.some.injEq] at h; subst h
    intro c x hx
    by_cases hlt : c < s.conns.length
    · rw [List.getElem?_append_left hlt] at hx; exact hn c x hx
    · rw [List.getElem?_append_right (Nat.le_of_not_lt hlt)] at hx
      cases hcl : c - s.conns.length with
      | zero => rw [hcl] at hx; simp at hx; subst hx; intro q hq; simp [Conn.new] at hq
      | succ n => rw [hcl] at hx; simp at hx
  | send c r => exact noearly_updConn (nef_cSend false r) hn h
  | sendNR c r => exact noearly_updConn (nef_cSend true r) hn h
  | accept c =>
    simp only [step] at h
    split at h
    · exact noearly_updConn nef_cAccept hn h
    · contradiction
  | register c => exact noearly_updConn nef_cRegister hn h
  | stamp c => exact noearly_updConn nef_cStamp hn h
  | read c n => exact noearly_updConn (nef_cRead n) hn h
  | readErr c f => exact noearly_updConn (nef_cReadErr _ _ f) hn h
  | age c => exact noearly_updConn nef_cAge hn h
  | dispatch c => exact noearly_updConn (nef_cDispatch _) hn h
  | enqueue c =>
    simp only [step] at h
    split at h <;> try contradiction
    rename_i n q k hp hk
    split at h <;> try contradiction
    rename_i k' i hce
    have hce' : cEnqueued' k = some k' := by simp [cEnqueued', hce]
    have hk' := nef_cEnqueued' k k' hce' (hn c k hk)
    have hset : ∀ (c' : Nat) (x : Conn), (s.conns.set c k')[c']? = some x → NoEarly x := by
      intro c' x hx
      rcases getElem?_set_cases hk hx with ⟨_, rfl⟩ | ⟨_, hx'⟩
      · exact hk'
      · exact hn c' x hx'
    split at h
    · simp only [Option.some.injEq] at h; subst h; exact hset
    · split at h <;> try contradiction
      simp only [Option.some.injEq] at h; subst h; exact hset
  | pTake =>
    simp only [step] at h
    split at h <;> try contradiction
    split at h <;> try contradiction
    simp only [Option.some.injEq] at h; subst h; exact hn
  | pGive =>
    simp only [step] at h
    split at h <;> try contradiction
    rename_i n q c i hp hh
    split at h <;> try contradiction
    cases hu : updConn s c (cHand i) with
    | none => rw [hu] at h; contradiction
    | some s1 =>
      rw [hu] at h
      simp only [Option.map_some, Option.some.injEq] at h; subst h
      have := noearly_updConn (nef_cHand i) hn hu
      exact this
  | start c i =>
    simp only [step] at h
    split at h
    · exact noearly_updConn (nef_cStartP i) hn h
    · exact noearly_updConn (nef_cStart i) hn h
  | fin c i =>
    simp only [step] at h
    split at h
    · contradiction
    · exact noearly_updConn (nef_cFin i) hn h
  | finEarly c i => simp [step, he] at h
  | lateWrite c i => exact noearly_updConn (nef_cLateWrite i) hn h
  | write c i => exact noearly_updConn (nef_cWrite i) hn h
  | skip c i => exact noearly_updConn (nef_cSkip _ i) hn h
  | dec c i => exact noearly_updConn (nef_cDec i) hn h
  | drainTick c =>
    simp only [step] at h
    split at h <;> try contradiction
    split at h <;> try contradiction
    exact noearly_updConn nef_cDrainTick hn h
  | drainClose c => exact noearly_updConn nef_cDrainClose hn h
  | shutdownCall =>
    simp only [step] at h
    split at h <;> try contradiction
    simp only [Option.some.injEq] at h; subst h; exact hn
  | setClosed =>
    simp only [step] at h
    split at h <;> try contradiction
    simp only [Option.some.injEq] at h; subst h; exact hn
  | acceptExit =>
    simp only [step] at h
    split at h <;> try contradiction
    simp only [Option.some.injEq] at h; subst h; exact hn
  | relCall =>
    simp only [step] at h
    split at h <;> try contradiction
    simp only [Option.some.injEq] at h; subst h; exact hn
  | pStop =>
    simp only [step] at h
    split at h <;> try contradiction
    simp only [Option.some.injEq] at h; subst h; exact hn
  | relRet =>
    simp only [step] at h
    split at h <;> try contradiction
    simp only [Option.some.injEq] at h; subst h; exact hn
  | closeMsg =>
    simp only [step] at h
    split at h <;> try contradiction
    split at h <;> try contradiction
    simp only [Option.some.injEq] at h; subst h; exact noearly_notifyAll hn
  | onShutdownRet =>
    simp only [step] at h
    split at h <;> try contradiction
    simp only [Option.some.injEq] at h; subst h; exact hn
  | ciBegin =>
    simp only [step] at h
    split at h <;> try contradiction
    simp only [Option.some.injEq] at h; subst h
    by_cases hl : s.listenClosed = 1
    · simp only [hl, if_true]; exact noearly_notifyAll hn
    · simp only [hl, if_false]; exact hn
  | ciVisit c =>
    simp only [step] at h
    split at h <;> try contradiction
    split at h <;> try contradiction
    split at h <;> try contradiction
    rename_i k hk
    split at h
    · simp only [Option.some.injEq] at h; subst h; exact hn
    · split at h
      · simp only [Option.some.injEq] at h; subst h; exact hn
      · split at h
        · simp only [Option.some.injEq] at h; subst h; exact hn
        · simp only [Option.some.injEq] at h; subst h; exact noearly_set_close hn hk
        · simp only [Option.some.injEq] at h; subst h; exact hn
  | ciClose =>
    simp only [step] at h
    split at h <;> try contradiction
    split at h <;> try contradiction
    split at h <;> try contradiction
    rename_i k hk
    simp only [Option.some.injEq] at h; subst h
    exact noearly_set_close hn hk
  | ciEnd =>
    simp only [step] at h
    split at h <;> try contradiction
    split at h <;> try contradiction
    simp only [Option.some.injEq] at h; subst h; exact hn
  | ctxExpire =>
    simp only [step] at h
    split at h <;> try contradiction
    simp only [Option.some.injEq] at h; subst h; exact hn
  | recvRsp c i => exact noearly_updConn (nef_cRecvRsp i) hn h
  | recvMsg c => exact noearly_updConn nef_cRecvMsg hn h
  | recvEof c => exact noearly_updConn nef_cRecvEof hn h

theorem noearly_reachable {cfg : Cfg} (he : cfg.decEarly = false) {s : State} (hr : Reachable cfg s) :
    NoEarlyAll s := by
  induction hr with
  | init => intro c k hk; simp [init] at hk
  | step a _ hs ih => exact noearly_step he a ih hs

theorem never_early (cfg : Cfg) (he : cfg.decEarly = false) {s : State} (hr : Reachable cfg s)
    (c : Nat) (k : Conn) (hk : s.conns[c]? = some k) (q : Req) (hq : q ∈ k.reqs) (hst : q.st.early = true) :
    False :=
  by have := noearly_reachable he hr c k hk q hq; rw [hst] at this; contradiction



end Tars.ServerConn
